#!/usr/bin/env python3
"""Translator: pure functions of the crate (Rust) -> Lean 4 definitions over the model's data types.

Run on every check (tools/extract_tables.py calls it). For each function on the list below the body found in /repo's
*current* source is parsed (tools/rsparse.py) and re-expressed, construct by construct, as a Lean term; the result is
written to lean/JL/Generated/Fns.lean. The tie theorems in lean/JL/Tie/*.lean then state, for every input,

        Gen.<function> = <the hand-written model's function>

so a changed body that still *means* the same re-proves, and one that means something else does not (the check then
searches for an input on which code and model differ). What the translation itself takes on trust is small and explicit:

  * the meaning of the standard-library / serde_json calls that occur (JL/Rs.lean, hand-written, one definition per call);
  * `Result<_, Error>` is rendered as `Option _` (which error is not modelled, only that it is one);
  * references, clones, `iter()`/`collect()` and integer widths are erased (strings are character lists, vectors are lists);
    integer overflow is therefore NOT visible in the translation (it is covered by the panic-site audit and the streams);
  * `std::ptr::eq` is `false` (call sites pass distinct references; see JsOp.strictEq).

A function whose body uses syntax or library calls outside what is handled is *not translated* - the run reports that,
and for that function the model stays tied to the code by the correspondence streams only.
"""
import os, re, sys, json, struct
sys.path.insert(0, os.path.dirname(os.path.abspath(__file__)))
import rsparse
from rsparse import UnsupportedSyntax

VERIF = os.path.dirname(os.path.dirname(os.path.abspath(__file__)))
REPO = os.environ.get("VERIF_REPO", "/repo")
OUT = os.environ.get("VERIF_FNS_OUT") or os.path.join(VERIF, "lean", "JL", "Generated", "Fns.lean")        # (the override is a development aid)
STATUS = os.path.join(os.path.dirname(OUT), "fns_status.json")
# development aid: translate only these (comma separated) in addition to what the committed tie theorems need
ONLY = [x for x in os.environ.get("VERIF_FNS_ONLY", "").split(",") if x]

# ---------------------------------------------------------------------------------------------------------------
# what is translated: (source file, rust fn, lean name, properties whose model it backs, model counterpart)
FUNCS = [
    ("src/js_op.rs", "to_string", "to_string", ["C07", "C09", "C10", "C16"], "JsOp.toString"),
    ("src/js_op.rs", "radix_literal", "radix_literal", ["C07", "C09", "C10"], "JsOp.radixLiteral"),
    ("src/js_op.rs", "decimal_literal_len", "decimal_literal_len", ["C07", "C09", "C10"], "JsOp.decimalLiteralLen"),
    ("src/js_op.rs", "split_sign", "split_sign", ["C07", "C10"], "JsOp.splitSign"),
    ("src/js_op.rs", "to_primitive_number", "to_primitive_number", ["C07", "C09", "C10"], "JsOp.toPrimitiveNumber"),
    ("src/js_op.rs", "str_to_number", "str_to_number", ["C07", "C09", "C10"], "JsOp.strToNumber"),
    ("src/js_op.rs", "to_primitive", "to_primitive", ["C07", "C09"], "JsOp.toPrimitive"),
    ("src/js_op.rs", "to_number", "to_number", ["C07", "C09", "C10"], "JsOp.toNumber"),
    ("src/js_op.rs", "abstract_eq", "abstract_eq", ["C07"], "JsOp.abstractEq"),
    ("src/js_op.rs", "abstract_ne", "abstract_ne", ["C07"], "JsOp.abstractNe"),
    ("src/js_op.rs", "strict_eq", "strict_eq", ["C08"], "JsOp.strictEq"),
    ("src/js_op.rs", "strict_ne", "strict_ne", ["C08"], "JsOp.strictNe"),
    ("src/js_op.rs", "abstract_lt", "abstract_lt", ["C09"], "JsOp.abstractLt"),
    ("src/js_op.rs", "abstract_gt", "abstract_gt", ["C09"], "JsOp.abstractGt"),
    ("src/js_op.rs", "abstract_lte", "abstract_lte", ["C09"], "JsOp.abstractLte"),
    ("src/js_op.rs", "abstract_gte", "abstract_gte", ["C09"], "JsOp.abstractGte"),
    ("src/js_op.rs", "abstract_max", "abstract_max", ["C10"], "JsOp.abstractMax"),
    ("src/js_op.rs", "abstract_min", "abstract_min", ["C10"], "JsOp.abstractMin"),
    ("src/js_op.rs", "abstract_plus", "abstract_plus", ["C10"], "JsOp.abstractPlus"),
    ("src/js_op.rs", "parse_float_string", "parse_float_string", ["C10"], "JsOp.parseFloatString"),
    ("src/js_op.rs", "parse_float", "parse_float", ["C10"], "JsOp.parseFloat"),
    ("src/js_op.rs", "parse_float_add", "parse_float_add", ["C10"], "JsOp.parseFloatAdd"),
    ("src/js_op.rs", "parse_float_mul", "parse_float_mul", ["C10"], "JsOp.parseFloatMul"),
    ("src/js_op.rs", "abstract_minus", "abstract_minus", ["C10"], "JsOp.abstractMinus"),
    ("src/js_op.rs", "abstract_div", "abstract_div", ["C10"], "JsOp.abstractDiv"),
    ("src/js_op.rs", "abstract_mod", "abstract_mod", ["C10"], "JsOp.abstractMod"),
    ("src/js_op.rs", "to_negative", "to_negative", ["C10"], "JsOp.toNegative"),
    ("src/op/logic.rs", "truthy", "truthy", ["C05", "C06", "C13", "C14"], "truthy"),
    ("src/value.rs", "to_number_value", "to_number_value", ["C10"], "toNumberValue"),
    ("src/op/data.rs", "get", "get", ["C11", "C12", "C16"], "Data.get"),
    ("src/op/array.rs", "number_eq", "number_eq", ["C15"], "ArrOp.numberEq"),
    ("src/op/array.rs", "deep_eq", "deep_eq", ["C15"], "ArrOp.deepEq"),
    ("src/op/data.rs", "split_with_escape", "split_with_escape", ["C11", "C12"], "Data.splitWithEscape"),
    ("src/op/array.rs", "merge", "merge", ["C15"], "ArrOp.merge"),
    ("src/op/array.rs", "in_", "in_", ["C15"], "ArrOp.in_"),
    ("src/op/string.rs", "cat", "cat", ["C16"], "StrOp.cat"),
    ("src/op/string.rs", "substr", "substr", ["C16"], "StrOp.substr"),
    ("src/op/data.rs", "get_str_key", "get_str_key", ["C11", "C12"], "Data.getStrKey"),
    ("src/op/data.rs", "get_key", "get_key", ["C11", "C12"], "Data.getKey"),
    ("src/op/numeric.rs", "compare", "num_compare", ["C09"], "compare"),
    ("src/op/numeric.rs", "lt", "num_lt", ["C09"], "compare JsOp.abstractLt"),
    ("src/op/numeric.rs", "lte", "num_lte", ["C09"], "compare JsOp.abstractLte"),
    ("src/op/numeric.rs", "gt", "num_gt", ["C09"], "compare JsOp.abstractGt"),
    ("src/op/numeric.rs", "gte", "num_gte", ["C09"], "compare JsOp.abstractGte"),
    ("src/op/numeric.rs", "minus", "num_minus", ["C10"], "execEager {-}"),
    ("src/op/impure.rs", "log", "op_log", ["C17"], "execEager {log}"),
    ("src/op/logic.rs", "truthy_from_evaluated", "truthy_from_evaluated", ["C05", "C06", "C13", "C14"], "truthy"),
    ("src/op/logic.rs", "if_", "op_if", ["C05"], "run {if}"),
    ("src/op/logic.rs", "or", "op_or", ["C05"], "run {or}"),
    ("src/op/logic.rs", "and", "op_and", ["C05"], "run {and}"),
    ("src/op/array.rs", "map", "op_map", ["C13"], "run {map}"),
    ("src/op/array.rs", "filter", "op_filter", ["C13"], "run {filter}"),
    ("src/op/array.rs", "reduce", "op_reduce", ["C13"], "run {reduce}"),
    ("src/op/array.rs", "all", "op_all", ["C14"], "run {all}"),
    ("src/op/array.rs", "some", "op_some", ["C14"], "run {some}"),
    ("src/op/array.rs", "none", "op_none", ["C14"], "run {none}"),
    ("src/op/data.rs", "var", "op_var", ["C11"], "Eval.var"),
    ("src/op/mod.rs", "check_len", "check_len", ["C03"], "Arity.isValidLen"),
    ("src/op/mod.rs", "op_from_map", "op_from_map", ["C02", "C03"], "check (operator recognition and operand shape)"),
    ("src/op/data.rs", "missing", "op_missing", ["C12"], "Eval.missing"),
    ("src/op/mod.rs", "Operator::execute", "Operator_execute", ["C02", "C04"], "execEager"),
    ("src/op/mod.rs", "LazyOperator::execute", "LazyOperator_execute", ["C02", "C04"], "run (lazy)"),
    ("src/op/mod.rs", "DataOperator::execute", "DataOperator_execute", ["C02", "C04"], "execData"),
    ("src/value.rs", "Raw::from_value", "Raw_from_value", ["C02"], "check (literal)"),
    ("src/value.rs", "Raw::evaluate", "Raw_evaluate", ["C02"], "run (literal)"),
    ("src/op/mod.rs", "LazyOperation::from_value", "LazyOperation_from_value", ["C02", "C03", "C04"], "check (lazy)"),
    ("src/op/mod.rs", "LazyOperation::evaluate", "LazyOperation_evaluate", ["C02", "C04", "C05"], "run (lazy)"),
    ("src/op/mod.rs", "Operation::from_value", "Operation_from_value", ["C02", "C03", "C04"], "check (eager)"),
    ("src/op/mod.rs", "DataOperation::from_value", "DataOperation_from_value", ["C02", "C03", "C04"], "check (data)"),
    ("src/value.rs", "Parsed::from_value", "Parsed_from_value", ["C01", "C02", "C03", "C04"], "check"),
    ("src/value.rs", "Parsed::from_values", "Parsed_from_values", ["C02", "C03", "C04"], "checkList"),
    ("src/op/mod.rs", "Operation::evaluate", "Operation_evaluate", ["C02", "C04"], "run (eager)"),
    ("src/op/mod.rs", "DataOperation::evaluate", "DataOperation_evaluate", ["C02", "C04"], "run (data)"),
    ("src/value.rs", "Parsed::evaluate", "Parsed_evaluate", ["C01", "C02", "C04"], "run"),
    ("src/lib.rs", "apply", "apply", ["C01", "C02", "C04", "C17"], "apply"),
    ("src/lib.rs", "python_iface::apply", "python_apply", ["C19"], "Wrap.native"),
    ("src/op/data.rs", "missing_some", "op_missing_some", ["C12"], "Eval.missingSome"),
]

# functions that evaluate sub-rules (and may therefore print `log` lines): translated into the model's outcome monad `M`
# (`Result<T, Error>` is `M T`, `?` is bind, `Parsed::from_value(x)?.evaluate(d)?` is the model's parse-then-evaluate of a sub-rule)
# functions at the text boundary: the JSON codec (serde_json::from_str / Value::to_string) is a parameter of the translation, as it is of the model
CODEC_FUNCS = {"python_iface::apply"}
M_FUNCS = {"python_iface::apply", "Operation::evaluate", "LazyOperation::evaluate", "DataOperation::evaluate", "Raw::evaluate", "Parsed::evaluate", "Operator::execute", "LazyOperator::execute", "DataOperator::execute", "apply",
           "missing", "missing_some", "log", "if_", "or", "and", "map", "filter", "reduce", "all", "some", "none", "var"}

# the parse / evaluate layer (the recursive knot): inside these, `Parsed::from_value` and `.evaluate(..)` are the *translated* functions
KNOT = {"Operation::from_value", "Operation::evaluate", "LazyOperation::from_value", "LazyOperation::evaluate", "DataOperation::from_value", "DataOperation::evaluate",
        "Raw::from_value", "Raw::evaluate", "Parsed::from_value", "Parsed::from_values", "Parsed::evaluate", "Operator::execute", "LazyOperator::execute", "DataOperator::execute", "apply"}
# mutually recursive groups: translated as one `mutual` block over a common fuel argument (started above `sizeOf` of the arguments)
GROUPS = [["Operation::from_value", "DataOperation::from_value", "Parsed::from_value", "Parsed::from_values"],
          ["Operation::evaluate", "DataOperation::evaluate", "Parsed::evaluate"]]
# payload type of the constructors of `Parsed`, element type of the `arguments` field, type of the `operator` field
PAYLOAD = {"Operation": "Operation", "LazyOperation": "LazyOperation", "DataOperation": "DataOperation", "Raw": "Raw"}
ARG_ELEM = {"Operation": "Parsed", "DataOperation": "Parsed", "LazyOperation": "Value"}
OPERATOR_OF = {"Operation": "Operator", "LazyOperation": "LazyOperator", "DataOperation": "DataOperator"}
STRUCT_CTOR = {"Operation": "Rs.POperation.mk", "LazyOperation": "Rs.PLazy.mk", "DataOperation": "Rs.PData.mk", "Raw": "Rs.PRaw.mk"}
STRUCT_FIELDS = {"Operation": ["operator", "arguments"], "LazyOperation": ["operator", "arguments"], "DataOperation": ["operator", "arguments"], "Raw": ["value"]}
CALL_GLUE = {"Operator": "Gen.eager_call", "LazyOperator": "Gen.lazy_call", "DataOperator": "Gen.data_call"}

# crate functions that are called from translated code but are not (yet) translated themselves: they are taken from the hand-written model
MODEL_FNS = {
    "is_js_whitespace": "JsOp.isJsWhitespace",
}

# explicit termination arguments for the recursive ones (a wrong one only makes the generated file fail to compile)
TERMINATION = {
    "abstract_eq": "termination_by Rs.eqRank first + Rs.eqRank second\ndecreasing_by all_goals (simp_all [Rs.eqRank, rs] <;> omega)",
    "parse_float": "termination_by Rs.strRank val_\ndecreasing_by all_goals (simp_all [Rs.strRank])",
}

# functions that recurse on *parts* of an argument from inside closures (iterator adaptors): translated with an explicit fuel argument,
# started at (sum of the nesting depths of the JSON arguments) + 1, which is more than such a recursion can use
FUEL = {"deep_eq", "to_string"}

LEAN_KEYWORDS = {"end", "from", "at", "do", "then", "else", "if", "in", "fun", "let", "have", "show", "with", "match", "open", "by", "where", "instance", "class",
                 "structure", "inductive", "def", "theorem", "namespace", "section", "variable", "universe", "import", "export", "private", "protected", "mutual",
                 "Type", "Prop", "Sort", "deriving", "extends", "using", "only", "max", "min", "string", "this", "some", "none", "true", "false", "return", "for", "unless", "try", "catch", "finally", "macro", "syntax", "notation", "infix", "prefix", "postfix", "attribute", "local", "scoped", "set_option", "calc", "suffices", "obtain", "rcases", "exact", "cur", "val"}
# ("cur", "val", "max", "min" are legal identifiers but clash with common namespaces / confuse readers; renamed uniformly)


def ident(name):
    if name in LEAN_KEYWORDS or name.startswith("_") and name != "_":
        return name.strip("_") + "_"
    return name


# --------------------------------------------------------------------------------------------------------------- types

def split_generic(ty):
    """'Option < Option < f64 > >' -> ('Option', ['Option < f64 >'])"""
    ty = ty.strip()
    m = re.match(r"^([\w:]+)\s*<(.*)>$", ty, re.S)
    if not m: return ty, []
    head, inner = m.group(1), m.group(2)
    args = []; depth = 0; cur = []
    for tok in inner.split(" "):
        if tok in ("<", "(", "["): depth += 1
        elif tok in (">", ")", "]"): depth -= 1
        if tok == "," and depth == 0:
            args.append(" ".join(cur)); cur = []
        else:
            cur.append(tok)
    if cur: args.append(" ".join(cur))
    return head, [a.strip() for a in args]


INFO = {}
AUX_PIECES = []
GROUP_OF = {}
MMODE = [False]
KNOTMODE = [False]
SELF_TYPE = ["Arity"]


def lean_type(ty, generics):
    ty = ty.replace(">>", "> >").strip()
    ty = re.sub(r"^&\s*('\w+\s+)?(mut\s+)?", "", ty).strip()
    ty = re.sub(r"^'\w+\s+", "", ty)
    if ty.startswith("(") and ty.endswith(")"):
        inner = ty[1:-1].strip()
        if inner == "": return "Unit"
        parts = []; depth = 0; cur = []
        for tok in inner.split(" "):
            if tok in ("<", "(", "["): depth += 1
            elif tok in (">", ")", "]"): depth -= 1
            if tok == "," and depth == 0:
                parts.append(" ".join(cur)); cur = []
            else: cur.append(tok)
        if cur: parts.append(" ".join(cur))
        return "(" + " × ".join(lean_type(p, generics) for p in parts) + ")"
    if ty.startswith("[") and ty.endswith("]"):
        return "(List %s)" % lean_type(ty[1:-1], generics)
    ty = re.sub(r"'\w+\s*", "", ty).strip()           # lifetimes carry no meaning here
    ty = re.sub(r"\s*::\s*", "::", ty)
    head, args = split_generic(ty)
    args = [re.sub(r"^&\s*", "", a).strip() for a in args if a.strip()]
    head = head.split("::")[-1]
    simple = {"Value": "Json", "Number": "Num", "f64": "F64", "bool": "Bool", "str": "Str", "String": "Str", "i64": "Int", "i128": "Int", "i32": "Int", "isize": "Int",
              "Ordering": "Ordering", "usize": "Nat", "u64": "Nat", "u32": "Nat", "u8": "Nat", "char": "Char", "Primitive": "JsOp.Primitive", "PrimitiveHint": "Rs.PrimitiveHint", "KeyType": "Data.Key", "Evaluated": "Json", "Parsed": ("Rs.PParsed" if KNOTMODE[0] else "Rs.Parsed"), "Self": SELF_TYPE[0], "NumParams": "Arity",
              "Operation": "Rs.POperation", "LazyOperation": "Rs.PLazy", "DataOperation": "Rs.PData", "Raw": "Rs.PRaw", "Operator": "Rs.OpRef", "LazyOperator": "Rs.OpRef", "DataOperator": "Rs.OpRef"}
    if not args:
        if head in simple: return simple[head]
        if head in generics: return generics[head]
        raise UnsupportedSyntax("type %r" % ty)
    if head == "Option": return "(Option %s)" % lean_type(args[0], generics)
    if head == "Result": return ("(M %s)" if MMODE[0] else "(Option %s)") % lean_type(args[0], generics)
    if head == "Vec": return "(List %s)" % lean_type(args[0], generics)
    if head == "Cow": return lean_type(args[-1], generics)
    if head == "Map" and len(args) == 2 and "str" in args[0]: return "(Str → Option %s)" % lean_type(args[1], generics)     # a `phf::Map<&str, T>` used through `get` only
    if head == "OpArgs": return "(%s × (List Json))" % lean_type(args[-1], generics)
    if head in ("Operation", "LazyOperation", "DataOperation", "Raw", "Parsed", "Evaluated"): return lean_type(head, generics)
    if head == "KeyType": return "Data.Key"
    raise UnsupportedSyntax("type %r" % ty)


# --------------------------------------------------------------------------------------------------------------- literals

def f64_lit(text):
    t = text.replace("_", "")
    t = re.sub(r"f64$|f32$", "", t)
    x = float(t)
    if x == 0.0: return "F64.zero"
    if x == 1.0: return "F64.one"
    if x != x or x in (float("inf"), float("-inf")): raise UnsupportedSyntax("non-finite float literal")
    num, den = abs(x).as_integer_ratio()          # exact: den is a power of two
    k = num * 2 ** 1074 // den                     # units of 2^-1074 (exact for every finite double)
    n = 0
    while k % 2 == 0:
        k //= 2; n += 1
    return "(F64.fin %s (%d * 2 ^ %d))" % ("true" if x < 0 else "false", k, n)


def int_lit(text):
    t = re.sub(r"(?:[iu](?:8|16|32|64|128|size))$", "", text.replace("_", ""))
    return str(int(t, 0))


def str_lit(text):
    if text.startswith("b"): raise UnsupportedSyntax("byte string")
    body = text[1:-1]
    out = []
    i = 0
    while i < len(body):
        c = body[i]
        if c == "\\":
            n = body[i + 1]
            if n == "u":
                j = body.index("}", i)
                out.append(chr(int(body[i + 3:j], 16))); i = j + 1; continue
            out.append({"n": "\n", "t": "\t", "r": "\r", "\\": "\\", "\"": "\"", "'": "'", "0": "\0"}.get(n))
            if out[-1] is None: raise UnsupportedSyntax("string escape \\%s" % n)
            i += 2
        else:
            out.append(c); i += 1
    s = "".join(out)
    if s == "": return "([] : Str)"
    esc = "".join(ch if (32 <= ord(ch) < 127 and ch not in "\"\\") else "\\u{%x}" % ord(ch) if ord(ch) > 0xFFFF else "\\u%04x" % ord(ch) for ch in s)
    esc = esc.replace("\\u005c", "\\\\").replace("\\u0022", "\\\"")
    return "\"%s\".toList" % esc


def byte_val(text):
    body = text[2:-1]
    if body.startswith("\\x"): return int(body[2:], 16)
    if body.startswith("\\"): return ord({"n": "\n", "t": "\t", "r": "\r", "\\": "\\", "\"": "\"", "'": "'", "0": "\0"}[body[1]])
    return ord(body)


def char_lit(text):
    body = text[1:-1]
    if body.startswith("\\u"):
        cp = int(body[3:-1], 16)
    elif body.startswith("\\"):
        cp = ord({"n": "\n", "t": "\t", "r": "\r", "\\": "\\", "\"": "\"", "'": "'", "0": "\0"}[body[1]])
    else:
        cp = ord(body)
    if 32 < cp < 127 and chr(cp) not in "'\\": return "'%s'" % chr(cp)
    return "(Char.ofNat 0x%X)" % cp


# --------------------------------------------------------------------------------------------------------------- emitter

PATH_CONSTS = {
    ("f64", "INFINITY"): "(F64.inf false)", ("f64", "NEG_INFINITY"): "(F64.inf true)", ("f64", "NAN"): "F64.nan",
    ("std", "f64", "INFINITY"): "(F64.inf false)", ("std", "f64", "NEG_INFINITY"): "(F64.inf true)",
    ("Ordering", "Less"): "Ordering.lt", ("Ordering", "Equal"): "Ordering.eq", ("Ordering", "Greater"): "Ordering.gt",
    ("cmp", "Ordering", "Less"): "Ordering.lt", ("cmp", "Ordering", "Equal"): "Ordering.eq", ("cmp", "Ordering", "Greater"): "Ordering.gt",
    ("std", "cmp", "Ordering", "Less"): "Ordering.lt", ("std", "cmp", "Ordering", "Equal"): "Ordering.eq", ("std", "cmp", "Ordering", "Greater"): "Ordering.gt",
    ("OPERATOR_MAP",): "Rs.eagerOps", ("LAZY_OPERATOR_MAP",): "Rs.lazyOps", ("DATA_OPERATOR_MAP",): "Rs.dataOps",
    ("None",): "none", ("Value", "Null"): "Json.null", ("NULL",): "Json.null", ("crate", "NULL"): "Json.null",
    ("KeyType", "Null"): "Data.Key.null", ("i64", "MAX"): "(9223372036854775807 : Int)", ("i64", "MIN"): "(-9223372036854775808 : Int)", ("usize", "MAX"): "(18446744073709551615 : Nat)",
    ("u64", "MAX"): "(18446744073709551615 : Nat)", ("f64", "EPSILON"): "(F64.fin false (1 * 2 ^ 1022))", ("f64", "MAX"): "(F64.fin false (9007199254740991 * 2 ^ 2045))",
    ("PrimitiveHint", "String"): "Rs.PrimitiveHint.String", ("PrimitiveHint", "Number"): "Rs.PrimitiveHint.Number", ("PrimitiveHint", "Default"): "Rs.PrimitiveHint.Default",
}
# constructors usable both in expressions (as functions) and in patterns
CTORS = {
    ("Some",): "some", ("Ok",): "some",
    ("Value", "Bool"): "Json.bool", ("Value", "Number"): "Json.num", ("Value", "String"): "Json.str", ("Value", "Array"): "Json.arr", ("Value", "Object"): "Json.obj",
    ("Primitive", "String"): "JsOp.Primitive.string", ("Primitive", "Number"): "JsOp.Primitive.number",
    ("KeyType", "String"): "Data.Key.string", ("KeyType", "Number"): "Data.Key.number",
}
# free functions of the standard library / serde_json
STD_CALLS = {
    ("Number", "from_f64"): "Num.ofF64?", ("Number", "from"): "Rs.number_from", ("f64", "from_str"): "JsOp.rustParseF64", ("String", "from"): "Rs.id_", ("i128", "from"): "Rs.to_int",
    ("std", "ptr", "eq"): "Rs.ptr_eq", ("ptr", "eq"): "Rs.ptr_eq", ("i64", "from"): "Rs.to_int", ("f64", "from"): "Rs.to_f64",
    ("Vec", "new"): "Rs.new_", ("String", "new"): "Rs.new_", ("Value", "clone"): "Rs.id_", ("Clone", "clone"): "Rs.id_", ("String", "clone"): "Rs.id_",
    ("serde_json", "from_str"): "parse_", ("serde_json", "to_string"): "ser_",
    ("std", "mem", "take"): "Rs.mem_take", ("mem", "take"): "Rs.mem_take",
    ("cmp", "min"): "Rs.min_", ("cmp", "max"): "Rs.max_", ("std", "cmp", "min"): "Rs.min_", ("std", "cmp", "max"): "Rs.max_", ("Cow", "from"): "Rs.id_", ("Some",): "some",
    ("Value", "from"): "Rs.id_", ("Parsed", "from_value"): "Rs.parsed_from_value", ("usize", "try_from"): "Rs.try_into", ("u64", "try_from"): "Rs.try_into", ("i64", "try_from"): "Rs.try_into_i64",
    ("KeyType", "try_from"): "Rs.try_into", ("char", "from"): "Rs.id_", ("u64", "from"): "Rs.to_nat", ("usize", "from"): "Rs.to_nat",
}
CRATE_MODULES = {"impure", "js_op", "crate", "super", "self", "op", "value", "logic", "data", "array", "string", "numeric"}
# methods whose receiver is returned unchanged under the erasure (references, iterators, owned/borrowed, Result->Option)
ERASED_METHODS = {"clone", "iter", "into_iter", "as_ref", "as_str", "to_owned", "into", "borrow", "to_vec", "collect", "chars", "as_slice", "copied", "cloned", "ok", "ok_or_else", "ok_or",
                  "as_deref", "by_ref", "map_err"}
# every other supported method is a function of JL/Rs.lean named after it (typeclass-dispatched where Rust overloads it)
RS_METHODS = {"is_valid_len", "can_accept_unary", "param_info", "evaluate", "to_string", "as_f64", "as_i64", "as_u64", "map", "and_then", "unwrap_or", "unwrap", "map_or", "filter", "or_else", "or", "fold", "all", "any", "zip", "len", "is_empty", "get",
              "contains", "starts_with", "ends_with", "strip_prefix", "trim_matches", "trim_start_matches", "trim_end_matches", "take", "skip", "chain", "join", "fract", "abs", "unsigned_abs", "try_into",
              "checked_sub", "is_some", "is_none", "is_nan", "is_finite", "is_infinite", "rev", "count", "last", "first", "trunc", "floor", "is_sign_negative", "is_sign_positive", "unwrap_or_default",
              "take_while", "skip_while", "enumerate", "position", "find", "max", "min", "powi", "signum", "is_ascii_digit", "to_digit", "saturating_add", "saturating_sub", "iter_keys", "keys", "values",
              "parse", "transpose", "checked_add", "as_bytes", "bytes", "partial_cmp", "cmp", "is_lt", "is_le", "is_gt", "is_ge", "is_eq", "is_ne", "trim", "trim_start", "trim_end", "sum", "saturating_sub", "zip", "is_char_boundary", "unwrap_or_else", "flatten", "copied", "is_null", "is_string", "is_number", "is_array", "is_object", "is_boolean", "as_bool", "as_array", "as_object", "as_null", "eq", "ne", "lt", "le", "gt", "ge", "then", "xor"}
MUTATING_METHODS = {"insert": "insert_", "next": "next", "pop": "pop", "push": "push", "push_str": "push_str", "extend": "extend", "clear": "clear", "append": "extend", "insert": "insert_"}
BINOPS = {"==": "Rs.eq", "<": "Rs.lt", "<=": "Rs.le", ">": "Rs.gt", ">=": "Rs.ge", "+": "Rs.add", "-": "Rs.sub", "*": "Rs.mul", "/": "Rs.div", "%": "Rs.rem"}


class Emitter:
    def __init__(self, fn_names, local_fns=None):
        self.fn_names = fn_names          # rust fn name -> lean name (translated: Gen.x ; modelled: model name)
        self.local_fns = local_fns or {}
        self.counter = 0
        self.expand_catch_all = False
        self.muts = []                    # `let mut` variables in scope, in declaration order
        self.ret_wrap = lambda v: v       # how a `return`ed value leaves the current context (inside a loop body: Flow.ret)
        self.loop_ctx = None              # state tuple text of the innermost loop (for break / continue)
        self.mmode = False                # the function lives in the outcome monad M
        self.in_m = True                  # (in M mode) the code being translated itself yields a Result
        self.self_aux = None              # name of the auxiliary function being translated (for self-calls)
        self.codec = False                # the JSON codec is a parameter (parse_, ser_)
        self.json_vars = set()            # variables known to hold a `Value`
        self.impl_type = None             # the type whose `impl` block the function is in
        self.knot = False                 # the function belongs to the parse / evaluate layer
        self.vartypes = {}                # local variable -> crate type name, where the translation needs it to pick a method
        self.mut_all = False              # inside a fold over a unique `&mut` borrow: locals may be appended to
        self.state_tuple = None           # inside a fold closure that re-binds captured variables: the tuple of those variables
        self.local_ctors = {}             # constructors of enums declared inside the function
        self.file_fns = {}                # other fns of the same source file (translated on demand as auxiliaries)
        self.bound = set()                # every name bound by a pattern anywhere in the function (never mistaken for a crate fn)
        self.needed = []

    def fresh(self, base="t"):
        self.counter += 1
        return "%s_%d" % (base, self.counter)

    # ---- effects
    def mem_take_var(self, e):
        """`std::mem::take(&mut x)` on a `let mut` variable x: returns x"""
        if e[0] == "call" and e[1][0] == "path" and tuple(e[1][1])[-2:] == ("mem", "take") and len(e[2]) == 1:
            a = e[2][0]
            if a[0] == "unary" and a[1] == "&mut" and a[2][0] == "path" and len(a[2][1]) == 1 and (a[2][1][0] in self.muts or self.mut_all): return a[2][1][0]
        return None

    def has_effect(self, e):
        """does evaluating e possibly leave the enclosing function (return / ?) - closures are their own scope"""
        if e is None or not isinstance(e, tuple): return False
        k = e[0]
        if k in ("return", "try", "break", "continue", "assign", "for", "while", "loop"): return True
        if k == "call" and self.mem_take_var(e): return True
        if k == "mcall" and e[2] == "for_each": return True
        if k == "mcall" and e[2] == "fold" and self.captured_by_fold(e): return True
        if k == "mcall" and e[2] == "fold" and self.mutref_fold(e): return True
        if k == "mcall" and e[2] in MUTATING_METHODS and e[1][0] == "path" and len(e[1][1]) == 1 and (e[1][1][0] in self.muts or (self.mut_all and e[1][1][0] in self.bound)): return True
        if k == "closure" or k == "lit" or k == "path" or k == "macro": return False
        if k == "block":
            return any(self.stmt_effect(s) for s in e[1]) or self.has_effect(e[2])
        if k == "if":
            c = e[1]
            ce = self.has_effect(c[2]) if c[0] == "let" else self.has_effect(c)
            return ce or self.has_effect(e[2]) or self.has_effect(e[3])
        if k == "match":
            return self.has_effect(e[1]) or any(self.has_effect(a[2]) or self.has_effect(a[1]) for a in e[2])
        if k == "struct":
            return any(self.has_effect(v) for _, v in e[2])
        for child in e[1:]:
            if isinstance(child, tuple) and self.has_effect(child): return True
            if isinstance(child, list) and any(isinstance(c, tuple) and self.has_effect(c) for c in child): return True
        return False

    def stmt_effect(self, s):
        if s[0] == "let": return self.has_effect(s[3]) or (s[4] is not None)
        if s[0] == "expr": return self.has_effect(s[1])
        return False

    def diverges(self, e):
        """evaluating e never yields a value to its context (ends in return on every path)"""
        if e is None: return False
        k = e[0]
        if k == "return": return True
        if k == "paren": return self.diverges(e[1])
        if k == "block":
            for s in e[1]:
                if s[0] == "expr" and self.diverges(s[1]): return True
            return self.diverges(e[2])
        if k == "if":
            return e[3] is not None and self.diverges(e[2]) and self.diverges(e[3])
        if k == "match":
            return all(self.diverges(a[2]) for a in e[2])
        return False

    # ---- patterns
    def pat(self, p):
        k = p[0]
        if k == "wild": return "_"
        if k == "bind":
            if p[4] is not None: raise UnsupportedSyntax("@ pattern")
            return ident(p[1])
        if k == "pref": return self.pat(p[1])
        if k == "plit":
            return self.lit_pattern(p[1])
        if k == "ppath":
            key = tuple(p[1])
            if key in self.local_ctors: return self.local_ctors[key]
            if key in PATH_CONSTS: return PATH_CONSTS[key]
            if key in CTORS: return CTORS[key]
            raise UnsupportedSyntax("pattern path %s" % "::".join(p[1]))
        if k == "ptuplestruct":
            key = tuple(p[1])
            if key and key[0] == "Self" and self.impl_type: key = (self.impl_type,) + key[1:]
            if len(key) == 2 and key[0] == "Parsed" and key[1] in PAYLOAD and len(p[2]) == 1:
                q = p[2][0]
                while q[0] == "pref": q = q[1]
                if q[0] == "bind": self.vartypes[q[1]] = PAYLOAD[key[1]]
                return "(Rs.PParsed.%s %s)" % (key[1], self.pat(p[2][0]))
            if key in (("Evaluated", "New"), ("Evaluated", "Raw")) and len(p[2]) == 1: return self.pat(p[2][0])
            if key in self.local_ctors: return "(%s %s)" % (self.local_ctors[key], " ".join(self.pat(q) for q in p[2]))
            if key in (("Ok",), ("Err",)) and self.mmode: raise UnsupportedSyntax("matching on a Result inside an effectful function")
            if key == ("Err",): return "none"
            if key not in CTORS: raise UnsupportedSyntax("pattern constructor %s" % "::".join(p[1]))
            return "(%s %s)" % (CTORS[key], " ".join(self.pat(q) for q in p[2]))
        if k == "ptuple":
            return "(" + ", ".join(self.pat(q) for q in p[1]) + ")"
        if k == "por":
            raise UnsupportedSyntax("nested or-pattern")
        raise UnsupportedSyntax("pattern %s" % k)

    def lit_pattern(self, e):
        if e[0] == "lit":
            if e[1] == "bool": return e[2]
            if e[1] == "int": return int_lit(e[2])
            if e[1] == "char": return char_lit(e[2])
            if e[1] == "byte": return str(byte_val(e[2]))
        raise UnsupportedSyntax("literal pattern %r" % (e,))

    def pat_alternatives(self, p):
        return p[1] if p[0] == "por" else [p]

    def irrefutable(self, p):
        k = p[0]
        if k in ("wild", "bind"): return True
        if k == "pref": return self.irrefutable(p[1])
        if k == "ptuple": return all(self.irrefutable(q) for q in p[1])
        return False

    # ---- expressions without control effects
    def V(self, e):
        k = e[0]
        if k == "paren": return self.V(e[1])
        if k == "lit":
            kind, text = e[1], e[2]
            if kind == "int": return "(%s)" % int_lit(text)
            if kind == "float": return f64_lit(text)
            if kind == "str": return str_lit(text)
            if kind == "char": return char_lit(text)
            if kind == "byte": return "(%d : Nat)" % byte_val(text)
            if kind == "bool": return text
            raise UnsupportedSyntax("literal kind %s" % kind)
        if k == "path":
            key = tuple(e[1])
            if key and key[0] == "Self" and self.impl_type: key = (self.impl_type,) + key[1:]
            if len(key) == 2 and key[0] == "Parsed" and key[1] in PAYLOAD: return "Rs.PParsed." + key[1]
            if len(key) >= 2 and "::".join(key) in self.fn_names and (self.knot or key[0] not in ("Parsed",)): return self.fn_names["::".join(key)]
            if key in self.local_ctors: return self.local_ctors[key]
            if key in PATH_CONSTS: return PATH_CONSTS[key]
            if key in CTORS: return CTORS[key]
            if len(key) == 1:
                if key[0] in self.bound and key[0] not in self.local_fns: return ident(key[0])      # a local binding hides a crate function of the same name
                if key[0] in self.local_fns: return self.local_fns[key[0]]
                if key[0] in self.fn_names: return self.fn_names[key[0]]
                if key[0] in self.file_fns and key[0] not in self.bound:
                    if key[0] not in self.needed: self.needed.append(key[0])
                    return "Gen.aux_" + key[0]
                if self.self_aux and key[0] == self.self_aux and key[0] not in self.bound:
                    return "Gen.aux_" + key[0]          # an auxiliary that calls itself (translated with a fuel argument)
                return ident(key[0])
            if key in STD_CALLS and not (self.knot and key == ("Parsed", "from_value")): return STD_CALLS[key]
            if all(seg in CRATE_MODULES for seg in key[:-1]):          # a function of the crate named through its module
                last = key[-1]
                if last in self.fn_names: return self.fn_names[last]
                if key == ("crate", "NULL") or last == "NULL": return "Json.null"
                raise UnsupportedSyntax("crate function %s is neither translated nor modelled" % "::".join(key))
            raise UnsupportedSyntax("path %s" % "::".join(key))
        if k == "call":
            f = e[1]
            f_ = f
            while f_[0] == "paren": f_ = f_[1]
            if f_[0] == "field" and f_[2] == "operator" and self.type_of(f_[1]) in CALL_GLUE:
                # `(self.operator)(…)`: calling the function a table entry holds
                return "(%s %s)" % (CALL_GLUE[self.type_of(f_[1])], " ".join([self.V(f_[1])] + [self.V(a) for a in e[2]]))
            if f[0] == "path" and tuple(f[1]) == ("Err",):
                return "Rs.err" if self.mmode else "none"                  # which error is not modelled
            if f[0] == "path" and tuple(f[1]) == ("Ok",) and self.mmode:
                return "(Rs.ok %s)" % self.V(e[2][0])
            if f[0] == "path" and f[1][0] == "Error": return "()"
            if f[0] == "path" and tuple(f[1]) in (("Vec", "with_capacity"), ("Map", "with_capacity"), ("String", "with_capacity"), ("Map", "new")): return "(Rs.new_ ())"
            if f[0] == "path" and tuple(f[1]) in (("Evaluated", "New"), ("Evaluated", "Raw")): return self.V(e[2][0])
            fn = self.V(f)
            if not e[2]: return "(%s ())" % fn
            return "(%s %s)" % (fn, " ".join(self.V(a) for a in e[2]))
        if k == "mcall":
            recv, name, args = e[1], e[2], e[3]
            if name == "to_string" and self.codec and not args and self.type_of(recv) is None and recv[0] == "path" and recv[1][0] in self.json_vars:
                return "(ser_ %s)" % self.V(recv)               # `Value::to_string`: serde_json's printer
            if name == "next" and not args and not (recv[0] == "path" and len(recv[1]) == 1 and recv[1][0] in self.muts):
                return "(Rs.first %s)" % self.V(recv)              # the first item of a fresh iterator
            if name in MUTATING_METHODS or name in ("for_each", "sort", "sort_by", "retain", "dedup", "reverse", "swap", "remove", "drain", "truncate", "insert", "entry", "get_mut", "iter_mut", "as_mut"):
                raise UnsupportedSyntax("mutation through `.%s()` in a position the translation cannot express" % name)
            if name in ("ok_or_else", "ok_or") and self.mmode:
                return "(Rs.ok_or %s)" % self.V(recv)
            if name == "ok" and self.mmode: raise UnsupportedSyntax("`.ok()` on a Result inside an effectful function")
            if name == "collect" and len(e) > 4 and "Result" in (e[4] or ""):
                return "(Rs.collect_result %s)" % self.V(recv)
            if name == "insert" and recv[0] == "path" and len(recv[1]) == 1 and recv[1][0] in self.muts:
                raise UnsupportedSyntax("map insertion in expression position")
            if name in ERASED_METHODS:
                return self.V(recv)
            rty = self.type_of(recv) if self.knot or self.impl_type else None
            if rty and ("%s::%s" % (rty, name)) in self.fn_names:
                return "(%s %s)" % (self.fn_names["%s::%s" % (rty, name)], " ".join([self.V(recv)] + [self.V(a) for a in args]))
            if self.knot and name in ("evaluate", "execute", "from_value"):
                raise UnsupportedSyntax("cannot tell which `%s` is meant (receiver of unknown type)" % name)
            # closures over the operands of an operation: their parameter is an operand
            if name in ("map", "for_each", "all", "any", "filter", "fold") and args and args[-1][0] == "closure":
                ety = self.elem_type_of(recv)
                if ety:
                    for p_ in args[-1][1][-1:]:
                        q = p_[1] if (isinstance(p_, tuple) and p_ and p_[0] == "typed") else p_
                        while q[0] == "pref": q = q[1]
                        if q[0] == "bind": self.vartypes[q[1]] = ety
            if name == "map" and len(args) == 1 and self.is_identity_fn(args[0]):
                return self.V(recv)
            if name == "fold" and self.mmode and len(args) == 2 and args[1][0] == "closure" and self.returns_result(args[1][2]):
                # strict left fold whose accumulator is a `Result`: each step sees the *outcome* of the previous one (its log lines are already out)
                return "(Rs.foldM %s %s %s)" % (self.V(recv), self.V(args[0]), self.V(args[1]))
            if name not in RS_METHODS and name in self.fn_names and name not in self.bound:
                # a method of a crate type, translated as the function of its receiver
                return "(%s %s)" % (self.fn_names[name], " ".join([self.V(recv)] + [self.V(a) for a in args]))
            if name not in RS_METHODS:
                raise UnsupportedSyntax("method .%s()" % name)
            return "(Rs.%s %s)" % (name + "_" if name in ("max", "min", "then", "or", "eq", "lt", "le", "gt", "ge", "ne", "xor", "cmp") else name, " ".join([self.V(recv)] + [self.V(a) for a in args]))
        if k == "field":
            if e[2].isdigit():
                return "(%s).%d" % (self.V(e[1]), int(e[2]) + 1)
            if e[2] == "op": return "(%s).1" % self.V(e[1])            # OpArgs { op, args }
            if e[2] == "args": return "(%s).2" % self.V(e[1])
            if e[2] == "operator": return "(Rs.operator %s)" % self.V(e[1])
            if e[2] == "arguments": return "(Rs.arguments %s)" % self.V(e[1])
            if e[2] == "value": return "(Rs.value_ %s)" % self.V(e[1])
            raise UnsupportedSyntax("field access .%s" % e[2])
        if k == "index":
            return "(Rs.index %s %s)" % (self.V(e[1]), self.V(e[2]))
        if k == "unary":
            op = e[1]
            if op == "&mut" and e[2][0] == "path": raise UnsupportedSyntax("`&mut` borrow of a variable (aliasing is not translated)")
            if op in ("&", "&mut", "*"): return self.V(e[2])
            if op == "-": return "(Rs.neg %s)" % self.V(e[2])
            if op == "!": return "(!%s)" % self.V(e[2])
        if k == "binary":
            op = e[1]
            a, b = self.V(e[2]), self.V(e[3])
            if op in BINOPS: return "(%s %s %s)" % (BINOPS[op], a, b)
            if op == "!=": return "(!(Rs.eq %s %s))" % (a, b)
            if op in ("&&", "||"): return "(%s %s %s)" % (a, op, b)
            if op in ("|", "&", "^", "<<", ">>"):
                return "(Rs.%s %s %s)" % ({"|": "bitor", "&": "bitand", "^": "bitxor", "<<": "shl", ">>": "shr"}[op], a, b)
            raise UnsupportedSyntax("operator %s" % op)
        if k == "cast":
            ty = e[2].split("::")[-1]
            fnname = {"f64": "Rs.to_f64", "i64": "Rs.to_i64", "u64": "Rs.to_u64", "i128": "Rs.to_i128", "usize": "Rs.to_u64", "u32": "Rs.to_u64", "i32": "Rs.to_i64", "u8": "Rs.to_u8"}.get(ty)
            if not fnname: raise UnsupportedSyntax("cast as %s" % ty)
            return "(%s %s)" % (fnname, self.V(e[1]))
        if k == "tuple":
            if not e[1]: return "()"
            return "(" + ", ".join(self.V(x) for x in e[1]) + ")"
        if k == "array":
            return "[" + ", ".join(self.V(x) for x in e[1]) + "]"
        if k == "closure":
            params = e[1]
            names = []
            saved_muts, saved_rw, saved_loop, saved_in_m, saved_st = list(self.muts), self.ret_wrap, self.loop_ctx, self.in_m, self.state_tuple
            self.in_m = self.returns_result(e[2])
            self.state_tuple = None
            # a closure is its own function: captured `let mut` variables are read-only inside it, `return` leaves the closure
            self.muts = []
            self.ret_wrap = lambda v: v
            self.loop_ctx = None
            for p in params:
                if isinstance(p, tuple) and p and p[0] == "typed":
                    try:
                        names.append("(%s : %s)" % (self.pat(p[1]), lean_type(p[2], {})))
                    except UnsupportedSyntax:
                        names.append(self.pat(p[1]))
                    p = p[1]
                else:
                    names.append(self.pat(p))
                p_ = p
                while p_[0] == "pref": p_ = p_[1]
                if p_[0] == "bind" and p_[3]: self.muts.append(p_[1])
            try:
                body = self.E(e[2], lambda v: v)
            finally:
                self.muts, self.ret_wrap, self.loop_ctx, self.in_m, self.state_tuple = saved_muts, saved_rw, saved_loop, saved_in_m, saved_st
            if not names: return "(fun (_ : Unit) => %s)" % body
            return "(fun %s => %s)" % (" ".join(names), body)
        if k in ("if", "match", "block"):
            return self.E(e, lambda v: v)
        if k == "struct":
            if e[1][0] == "Error": return "()"             # an error value: which error is not modelled
            sname = e[1][-1] if e[1] != ["Self"] else self.impl_type
            if sname in STRUCT_CTOR and len(e[1]) == 1:
                fd = dict(e[2])
                if set(fd) != set(STRUCT_FIELDS[sname]): raise UnsupportedSyntax("%s literal with other fields" % sname)
                return "(%s %s)" % (STRUCT_CTOR[sname], " ".join(self.V(fd[f_]) for f_ in STRUCT_FIELDS[sname]))
            if e[1] == ["OpArgs"]:
                fd = dict(e[2])
                if set(fd) != {"op", "args"}: raise UnsupportedSyntax("OpArgs literal")
                return "(%s, %s)" % (self.V(fd["op"]), self.V(fd["args"]))
            raise UnsupportedSyntax("struct literal %s" % "::".join(e[1]))
        if k == "macro":
            if e[1] == "format": return "()"                # only ever part of an error value
            if e[1] == "vec":
                raw = e[2]
                if not raw: return "[]"
                toks = rsparse.tokenize("[" + " ".join(raw) + "]")
                return self.V(rsparse.Parser(toks).primary_expr(False))
            raise UnsupportedSyntax("macro %s!" % e[1])
        if k == "range":
            raise UnsupportedSyntax("range expression")
        raise UnsupportedSyntax("expression %s" % k)

    # ---- expressions/statements with continuation k : lean term text -> lean term text  (the value flows into k)
    def E(self, e, k):
        kind = e[0]
        if kind == "paren": return self.E(e[1], k)
        if kind == "return":
            if e[1] is None: return self.ret_wrap("()")
            rw = self.ret_wrap
            return self.E(e[1], lambda v: rw(v))
        if kind == "try" and self.mmode and self.state_tuple is not None:
            t = ident(self.fresh("q"))
            st = self.state_tuple
            return self.E(e[1], lambda v: "(Rs.tryS %s %s (fun %s => %s))" % (v, st(), t, k(t)))
        if kind == "try" and self.mmode:
            t = ident(self.fresh("q"))
            return self.E(e[1], lambda v: "(Rs.try_ %s (fun %s => %s))" % (v, t, k(t)))
        if kind == "try":
            t = ident(self.fresh("q"))
            rw = self.ret_wrap
            return self.E(e[1], lambda v: "(match %s with\n | some %s => %s\n | none => %s)" % (v, t, k(t), rw("none")))
        if kind == "continue":
            if self.loop_ctx is None: raise UnsupportedSyntax("continue outside a loop")
            return "(Rs.Flow.next %s)" % self.loop_ctx()
        if kind == "break":
            if self.loop_ctx is None: raise UnsupportedSyntax("break outside a loop")
            return "(Rs.Flow.brk %s)" % self.loop_ctx()
        if kind == "block":
            saved = list(self.muts)
            def k_end(v, saved=saved):
                inner = self.muts
                self.muts = list(saved)
                try: return k(v)
                finally: self.muts = inner
            return self.T(e[1], e[2], k_end)
        if kind == "if":
            cond, then, els = e[1], e[2], e[3]
            k2 = self.share(k)
            if cond[0] == "let":
                if self.has_effect(cond[2]): raise UnsupportedSyntax("control flow inside an `if let` scrutinee")
                alts = self.pat_alternatives(cond[1])
                arms = "".join("\n | %s" % self.pat(a) for a in alts)
                els_txt = self.E(els, k2[1]) if els is not None else k2[1]("()")
                body = "(match %s with%s => %s\n | _ => %s)" % (self.V(cond[2]), arms, self.E(then, k2[1]), els_txt)
                return k2[0](body)
            if self.has_effect(cond):
                return self.E(cond, lambda cv: self.E(("if", ("path", ["__VAL__" + cv]), then, els), k))
            els_txt = self.E(els, k2[1]) if els is not None else k2[1]("()")
            return k2[0]("(if %s then %s else %s)" % (self.V(cond), self.E(then, k2[1]), els_txt))
        if kind == "match":
            if self.has_effect(e[1]): return self.E(e[1], lambda v: self.E(("match", ("path", ["__VAL__" + v]), e[2]), k))
            scrut = e[1]
            k2 = self.share(k)
            tuple_scrut = None
            if scrut[0] == "tuple" and len(scrut[1]) >= 2:
                tuple_scrut = [self.V(x) for x in scrut[1]]
                head = ", ".join(tuple_scrut)
            elif scrut[0] == "path" and len(scrut[1]) == 1 and scrut[1][0].startswith("__VAL__"):
                head = scrut[1][0][7:]
            else:
                head = self.V(scrut)
            arms = []
            seen_pats = {}
            guarded_pats = set()
            arm_list = list(e[2])
            if tuple_scrut is None and self.expand_catch_all and arm_list:
                # a final catch-all over `Value` is spelled out constructor by constructor (Lean's termination checker does not
                # otherwise learn, inside the catch-all, which constructors were excluded by the arms before it)
                seen = []
                ok = True
                for pat, guard, body in arm_list[:-1]:
                    for a in self.pat_alternatives(pat):
                        a_ = a
                        while a_[0] == "pref": a_ = a_[1]
                        if a_[0] == "ptuplestruct" and tuple(a_[1]) in CTORS and a_[1][0] == "Value" and all(q[0] in ("wild", "bind") for q in a_[2]): seen.append(a_[1][1])
                        elif a_[0] == "ppath" and tuple(a_[1]) == ("Value", "Null"): seen.append("Null")
                        else: ok = False
                last = arm_list[-1]
                l_ = last[0]
                while l_[0] == "pref": l_ = l_[1]
                if ok and seen and l_[0] == "wild" and last[1] is None:
                    missing = [c for c in ("Null", "Bool", "Number", "String", "Array", "Object") if c not in seen]
                    alts_ = [("ppath", ["Value", "Null"]) if c == "Null" else ("ptuplestruct", ["Value", c], [("wild",)]) for c in missing]
                    if alts_:
                        arm_list[-1] = (("por", alts_) if len(alts_) > 1 else alts_[0], None, last[2])
            for ai, (pat, guard, body) in enumerate(arm_list):
                if guard is not None:
                    # `pat if g => body` : when pat matches but g is false, matching continues with the arms below
                    if self.has_effect(guard): raise UnsupportedSyntax("control flow in a match guard")
                    rest_arms = arm_list[ai + 1:]
                    if not rest_arms: raise UnsupportedSyntax("guard on the last arm")
                    body = ("if", guard, ("block", [], body), ("block", [], ("match", scrut, rest_arms)))
                    guarded_irrefutable = all(self.irrefutable(a) for a in self.pat_alternatives(pat))
                else:
                    guarded_irrefutable = False
                alts = self.pat_alternatives(pat)
                pts = []
                for a in alts:
                    # a scrutinee that is a plain variable keeps its name inside the arm (`x@(pattern)`), so that uses of the
                    # variable in the arm are uses of the matched value (needed for termination arguments, harmless otherwise)
                    def named(var_txt, q):
                        q_ = q
                        while q_[0] == "pref": q_ = q_[1]
                        if re.match(r"^[A-Za-z_][A-Za-z_0-9]*$", var_txt) is None: return self.pat(q)
                        if q_[0] == "wild": return var_txt
                        if q_[0] == "bind": return self.pat(q_)
                        return "%s@%s" % (var_txt, self.pat(q_)) if self.pat(q_).startswith("(") else "%s@(%s)" % (var_txt, self.pat(q_))
                    if tuple_scrut is not None:
                        a_ = a
                        while a_[0] == "pref": a_ = a_[1]
                        if a_[0] == "ptuple" and len(a_[1]) == len(tuple_scrut):
                            pts.append(", ".join(named(v_, q) for v_, q in zip(tuple_scrut, a_[1])))
                        elif a_[0] == "wild":
                            pts.append(", ".join(named(v_, ("wild",)) for v_ in tuple_scrut))
                        else:
                            raise UnsupportedSyntax("pattern on a tuple scrutinee")
                    else:
                        pts.append(named(head, a))
                body_txt = self.E(body, k2[1])
                # arms that differ only by `Evaluated::New` / `Evaluated::Raw` (owned or borrowed result) coincide after erasure
                fresh_pts = []
                for p_ in pts:
                    if p_ in guarded_pats:
                        continue          # reached only through the else-branch of the guarded arm with the same pattern above (already emitted there)
                    if p_ in seen_pats:
                        if self.strip_fresh(seen_pats[p_]) != self.strip_fresh(body_txt): raise UnsupportedSyntax("arms that differ only by Evaluated::New / Evaluated::Raw have different bodies")
                    else:
                        seen_pats[p_] = body_txt; fresh_pts.append(p_)
                        if guard is not None: guarded_pats.add(p_)
                if not fresh_pts: continue
                pts = fresh_pts
                arms.append("".join("\n | %s" % p for p in pts) + " => " + body_txt)
                if guarded_irrefutable: break          # the arms below are reached through the guard's else-branch only
            return k2[0]("(match %s with%s)" % (head, "".join(arms)))
        if kind in ("while", "loop"):
            raise UnsupportedSyntax("`%s` loop (only `for` over a finite iterator is translated)" % kind)
        if kind == "mcall" and e[2] == "fold" and self.mutref_fold(e):
            return self.fold_over_mutref(e, k)
        if kind == "mcall" and e[2] == "fold" and self.captured_by_fold(e):
            return self.fold_with_state(e, k)
        if kind == "call" and self.mem_take_var(e):
            x = ident(self.mem_take_var(e)); t = ident(self.fresh("t"))
            return "(let %s := %s\n (let %s := default\n %s))" % (t, x, x, k(t))          # the old contents; the variable is left at its type's default
        if kind == "assign":
            return self.assign(e, k)
        if kind == "for":
            return self.for_loop(e, k)
        if kind == "mcall" and e[2] in MUTATING_METHODS and e[1][0] == "path" and len(e[1][1]) == 1 and (e[1][1][0] in self.muts or (self.mut_all and e[1][1][0] in self.bound)):
            name = ident(e[1][1][0])
            args = e[3]
            if any(self.has_effect(a) for a in args):
                # evaluate the arguments first (left to right), then the call on their values
                def go(i, acc):
                    if i == len(args):
                        return self.E(("mcall", e[1], e[2], [("path", ["__VAL__" + a]) for a in acc]), k)
                    return self.E(args[i], lambda v: go(i + 1, acc + [v]))
                return go(0, [])
            if e[2] in ("next", "pop"):          # yields a value and advances / shrinks the receiver
                pr = ident(self.fresh("p"))
                return "(let %s := (Rs.%s %s)\n (let %s := %s.2\n %s))" % (pr, e[2], name, name, pr, k(pr + ".1"))
            return "(let %s := (Rs.%s %s)\n %s)" % (name, MUTATING_METHODS[e[2]], " ".join([name] + [self.V(a) for a in args]), k("()"))
        if not self.has_effect(e):
            return k(self.V(e))
        # an operator / call with an effectful operand: evaluate operands left to right
        return self.seq_children(e, k)

    def type_of(self, e):
        """crate type of an expression, where it is evident (variables typed by a pattern / a `from_value` call, `self`, `self.operator`)"""
        while e[0] in ("paren",) or (e[0] == "unary" and e[1] in ("&", "*")): e = e[1] if e[0] == "paren" else e[2]
        if e[0] == "path" and len(e[1]) == 1:
            if e[1][0] == "self": return self.impl_type
            return self.vartypes.get(e[1][0])
        if e[0] == "field" and e[2] == "operator":
            t = self.type_of(e[1])
            return OPERATOR_OF.get(t)
        return None

    def elem_type_of(self, e):
        while e[0] in ("paren",) or (e[0] == "unary" and e[1] in ("&", "*")) or (e[0] == "mcall" and e[2] in ("iter", "into_iter")): e = e[1] if e[0] != "unary" else e[2]
        if e[0] == "field" and e[2] == "arguments":
            return ARG_ELEM.get(self.type_of(e[1]))
        return None

    def is_identity_fn(self, a):
        if a[0] == "path" and tuple(a[1]) in (("Value", "clone"), ("Clone", "clone"), ("String", "clone"), ("Value", "from"), ("Evaluated", "New"), ("Evaluated", "Raw")): return True
        if a[0] == "closure" and len(a[1]) == 1:
            p = a[1][0]
            while p[0] == "pref": p = p[1]
            if p[0] != "bind": return False
            b = a[2]
            while True:
                if b[0] == "paren": b = b[1]
                elif b[0] == "unary" and b[1] in ("&", "*"): b = b[2]
                elif b[0] == "mcall" and b[2] in ("clone", "to_owned", "into") and not b[3]: b = b[1]
                elif b[0] == "block" and not b[1] and b[2] is not None: b = b[2]
                else: break
            return b[0] == "path" and b[1] == [p[1]]
        return False

    def returns_result(self, body):
        """does this closure body produce a `Result` (it mentions Ok(..) / Err(..) / `?` outside nested closures)"""
        def walk(n):
            if isinstance(n, tuple):
                if n and n[0] == "closure": return False
                if n and n[0] == "try": return True
                if n and n[0] == "call" and n[1][0] == "path" and tuple(n[1][1]) in (("Ok",), ("Err",)): return True
                if n and n[0] == "mcall" and n[2] in ("and_then",) : return True
                return any(walk(c) for c in n)
            if isinstance(n, list): return any(walk(c) for c in n)
            return False
        return walk(body)

    def strip_fresh(self, t):
        return re.sub(r"\b([a-z]+)_\d+\b", r"\1_N", t)

    def share(self, k):
        """a continuation that is about to be used in several branches: small ones are duplicated, large ones are bound once
        (as a local function of the value and of the mutable variables in scope, which the branches may have re-bound)"""
        saved = list(self.muts)
        probe = k("‹v›")
        self.muts = saved
        if len(probe) <= 160:
            return (lambda body: body), (lambda v: probe.replace("‹v›", v))
        name = ident(self.fresh("k"))
        ms = [ident(m) for m in self.muts]
        if ms:
            params = "(%s)" % ", ".join([name + "_arg"] + ms)
            return (lambda body: "(let %s := fun %s => %s\n %s)" % (name, params, probe.replace("‹v›", name + "_arg"), body)), (lambda v: "(%s (%s))" % (name, ", ".join([v] + ms)))
        return (lambda body: "(let %s := fun %s_arg => %s\n %s)" % (name, name, probe.replace("‹v›", name + "_arg"), body)), (lambda v: "(%s %s)" % (name, v))

    def assign(self, e, k):
        _, op, lhs, rhs = e
        while lhs[0] in ("paren",) or (lhs[0] == "unary" and lhs[1] == "*"): lhs = lhs[1] if lhs[0] == "paren" else lhs[2]
        if lhs[0] != "path" or len(lhs[1]) != 1 or lhs[1][0] not in self.muts:
            raise UnsupportedSyntax("assignment to something other than a `let mut` variable")
        name = ident(lhs[1][0])
        def fin(v):
            if op == "=": val = v
            else:
                fn = {"+=": "Rs.add", "-=": "Rs.sub", "*=": "Rs.mul", "/=": "Rs.div", "%=": "Rs.rem", "|=": "Rs.bitor", "&=": "Rs.bitand", "^=": "Rs.bitxor", "<<=": "Rs.shl", ">>=": "Rs.shr"}[op]
                val = "(%s %s %s)" % (fn, name, v)
            return "(let %s := %s\n %s)" % (name, val, k("()"))
        return self.E(rhs, fin)

    def assigned(self, e, acc):
        """names of `let mut` variables (of the enclosing scope) that e may re-bind"""
        if not isinstance(e, (tuple, list)): return
        if isinstance(e, tuple) and e and e[0] == "assign":
            l = e[2]
            while l[0] == "paren" or (l[0] == "unary" and l[1] == "*"): l = l[1] if l[0] == "paren" else l[2]
            if l[0] == "path" and len(l[1]) == 1: acc.add(l[1][0])
        if isinstance(e, tuple) and e and e[0] == "mcall" and e[2] in MUTATING_METHODS and e[1][0] == "path" and len(e[1][1]) == 1:
            acc.add(e[1][1][0])
        if isinstance(e, tuple) and e and e[0] == "closure": return
        for c in e:
            if isinstance(c, (tuple, list)): self.assigned(c, acc)

    def captured_by_fold(self, e):
        """the `let mut` variables of the enclosing scope that the closure of `iter.fold(init, closure)` re-binds"""
        if not (len(e[3]) == 2 and e[3][1][0] == "closure"): return []
        acc = set(); self.assigned(e[3][1][2], acc)
        return [m for m in self.muts if m in acc]

    def mutref_fold(self, e):
        """`iter.fold(Ok(&mut x), |acc, i| { let r = acc?; r.push_str(..); Ok(r) })`: the accumulator is a unique `&mut` borrow of
        the variable `x`, handed from step to step; returns x, or None"""
        if not (len(e[3]) == 2 and e[3][1][0] == "closure"): return None
        init = e[3][0]
        while init[0] == "paren": init = init[1]
        if init[0] == "call" and init[1][0] == "path" and tuple(init[1][1]) == ("Ok",) and len(init[2]) == 1: init = init[2][0]
        if init[0] == "unary" and init[1] == "&mut" and init[2][0] == "path" and len(init[2][1]) == 1 and init[2][1][0] in self.muts:
            return init[2][1][0]
        return None

    def fold_over_mutref(self, e, k):
        """the borrow is unique, so passing the *value* from step to step and putting the final value back into the variable is the
        same computation; inside the closure the names bound from the accumulator may be appended to"""
        x = self.mutref_fold(e)
        recv, (init, clo) = e[1], e[3]
        if self.has_effect(recv): raise UnsupportedSyntax("control flow in the operands of a fold")
        def strip_mut(n):
            if isinstance(n, tuple):
                if len(n) == 3 and n[0] == "unary" and n[1] == "&mut" and n[2] == ("path", [x]): return ("path", [x])
                return tuple(strip_mut(c) for c in n)
            if isinstance(n, list): return [strip_mut(c) for c in n]
            return n
        init2 = strip_mut(init)
        saved_all = self.mut_all
        self.mut_all = True          # inside this closure every local may be the unique borrow: `r.push_str(..)` re-binds `r`
        try:
            folded = self.V(("mcall", recv, "fold", [init2, clo]))
        finally:
            self.mut_all = saved_all
        r = ident(self.fresh("r"))
        # the fold's value is the (Result of the) final borrow: the variable now holds that value
        if self.mmode:
            return "(Rs.strict %s (fun %s => %s))" % (folded, r, "(let %s := (Rs.settled_value %s %s)\n %s)" % (ident(x), r, ident(x), k(r)))
        return "(let %s := %s\n (let %s := (Rs.unwrap_or %s %s)\n %s))" % (r, folded, ident(x), r, ident(x), k(r))

    def fold_with_state(self, e, k):
        """`iter.fold(Ok(init), |acc, x| …)` in logging code whose closure also pushes to / re-binds captured variables:
        a strict fold over (settled outcome, those variables)"""
        if not self.mmode: raise UnsupportedSyntax("a fold closure that mutates captured variables outside logging code")
        recv, (init, clo) = e[1], e[3]
        if self.has_effect(recv) or self.has_effect(init): raise UnsupportedSyntax("control flow in the operands of a fold")
        if len(clo[1]) != 2: raise UnsupportedSyntax("fold closure arity")
        if not self.returns_result(clo[2]): raise UnsupportedSyntax("a fold closure that mutates captured variables and does not yield a Result")
        state = self.captured_by_fold(e)
        tup = lambda: ("(" + ", ".join(ident(m) for m in state) + ")") if len(state) != 1 else ident(state[0])
        st0 = tup()
        saved = (list(self.muts), self.ret_wrap, self.loop_ctx, self.in_m, self.state_tuple)
        self.muts = list(state); self.loop_ctx = None; self.in_m = True; self.state_tuple = tup
        self.ret_wrap = lambda v: "(%s, %s)" % (v, tup())
        names = []
        for p in clo[1]:
            if isinstance(p, tuple) and p and p[0] == "typed": p = p[1]
            names.append(self.pat(p))
            p_ = p
            while p_[0] == "pref": p_ = p_[1]
            if p_[0] == "bind" and p_[3]: self.muts.append(p_[1])
        try:
            body = self.E(clo[2], lambda v: "(%s, %s)" % (v, tup()))
        finally:
            self.muts, self.ret_wrap, self.loop_ctx, self.in_m, self.state_tuple = saved
        r = ident(self.fresh("r"))
        return "(match (Rs.foldMS %s %s %s (fun %s %s %s => %s)) with\n | (%s, %s) => %s)" % (self.V(recv), self.V(init), st0, names[0], st0, names[1], body, r, st0, k(r))

    def for_loop(self, e, k):
        _, pat, it, body = e
        if self.has_effect(it): raise UnsupportedSyntax("control flow in a loop's iterator")
        acc = set(); self.assigned(body, acc)
        state = [m for m in self.muts if m in acc]
        st = "(" + ", ".join(ident(m) for m in state) + ")" if len(state) != 1 else ident(state[0])
        st_pat = st if state else "(_ : Unit)"
        outer_rw, outer_loop, saved_muts = self.ret_wrap, self.loop_ctx, list(self.muts)
        self.ret_wrap = lambda v: "(Rs.Flow.ret %s)" % v
        self.loop_ctx = lambda: st
        try:
            body_txt = self.T(body[1], body[2], lambda _v: "(Rs.Flow.next %s)" % st)
        finally:
            self.ret_wrap, self.loop_ctx, self.muts = outer_rw, outer_loop, saved_muts
        r = ident(self.fresh("r"))
        return "(match (Rs.for_ %s %s (fun %s %s => %s)) with\n | Rs.LoopOut.ret %s => %s\n | Rs.LoopOut.done %s => %s)" % (
            self.V(it), st, st_pat, self.pat(pat), body_txt, r, outer_rw(r), st_pat if state else "_", k("()"))

    def seq_children(self, e, k):
        kind = e[0]
        if kind == "call":
            args = list(e[2])
            def go(i, acc):
                if i == len(args):
                    return k(self.V(("call", e[1], [("path", ["__VAL__" + a]) for a in acc])))
                return self.E(args[i], lambda v: go(i + 1, acc + [v]))
            return go(0, [])
        if kind == "mcall":
            parts = [e[1]] + list(e[3])
            def go(i, acc):
                if i == len(parts):
                    return k(self.V(("mcall", ("path", ["__VAL__" + acc[0]]), e[2], [("path", ["__VAL__" + a]) for a in acc[1:]])))
                return self.E(parts[i], lambda v: go(i + 1, acc + [v]))
            return go(0, [])
        if kind in ("unary", "cast"):
            idx = 2 if kind == "unary" else 1
            def fin(v):
                e2 = list(e); e2[idx] = ("path", ["__VAL__" + v])
                return k(self.V(tuple(e2)))
            return self.E(e[idx], fin)
        if kind == "binary":
            if e[1] in ("&&", "||"): raise UnsupportedSyntax("control flow inside a short-circuit operand")
            return self.E(e[2], lambda a: self.E(e[3], lambda b: k(self.V(("binary", e[1], ("path", ["__VAL__" + a]), ("path", ["__VAL__" + b]))))))
        if kind == "struct":
            fields = list(e[2])
            def go(i, acc):
                if i == len(fields): return k(self.V(("struct", e[1], [(fn_, ("path", ["__VAL__" + v])) for (fn_, _), v in zip(fields, acc)])))
                return self.E(fields[i][1], lambda v: go(i + 1, acc + [v]))
            return go(0, [])
        if kind == "tuple":
            items = list(e[1])
            def go(i, acc):
                if i == len(items): return k("(" + ", ".join(acc) + ")")
                return self.E(items[i], lambda v: go(i + 1, acc + [v]))
            return go(0, [])
        raise UnsupportedSyntax("control flow inside `%s`" % kind)

    def T(self, stmts, tail, k):
        if not stmts:
            if tail is None: return k("()")
            return self.E(tail, k)
        s, rest = stmts[0], stmts[1:]
        cont = lambda: self.T(rest, tail, k)
        if s[0] == "let":
            _, pat, ty, init, els = s
            if init is None:
                if pat[0] != "bind": raise UnsupportedSyntax("`let` without initialiser and with a pattern")
                if pat[1] not in self.muts: self.muts.append(pat[1])             # assigned later (at most once on every path - Rust checks that)
                if ty is None: raise UnsupportedSyntax("`let` without initialiser and without a type")
                return "(let %s : %s := default\n %s)" % (ident(pat[1]), lean_type(ty, {}), cont())
            if pat[0] == "bind" and pat[3]:
                def after(v, name=pat[1]):
                    if name not in self.muts: self.muts.append(name)
                    return "(let %s := %s\n %s)" % (ident(name), v, cont())
                return self.E(init, after)
            if els is not None:
                if not self.diverges(els): raise UnsupportedSyntax("let-else whose else does not return")
                return self.E(init, lambda v: "(match %s with\n | %s => %s\n | _ => %s)" % (v, self.pat(pat), cont(), self.E(els, lambda v: v)))
            if pat[0] == "bind":
                j_ = init
                while j_[0] in ("paren", "try") or (j_[0] == "unary" and j_[1] in ("&", "*")): j_ = j_[1] if j_[0] != "unary" else j_[2]
                if j_[0] == "call" and j_[1][0] == "path" and len(j_[1][1]) == 2 and j_[1][1][1] == "from_value" and j_[1][1][0] in ("Parsed", "Operation", "LazyOperation", "DataOperation", "Raw"):
                    self.vartypes[pat[1]] = j_[1][1][0]
            if self.irrefutable(pat):
                i_ = init
                while i_[0] == "paren" or (i_[0] == "unary" and i_[1] in ("&", "*")): i_ = i_[1] if i_[0] == "paren" else i_[2]
                if self.mmode and self.in_m and self.state_tuple is None and i_[0] in ("call", "mcall"):
                    # a `Result` that is computed here and looked at later has had its effects (log lines) here
                    return self.E(init, lambda v: "(Rs.strict %s (fun %s => %s))" % (v, self.pat(pat), cont()))
                return self.E(init, lambda v: "(let %s := %s\n %s)" % (self.pat(pat), v, cont()))
            return self.E(init, lambda v: "(match %s with\n | %s => %s)" % (v, self.pat(pat), cont()))
        if s[0] == "expr" and s[1][0] == "macro" and s[1][1] == "println":
            if not self.mmode: raise UnsupportedSyntax("println! outside an effectful function")
            raw = s[1][2]
            # only the form the crate uses: println!("{}", expr)
            if len(raw) < 3 or raw[0] != '"{}"' or raw[1] != ",": raise UnsupportedSyntax("println! with a format other than \"{}\"")
            toks = rsparse.tokenize(" ".join(raw[2:]))
            arg = rsparse.Parser(toks).expr()
            return "(Rs.try_ (M.log %s) (fun (_ : Unit) => %s))" % (self.V(arg), cont())
        if s[0] == "expr" and s[1][0] == "mcall" and s[1][2] == "for_each" and len(s[1][3]) == 1 and s[1][3][0][0] == "closure" and len(s[1][3][0][1]) == 1:
            # `iter.for_each(|p| body);` is `for p in iter { body }`
            clo = s[1][3][0]
            body = clo[2] if clo[2][0] == "block" else ("block", [("expr", clo[2], True)], None)
            return self.T([("expr", ("for", clo[1][0], s[1][1], body), False)] + list(rest), tail, k)
        if s[0] == "expr":
            e = s[1]
            if self.diverges(e):
                return self.E(e, lambda v: v)
            if not self.has_effect(e):
                # an expression statement whose value is dropped (e.g. `match x { _ => {} };`): it is still translated, so that anything
                # in it that the translation cannot express (a mutation through a closure, an unknown call) is noticed, then dropped
                self.V(e)
                return cont()
            return self.E(e, lambda _v: cont())
        if s[0] == "const":
            return "(let %s := %s\n %s)" % (ident(s[1]), self.V(s[3]), cont())
        if s[0] == "item":
            raise UnsupportedSyntax("nested fn must be hoisted")
        raise UnsupportedSyntax("statement %s" % s[0])

    # `__VAL__x` paths carry already-translated Lean text through V
    def V_path_hook(self):
        pass


_orig_V = Emitter.V
def _V(self, e):
    if e[0] == "path" and len(e[1]) == 1 and e[1][0].startswith("__VAL__"):
        return e[1][0][7:]
    return _orig_V(self, e)
Emitter.V = _V


# --------------------------------------------------------------------------------------------------------------- driver

def bound_names(node, acc):
    """every identifier bound by a pattern somewhere in a function body"""
    if isinstance(node, tuple):
        if node and node[0] == "bind" and len(node) == 5 and isinstance(node[1], str):
            acc.add(node[1])
        for c in node: bound_names(c, acc)
    elif isinstance(node, list):
        for c in node: bound_names(c, acc)
    elif isinstance(node, dict):
        for c in node.values(): bound_names(c, acc)


def translate_fn(f, lean_name, fn_names, extra_local=None, file_fns=None, aux_done=None, attr="", force_m=False):
    """Lean text of one function (preceded by the auxiliaries it needs from the same file)"""
    file_fns = file_fns or {}
    aux_done = aux_done if aux_done is not None else {}
    generics = {}
    # generic parameters: T (element type) / S: AsRef<str>
    toks = f.get("tokens", [])
    sig = " ".join(toks[:toks.index("(")]) if "(" in toks else ""
    binders = []
    for m in re.finditer(r"\b([A-Z])\b(?:\s*:\s*AsRef\s*<\s*str\s*>)?", sig.split(f["name"], 1)[1] if f["name"] in sig else ""):
        g = m.group(1)
        if re.search(r"\b%s\s*:\s*CommonOperator\b" % g, sig):
            generics[g] = "Rs.OpRef"         # an operator: the reference of a table entry (its key and arity)
            continue
        if "AsRef" in m.group(0):
            generics[g] = "Str"
        else:
            generics[g] = "α_" + g
            binders.append("{α_%s : Type}" % g)
    qual = f.get("qual") or (("%s::%s" % (f.get("impl"), f["name"])) if f.get("impl") else f["name"])
    mmode = ((f["name"] in M_FUNCS or qual in M_FUNCS) and not attr and "." not in lean_name) or force_m
    knot = qual in KNOT and (qual != "apply" or f.get("impl") is None)
    MMODE[0] = mmode
    KNOTMODE[0] = knot
    SELF_TYPE[0] = {"NumParams": "Arity", "Operator": "Rs.OpRef", "LazyOperator": "Rs.OpRef", "DataOperator": "Rs.OpRef", "Operation": "Rs.POperation", "LazyOperation": "Rs.PLazy",
                    "DataOperation": "Rs.PData", "Raw": "Rs.PRaw", "Parsed": "Rs.PParsed"}.get(f.get("impl"), "Arity")
    full_sig = " ".join(toks[:toks.index("{")]) if "{" in toks else sig
    for m in re.finditer(r"\b([A-Z])\s*:\s*Fn(?:Mut|Once)?\s*\(([^)]*)\)\s*->\s*([\w:<> ]+?)\s*(?:,|$|\{|>)", full_sig):
        g = m.group(1)
        argtys = [a.strip() for a in m.group(2).split(",") if a.strip()]
        generics[g] = "(" + " → ".join([lean_type(a, generics) for a in argtys] + [lean_type(m.group(3).strip(), generics)]) + ")"
        binders = [b for b in binders if b != "{α_%s : Type}" % g]
    params = []
    if qual in CODEC_FUNCS:
        params += ["(parse_ : Str → Option Json)", "(ser_ : Json → Str)"]
    for pat, ty in f["params"]:
        if pat[0] != "bind": raise UnsupportedSyntax("parameter pattern")
        params.append("(%s : %s)" % (ident(pat[1]), lean_type(ty, generics)))
    ret = lean_type(f["ret"], generics) if f["ret"] else "Unit"
    # hoist nested fns and enums
    local_fns = dict(extra_local or {})
    local_ctors = {}
    pre = []
    body = f["body"]
    stmts = []
    for s in body[1]:
        if s[0] == "item":
            sub = s[1]
            sub_name = lean_name + "." + sub["name"]
            pre.append(translate_fn(sub, sub_name, fn_names, local_fns, file_fns, aux_done))
            MMODE[0] = mmode; KNOTMODE[0] = knot
            local_fns[sub["name"]] = "Gen." + sub_name
        elif s[0] == "enum":
            ename = "%s.%s" % (lean_name, s[1])
            lines = ["inductive %s where" % ename]
            for vname, tys in s[2]:
                lines.append("  | %s %s" % (vname, " ".join("(a%d : %s)" % (i, lean_type(t, generics)) for i, t in enumerate(tys))))
                local_ctors[(s[1], vname)] = "Gen.%s.%s" % (ename, vname)
            pre.append("\n".join(lines) + "\n\n")
        else:
            stmts.append(s)
    em = Emitter(fn_names, local_fns)
    em.mmode = mmode
    em.local_ctors = local_ctors
    em.impl_type = f.get("impl")
    em.knot = knot
    if attr and lean_name.startswith("aux_"): em.self_aux = f["name"]
    em.codec = qual in CODEC_FUNCS
    if em.codec:
        em.knot = True            # `crate::apply` is the translated apply
        em.json_vars = {"res", "result", "value_json", "data_json", "v", "out"}
    em.expand_catch_all = f["name"] in TERMINATION
    em.file_fns = {k: v for k, v in file_fns.items() if k != f["name"]}
    bound_names((f["params"], body), em.bound)
    for pat, _ in f["params"]:
        if pat[0] == "bind" and pat[3]: em.muts.append(pat[1])
    term = em.T(stmts, body[2], lambda v: v)
    # auxiliaries: other functions of the same file that are called but have no model counterpart of their own; they are translated
    # too and carry the `rs` simp attribute, so that tie proofs see through them
    for name in em.needed:
        if name in aux_done: continue
        hf = file_fns.get(name)
        if hf is None or "error" in hf: raise UnsupportedSyntax("calls `%s`, which cannot be translated (%s)" % (name, (hf or {}).get("error", "not found")))
        aux_done[name] = True
        AUX_PIECES.append(("aux_" + name, translate_fn(hf, "aux_" + name, fn_names, None, file_fns, aux_done, attr="@[rs] ")))
        MMODE[0] = mmode; KNOTMODE[0] = knot
    uses_self = re.search(r"\bGen\.%s\b" % re.escape(lean_name), term) is not None
    text = "".join(pre)
    INFO[lean_name] = dict(binders=binders, names=[ident(pat[1]) for pat, _ in f["params"]], types=[lean_type(ty, generics) for _, ty in f["params"]], ret=ret, term=term, pre="".join(pre))
    if uses_self and (f["name"] in FUEL or (attr and any(t == "Json" for t in [lean_type(ty, generics) for _, ty in f["params"]]))):
        term = re.sub(r"\bGen\.%s\b" % re.escape(lean_name), "(Gen.%s.go fuel)" % lean_name, term)
        names = [ident(pat[1]) for pat, _ in f["params"]]
        tys = [lean_type(ty, generics) for _, ty in f["params"]]
        text += "def %s.go %s : Nat → %s → %s\n | 0, %s => default\n | fuel + 1, %s =>\n %s\n" % (lean_name, " ".join(binders), " → ".join(tys), ret, ", ".join("_" for _ in names), ", ".join(names), term)
        depth = " + ".join("Json.depth %s" % n for n, t in zip(names, tys) if t == "Json") or "0"
        text += "def %s %s : %s :=\n %s.go (%s + 1) %s\n\n" % (lean_name, " ".join(binders + params), ret, lean_name, depth, " ".join(names))
        return text
    if uses_self and f["name"] not in TERMINATION and attr:
        raise UnsupportedSyntax("recursive auxiliary function `%s` without a JSON argument to bound it" % f["name"])
    text += "%sdef %s %s : %s :=\n %s\n" % (attr, lean_name, " ".join(binders + params), ret, term)
    if uses_self and f["name"] in TERMINATION:
        text += TERMINATION[f["name"]] + "\n"
    return text + "\n"


def generate(excluded):
    """one generation pass; `excluded`: rust fn -> reason (these are taken from the hand-written model instead)"""
    cache = {}
    fn_names = dict(MODEL_FNS)
    for _, rs, ln, _, model in FUNCS:
        fn_names[rs] = model if rs in excluded else "Gen." + ln
    out = ["/- GENERATED by tools/rs2lean.py from /repo's current source - do not edit -/",
           "import JL.Rs", "set_option linter.unusedVariables false", "namespace JL", "namespace Gen", ""]
    status = {}
    spans = []
    aux_done = {}
    aux_owner = {}
    pieces = []
    for path, rs, ln, props, model in FUNCS:
        if rs in excluded:
            status[rs] = dict(translated=False, reason=excluded[rs], props=props, model=model, file=path)
            continue
        if path not in cache:
            try:
                cache[path] = rsparse.find_functions(open(os.path.join(REPO, path), encoding="utf-8").read())
            except Exception as ex:
                cache[path] = {}
        fs = cache[path]
        if rs == "python_iface::apply":       # the `apply(&str, &str) -> Result<String, String>` of the Python binding
            cands = [v for k_, v in fs.items() if v.get("name") == "apply" and "error" not in v and len(v.get("params", [])) == 2 and all("str" in ty for _, ty in v["params"]) and "String" in (v.get("ret") or "")]
            if cands:
                fs = dict(fs); fs[rs] = dict(cands[0]); fs[rs]["qual"] = rs
        if rs not in fs:
            status[rs] = dict(translated=False, reason="function not found in %s" % path, props=props, model=model, file=path)
            fn_names[rs] = model
            continue
        f = fs[rs]
        if rs == "apply":          # lib.rs has several `apply`s (wasm, python); the crate's own one is the free function on two `&Value`s
            cands = [v for k_, v in fs.items() if v.get("name") == "apply" and "error" not in v and v.get("impl") is None and len(v["params"]) == 2
                     and all("Value" in ty for _, ty in v["params"]) and v.get("ret") and "Value" in v["ret"] and "Js" not in v["ret"]]
            if cands: f = cands[0]
        if "error" in f:
            status[rs] = dict(translated=False, reason="syntax outside the translated subset: " + f["error"], props=props, model=model, file=path)
            fn_names[rs] = model
            continue
        try:
            listed = {r for p_, r, _, _, _ in FUNCS if p_ == path} | set(MODEL_FNS)
            file_fns = {k: v for k, v in fs.items() if k not in listed and "@" not in k}
            del AUX_PIECES[:]
            txt = translate_fn(f, ln, fn_names, None, file_fns, aux_done)
            for an, atxt in AUX_PIECES:
                pieces.append(("aux:" + an, an, path, atxt)); aux_owner["aux:" + an] = rs
            pieces.append((rs, ln, path, txt))
            status[rs] = dict(translated=True, props=props, model=model, lean="JL.Gen." + ln, file=path)
        except UnsupportedSyntax as ex:
            status[rs] = dict(translated=False, reason="outside the translated subset: " + str(ex), props=props, model=model, file=path)
            fn_names[rs] = model
        except Exception as ex:          # a shape the translator's own code did not foresee: the function is simply not translated
            status[rs] = dict(translated=False, reason="outside the translated subset (translator: %s: %s)" % (type(ex).__name__, str(ex)[:120]), props=props, model=model, file=path)
            fn_names[rs] = model
    # mutually recursive groups become one piece: a `mutual` block over a shared fuel argument
    for grp in GROUPS:
        members = [p_ for p_ in pieces if p_[0] in grp]
        if len(members) != len(grp): continue          # not all translated: the remaining ones will be rejected by Lean and fall out
        lnames = [p_[1] for p_ in members]
        blocks = []; wrappers = []
        for rs_, ln_, path_, _ in members:
            inf = INFO[ln_]
            term = inf["term"]
            for other in lnames:
                term = re.sub(r"\bGen\.%s\b(?!\.)" % re.escape(other), "(Gen.%s.go fuel)" % other, term)
            blocks.append("def %s.go : Nat → %s → %s\n | 0, %s => default\n | fuel + 1, %s =>\n %s" % (ln_, " → ".join(inf["types"]), inf["ret"], ", ".join("_" for _ in inf["names"]),
                                                                                                   ", ".join(inf["names"]), term))
            fuel = "4 * (" + " + ".join("Rs.fuelOf %s" % n_ for n_ in inf["names"]) + ") + 4"
            wrappers.append("/-- `%s` (%s) -/\ndef %s %s : %s :=\n %s.go (%s) %s\n" % (rs_, path_, ln_, " ".join("(%s : %s)" % (n_, t_) for n_, t_ in zip(inf["names"], inf["types"])), inf["ret"], ln_, fuel, " ".join(inf["names"])))
        txt = "".join(INFO[ln_]["pre"] for ln_ in lnames) + "mutual\n" + "\n".join(blocks) + "\nend\n\n" + "\n".join(wrappers) + "\n"
        first = members[0]
        pieces = [p_ for p_ in pieces if p_[0] not in grp or p_ is first]
        pieces = [(first[0], first[1], first[2], txt) if p_ is first else p_ for p_ in pieces]
        GROUP_OF.update({ln_: first[1] for ln_ in lnames})
    # definitions are written callee first, whatever the order of the source file (a function defined through a later one is fine in Rust)
    lean_of = {ln: rs for rs, ln, _, _ in pieces}
    for ln_, rep in GROUP_OF.items():
        if rep in lean_of: lean_of[ln_] = lean_of[rep]
    uses_tables = {rs for rs, ln, _, txt in pieces if re.search(r"\bGen\.(eager_call|lazy_call|data_call)\b", txt)}
    deps = {rs: {lean_of[m] for m in re.findall(r"\bGen\.(\w+)", txt) if m in lean_of and lean_of[m] != rs} for rs, ln, _, txt in pieces}
    ordered = []; placed = set(); remaining = list(pieces)
    while remaining:
        ready = [p_ for p_ in remaining if deps[p_[0]] <= placed]
        if not ready:      # a cycle between separately listed functions: keep the listed order, Lean will reject what it must
            ready = [remaining[0]]
        for p_ in ready:
            ordered.append(p_); placed.add(p_[0]); remaining.remove(p_)
    after = set()
    for rs, ln, path, txt in ordered:
        if rs in uses_tables or (deps[rs] & after): after.add(rs)
    def emit(items):
        for rs, ln, path, txt in items:
            start = sum(x.count("\n") + 1 for x in out) + 1
            out.append(("/-- `%s` (%s) -/" if "mutual\n" not in txt else "/- `%s` (%s) and the functions it is mutually recursive with -/") % (rs, path))
            out.append(txt)
            end = sum(x.count("\n") + 1 for x in out)
            spans.append((start, end, rs))
    emit([p_ for p_ in ordered if p_[0] not in after])
    try:
        start = sum(x.count("\n") + 1 for x in out) + 1
        ttxt = generate_tables(fn_names, status) if "__tables__" not in excluded else ""
        out.append(ttxt)
        if ttxt: out.append(CALL_GLUE_TEXT)
        spans.append((start, sum(x.count("\n") + 1 for x in out), "__tables__"))
    except Exception as ex:
        status["table:*"] = dict(translated=False, reason=str(ex)[:200], props=["C02", "C03"], model="Tables")
    emit([p_ for p_ in ordered if p_[0] in after])
    out += ["end Gen", "end JL", ""]
    spans = [(a, b, aux_owner.get(rs_, rs_)) for a, b, rs_ in spans]
    return "\n".join(out), status, spans


CALL_GLUE_TEXT = '''/-- what calling the function held by an entry of `OPERATOR_MAP` means: the entry is found by its key -/
def eager_call (op : Rs.OpRef) (items : List Json) : M Json :=
  match Rs.assoc op.key eagerTable with
  | some f => Rs.ok_or (f items)
  | none =>
      match Rs.assoc op.key eagerTableM with
      | some f => f items
      | none => M.err
/-- the same for `LAZY_OPERATOR_MAP` -/
def lazy_call (op : Rs.OpRef) (data : Json) (items : List Json) : M Json :=
  match Rs.assoc op.key lazyTable with
  | some f => f data items
  | none => M.err
/-- the same for `DATA_OPERATOR_MAP` -/
def data_call (op : Rs.OpRef) (data : Json) (items : List Json) : M Json :=
  match Rs.assoc op.key dataTable with
  | some f => f data items
  | none => M.err
'''


def table_entries(src, table):
    """[(key, operator expression)] of one `phf_map!` table of src/op/mod.rs"""
    toks = rsparse.tokenize(src)
    i = 0
    while i < len(toks) and not (toks[i][1] == table and toks[i + 1][1] == ":"): i += 1
    while i < len(toks) and toks[i][1] != "phf_map": i += 1
    if i >= len(toks): raise UnsupportedSyntax("table %s not found" % table)
    i += 2      # `!` `{`
    if toks[i][1] != "{": raise UnsupportedSyntax("table %s: unexpected shape" % table)
    depth = 1; j = i + 1
    while depth > 0:
        if toks[j][1] == "{": depth += 1
        elif toks[j][1] == "}": depth -= 1
        j += 1
    body = toks[i + 1:j - 1] + [("eof", "", 0)]
    P = rsparse.Parser(body)
    out = []
    while P.peek()[0] != "eof":
        k = P.next()
        if k[0] != "str": raise UnsupportedSyntax("table %s: key expected" % table)
        P.expect("=>")
        e = P.expr()
        P.accept(",")
        if e[0] != "struct": raise UnsupportedSyntax("table %s: entry shape" % table)
        fields = dict(e[2])
        out.append((k[1], fields.get("operator")))
    return out


def generate_tables(fn_names, status):
    """the `operator:` of every table entry, as Lean functions keyed by the operator name"""
    src = open(os.path.join(REPO, "src/op/mod.rs"), encoding="utf-8").read()
    lines = []
    listed = {r for p_, r, _, _, _ in FUNCS} | set(MODEL_FNS)
    try:
        mod_fns = {k: v for k, v in rsparse.find_functions(src).items() if k not in listed and "@" not in k and "::" not in k}
    except UnsupportedSyntax:
        mod_fns = {}
    aux_done = {}
    for table, lean, mmode, ty in (("OPERATOR_MAP", "eagerTable", False, "(List Json → Option Json)"), ("LAZY_OPERATOR_MAP", "lazyTable", True, "(Json → List Json → M Json)"),
                                   ("DATA_OPERATOR_MAP", "dataTable", True, "(Json → List Json → M Json)")):
        entries = []
        mentries = []
        try:
            ents = table_entries(src, table)
        except UnsupportedSyntax as ex:
            status["table:" + table] = dict(translated=False, reason=str(ex), props=["C02", "C03"], model="Tables." + lean)
            continue
        skipped = []
        for key, opx in ents:
            em = Emitter(fn_names, {})
            em.mmode = mmode
            MMODE[0] = mmode
            em.file_fns = mod_fns
            try:
                if opx is None: raise UnsupportedSyntax("no operator field")
                if opx[0] == "closure": bound_names(opx, em.bound)
                txt = em.V(opx)
                for name in em.needed:          # a wrapper function of mod.rs bound in the table: translated as an auxiliary
                    if name in aux_done: continue
                    hf = mod_fns.get(name)
                    if hf is None or "error" in hf: raise UnsupportedSyntax("binds `%s`, which cannot be translated" % name)
                    aux_done[name] = True
                    del AUX_PIECES[:]
                    lines.append(translate_fn(hf, "aux_" + name, fn_names, None, mod_fns, aux_done, attr="@[rs] ", force_m=mmode))
                    for an, atxt in AUX_PIECES: lines.insert(len(lines) - 1, atxt)
                    em.mmode = mmode; MMODE[0] = mmode; KNOTMODE[0] = False
                if re.search(r"\bGen\.op_log\b", txt) and not mmode:
                    mentries.append("(%s, %s)" % (str_lit(key), txt))
                elif re.match(r"^(JsOp|ArrOp|StrOp|Data|JL)\.", txt) or txt in ("missing", "missingSome") or not re.search(r"Gen\.|fun ", txt):
                    skipped.append(key[1:-1] + " (its function is not translated)")
                else:
                    entries.append("(%s, %s)" % (str_lit(key), txt))
            except Exception as ex:
                skipped.append("%s (%s)" % (key[1:-1], str(ex)[:120]))
        lines.append("/-- `%s` of src/op/mod.rs: operator name ↦ the function the table binds to it -/" % table)
        lines.append("def %s : List (Str × %s) :=\n [%s]\n" % (lean, ty, ",\n  ".join(entries)))
        if table == "OPERATOR_MAP":
            lines.append("/-- the entries of `OPERATOR_MAP` whose function prints (`log`) -/")
            lines.append("def eagerTableM : List (Str × (List Json → M Json)) :=\n [%s]\n" % ",\n  ".join(mentries))
        status["table:" + table] = dict(translated=True, props=["C02", "C03"], model="execEager / run", lean="JL.Gen." + lean, entries=len(entries) + (len(mentries) if table == "OPERATOR_MAP" else 0), skipped=skipped, file="src/op/mod.rs")
    MMODE[0] = False
    return "\n".join(lines) + "\n"


def lean_errors(spans):
    """compile the generated file on its own; returns {rust fn: first error message}"""
    import subprocess
    p = subprocess.run(["lake", "env", "lean", OUT], cwd=os.path.join(VERIF, "lean"), stdout=subprocess.PIPE, stderr=subprocess.STDOUT, timeout=1800)
    txt = p.stdout.decode("utf-8", "replace")
    bad = {}
    lean2rs = {ln: rs for _, rs, ln, _, _ in FUNCS}
    for m in re.finditer(r"Unknown identifier `Gen\.(\w+)", txt):
        if m.group(1) in lean2rs: bad.setdefault(lean2rs[m.group(1)], "is used before it is defined / is not available")
    if bad: return bad
    for m in re.finditer(r"\.lean:(\d+):\d+: error[^:]*: ([^\n]*)", txt):
        ln = int(m.group(1))
        for a, b, rs in spans:
            if a <= ln <= b + 1 and rs not in bad:
                bad[rs] = m.group(2)[:200]
    if p.returncode != 0 and not bad:
        bad["__file__"] = txt[-400:]
    return bad


# translated by the tool but without a finished tie theorem yet: kept out of the generated file (callers use the model's function) unless
# the development switch is on
PENDING = set()


def main():
    excluded = {}
    if not os.environ.get("VERIF_FNS_DEV"):
        for rs in PENDING: excluded[rs] = "translated, tie theorem not finished yet (tied by the correspondence streams)"
    for attempt in range(6):
        text, status, spans = generate(excluded)
        old = open(OUT).read() if os.path.exists(OUT) else None
        if old != text:
            with open(OUT, "w") as fh: fh.write(text)
        if "--no-compile" in sys.argv: break
        bad = lean_errors(spans)
        if not bad: break
        if "__file__" in bad:
            print("rs2lean: the generated file does not compile and the error cannot be attributed: " + bad["__file__"])
            for rs in list(status):
                if status[rs]["translated"]: excluded[rs] = "generated file rejected by Lean"
            continue
        for rs, msg in bad.items():
            excluded[rs] = "Lean rejects the translation: " + msg
    if "--no-compile" not in sys.argv and lean_errors(spans):
        # could not be brought to a compiling state by dropping single functions: an empty translation is still a correct one
        for rs in list(status):
            if status[rs].get("translated"): excluded[rs] = "the generated file could not be brought to compile"
        excluded["__tables__"] = "-"
        text, status, spans = generate(excluded)
        with open(OUT, "w") as fh: fh.write(text)
    with open(STATUS, "w") as fh:
        json.dump(status, fh, indent=1, sort_keys=True)
    n = sum(1 for s in status.values() if s["translated"])
    print("rs2lean: %d of %d functions translated" % (n, len(status)))
    for rs, s in status.items():
        if not s["translated"]: print("  not translated: %s - %s" % (rs, s["reason"]))
    return 0


if __name__ == "__main__":
    try:
        sys.exit(main())
    except Exception as ex:
        # the translator must never be the reason a check fails: with no translation at all every function is tied by the streams only
        import traceback
        print("rs2lean: internal error, nothing translated: " + traceback.format_exc()[-600:])
        try:
            st = {rs: dict(translated=False, reason="translator error", props=props, model=model, file=path) for path, rs, ln, props, model in FUNCS}
            with open(STATUS, "w") as fh: json.dump(st, fh, indent=1, sort_keys=True)
            with open(OUT, "w") as fh: fh.write("/- GENERATED: empty (translator error) -/\nimport JL.Rs\nnamespace JL\nnamespace Gen\nend Gen\nend JL\n")
        except Exception:
            pass
        sys.exit(0)
