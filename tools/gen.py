"""Case generators. Every random choice comes from one `random.Random(seed)`; exhaustive scopes and
the corpus do not depend on the seed. A case is a wire line (`apply <rule> <data>` or a helper command)."""
import random, itertools
from jl import enc

I64MIN, I64MAX, U64MAX = -2 ** 63, 2 ** 63 - 1, 2 ** 64 - 1

EAGER = ["==", "!=", "===", "!==", "!", "!!", "<", "<=", ">", ">=", "+", "-", "*", "/", "%", "max", "min",
         "merge", "in", "cat", "substr", "log"]
DATAOPS = ["var", "missing", "missing_some"]
LAZY = ["if", "?:", "or", "and", "map", "filter", "reduce", "all", "some", "none"]
ALLOPS = EAGER + DATAOPS + LAZY

# documented operand counts (property C03), as a predicate on n
DOC = {}
for k in ["==", "!=", "===", "!==", "/", "%", "in", "map", "filter", "all", "some", "none", "missing_some"]:
    DOC[k] = lambda n: n == 2
for k in ["<", "<=", ">", ">=", "substr"]:
    DOC[k] = lambda n: n in (2, 3)
DOC["reduce"] = lambda n: n == 3
for k in ["!", "!!", "log"]:
    DOC[k] = lambda n: n == 1
DOC["-"] = lambda n: n in (1, 2)
DOC["var"] = lambda n: n in (0, 1, 2)
for k in ["*", "max", "min", "and", "or"]:
    DOC[k] = lambda n: n >= 1
for k in ["+", "cat", "merge", "missing", "if", "?:"]:
    DOC[k] = lambda n: True

NUMS = [0, -0.0, 0.0, 1, -1, 1.0, 0.5, -1.5, 2, 3, 10, 2 ** 53, 2 ** 53 + 1, 2 ** 53 - 1, I64MAX, 2 ** 63, I64MIN, U64MAX,
        1e19, 9.223372036854775807e18, -9.223372036854775808e18, 1.7e308, 5e-324, 1e-320, 1e21, 1e-7, 1.2345678901234568e20,
        0.1, 0.2, 1e15, 1e16, 123456.789, -2.5, 4611686018427387904, 9007199254740993, 16, 255]
NUMSTRS = ["", " ", "0", "1", "1.0", " 1 ", "\t1\n", "1e2", "1e", "1e+", ".5", "5.", "+.5e-3", "0x10", "0X1f", "0b11", "0o7",
           "-0x10", "+0b1", "Infinity", "-Infinity", "+Infinity", "infinity", "inf", "nan", "NaN", "12px", "1-2", "1.5.3",
           "-", "+", ".", "e5", "1e5", "-1", "+1", "-0", "00", "007", "1_0", "0x", "0b2", "0o8", " \n", "﻿1", "\u00851",
           " 1　", "１", "1 2", "- 1", "9007199254740993", "1e400", "-1e400", "1e-400", "0x1fffffffffffff8",
           "0x20000000000001", "0x20000000000003", "1e21", "3.14abc", "Infinityx", "  -12.5e1xyz", "16", "255"]
NUMSTRS += ["0x2000000000000101", "0x10000000000000801", "0x1fffffffffffff7f", "0x3fffffffffffff", "0x7ffffffffffffbff", "0xfffffffffffff7ff", "0x20000000000001ff", "0x20000000000002ff",
            "0b" + "1" * 54 + "01", "0b1" + "0" * 52 + "101", "0o400000000000000005", "0o1000000000000000021", "0x" + "f" * 300, "0x1" + "0" * 255, "0x" + "8" * 257,
            "9007199254740993", "9007199254740995", "18014398509481985", "1.00000000000000011102230246251565404236316680908203125", "4.9e-324", "2.4703282292062327e-324", "2.4703282292062328e-324",
            "1.7976931348623158e308", "1.7976931348623159e308", "179769313486231580793728971405303415079934132710037826936173778980444968292764750946649017977587207096330286416692887910946555547851940402630657488671505820681908902000708383676273854845817711531764475730270069855571366959622842914819860834936475292719074168444365510704342711559699508093042880177904174497791.999"]
NUMSTRS += ["0x+10", "0b+1", "0x-1", "0o+7", "0X+fF", " 0X+0 ", "0x+", "0x 1", "12٣", "2²", "1.5٢", "3e٥", "1½", "1٠", "１２", "1e٣", "٣", "1٣e2", "0x1٣", "1.٣", "- 1", "1e+٣"]
NUMS += [0.3, 0.30000000000000004, 1.0000000000000002, 0.9999999999999999, 1e301, 2e38, 3e38, -1e300, -1e301, 1.7014118346046923e38, 1.7014118346046925e38, 4.000000000000001, 4.0, 1e-6, 1.5e-6, 9.999e-6, 1e-5,
         0.1 + 0.2, 2.2250738585072014e-308, 2.225073858507201e-308, 1e23, 9.999999999999999e22]
NUMS += [5e-324, 1e-310, 4e-320, -5e-324, 2.2250738585072014e-308, 2.225073858507201e-308, -2.2250738585072014e-308]
NUMS += [10 ** k + d for k in range(1, 20) for d in (-1, 0, 1) if 10 ** k + d < 2 ** 64] + [float(10 ** k) for k in (15, 16, 17, 22, 23)] + [-(10 ** 15 - 1), -(10 ** 18)]
NUMSTRS += ["0" * 309 + "7", "1" + "0" * 309 + "e-309", "0." + "0" * 53 + "25e55", "9007199254740993." + "0" * 53 + "1", "0." + "0" * 400 + "1e401", "1" + "0" * 400 + "e-400", "0" * 400, "0" * 400 + ".5",
            "1." + "0" * 60 + "1", "0.1" + "0" * 60 + "9", "4.35" + "0" * 100, "2.5" + "0" * 55 + "1", "9" * 310 + "e-310", "123456789" * 40 + "e-350", "-" + "0" * 320 + "1", "+" + "0" * 320 + "1.0e0", "00000000000000000012px"]
NUMSTRS += ["--5", "+-3", "-+8", "++.5", "- 5", "-\t5", "--0x10", "+-Infinity", "--Infinity", "-+0", "+ 1", "1-", "1+", "5e--3", "5e+-3"]
STRS = ["id-😀", "id-😁", "id-\uff21", "id-\ufeff", "id-\ufffd", "id-\ue000", "id-𐀀", "😀", "😁", "\uff21", "\ufffd\ufffd", "\ue000z", "𝒳𝒴", "𝒳𝒵",
        "about 50%sure", "up to 50% off", "%(name)s", "%s", "%d %d", "100%", "{}", "{0}", "{name}", "$x ${y}", "\\n", "%%", "%5.2f", "%c",
        "abc", "a", "b", "A", "null", "true", "false", "[object Object]", "1,2", ",", "é", "éa", "€", "😀", "a😀b", "zz", "10", "9",
        "a.b", "a\\.b", "undefined"]
ARRS = [[1, None], [1, ""], [1, []], [None, 1], ["a", None], [1, [None]], [[1], None], ["a", ""], [None, None, None], [], [0], [1], [[]], [None], [1, 2], ["a", "b"], [[1, 2], [3]], [1.5], [{}], ["1"], [" 1 "], [True], [[1]], ["a"], [None, None],
        [2 ** 53 + 1], ["0x10"], [1.0], [-0.0]]
OBJS = [{}, {"a": 1}, {"a": None}, {"var": "x"}, {"+": [1, 2]}, {"a": 1, "b": 2}, {"if": [True, 1, 2], "note": 1}, {"==": 1, "x": 2},
        {"unknown": [1]}, {"a": {"b": [10, 20, {"c": "deep"}]}}]
CORPUS = [None, True, False] + NUMS + NUMSTRS + STRS + ARRS + OBJS

FALSY = [False, None, 0, -0.0, 0.0, "", []]
TRUTHY = [True, 1, -1, 0.5, 5e-324, "0", " ", "false", [0], [[]], [None], {}, {"a": None}, "a"]


def lit(v):
    """a rule that evaluates to the value v whatever the data (v used literally unless it would parse as an operation)"""
    return v


def is_op_shaped(v):
    return isinstance(v, dict) and len(v) == 1 and next(iter(v)) in ALLOPS


def app(rule, data=None):
    return "apply " + enc(rule) + " " + enc(data)


class Gen:
    def __init__(self, seed):
        self.r = random.Random(seed)

    # ------------------------------------------------------------ values
    def num(self):
        r = self.r
        c = r.random()
        if c < 0.35: return r.choice(NUMS)
        if c < 0.55: return r.randint(-20, 20)
        if c < 0.65: return r.choice([2 ** 53, 2 ** 63, 2 ** 64, 2 ** 31, 2 ** 32]) + r.randint(-3, 2)
        if c < 0.8: return round(r.uniform(-1000, 1000), r.randint(0, 3))
        if c < 0.9: return r.randint(I64MIN, I64MAX)
        import struct
        while True:
            f = struct.unpack("<d", struct.pack("<Q", r.getrandbits(64)))[0]
            if f == f and abs(f) != float("inf"): return f

    def fixnum(self, v):
        if isinstance(v, int) and not isinstance(v, bool):
            if v > U64MAX: return float(v)
            if v < I64MIN: return float(v)
        return v

    def string(self):
        r = self.r
        c = r.random()
        if c < 0.35: return r.choice(NUMSTRS)
        if c < 0.7: return r.choice(STRS)
        n = r.randint(0, 5)
        return "".join(r.choice("ab01.\\ -+eéß€😀\t") for _ in range(n))

    def value(self, depth=2, opshaped=0.15):
        r = self.r
        c = r.random()
        if c < 0.08: return None
        if c < 0.16: return r.choice([True, False])
        if c < 0.40: return self.fixnum(self.num())
        if c < 0.62: return self.string()
        if depth <= 0: return r.choice([[], {}, 0, "x"])
        if c < 0.80:
            return [self.value(depth - 1, opshaped) for _ in range(r.randint(0, 3))]
        if r.random() < opshaped:
            return self.opshaped_value()
        return {self.key(): self.value(depth - 1, opshaped) for _ in range(r.randint(0, 3))}

    def key(self):
        r = self.r
        return r.choice(["a", "b", "c", "x", "0", "1", "-1", "a.b", "é", "", "current", "accumulator", "var", "+", "k\\", "01", "a/b", "x~1y", "~0", "/", "//", "#", "1.5", "a b"])

    def opshaped_value(self):
        r = self.r
        return r.choice([{"var": "secret"}, {"var": "a"}, {"+": ["x"]}, {"+": [1, 2]}, {"log": "LEAK"}, {"var": ""},
                         {"==": [1]}, {"if": [True, "hijacked"]}, {"all": [[1], True]}, {"cat": ["in", "jected"]},
                         {"var": ["zz", {"var": "a"}]}, {"missing": ["a"]}, {"!": [True]}, {"map": [[1], 2]}])

    # ------------------------------------------------------------ data for a rule
    def data_for(self, paths, opshaped=0.3):
        """a data tree in which about half of the given var paths resolve"""
        r = self.r
        c = r.random()
        if c < 0.1: return self.value(2)
        if c < 0.2: return [self.value(1) for _ in range(r.randint(0, 4))]
        d = {"a": self.value(2, opshaped), "b": self.value(1, opshaped), "x": self.fixnum(self.num()), "l": [self.value(1, opshaped) for _ in range(r.randint(0, 4))],
             "s": self.string(), "secret": 42}
        for p in paths:
            if not isinstance(p, str) or r.random() < 0.45: continue
            segs = p.split(".")
            cur = d
            for i, s in enumerate(segs):
                last = i == len(segs) - 1
                if not isinstance(cur, dict): break
                if last:
                    cur[s] = self.value(1, opshaped) if r.random() < 0.8 else None
                else:
                    if not isinstance(cur.get(s), dict): cur[s] = {}
                    cur = cur[s]
        if r.random() < 0.2: d[""] = 1
        return d

    # ------------------------------------------------------------ random rules
    def path(self):
        r = self.r
        return r.choice(["a", "b", "x", "l", "s", "a.b", "l.0", "l.-1", "s.0", "zz", "a.b.c", "", "l.1", "secret", "a\\.b", "l.9", "s.-1", "0", "-1", "1", "a/b", "x~1y", "a/0", "l/0", "s.0.0"])

    def rule(self, depth=3, want=None, paths=None):
        """type-directed random rule; `want` in {None,'num','str','arr','bool'}"""
        r = self.r
        if paths is None: paths = []
        if depth <= 0 or r.random() < 0.18:
            return self.leaf(want, paths)
        malformed = r.random() < 0.06
        sub = lambda w=None: self.rule(depth - 1, w, paths)
        if want == "num":
            k = r.choice(["+", "-", "*", "/", "%", "max", "min", "var", "if", "reduce"])
        elif want == "str":
            k = r.choice(["cat", "substr", "var", "if"])
        elif want == "arr":
            k = r.choice(["merge", "map", "filter", "var", "missing", "missing_some", "if"])
        elif want == "bool":
            k = r.choice(["==", "!=", "===", "!==", "<", "<=", ">", ">=", "!", "!!", "in", "all", "some", "none", "and", "or"])
        else:
            k = r.choice(ALLOPS)
        if malformed:
            n = r.randint(0, 4)
            args = [sub() for _ in range(n)]
            return {k: args if r.random() < 0.8 else (args[0] if args else 1)}
        if k in ("==", "!=", "===", "!=="):
            a = sub(); b = a if r.random() < 0.15 else sub()
            return {k: [a, b]}
        if k in ("<", "<=", ">", ">="):
            return {k: [sub("num" if r.random() < 0.7 else None) for _ in range(r.choice([2, 2, 3]))]}
        if k in ("!", "!!"):
            a = sub()
            return {k: [a]} if r.random() < 0.6 or isinstance(a, list) else {k: a}
        if k in ("+", "*", "max", "min"):
            return {k: [sub("num") for _ in range(r.randint(0 if k == "+" else 1, 4))]}
        if k == "-":
            return {k: [sub("num") for _ in range(r.choice([1, 2, 2]))]}
        if k in ("/", "%"):
            return {k: [sub("num"), sub("num")]}
        if k == "merge":
            return {k: [sub("arr" if r.random() < 0.6 else None) for _ in range(r.randint(0, 3))]}
        if k == "in":
            return {k: [sub(), sub(r.choice(["arr", "str"]))]}
        if k == "cat":
            return {k: [sub() for _ in range(r.randint(0, 4))]}
        if k == "substr":
            idx = lambda: r.choice([0, 1, -1, 2, -2, 5, -5, I64MIN, I64MAX, 3])
            return {k: [sub("str"), idx()] + ([idx()] if r.random() < 0.5 else [])}
        if k == "log":
            return {k: [sub()]} if r.random() < 0.5 else {k: self.leaf(None, paths, noarr=True)}
        if k == "var":
            p = self.path(); paths.append(p)
            c = r.random()
            if c < 0.5: return {k: p}
            if c < 0.8: return {k: [p, sub()]}
            if c < 0.9: return {k: [r.choice([0, 1, -1, 2, I64MIN, I64MAX, None, ""])]}
            return {k: [sub("str"), sub()]}
        if k == "missing":
            ks = [self.path() for _ in range(r.randint(0, 3))]; paths.extend(ks)
            return {k: ks} if r.random() < 0.6 else {k: [{"merge": [ks, [self.path()]]}]}
        if k == "missing_some":
            ks = [self.path() for _ in range(r.randint(0, 4))]; paths.extend(ks)
            return {k: [r.randint(0, 3), ks]}
        if k in ("if", "?:"):
            n = r.choice([0, 1, 2, 3, 3, 3, 4, 5])
            return {k: [sub("bool" if i % 2 == 0 and i + 1 < n else want) for i in range(n)]}
        if k in ("and", "or"):
            return {k: [sub() for _ in range(r.randint(1, 4))]}
        if k in ("map", "filter"):
            inner = self.rule(depth - 1, None, [])
            return {k: [sub("arr"), inner]}
        if k == "reduce":
            inner = r.choice([{"+": [{"var": "current"}, {"var": "accumulator"}]}, {"cat": [{"var": "accumulator"}, {"var": "current"}]},
                              {"-": [{"var": "accumulator"}, {"var": "current"}]}, {"var": "current"}, self.rule(depth - 1, None, [])])
            return {k: [sub("arr"), inner, sub()]}
        if k in ("all", "some", "none"):
            inner = r.choice([{"var": ""}, {">": [{"var": ""}, 1]}, True, False, {"!": [{"var": ""}]}, self.rule(depth - 1, "bool", [])])
            coll = sub("arr") if r.random() < 0.6 else [sub() for _ in range(r.randint(0, 3))]
            return {k: [coll, inner]}
        return {k: [sub()]}

    def leaf(self, want, paths, noarr=False):
        r = self.r
        c = r.random()
        if c < 0.25:
            p = self.path(); paths.append(p)
            return {"var": p}
        if want == "num": return self.fixnum(self.num()) if r.random() < 0.8 else r.choice(NUMSTRS)
        if want == "str": return self.string()
        if want == "arr" and not noarr: return [self.value(1) for _ in range(r.randint(0, 3))]
        if want == "bool": return r.choice([True, False, 0, 1, "", "a", None, []] if not noarr else [True, False, 0, 1, "", "a", None])
        v = self.value(1)
        if noarr and isinstance(v, list): return 0
        return v

    def random_cases(self, n, depth=3):
        out = []
        for _ in range(n):
            paths = []
            rule = self.rule(self.r.randint(1, depth), None, paths)
            out.append(app(rule, self.data_for(paths)))
        return out


# ---------------------------------------------------------------- deterministic scopes

def pair_cases(ops, helpers, values):
    out = []
    for a in values:
        for b in values:
            for k in ops:
                out.append(app({k: [a, b]} if not (is_op_shaped(a) or is_op_shaped(b)) else {k: [{"var": "a"}, {"var": "b"}]},
                               None if not (is_op_shaped(a) or is_op_shaped(b)) else {"a": a, "b": b}))
            for h in helpers:
                out.append(h + " " + enc(a) + " " + enc(b))
    return out


def via_var(k, operands):
    """the rule {k:[var 0, var 1, ...]} on the operand tuple as data: operands reach the operator as values"""
    return app({k: [{"var": i} for i in range(len(operands))]}, list(operands))
