// Independent oracle for the SPEC layer: evaluates ECMAScript semantics in V8 (node) on the pool written by tools/es_pool.py.
// usage: nodejs tools/es_truth.js corpus/es_pool.json > corpus/es_truth.json
const fs = require('fs');
const pool = JSON.parse(fs.readFileSync(process.argv[2], 'utf8'));
function bits(x) { if (Number.isNaN(x)) return 'none'; const b = Buffer.alloc(8); b.writeDoubleBE(x); return 'd' + b.toString('hex'); }
const tf = b => b ? 't' : 'f';
const out = { pairs: [], strings: [] };
for (const [ta, tb] of pool.pairs) {
  const a = JSON.parse(ta), b = JSON.parse(tb);
  out.pairs.push([tf(a == b), tf(a === b), tf(a < b), tf(a <= b), tf(a > b), tf(a >= b)].join(''));
}
for (const s of pool.strings) out.strings.push([bits(Number(s)), bits(parseFloat(s))]);
for (const t of pool.values) { const v = JSON.parse(t); out.tonumber = out.tonumber || []; out.tonumber.push(bits(Number(v))); }
process.stdout.write(JSON.stringify(out));
