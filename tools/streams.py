"""Per-property case streams (what is generated / enumerated for each property) and the value oracles
that can be evaluated without the model (C02: literal identity, C03: documented counts)."""
import itertools
from jl import enc
from gen import *
import gen as G

# operators whose semantics a property owns (used to attribute a minimal disagreement)
OWNER = {}
for k in ("==", "!="): OWNER[k] = "C07"
for k in ("===", "!=="): OWNER[k] = "C08"
for k in ("<", "<=", ">", ">="): OWNER[k] = "C09"
for k in ("+", "-", "*", "/", "%", "max", "min"): OWNER[k] = "C10"
OWNER["var"] = "C11"
for k in ("missing", "missing_some"): OWNER[k] = "C12"
for k in ("map", "filter", "reduce"): OWNER[k] = "C13"
for k in ("all", "some", "none"): OWNER[k] = "C14"
for k in ("merge", "in"): OWNER[k] = "C15"
for k in ("cat", "substr"): OWNER[k] = "C16"
for k in ("if", "?:", "and", "or"): OWNER[k] = "C05"
for k in ("!", "!!"): OWNER[k] = "C06"
OWNER["log"] = "C17"
HELPER_OWNER = {"strict_eq_same": "C08", "abstract_eq": "C07", "abstract_ne": "C07", "strict_eq": "C08", "strict_ne": "C08", "abstract_lt": "C09",
                "abstract_gt": "C09", "abstract_lte": "C09", "abstract_gte": "C09", "abstract_max": "C10", "abstract_min": "C10",
                "parse_float_add": "C10", "parse_float_mul": "C10", "abstract_minus": "C10", "abstract_div": "C10",
                "abstract_mod": "C10", "to_negative": "C10", "parse_float": "C10", "to_number": "C10", "str_to_number": "C07",
                "to_string": "C16", "abstract_plus": "C10", "ser": "C18", "roundtrip": "C18", "f.parse": "C10"}


def good_operand(k, i):
    """i-th operand of a call of k that type-checks, so that a valid COUNT gives a value, not a type error"""
    if k == "substr": return ["abcdef", 1, 2][i] if i < 3 else 1
    if k == "in": return ["a", "abc"][i] if i < 2 else "a"
    if k == "missing_some": return [1, ["a", "b"]][i] if i < 2 else 1
    if k in ("map", "filter"): return [[1, 2], {"var": ""}][i] if i < 2 else 1
    if k == "reduce": return [[1, 2], {"var": "current"}, 0][i] if i < 3 else 1
    if k in ("all", "some", "none"): return [[1, 2], True][i] if i < 2 else 1
    if k == "var": return ["a", 7][i] if i < 2 else 1
    if k == "missing": return ["a", "b", "c"][i % 3]
    if k in ("/", "%"): return [7, 2][i] if i < 2 else 1
    if k == "cat": return ["x", 1, None][i % 3]
    if k == "merge": return [[1], 2, [3, 4]][i % 3]
    if k == "log": return "L"
    return [1, 2, 3, 4][i % 4]


def s_arity(tier):
    """C03: every operator x operand count x {bracketed}; plus bare (unbracketed) single operands"""
    counts = list(range(0, 9)) + [16, 64] if tier == "quick" else list(range(0, 66))
    out = []
    for k in ALLOPS:
        for n in counts:
            out.append(("count", k, n, app({k: [good_operand(k, i) for i in range(n)]}, {"a": 1, "b": None})))
    # surplus / missing operands spelled as literal null, false, [], "" (must not be "trimmed" or defaulted)
    for k in ALLOPS:
        for n in range(0, 7):
            for filler in (None, False, [], ""):
                base = 0
                while base < n and not DOC[k](base): base += 1            # smallest documented count (if any below n)
                ops_ = [good_operand(k, i) if i < base else filler for i in range(n)]
                out.append(("count-filler", k, n, app({k: ops_}, {"a": 1, "b": None})))
    for k in ALLOPS:
        big = (65536, 65537, 65538, 65539) if (tier != "quick" or k in ("==", "-", "var", "max", "substr", "map", "!")) else ()
        for n in (255, 256, 257) + big + ((131072, 131073, 131074) if tier != "quick" else ()):
            out.append(("count-filler", k, n, app({k: [good_operand(k, i) if i < 3 else 1 for i in range(n)]}, {"a": 1, "b": None})))
    bad_inner = [{"==": [1]}, {"!": [1, 2]}, {"!": []}, {"var": [1, 2, 3]}, {"map": [[1]]}, {"reduce": [[1], 1]}, {"substr": ["a"]}, {"-": [1, 2, 3]}, {"missing_some": [1]}, {"and": []}, {"in": [1]}, {"<": [1]},
                 {"!!": [1, 2]}, {"log": [1, 2]}, {"/": [1]}, {"all": [[1]]}, {"max": []}]
    for bi in bad_inner:
        for coll in ([], None, [1, 2], {"var": "zz"}, {"filter": [[1], False]}, "", [0]):
            for rule in ({"reduce": [coll, bi, 0]}, {"reduce": [coll, {"var": "current"}, bi]}, {"map": [coll, bi]}, {"filter": [coll, bi]}, {"all": [coll, bi]}, {"some": [coll, bi]}, {"none": [coll, bi]},
                         {"if": [coll, bi, 1]}, {"if": [coll, 1, bi]}, {"and": [coll, bi]}, {"or": [coll, bi]}, {"if": [bi]}, {"and": [bi]}, {"var": ["zz", bi]}, {"cat": [coll, bi]}):
                out.append(("model", "lazy-position", 0, app(rule, {"a": 1})))
    arr_makers = [({"var": "l2"}, {"l2": [1, 2]}), ({"var": "l0"}, {"l0": []}), ({"var": "lb"}, {"lb": [True]}), ({"var": "ln"}, {"ln": [None]}), ({"var": "ls"}, {"ls": ["a", "b", "c"]}), ({"merge": [[3, 7]]}, None),
                  ({"map": [[1, 2], {"var": ""}]}, None), ({"filter": [[1, 2], False]}, None), ({"var": ""}, [3, 7]), ({"var": "l1"}, {"l1": [5]}), ({"if": [True, [1, 2]]}, None), ({"var": "nest"}, {"nest": [[1, 2]]})]
    for opk in [o for o in ALLOPS]:
        for mk, dd in arr_makers:
            out.append(("model", "unbracketed-array", 0, app({opk: mk}, dd)))
            out.append(("model", "unbracketed-array", 0, app({opk: [mk]}, dd)))
    bare = [1, 0, "a", "", None, True, 1.5, {"var": "a"}, {"a": 1}, {}, {"log": "x"}, "abc", -1, {"unknown": 1}] + bad_inner
    for k in ALLOPS:
        for x in bare:
            d = {"a": [1, 2], "b": None}
            out.append(("bare", k, x, app({k: x}, d), app({k: [x]}, d)))
    return out


def name_variants(k):
    vs = {k + " ", " " + k, k.upper(), k.capitalize(), k + k, k[:-1], k[1:], k + "_", "_" + k, k + "​", "﻿" + k, k + "\n",
          k.replace("a", "а").replace("o", "о").replace("e", "е").replace("i", "і"), k + "=", k + "s", "$" + k, k.swapcase()}
    return [v for v in vs if v not in ALLOPS]


def s_literals(g, tier):
    """C02: values that are not operations (expected: returned as they are), with non-trivial data"""
    datas = [None, {"a": 1, "x": [1, 2]}, [1, 2, 3], "text", {"var": "a", "secret": 42, "": 1}]
    vals = list(CORPUS)
    for k in ALLOPS:
        for v in name_variants(k):
            vals.append({v: [1, 2]}); vals.append({v: "a"})
        vals.append({k: [1, 2], "zzz": 1}); vals.append({"!a": 0, k: [1, 2]}); vals.append({k: {"var": "a"}, k + "x": 1})
        vals.append([{k: [1, 2]}]); vals.append({"lit": {k: [1, 2]}}); vals.append([[{k: "a"}], {"b": [{k: []}]}])
        for note in ("//", "#", "_comment", "$comment", "note", "description", "id", "@type", "", " ", "__proto__", "0", "_", "?", "version"):
            vals.append({note: "n", k: [good_operand(k, 0), good_operand(k, 1)]}); vals.append({note: 1, k: "a"})
            vals.append({"if": [True, {note: "n", k: [1, 2]}, 0]} if False else {"x": {note: "n", k: [1]}})
    vals += ["{\"var\":\"a\"}", " {\"var\": \"a\"}", "{}", "[1]", "{\"==\":[1]}", "{\"a\":1}", "null", "\"x\"", "{\"+\":[1,2]}", ["{\"var\":\"a\"}"], {"k": "{\"var\":\"a\"}"}]
    vals += [{"": 1}, {"": {"var": "a"}}, {"a": {"var": "a"}}, [{"var": "a"}, {"+": [1, 2]}], {"and": [1], "or": [2]}, {"var": "a", "var ": "b"},
             {"a": 1, "b": {"if": [True, 1, 2]}}, [], [[]], [None], {"IF": [True, 1, 2]}, {"Var": "a"}, {"=": [1, 1]}, {"====": [1, 1]}, {"<>": [1, 2]},
             {"&&": [1, 2]}, {"||": [1, 2]}, {"not": [1]}, {"between": [1, 2, 3]}, {"method": [1]}]
    n = 300 if tier == "quick" else 3000
    for _ in range(n):
        v = g.value(3, 0.5)
        vals.append(v)
    out = []
    for v in vals:
        if G.is_op_shaped(v): continue
        for d in (datas if tier != "quick" else datas[:3]):
            out.append(("lit", v, app(v, d)))
        if isinstance(v, dict) and len(v) == 2 and not G.is_op_shaped(v):
            # the same literal in operand position (it must reach the operator unevaluated)
            out.append(("inert", "if-branch", app({"if": [True, v, 0]}, datas[1]))); out.append(("inert", "merge", app({"merge": [v]}, datas[1])))
    # literal operands are inert: nothing inside an array/object literal given as an operand is evaluated
    # (the single exception: element expressions of a literal array that is the collection of all/some/none)
    shaped = [{"var": "a"}, {"+": [1, 2]}, {"/": [1]}, {"log": "LEAK"}, {"unknown": 1}, {"var": "zz"}, {"if": [True, "hijack"]}]
    d0 = {"a": 7, "x": [1, 2]}
    for sv in shaped:
        lit = [sv, 1]
        nested = [[sv]]
        for k, mk in (("map", lambda c: {"map": [c, {"var": ""}]}), ("filter", lambda c: {"filter": [c, True]}),
                      ("reduce", lambda c: {"reduce": [c, {"var": "current"}, 0]}), ("merge", lambda c: {"merge": [c]}), ("merge2", lambda c: {"merge": [c, c]}),
                      ("in", lambda c: {"in": [7, c]}), ("cat", lambda c: {"cat": [c]}), ("==", lambda c: {"==": [c, "x"]}), ("!!", lambda c: {"!!": [c]}),
                      ("if", lambda c: {"if": [c, c, 0]}), ("and", lambda c: {"and": [c, c]}), ("or", lambda c: {"or": [[], c]}), ("var-default", lambda c: {"var": ["zz", c]}),
                      ("missing", lambda c: {"missing": [c]}), ("max", lambda c: {"max": [c]}), ("log", lambda c: {"log": [c]}), ("substr", lambda c: {"substr": ["abc", 0, c]}),
                      ("all-pred", lambda c: {"all": [[1], c]}), ("some-nested", lambda c: {"some": [[c], True]}), ("none-inner", lambda c: {"none": [[[sv]], {"var": ""}]})):
            for c in (lit, nested, {"a": 1, "b": sv}, [{"k": sv, "k2": 1}]):
                out.append(("inert", k, app(mk(c), d0)))
    # an operator-keyed single-key object is never a literal, whatever its operands: wrong counts / unbracketed operands are errors
    for k in ALLOPS:
        for n in range(0, 5):
            out.append(("op", k, app({k: [good_operand(k, i) for i in range(n)]}, {"a": 1, "b": None})))
        for x in (1, "a", None, {"var": "a"}, {"==": [1]}):
            out.append(("op", k, app({k: x}, {"a": 1})))
        out.append(("op", k, app({"cat": ["x", {k: []}]}, None)))
        out.append(("op", k, app({"var": [{k: [1, 2, 3, 4, 5]}]}, {"a": 1})))
    # dispatch: every operator name with a simple valid call is an operation (differs from the literal)
    for k in ALLOPS:
        n = 2 if DOC[k](2) else (3 if DOC[k](3) else 1)
        out.append(("op", k, app({k: [good_operand(k, i) for i in range(n)]}, {"a": 1, "b": None})))
    return out


ATOMS5 = [True, 1, "a", [0], False, 0, "", None, {"var": "t"}, {"var": "f"}, {"var": "nope"}, {"==": [1]}, {"+": ["x"]},
          {"map": [1, 2, 3]}, {"log": "A"}, {"log": 0}, {"if": [{"var": "f"}, {"log": "no"}, "else"]}, {"and": [1, {"log": "B"}]},
          {"or": [0, {"log": ""}]}, {"cat": "x"}, {"!": {"log": []}}, [], {}]


def nested_if(g, depth):
    """random nested if/?: trees with 0..5 operands per level; leaves are distinguishable strings, conditions literals/vars/logs"""
    r = g.r
    if depth <= 0 or r.random() < 0.25:
        return r.choice(["x", "y", "z", 1, 0, None, {"log": "leaf"}, {"var": "t"}, {"var": "f"}])
    n = r.choice([1, 2, 2, 3, 3, 3, 4, 5])
    ops_ = []
    for i in range(n):
        is_cond = (i % 2 == 0 and i + 1 < n)
        if is_cond:
            ops_.append(r.choice([True, False, 0, 1, {"var": "t"}, {"var": "f"}, "", "a"]) if r.random() < 0.7 else nested_if(g, depth - 1))
        else:
            ops_.append(nested_if(g, depth - 1))
    return {r.choice(["if", "if", "?:"]): ops_}


def show_key(v):
    return "null" if v is None else str(v)


def s_control(g, tier):
    """C05: operand lists of length 0..7 over literals, data references, nested control flow, poisoned expressions"""
    d = {"t": "yes", "f": 0}
    out = []
    small = ATOMS5
    for _ in range(4000 if tier == "quick" else 80000):
        out.append(app(nested_if(g, g.r.randint(2, 4)), d))
    dups = [{"!!": {"log": "v"}}, {"!": {"log": "g"}}, {"!!": [{"log": "v"}]}, {"var": {"log": "t"}}, {"cat": {"log": "c"}}, {"log": "plain"}, {"var": ["zz", {"!!": {"log": "dflt"}}]},
            {"if": [{"!!": {"log": "in"}}, 1, 2]}, {"and": [{"!!": {"log": "a"}}]}, {"+": {"log": 1}}, {"max": {"log": 2}}, {"merge": {"log": [1]}}, {"!!": {"!!": {"log": "deep"}}}]
    for x in dups:
        for y in dups[:4]:
            out += [app({"if": [x, x, "else"]}, d), app({"if": [x, x, x]}, d), app({"?:": [x, x, "else"]}, d), app({"and": [x, x]}, d), app({"or": [x, x]}, d), app({"if": [y, "a", x, x, "else"]}, d),
                    app({"if": [x, y, x]}, d), app({"and": [x, y, x]}, d), app({"or": [y, x, x]}, d)]
    for nval in (2.0, 2, -0.0, 0, 1.0, 2 ** 53 + 1, float(2 ** 53), "2", True, None, [2]):
        for op in ("===", "==", "!==", "<=", "in"):
            lit = (lambda v: [v]) if op == "in" else (lambda v: v)
            lad = []
            for v in (1, 2, 0, 2 ** 53, "2", None):
                lad += [{op: [{"var": "n"}, lit(v)]}, "is-%s" % show_key(v)]
            for rule in ({"if": lad + ["other"]}, {"if": lad}, {"?:": lad + ["other"]}, {"if": lad[2:] + [{"log": "else"}]}, {"or": lad[0::2]}, {"and": lad[0::2]}):
                out.append(app(rule, {"n": nval}))
    for k_ in ("a", "zz", "a.b", ""):
        for dflt in ({"==": [1]}, {"log": "dflt"}, {"+": ["x"]}, {"map": [1]}, 7):
            v_ = {"var": [k_, dflt]}
            out += [app({"or": [v_, "later"]}, d), app({"and": [v_, "later"]}, d), app({"or": ["", v_, "later"]}, d), app({"and": [1, v_, v_]}, d), app({"if": [v_, "T", "F"]}, d), app({"or": [v_]}, d),
                    app({"or": [v_, v_]}, {"a": 1, "t": 1}), app({"and": [v_, "later"]}, {"a": 0}), app({"or": [v_, "later"]}, {"a": {"b": 1}}), app({"!!": [v_]}, {"a": 1})]
    for sub in (5e-324, 1e-310, 4e-320, -5e-324, 2.2250738585072014e-308, {"/": [1e-308, 10]}, {"var": "tiny"}):
        for rule in ({"if": [sub, "yes", "no"]}, {"?:": [sub, "yes", "no"]}, {"or": [sub, {"log": "later"}]}, {"and": [sub, {"log": "later"}]}, {"!!": [sub]}, {"!": [sub]}, {"if": [0, 1, sub, 2, 3]},
                     {"filter": [[1], sub]}, {"all": [[1], sub]}, {"some": [[1], sub]}, {"none": [[1], sub]}):
            out.append(app(rule, {"tiny": 4e-320}))
    shaped = [{"var": "b"}, {"==": [1]}, {"log": "boo"}, {"+": [1, 2]}, {"if": [True, "x"]}, {"unknown": 1}, [{"var": "b"}], {"var": "b", "x": 1}]
    for sv in shaped:
        dd = {"a": sv, "b": 5, "z": 0}
        for rule in ({"or": [{"var": "a"}, "fallback"]}, {"and": [1, {"var": "a"}]}, {"or": [0, {"var": "a"}]}, {"and": [{"var": "a"}, {"var": "a"}]}, {"if": [{"var": "a"}]}, {"if": [0, 1, {"var": "a"}]},
                     {"if": [1, {"var": "a"}, 2]}, {"?:": [{"var": "z"}, 1, {"var": "a"}]}, {"if": [{"var": "a"}, {"var": "a"}, 0]}, {"or": [{"var": "a"}]}, {"and": [{"var": "a"}]},
                     {"map": [[1], {"var": ["zz", sv]}]}, {"reduce": [[1], {"var": "accumulator"}, {"var": "a"}]}, {"filter": [[sv], True]}, {"merge": [{"var": "a"}]}, {"cat": [{"var": "a"}]}):
            out.append(app(rule, dd))
    kd = {"a": {"b": 1}, "a/b": 0, "x": {"y": 0}, "x/y": 5, "x~1y": "", "~0": 1, "1": "0", "0": "", "-1": [0], "2": {}, "t": "yes", "f": 0, "/": 0, "": {"": 1}}
    for key in ["a/b", "x/y", "x~1y", "~0", "/", "a/0", 1, 0, -1, 2, 3, [1], ["a/b"], "1", "0"]:
        c = {"var": key}
        out += [app({"if": [c, "then", "else"]}, kd), app({"?:": [c, "then", "else"]}, kd), app({"and": [c, "next"]}, kd), app({"or": [c, "next"]}, kd), app({"!!": [c]}, kd),
                app({"if": [False, 0, c, "then2", "else2"]}, kd), app({"if": [c, c, "else"]}, kd), app({"filter": [[1], c]}, kd), app({"all": [[1], c]}, kd)]
    for k in ("if", "?:", "and", "or"):
        for n in range(0, 4 if tier == "quick" else 5):
            for combo in itertools.product(small[:12] + small[14:16] if n == 3 and tier == "quick" else small, repeat=n) if n <= 3 else []:
                out.append(app({k: list(combo)}, d))
        cnt = 1500 if tier == "quick" else 40000
        for _ in range(cnt):
            n = g.r.randint(4, 7)
            out.append(app({k: [g.r.choice(small) for _ in range(n)]}, d))
        for a in small:   # unbracketed single operand
            if not isinstance(a, list): out.append(app({k: a}, d))
    return out


def s_truthy(g, tier):
    """C06: corner values x every truthiness position x {literal, through var, as an operator result}"""
    vals = FALSY + TRUTHY + [1e-320, -5e-324, 2 ** 64 - 1, I64MIN, "\u0000", " ", "0.0", "null", [""], [False], [[], []], {"": 0},
                             0.1, -1.5, " ", "é", [0, 0], {"a": []}, 1e300, -1e-300]
    out = []
    for v in vals:
        forms = [("var", {"var": "v"}, {"v": v})]
        if not G.is_op_shaped(v) and not isinstance(v, list):
            forms.append(("lit", v, None))
        forms.append(("res", {"if": [True, {"var": "v"}]}, {"v": v}))
        forms.append(("res2", {"var": ["nope", {"var": "v"}]}, {"v": v}))
        for name, e, d in forms:
            litarr = isinstance(e, list)
            out += [app({"!!": [e]}, d), app({"!": [e]}, d), app({"if": [e, "T", "F"]}, d), app({"?:": [e, "T", "F"]}, d),
                    app({"and": [e, "next"]}, d), app({"or": [e, "next"]}, d), app({"and": ["first", e]}, d),
                    app({"filter": [[1, 2], e]}, d) if name == "lit" else app({"filter": [{"var": "xs"}, {"var": ""}]}, {"xs": [v, 1, v]}),
                    app({"all": [[1, 2], e]}, d) if name == "lit" else app({"all": [{"var": "xs"}, {"var": ""}]}, {"xs": [1, v]}),
                    app({"some": [[1, 2], e]}, d) if name == "lit" else app({"some": [{"var": "xs"}, {"var": ""}]}, {"xs": [0, v]}),
                    app({"none": [[1, 2], e]}, d) if name == "lit" else app({"none": [{"var": "xs"}, {"var": ""}]}, {"xs": ["", v]}),
                    app({"if": [False, 1, e, "T2", "F2"]}, d), app({"!": [{"!": [e]}]}, d)]
            if not litarr:
                out += [app({"!!": e}, d), app({"!": e}, d)]
    # values reached through paths that index arrays from the end or strings by character
    pd = {"items": [0, "", [], "last"], "zeros": [1, 0], "name": "0x", "empty": "", "nest": {"l": [[0], []]}}
    for pth, dd in [("items.-1", pd), ("items.-2", pd), ("items.0", pd), ("zeros.-1", pd), ("zeros.-2", pd), ("name.0", pd), ("name.-1", pd), ("name.5", pd), ("empty.0", pd),
                    ("nest.l.-1", pd), ("nest.l.0", pd), ("-1", [0, 1]), ("-2", [0, 1]), ("0", "x"), ("-1", "0"), (-1, [0, 5]), (-1, [5, 0]), (0, "a"),
                    (1, {"1": "0"}), (1, {"1": 0}), (0, {"0": []}), (-1, {"-1": "x"}), (2, {"2": None}), ([1], {"1": "0"}), ("a/b", {"a": {"b": 1}, "a/b": 0}), ("a/b", {"a": {"b": 0}, "a/b": 1}),
                    ("x~1y", {"x/y": 1, "x~1y": 0}), ("~0", {"~": 1, "~0": 0})]:
        e = {"var": pth}
        out += [app({"!!": [e]}, dd), app({"!": [e]}, dd), app({"if": [e, "T", "F"]}, dd), app({"?:": [e, "T", "F"]}, dd), app({"and": [e, "next"]}, dd), app({"or": [e, "next"]}, dd),
                app({"if": [False, 1, e, "T2", "F2"]}, dd), app({"filter": [[1], e]}, dd), app({"all": [[1], e]}, dd), app({"some": [[1], e]}, dd), app({"none": [[1], e]}, dd)]
    folks = [{"email": "a@x"}, {"phone": 1}, {}, {"email": None, "phone": None}, {"email": "", "fax": 2}]
    dpreds = [{"!": {"missing_some": [1, ["email", "phone"]]}}, {"!": [{"missing": ["email"]}]}, {"missing": ["email"]}, {"missing_some": [2, ["email", "phone", "fax"]]}, {"!!": [{"missing": ["phone", "fax"]}]},
              {"in": ["email", {"missing": ["email", "phone"]}]}, {"==": [{"missing_some": [1, ["email"]]}, []]}, {"var": "email"}, {"!": [{"var": "phone"}]}, True, False, {"==": [1, 1]}, {"cat": ["", ""]}, {"merge": []}]
    for pred in dpreds:
        for q in ("filter", "all", "some", "none", "map"):
            out.append(app({q: [{"var": "folks"}, pred]}, {"folks": folks})); out.append(app({q: [{"var": "folks"}, pred]}, {"folks": folks[1:] + folks[:1]}))
            out.append(app({q: [{"var": "folks"}, pred]}, {"folks": list(reversed(folks))}))
    people = [{"name": "Ann", "tags": ["x"], "s": "0"}, {"name": "", "tags": [], "s": ""}, {"name": "0", "tags": [0], "s": "ab"}]
    for pth in ("name.0", "name.-1", "name.0.0", "name.1", "tags.0", "tags.-1", "s.0", "s.-1", "name", "-1", "0", "0.0"):
        for pred in ({"var": pth}, {"var": [pth]}, {"!!": [{"var": pth}]}):
            for q in ("filter", "all", "some", "none", "map"):
                out.append(app({q: [{"var": "people"}, pred]}, {"people": people})); out.append(app({q: [{"var": "ws"}, pred]}, {"ws": ["ab", "", "0", "é😀"]}))
                out.append(app({q: [people, pred]}, None))
    shaped_members = [[{"var": "a"}], [{"var": "zz"}], [{"+": [0, 0]}], [{"!": [1]}, 0], [{"var": "a"}, {"var": "b"}]]
    for coll in shaped_members:
        for cond in ({"filter": [coll, {"var": ""}]}, {"map": [coll, {"var": ""}]}, {"merge": [coll]}, {"filter": [coll, True]}, {"filter": [coll, {"!": [{"var": ""}]}]}, {"filter": ["ab", True]},
                     {"all": [coll, {"var": ""}]}, {"some": [coll, {"var": ""}]}, {"none": [coll, {"var": ""}]}, {"reduce": [coll, {"var": "current"}, 0]}, {"in": [0, coll]}, {"cat": coll}):
            for dd in ({"a": 0, "b": 0}, {"a": 1, "b": 0}, {"a": [], "b": ""}):
                out += [app({"if": [cond, "then", "else"]}, dd), app({"?:": [cond, "then", "else"]}, dd), app({"if": [0, 1, cond, "then2", "else2"]}, dd), app({"and": [cond, "next"]}, dd), app({"or": [cond, "next"]}, dd),
                        app({"!!": [cond]}, dd), app({"!": [cond]}, dd), app({"filter": [[1, 2], cond]}, dd), app({"all": [[1], cond]}, dd)]
    # operator results in deciding position
    for e in [{"+": [0, 0]}, {"-": [1, 1]}, {"*": [-1, 0]}, {"cat": []}, {"cat": [""]}, {"merge": []}, {"merge": [[]]}, {"substr": ["abc", 3]},
              {"filter": [[0], {"var": ""}]}, {"map": [[], 1]}, {"missing": []}, {"missing": ["zz"]}, {"%": [4, 2]}, {"/": [0, 5]},
              {"min": [0.0]}, {"max": [-0.0]}, {"var": "zz"}, {"in": ["a", "b"]}, {"==": [1, 2]}, {"log": 0}, {"log": "x"}]:
        out += [app({"!!": [e]}, None), app({"!": [e]}, None), app({"if": [e, "T", "F"]}, None), app({"and": [e, 1]}, None), app({"or": [e, 1]}, None),
                app({"filter": [[1], e]}, None), app({"all": [[1], e]}, None), app({"some": [[1], e]}, None), app({"none": [[1], e]}, None)]
    return out


def s_pairs(ops, helpers, tier, g, triples=False):
    vals = CORPUS
    out = pair_cases(ops, helpers, vals)
    if triples:
        n = 6000 if tier == "quick" else 200000
        pool = [v for v in vals if not G.is_op_shaped(v)]
        for _ in range(n):
            a, b, c = g.r.choice(pool), g.r.choice(pool), g.r.choice(pool)
            for k in ops:
                out.append(app({k: [a, b, c]}, None))
    # adjacent doubles (and numbers one ulp / a relative epsilon apart), as numbers, numeric strings and one-element arrays
    import math
    adj = []
    for x in [0.3, 1.0, 0.1, 1e-7, 1e21, 123456.789, 4.35, 2.5, 1e300, 5e-324, 2.2250738585072014e-308, 0.1 + 0.2, 1 / 3, 1e-320, 9007199254740992.0, 0.5] + [g.num() for _ in range(120)]:
        if isinstance(x, float) and x == x and abs(x) != float("inf"):
            for y in (math.nextafter(x, math.inf), math.nextafter(x, -math.inf), math.nextafter(math.nextafter(x, math.inf), math.inf)):
                if abs(y) != float("inf"): adj.append((x, y))
    for x, y in adj:
        for a, b in ((x, y), (y, x), (repr(x), y), (x, repr(y)), ([x], y), (x, [y])):
            for k in ops:
                out.append(via_var(k, [a, b]))
                if isinstance(a, float) and isinstance(b, float): out.append(app({k: [a, b]}, None))
            for h in helpers:
                out.append(h + " " + enc(a) + " " + enc(b))
    # the same operators inside the predicate / body of every higher-order operator: the element against a constant, both ways round
    hpool = [1, 1.0, -0.0, 0, "1", [1], [[1]], [], [[]], None, True, "a", "", 2 ** 53, float(2 ** 53), 2 ** 53 + 1, {"k": 1}, "é", 1.5, "1.0", [1, 2]]
    for c in hpool:
        if G.is_op_shaped(c) or isinstance(c, dict): continue
        for k in ops:
            for pred in ({k: [{"var": ""}, c]}, {k: [c, {"var": ""}]}):
                for q in ("all", "some", "none", "filter", "map"):
                    out.append(app({q: [{"var": "xs"}, pred]}, {"xs": hpool})); out.append(app({q: [{"merge": [{"var": "xs"}]}, pred]}, {"xs": [c, 1.0, [1]]}))
                out.append(app({"reduce": [{"var": "xs"}, {"or": [{"var": "accumulator"}, {k: [{"var": "current"}, c]}]}, False]}, {"xs": hpool}))
    # through var: operands arrive as evaluated values (and may be the same value twice)
    pool = [v for v in vals]
    for _ in range(3000 if tier == "quick" else 60000):
        a, b = g.r.choice(pool), g.r.choice(pool)
        k = g.r.choice(ops)
        out.append(via_var(k, [a, b]))
    for v in pool:
        for k in ops:
            out.append(app({k: [{"var": ""}, {"var": ""}]}, v))
    return out


NUMPOOL = NUMS + [v for v in NUMSTRS] + [[3], ["4"], [], [1, 2], [None], None, True, False, {}, {"a": 1}, "abc", [[5]], [1.5], ["1e2"], " 12 ", "12px",
                                         2 ** 53 + 2, 2 ** 63 - 1024, 2 ** 63 + 2048, 2 ** 64 - 2048, 0.3, 1e308, -1e308, 3.0, 4.5, 1e22, 2.5, 3.5, -3.5, 7, -7]


def s_unbracketed(ops):
    """an operand written without the enclosing array that is itself an operation yielding an array (or not), for the given operators"""
    out = []
    makers = [({"var": "l2"}, {"l2": [1, 2]}), ({"var": "l0"}, {"l0": []}), ({"var": "lb"}, {"lb": [True]}), ({"var": "ln"}, {"ln": [None]}), ({"var": "ls"}, {"ls": ["a", "b", "c"]}), ({"merge": [[3, 7]]}, None),
              ({"map": [[1, 2], {"var": ""}]}, None), ({"filter": [[1, 2], False]}, None), ({"var": ""}, [3, 7]), ({"var": "l1"}, {"l1": [5]}), ({"if": [True, [1, 2]]}, None), ({"var": "nest"}, {"nest": [[1, 2]]}),
              ({"var": "s"}, {"s": "x"}), ({"var": "n"}, {"n": 4}), ({"cat": ["a", "b"]}, None), ({"var": "zz"}, {})]
    for opk in ops:
        for mk, dd in makers:
            out += [app({opk: mk}, dd), app({opk: [mk]}, dd), app({opk: [mk, mk]}, dd)]
    return out


def s_arith(g, tier):
    out = s_unbracketed(["+", "-", "*", "/", "%", "min", "max"])
    ops = ["+", "-", "*", "/", "%", "min", "max"]
    pool = NUMPOOL
    for k in ops:
        out.append(app({k: []}, None))
        for a in pool:
            out.append(app({k: [a]}, None))
            if not isinstance(a, (list, dict)): out.append(app({k: a}, None))
            out.append(via_var(k, [a]))
    for a in pool:
        for b in pool:
            for k in ops:
                out.append(app({k: [a, b]}, None))
            for h in ("abstract_minus", "abstract_div", "abstract_mod"):
                out.append(h + " " + enc(a) + " " + enc(b))
    for a in pool:
        for h in ("to_number", "parse_float", "to_negative"):
            out.append(h + " " + enc(a))
    # long operand lists: float addition/multiplication is not associative, the fold order is part of the result
    for xs in ([0.1] * 10, [0.1] * 9, [2 ** 53] + [1] * 9, [1] * 9 + [2 ** 53], [1e308, 0, 0, 0, 0, 1e308, -1e308, 0, 0, 0], [1e16, 1, -1e16] * 4, [0.1, 0.2, 0.3] * 5, [1e-320] * 12,
               [3, 1e16, -1e16] * 3 + [0.5], [1.0000000000000002] * 17, [2 ** 53 + 1] * 9, ["0.1"] * 10, [[0.1]] * 10):
        for k in ("+", "*", "max", "min"):
            out.append(app({k: xs}, None)); out.append(via_var(k, xs))
        out.append("parse_float_add " + enc(xs)); out.append("parse_float_mul " + enc(xs))
    for _ in range(1500 if tier == "quick" else 40000):
        ln = g.r.randint(6, 40)
        xs = [g.fixnum(g.num()) if g.r.random() < 0.85 else g.r.choice(pool) for _ in range(ln)]
        out.append(app({g.r.choice(["+", "*", "+", "max", "min"]): xs}, None))
    n = 20000 if tier == "quick" else 400000
    for _ in range(n):
        ln = g.r.randint(0, 5)
        xs = [g.fixnum(g.num()) if g.r.random() < 0.7 else g.r.choice(pool) for _ in range(ln)]
        k = g.r.choice(ops)
        out.append(app({k: xs}, None))
        if g.r.random() < 0.2:
            out.append(g.r.choice(["parse_float_add", "parse_float_mul", "abstract_max", "abstract_min"]) + " " + enc(xs))
    return out


def s_float_prims(g, tier):
    """native f64 vs the model's exact-rational-then-round arithmetic, on bit patterns"""
    import struct
    r = g.r
    def rf():
        c = r.randint(0, 9)
        if c == 0: return r.choice([0.0, -0.0, 1.0, -1.0, 1.7976931348623157e308, 2.2250738585072014e-308, 5e-324, 9007199254740992.0, 9007199254740993.0,
                                    1e19, 9.223372036854775807e18, -9.223372036854775808e18, 0.1, 0.2, 0.3, 1e21, 1e-7, 1e16, 1e15, 0.5, 1.5, 2.5])
        if c == 1: b = r.getrandbits(64)
        elif c == 2: return float(r.randint(-1000, 1000))
        elif c == 3: return r.randint(-1000000, 1000000) / 1000.0
        elif c == 4: b = r.getrandbits(54)
        elif c == 5: b = (r.getrandbits(1) << 63) | (r.randint(0, 2045) << 52) | r.getrandbits(52)
        elif c == 6: b = (r.getrandbits(1) << 63) | ((1000 + r.randint(0, 59)) << 52) | r.getrandbits(52)
        elif c == 7: return float(r.randint(-2 ** 63, 2 ** 63 - 1))
        elif c == 8: return float(r.getrandbits(64))
        else: b = (r.getrandbits(1) << 63) | ((1023 + r.randint(0, 69)) << 52) | ((r.getrandbits(52) >> r.randint(0, 52)) << r.randint(0, 29)) & ((1 << 52) - 1)
        return struct.unpack("<d", struct.pack("<Q", b & (2 ** 64 - 1)))[0]
    hx = lambda x: "%016x" % struct.unpack("<Q", struct.pack("<d", x))[0]
    out = []
    n = 20000 if tier == "quick" else 600000
    for _ in range(n):
        a, b = rf(), rf()
        c = r.randint(0, 13)
        if c <= 6: out.append("f.%s %s %s" % (["add", "sub", "mul", "div", "rem", "lt", "eq"][c], hx(a), hx(b)))
        elif c == 7: out.append("f.le %s %s" % (hx(a), hx(b)))
        elif c == 8: out.append("f.u64 %d" % (r.getrandbits(64) >> r.randint(0, 63)))
        elif c == 9: out.append("f.i64 %d" % ((r.getrandbits(64) - 2 ** 63) >> r.randint(0, 63)))
        elif c == 10: out.append("f.cast " + hx(a))
        elif c == 11: out.append("f.fract0 " + hx(a))
        elif c == 12:
            if a == a and abs(a) != float("inf"): out.append("f.fmt " + hx(a))
        else:
            nd = r.randint(1, 25)
            d = "".join(str(r.randint(1 if i == 0 else 0, 9)) for i in range(nd))
            e = [r.randint(-20, 19), r.randint(-350, 349), -(300 + r.randint(0, 49)), 290 + r.randint(0, 29)][r.randint(0, 3)]
            out.append("f.dec %d %s %d" % (r.randint(0, 1), d, e))
    return out


def s_var(g, tier):
    """C11"""
    out = []
    datas = [{"a": {"b": [10, 20, {"c": "deep"}], "": "emptykey", "b.c": "dotted"}, "a.b": "topdotted", "x": None, "s": "héllo😀", "l": [1, [2, 3], "st"],
              "0": "zero-key", "-1": "minus-key", "é": {"ß": 1}, "k\\": "bs", "": "top-empty", "a\\b": "lit-bs", "ab": "plain", "01": "lead0", "1": "one",
              "+1": "plus"},
             [10, [20, 21], {"a": "in-array"}, "str", None],
             "héllo😀", "", None, 5, True, [], {}, {"": {"": "nested-empty"}}, [[["deep"]]], {"a": [{"b": "x"}, {"b": None}]}]
    keys = ["a", "a.b", "a.b.0", "a.b.-1", "a.b.2.c", "a.b.3", "a.b.-4", "a.b.-3", "a\\.b", "a.b\\.c", "a.", ".a", "a..b", ".", "..", "\\", "a\\", "k\\\\", "k\\",
            "x", "x.y", "s.0", "s.1", "s.-1", "s.5", "s.6", "s.-6", "s.-7", "s.+1", "s.01", "s.-0", "s. 1", "s.1 ", "l.1.0", "l.2.0", "l.2.-1", "l.-1.1", "0", "-1", "1",
            "é.ß", "é", "a\\b", "a\\\\b", "ab", "01", "+1", "", "zz", "a.zz", "a.b.c", "9223372036854775807", "-9223372036854775808", "9223372036854775808",
            "l.9223372036854775807", "l.-9223372036854775808", "l.-9223372036854775809", "l.18446744073709551615", "l.1e0", "l.0x1", "l.١", "s.😀", "a.b.1.0", "a.b.2.c.0"]
    datas.append({"a": {"b": 1, "0": "zero"}, "a/b": "slash", "x/y": 5, "x~1y": "tilde", "~0": "t0", "~": "t", "/": "root", "l": [["deep"]], "l/0": "l-slash"})
    keys += ["l.-+1", "l.+-1", "l.--1", "l.++1", "l.-01", "l.+01", "s.-+1", "s.+0", "a.b.-+1", "name.0.-1", "s.0.-1", "s.-1.-1", "s.0.0.-1", "s.0.1", "s.0.-2", "l.2.0.-1", "2.-1", "0.-1.0"]
    keys += ["a/b", "x/y", "x~1y", "~0", "~", "/", "a/0", "l/0", "l/0/0", "a/b/c", "a~1b", "/a", "a/"]
    ikeys = [0, 1, -1, 2, 4, 5, -5, -6, 3, -3, 6, -7, I64MIN, I64MAX, 2 ** 63, U64MAX, 1.0, 0.5, -0.0, 1e3, None, True, [], ["a"], {}, [1], {"a": 1}]
    dflts = [None, 0, "dflt", {"var": "a.b.0"}, [1], {"cat": ["d", "f"]}]
    for d in datas:
        for k in keys + ikeys:
            if isinstance(k, (list, dict)) and k:
                out.append(app({"var": [{"var": "kk"}]}, {"kk": k}))
                continue
            if not isinstance(k, (list, dict)): out.append(app({"var": k}, d))
            out.append(app({"var": [k]}, d))
            for df in (dflts if tier != "quick" else dflts[:4]):
                out.append(app({"var": [k, df]}, d))
        out.append(app({"var": []}, d))
        out.append(app({"var": [[]]}, d)); out.append(app({"var": [{}]}, d))
        # computed keys
        out.append(app({"var": [{"cat": ["a", ".", "b"]}]}, d))
        out.append(app({"var": [{"+": [0, 1]}]}, d))
        out.append(app({"var": [{"var": "zz"}]}, d))
    # path composition: lookup (p ++ "." ++ q) = lookup q in lookup p   (as two calls on the implementation)
    n = 2000 if tier == "quick" else 40000
    for _ in range(n):
        d = g.data_for(["a.b", "l.0", "s.1"])
        segs = [g.r.choice(["a", "b", "l", "s", "x", "0", "1", "-1", "2", "c", "", "é", "zz", "+1", "-0", "a\\.b", "\\", "secret"]) for _ in range(g.r.randint(1, 3))]
        out.append(app({"var": ".".join(segs)}, d))
        out.append(app({"var": [".".join(segs), g.value(1)]}, d))
    return out


def s_missing(g, tier):
    """C12"""
    out = []
    datas = [{"x.y": 7, "x": {"y": 1}, "k.f": 1, "zz.a": 0}, {"a": 1, "b": None, "c": "", "d": [], "e": {"f": 0, "g": None}, "l": [1, None], "0": "z", "s": "str"}, [1, None, [2]], "text", None, {}, 5,
             {"a.b": 1, "a": {"b": 2}}, {"name": "Zoë", "s": "héllo😀", "l": ["日本語"]}, "héllo", "日本"]
    keylists = [["l.-+1", "l.+-1", "l.--1", "l.++1", "l.- 1", "l.-01", "l.+01", "l.+1", "l.-0", "s.-+1", "name.-+1", "name.+0", "l.1e0", "l.0x0", "l. 0", "l.0 "],
                ["x\\", "x\\.y", "x"], ["x\\.y", "x\\"], ["a", "a.b", "a.b.c"], ["a.b", "a"], ["zz", "zz.a", "zz.a.b"], ["e", "e.zz", "e.zz.q", "e.f"], ["x.", "x..y", "x.y"], ["k\\", "k\\.f"],
                ["name.2.0", "name.0.0", "name.2.0.0", "name.2.1", "name.3.0", "name.-1.0", "name.-1.-1", "s.1.0.0.0"], ["0.0", "0.0.0", "0.1", "1.0", "-1.0.0"], ["l.0.0.0", "l.0.2.0", "l.0.3.0"],
                ["name.2", "name.3", "name.-3", "name.-4"], ["s.5", "s.6", "s.9", "s.-6", "s.-7", "s.-10"], ["l.0.2", "l.0.3", "l.0.8", "l.0.-3", "l.0.-4", "l.0.-9"],
                [4, 5, 6, -5, -6, -7], [1, 2, 3, 5, 6, -2, -3, -6], [], ["a"], ["zz"], ["a", "zz"], ["zz", "a", "yy"], ["a", "a", "b"], ["zz", "zz", "a"], ["zz", "yy", "zz", "yy"], ["b", "c", "d"], ["e.f", "e.g", "e.h"],
                ["l.0", "l.1", "l.2", "l.-1"], [0, 1, 2, 3, -1], [None, "a", None, "zz"], ["", "a"], [None], ["a.b", "a\\.b"], ["s.0", "s.9"], [0, "0", 0],
                ["zz", 1.5], [True], [["a"]], [{}], ["a", {"x": 1}], [I64MIN, I64MAX, U64MAX], [2 ** 63], ["e", "e.f", "e.zz"]]
    for d in datas:
        for ks in keylists:
            out.append(app({"missing": ks}, d))
            out.append(app({"missing": [ks]}, d))
            out.append(app({"missing": [ks, "zz"]}, d))
            out.append(app({"missing": [{"merge": [ks, []]}]}, d))
            out.append(app({"missing": {"var": "ks"}}, dict(d, ks=ks) if isinstance(d, dict) else d))
            for t in range(0, len(ks) + 2):
                out.append(app({"missing_some": [t, ks]}, d))
                out.append(app({"missing_some": [t, {"merge": [ks]}]}, d))
            for t in (-1, 1.0, 1.5, "1", None, [1], I64MAX, U64MAX, 2 ** 63):
                out.append(app({"missing_some": [t, ks]}, d))
            out.append(app({"missing_some": [1, "a"]}, d)); out.append(app({"missing_some": [1, None]}, d))
            # cross-check against var with a fresh sentinel on the same data (compared by the check, impl vs impl)
    for d in datas:
        for k in ["a", "b", "c", "zz", "e.g", "e.h", "l.1", "l.2", 0, 1, 5, "", None, "s.0", "s.9", "a.b", "a\\.b", "s.0.0", "s.1.0.0", "name.2.0", "name.3.0", "0.0", "0.0.0", "l.0.0", "l.0.0.0",
                  "s.-1.0", "name.-1.-1", "l.0.2.0"]:
            out.append(("xvar", app({"missing": [k]}, d), app({"var": [k, "@@sentinel@@"]}, d)))
    # long key lists (beyond 32) with keys that look alike: an integer and the string of its decimal text, repeated
    for npres in (0, 5, 30, 40):
        present = {"f%d" % i: i for i in range(npres)}
        tail = [7, "7", 7, "gone", None, -1, "gone", "-1", "7", "f3", 0, "0", "00", 1.0, "1"]
        for extra in (0, 20, 40):
            ks = ["f%d" % i for i in range(npres)] + ["m%d" % i for i in range(extra)] + tail
            for d in (present, dict(present, **{"7": 1}), [1, 2, 3]):
                out.append(app({"missing": ks[:-2]}, d))
                for t in (0, 1, npres, npres + 1, len(ks), len(ks) + 1):
                    out.append(app({"missing_some": [t, ks[:-2]]}, d))
    n = 1500 if tier == "quick" else 30000
    for _ in range(n):
        ks = [g.r.choice(["a", "b", "zz", "yy", "l.0", "l.5", 0, 7, None, "e.f", "e.q", "", "s"]) for _ in range(g.r.randint(0, 6))]
        d = g.data_for([k for k in ks if isinstance(k, str)])
        out.append(app({"missing": ks}, d))
        out.append(app({"missing_some": [g.r.randint(0, len(ks) + 1), ks]}, d))
    return out


def s_hof(g, tier):
    """C13"""
    out = []
    colls = [[{"a": 1}, {"b": 2}, {"a": None, "b": 1}, {}], [[1], [], [1, 2]], [], [1, 2, 3], [0, 1, "", "a", None, [], [0], {}, {"a": 1}], [[1, 2], [3], []], [{"a": 1, "b": [1]}, {"a": 2}], None, "abc", 5, {}, True, {"a": 1},
             [{"var": "x"}, {"+": [1, 2]}], ["é", "😀"], [1.5, -0.0, 2 ** 53 + 1]]
    exprs = [{"missing": ["a"]}, {"missing_some": [1, ["a", "b"]]}, {"!": [{"missing": ["a"]}]}, {"missing": [0]}, {"cat": [{"missing": ["a", "b"]}]},
             {"var": ""}, {"var": "a"}, {"*": [{"var": ""}, 2]}, 1, None, {"var": "outer"}, {"cat": [{"var": ""}, "!"]}, {"!": [{"var": ""}]}, {"var": "current"},
             {"map": [{"var": ""}, {"var": ""}]}, {"filter": [{"var": "b"}, {"var": ""}]}, {"==": [1]}, {"+": ["x"]}, {"log": {"var": ""}}, [{"var": ""}], {"var": 0},
             {"if": [{"var": ""}, "T", "F"]}, {">": [{"var": ""}, 1]}, {"var": ["zz", {"var": ""}]}, {"reduce": [{"var": ""}, {"+": [{"var": "current"}, {"var": "accumulator"}]}, 0]}]
    outer = {"outer": "OUT", "a": "outer-a", "current": "outer-cur", "accumulator": "outer-acc", "xs": [1, 2, 3]}
    for c in colls:
        for e in exprs:
            for k in ("map", "filter"):
                out.append(app({k: [c if not (isinstance(c, list) and c and G.is_op_shaped(c[0])) else {"var": "coll"}, e]}, dict(outer, coll=c)))
                out.append(app({k: [{"var": "coll"}, e]}, dict(outer, coll=c)))
    reds = [{"+": [{"var": "current"}, {"var": "accumulator"}]}, {"cat": [{"var": "accumulator"}, ",", {"var": "current"}]}, {"-": [{"var": "accumulator"}, {"var": "current"}]},
            {"var": "current"}, {"var": "accumulator"}, {"var": ""}, {"var": "outer"}, {"var": "a"}, 1, {"merge": [{"var": "accumulator"}, [{"var": "current"}]]},
            {"var": "current.a"}, {"if": [{"var": "current"}, {"var": "accumulator"}, "z"]}, {"==": [1]}, {"log": {"var": "current"}}, {"max": [{"var": "current"}, {"var": "accumulator"}]}]
    inits = [0, "", [], None, {"var": "outer"}, {"var": "zz"}, {"+": ["x"]}, {"log": "init"}, {"a": 1}]
    for c in colls:
        for e in reds:
            for i in (inits if tier != "quick" else inits[:6]):
                out.append(app({"reduce": [{"var": "coll"}, e, i]}, dict(outer, coll=c)))
                if not (isinstance(c, list) and c and G.is_op_shaped(c[0])) and not isinstance(c, dict):
                    out.append(app({"reduce": [c, e, i]}, outer))
    sumr = {"+": [{"var": "current"}, {"var": "accumulator"}]}
    inners = [{"reduce": [[10, 20], sumr, {"var": ""}]}, {"reduce": [{"var": ""}, sumr, 0]}, {"reduce": [[1, 2], {"+": [{"var": "current"}, {"var": "accumulator"}, 0]}, {"var": "x"}]}, {"map": [[1, 2], {"var": ""}]},
              {"map": [{"var": ""}, 1]}, {"filter": [[0, 1, 2], {"var": ""}]}, {"all": [[{"var": ""}], {"var": ""}]}, {"some": [{"var": ""}, True]}, {"none": [[1], {"var": "zz"}]},
              {"reduce": [[1], {"var": "accumulator"}, {"reduce": [[1], {"var": "accumulator"}, {"var": ""}]}]}, {"in": [{"var": ""}, [1, 2, 3]]}, {"merge": [[0], {"var": ""}]}, {"if": [{"var": ""}, "t", "f"]},
              {"missing": ["a"]}, {"cat": ["c", {"var": ""}]}, {"reduce": [[1, 2], sumr, {"var": ["zz", {"var": ""}]}]}]
    for inner in inners:
        for n_ in (1, 2, 3, 13, 14, 15, 24, 40):
            xs = list(range(1, n_ + 1))
            out.append(app({"map": [xs, inner]}, None)); out.append(app({"filter": [xs, inner]}, None)); out.append(app({"map": [{"var": "xs"}, inner]}, {"xs": [[i] for i in xs]}))
            out.append(app({"map": [{"var": "xs"}, inner]}, {"xs": [{"a": i, "x": i} if i % 2 else {"x": 0} for i in xs]}))
    accs = [{"done": 0, "x": 1}, {"done": 1}, [0], [1, 0], {}, 0, "", [], "ab", {"x": {"y": 0}}]
    for red in ({"and": [{"var": "accumulator.x"}, {"var": "current"}]}, {"or": [{"var": "accumulator.done"}, {"var": "current"}]}, {"or": [{"var": "accumulator.0"}, {"merge": [{"var": "current"}]}]},
                {"and": [{"var": "accumulator"}, {"var": "current"}]}, {"or": [{"var": "accumulator"}, {"var": "current"}]}, {"or": [{"var": ["accumulator"]}, {"var": "current"}]}, {"and": [{"var": "current.k"}, {"var": "accumulator"}]},
                {"if": [{"var": "accumulator.x"}, {"var": "accumulator"}, {"var": "current"}]}, {"or": [{"var": "accumulator.x.y"}, {"log": {"var": "current"}}]}, {"and": [{"var": "accumulator.-1"}, {"var": "current"}]},
                {"or": [{"var": "current"}, {"var": "accumulator"}]}, {"max": [{"var": "accumulator.0"}, {"var": "current"}]}):
        for acc in accs:
            for xs in ([1, 2], [0, 7], [{"k": 1}, {"k": 0}], [], [0, 0, 5, 0]):
                out.append(app({"reduce": [xs, red, acc]}, None)); out.append(app({"reduce": [{"var": "xs"}, red, {"var": "acc"}]}, {"xs": xs, "acc": acc}))
    for coll in ([], None, {"var": "zz"}, {"filter": [[1], False]}):
        for bad in ({"==": [1]}, {"var": [1, 2, 3]}, {"!": []}):
            out += [app({"reduce": [coll, bad, 0]}, None), app({"reduce": [coll, {"var": "current"}, bad]}, None), app({"map": [coll, bad]}, None), app({"filter": [coll, bad]}, None)]
    # the fold order of a numeric reduce is observable in floating point; keys with backslashes inside map/filter; constant `log` predicates
    plus = {"+": [{"var": "current"}, {"var": "accumulator"}]}; plus2 = {"+": [{"var": "accumulator"}, {"var": "current"}]}; times = {"*": [{"var": "accumulator"}, {"var": "current"}]}
    for init, xs in ((2 ** 53, [1, 1]), (-1e308, [1e308, 1e308]), (1e16, [1, 1, 1, 1]), (0.1, [0.2, 0.3]), (1, [1e16, -1e16]), (9007199254740993, [0, 0]), (0, [0.1] * 10), (1e308, [1e308, -1e308]),
                     (2 ** 53, [1.0, 1.0, 1.0]), ("1", [1, 2]), (None, [1, 2]), (0.5, [2 ** 53, 0.5])):
        for red in (plus, plus2, times):
            out.append(app({"reduce": [xs, red, init]}, None)); out.append(app({"reduce": [{"var": "xs"}, red, {"var": "i"}]}, {"xs": xs, "i": init}))
    rows = [{"C:\\tmp": 3, "a\\b": 1, "ab\\": 2, "ab": 9, "Ctmp": 8, "a.b": 7, "a": {"b": 6}}, {"ab": 5}, ["x"], "str"]
    for key in ["C:\\\\tmp", "a\\\\b", "ab\\\\", "a\\b", "ab\\", "a\\.b", "a.b", "ab", "C:\\tmp"]:
        for q in ("map", "filter", "all", "some"):
            out.append(app({q: [{"var": "rows"}, {"var": key}]}, {"rows": rows})); out.append(app({q: [{"var": "rows"}, {"var": [key]}]}, {"rows": rows}))
        out.append(app({"var": key}, rows[0]))
    for pred in ({"log": "tick"}, {"log": 1}, {"log": [1, 2]}, {"!": [{"log": "t"}]}, {"cat": [{"log": "a"}, "b"]}, {"+": [{"log": 1}, 1]}, {"log": {"cat": ["a", "b"]}}):
        for q in ("map", "filter", "all", "some", "none"):
            out.append(app({q: [[1, 2, 3], pred]}, None)); out.append(app({q: [{"var": ""}, pred]}, [1, 2]))
        out.append(app({"reduce": [[1, 2, 3], pred, 0]}, None)); out.append(app({"if": [pred, pred, pred]}, None)); out.append(app({"and": [pred, pred]}, None))
    # evaluation-once / order: collection and initial are logging expressions
    out.append(app({"map": [{"log": [1, 2]}, {"log": {"var": ""}}]}, None))
    out.append(app({"reduce": [{"log": [1, 2]}, {"log": {"var": "current"}}, {"log": "init"}]}, None))
    out.append(app({"filter": [{"log": [1, 0, 2]}, {"log": {"var": ""}}]}, None))
    out.append(app({"reduce": [{"log": 5}, {"==": [1]}, {"log": "init-evaluated-before-type-error"}]}, None))
    out.append(app({"map": [[], {"==": [1]}]}, None)); out.append(app({"filter": [None, {"==": [1]}]}, None))
    n = 1500 if tier == "quick" else 30000
    for _ in range(n):
        c = [g.value(1) for _ in range(g.r.randint(0, 4))]
        k = g.r.choice(["map", "filter", "reduce"])
        e = g.rule(2, None, [])
        args = [{"var": "coll"}, e] + ([g.value(1)] if k == "reduce" else [])
        out.append(app({k: args}, {"coll": c, "a": 1, "x": 2}))
    return out


def s_quant(g, tier):
    """C14"""
    out = []
    preds = [{"var": ""}, True, False, 1, 0, None, {">": [{"var": ""}, 1]}, {"!": [{"var": ""}]}, {"==": [{"var": ""}, "é"]}, {"var": "a"}, {"==": [1]}, {"+": ["x"]},
             {"log": {"var": ""}}, {"in": [{"var": ""}, "héllo"]}, {"var": "outer"}, [], [0], {"===": [{"var": ""}, "ok"]}]
    lits = [[], [1, 2, 3], [0, 1], [1, 0], [0, 0], [{"var": "one"}, {"var": "zero"}], [{"var": "zero"}, {"==": [1]}], [{"var": "one"}, {"==": [1]}], [{"log": 1}, {"log": 0}, {"log": 2}],
            [{"+": ["x"]}, 1], [1, {"+": ["x"]}], [[1], [], [0]], [None, 1], ["", "a"], [{"a": 1}], [{"var": "outer"}], [{"log": 0}, {"log": 1}, {"log": 2}], [True, {"map": [1, 2, 3]}]]
    data = {"one": 1, "zero": 0, "outer": "OUT", "a": "outer-a", "secret": "ok"}
    for k in ("all", "some", "none"):
        for p in preds:
            for c in lits:
                out.append(app({k: [c, p]}, data))
            for c in [[], [1, 2, 3], [0, 1], [1, 0], [{"var": "one"}], [{"var": "secret"}], [{"==": [1]}], [{"log": "LEAK"}], [{"all": [{"var": "coll"}, 1]}], "héllo", "", "é😀", "0", None, 5, True, {}, {"a": 1},
                      [[], [0]], [None], ["ok"], [{"a": 5}], 1.5, [0.0, -0.0], ["", ""]]:
                out.append(app({k: [{"var": "coll"}, p]}, dict(data, coll=c)))
                out.append(app({k: [{"merge": [{"var": "coll"}]}, p]}, dict(data, coll=c)))
                if not isinstance(c, (list, dict)):
                    out.append(app({k: [c, p]}, data))
        out.append(app({k: [{"log": [0, 1, 2]}, {"log": {"var": ""}}]}, None))
    for cst, coll in (([1, 2], [[3, 4], [1, 2]]), ([], [[], 0]), ({"a": 1}, [{"a": 1}]), (2 ** 53, [2 ** 53 + 1]), (2 ** 53 + 1, [float(2 ** 53)]), (1, [1.0, "1"]), ("1", [1]), (None, [None]), (0, [-0.0]),
                      ([1], [[1.0]]), (True, [1]), (U64MAX, [float(2 ** 64)]), ("a", ["a"]), ([None], [[None]])):
        for k in ("all", "some", "none", "filter"):
            for pred in ({"===": [{"var": ""}, cst]}, {"===": [cst, {"var": ""}]}, {"==": [{"var": ""}, cst]}, {"!==": [{"var": ""}, cst]}, {"in": [{"var": ""}, [cst]]}):
                if isinstance(cst, dict): pred = {"===": [{"var": ""}, {"var": "nope"}]}
                out.append(app({k: [{"var": "coll"}, pred]}, {"coll": coll})); out.append(app({k: [{"merge": [{"var": "coll"}]}, pred]}, {"coll": coll}))
    for kexp in range(5, 17):
        for n_ in (2 ** kexp - 1, 2 ** kexp, 2 ** kexp + 1):
            if tier == "quick" and n_ > 20000 and n_ not in (32768, 65536): continue
            sbig = "a" * n_ + "b"; ubig = "é" * (n_ // 2) + "b" + "é" * 3
            for k in ("all", "some", "none"):
                out += [app({k: [{"var": ""}, {"===": [{"var": ""}, "a"]}]}, sbig), app({k: [{"var": ""}, {"===": [{"var": ""}, "b"]}]}, sbig), app({k: [{"var": ""}, {"===": [{"var": ""}, "b"]}]}, ubig)]
            out += [app({"substr": [{"var": ""}, -2]}, sbig), app({"substr": [{"var": ""}, n_ - 1, 3]}, ubig), app({"substr": [{"var": ""}, -5]}, ubig), app({"var": str(n_)}, sbig), app({"var": -1}, ubig), app({"in": ["ab", {"var": ""}]}, sbig)]
    # duality all [c,p] = none [c, !p] on non-empty collections is checked impl-vs-impl by the check
    n = 1500 if tier == "quick" else 30000
    for _ in range(n):
        k = g.r.choice(["all", "some", "none"])
        c = [g.rule(1, None, []) for _ in range(g.r.randint(0, 4))] if g.r.random() < 0.5 else {"var": "coll"}
        p = g.r.choice(preds) if g.r.random() < 0.6 else g.rule(2, "bool", [])
        out.append(app({k: [c, p]}, dict(data, coll=[g.value(1, 0.4) for _ in range(g.r.randint(0, 4))], x=1)))
    return out


def s_merge_in(g, tier):
    """C15"""
    out = []
    vals = [None, True, 0, 1, 1.0, -0.0, "a", "", [], [1], [1, [2]], [[1]], [[[1]]], {}, {"a": 1}, [None], [[], []], "ab", [{"a": [1]}], 2 ** 53 + 1, [1, 2, 3]]
    for n in range(0, 4):
        for combo in itertools.product(vals if n <= 2 else vals[:9], repeat=n):
            out.append(via_var("merge", list(combo)))
            if all(not isinstance(c, dict) for c in combo): out.append(app({"merge": list(combo)}, None))
    for v in vals:
        if not isinstance(v, (list, dict)): out.append(app({"merge": v}, None))
        # a single operand written without brackets and computed: still ONE operand (spliced one level)
        out.append(app({"merge": {"var": "v"}}, {"v": v})); out.append(app({"merge": [{"var": "v"}]}, {"v": v}))
        out.append(app({"merge": {"merge": [{"var": "v"}, [[7]]]}}, {"v": v})); out.append(app({"merge": {"if": [True, {"var": "v"}]}}, {"v": v}))
    needles = [1, 1.0, 1e0, -0.0, 0, 0.0, 2 ** 53, 2 ** 53 + 1, float(2 ** 53), 2 ** 63, float(2 ** 63), U64MAX, float(2 ** 64), I64MIN, float(-2 ** 63), 1.5, -1, -1.0, 1e30, 1e31, 1e300,
               "a", "", "é", "😀", "ab", "b", None, True, False, [], [1], [1.0], [1, 2], [[1]], {}, {"a": 1}, {"a": 1.0}, {"b": 2, "a": 1}, {"a": 1, "b": 2}, {"a": [1, {"b": -0.0}]},
               {"a": [1.0, {"b": 0}]}, "1", [None], {"a": None}, {"a": 1, "b": 2, "c": 3}, 10 ** 18, float(10 ** 18), 1e29, 10 ** 19]
    hays = [[], [1, 2], [1.0], [0], [-0.0], [2 ** 53], [2 ** 53 + 1], [float(2 ** 63)], [2 ** 63], [U64MAX], [I64MIN], ["a", "b"], ["ab"], [[1]], [[1.0, 2]], [[1, 2]], [{}], [{"a": 1}],
            [{"a": 1, "b": 2}], [{"a": [1, {"b": 0}]}], [None], [True], ["1"], [1, "1", [1], {"a": 1}, None, True], "abc", "", "héllo😀", "a😀b", None, 5, True, {}, {"a": 1}, 1.5,
            [1e30], [1e31], [1e300], [10 ** 18], [10 ** 19], [float(10 ** 19)], [[None]], [{"a": None}], [{"b": 2, "a": 1, "c": 3}], [1.5], [-1], [False]]
    for nd in needles:
        for h in hays:
            out.append(via_var("in", [nd, h]))
            if not (isinstance(nd, dict) or any(isinstance(x, dict) for x in (h if isinstance(h, list) else []))) and not isinstance(h, dict):
                out.append(app({"in": [nd, h]}, None))
    for a in (1e300, 1e301, 2e38, 3e38, -1e300, -1e301, 1.7014118346046923e38, 1.7014118346046925e38, 1e39, 1e38, float(2 ** 127), float(2 ** 126)):
        for b in (1e300, 1e301, 2e38, 3e38, -1e300, 1.7014118346046925e38, 1e39, float(2 ** 127)):
            out.append(via_var("in", [a, [b]])); out.append(via_var("in", [[a], [[b]]])); out.append(via_var("in", [{"k": a}, [{"k": b}]]))
    for hay in (list(range(40)), list(range(31)), list(range(32)), list(range(33)), [float(i) for i in range(40)], [str(i) for i in range(40)], list(range(39)) + [-0.0], list(range(39)) + [None]):
        for nd in (7, 7.0, 1e1, -0.0, 0, 0.0, "7", 39, 40, 39.0, None, 3.5, True):
            out.append(app({"in": [{"var": "x"}, hay]}, {"x": nd})); out.append(via_var("in", [nd, hay]))
            if not isinstance(nd, dict): out.append(app({"in": [nd, hay]}, None))
    for nd in ("user", "", "super", "admin", ["admin"], None):
        for hay in ({"merge": [["admin"], "superuser"]}, {"merge": ["superuser"]}, {"merge": ["superuser", ["user2"]]}, {"merge": [[], ""]}, {"filter": [["superuser", "x"], True]}, {"map": [["superuser"], {"var": ""}]},
                    {"if": [True, ["superuser"]]}, {"cat": ["super", "user"]}, {"merge": [{"var": "l"}, {"var": "s"}]}, {"var": "l"}, {"merge": [[["admin"]], "x"]}, {"merge": [None, "superuser"]}):
            out.append(app({"in": [nd, hay]}, {"l": ["admin"], "s": "superuser"}))
    for nd, el in (({"b": 1}, {"a": None}), ({"a": None}, {"b": 1}), ({"a": 1, "b": None}, {"a": 1, "c": None}), ({"a": None}, {}), ({}, {"a": None}), ({"a": [None]}, {"a": []}), ({"x": {"b": 1}}, {"x": {"a": None}}),
                   ({"a": None, "b": None}, {"c": None, "d": None}), ({"a": 1}, {"a": 1, "b": None})):
        out.append(via_var("in", [nd, [el]])); out.append(via_var("in", [el, [nd]])); out.append(via_var("in", [[nd], [[el]]]))
    for s in ["", "a", "é", "😀", "lo😀", "llo", "hé", "x", "héllo😀", "éé"]:
        for h in ["", "a", "héllo😀", "éé", "aé"]:
            out.append(app({"in": [s, h]}, None))
    n = 2000 if tier == "quick" else 50000
    for _ in range(n):
        h = [g.value(2, 0.2) for _ in range(g.r.randint(0, 4))]
        nd = g.r.choice(h) if h and g.r.random() < 0.5 else g.value(2, 0.2)
        if g.r.random() < 0.3 and isinstance(nd, (int, float)) and not isinstance(nd, bool):
            nd = float(nd) if isinstance(nd, int) and abs(nd) < 2 ** 53 else nd
        out.append(via_var("in", [nd, h]))
    return out


def s_cat_substr(g, tier):
    """C16"""
    out = s_unbracketed(["cat", "substr"])
    # multi-byte characters astride every power-of-two byte offset (64 … 4096) of longer strings; starts before / at / after the offset, from both ends
    for base in (32, 64, 128, 256, 1024, 4096):
        for unit in ("é", "€", "😀"):
            for off in range(-4, 3):
                sv = "a" * max(0, base + off - 1) + unit * 2 + "tail-" + unit + "z"
                n_ = len(sv)
                for st in (base - 2, base - 1, base, base + 1, base + 3, n_ - 3, -10, -3, -1, -(n_ - base), 0, 1):
                    for ln in ((None, 1, 3, -2) if st in (base, base + 1, -10, -3) else (None, 2)):
                        args = [{"var": "s"}, st] + ([] if ln is None else [ln])
                        out.append(app({"substr": args}, {"s": sv}))
                out.append(app({"cat": [{"var": "s"}, unit, {"var": "s"}]}, {"s": sv}))
    alphabet = ["a", "é", "€", "😀"]
    maxlen = 4 if tier == "quick" else 5
    idxs = list(range(-7, 8)) + [I64MIN, I64MAX, I64MIN + 1, 2 ** 32, -2 ** 32]
    strs = [""]
    for n in range(1, maxlen + 1):
        for combo in itertools.product(alphabet, repeat=n):
            strs.append("".join(combo))
    if tier == "quick":
        strs = [s for i, s in enumerate(strs) if len(s) <= 3 or i % 5 == 0]
    for s in strs:
        for i in idxs:
            out.append(app({"substr": [s, i]}, None))
        sel = idxs if len(s) <= 2 else [g.r.choice(idxs) for _ in range(6)]
        for i in sel:
            for l in (idxs if len(s) <= 2 else [g.r.choice(idxs) for _ in range(4)]):
                out.append(app({"substr": [s, i, l]}, None))
    for bad in [[1, 1], [None, 1], [["a"], 0], ["abc", "1"], ["abc", 1.0], ["abc", 1.5], ["abc", None], ["abc", 1, "1"], ["abc", 1, 2.0], ["abc", 2 ** 63], ["abc", 1, U64MAX],
                ["abc", True], ["abc", 0, None], [{}, 0], ["abc", [1]], ["abc", -0.0]]:
        out.append(via_var("substr", bad))
    catvals = [None, True, False, 0, -0.0, 1, -1, 1.0, 1.5, 1e21, 1e-7, 1e20, 123456789012345680000.0, 1e15, 1e16, 0.000001, 1e-5, 1e-6, 5e-324, 1.7976931348623157e308, 2 ** 53,
               2 ** 53 + 1, I64MIN, U64MAX, 0.1, 100.0, 1234.5678, "", "a", "é😀", [], [1], [1, 2], [None], [None, None], [[], []], [[1, [2, None]], "x"], {}, {"a": 1}, [{}], [1.0, "a", None, True],
               [[None]], 1e22, 4.35, 0.3, 2.5e-8, 1.0e100, -1e-100, 12345678.9]
    for n in range(0, 3):
        for combo in itertools.product(catvals, repeat=n):
            out.append(via_var("cat", list(combo)))
    for v in catvals:
        out.append("to_string " + enc(v))
        if not isinstance(v, (list, dict)): out.append(app({"cat": v}, None))
    n = 3000 if tier == "quick" else 60000
    for _ in range(n):
        xs = [g.value(2, 0.0) for _ in range(g.r.randint(0, 5))]
        out.append(via_var("cat", xs))
        f = g.num()
        if isinstance(f, float): out.append("to_string " + enc(f))
    return out


def nest(k, pos, inner, neutral):
    args = list(neutral)
    args[pos] = inner
    return {k: args}


NEST_TEMPLATES = [
    ("or", [False, None], [1]), ("or", [None, False], [0]), ("and", [True, None], [1]), ("and", [None, True], [0]),
    ("if", [False, 1, None], [2]), ("if", [None, 1, 2], [0]), ("if", [True, None, 2], [1]), ("?:", [False, 1, None], [2]),
    ("!", [None], [0]), ("!!", [None], [0]), ("cat", ["a", None], [1]), ("+", [1, None], [1]), ("*", [1, None], [1]), ("-", [None, 1], [0]), ("-", [None], [0]),
    ("/", [None, 1], [0]), ("%", [None, 7], [0]), ("max", [None, 1], [0]), ("min", [1, None], [1]), ("merge", [None], [0]), ("==", [None, 1], [0]), ("!=", [1, None], [1]),
    ("===", [None, 1], [0]), ("!==", [None, 1], [0]), ("<", [0, None, 9], [1]), ("<", [None, 5], [0]), ("<=", [0, None, 9], [1]), (">", [9, None, 0], [1]), (">=", [9, None, 0], [1]),
    ("in", [None, [1]], [0]), ("in", [1, None], [1]), ("substr", [None, 0], [0]), ("log", [None], [0]),
    ("var", ["zz", None], [1]), ("var", [None], [0]), ("missing", [None], [0]), ("missing_some", [1, None], [1]),
    ("map", [[1], None], [1]), ("map", [None, 1], [0]), ("filter", [[1], None], [1]), ("filter", [None, 1], [0]),
    ("reduce", [[1], None, 0], [1]), ("reduce", [None, 1, 0], [0]), ("reduce", [[1], 1, None], [2]),
    ("all", [[1], None], [1]), ("all", [None, True], [0]), ("some", [[1], None], [1]), ("some", [None, True], [0]), ("none", [[1], None], [1]), ("none", [None, False], [0]),
]


def s_depth(levels=(20, 63)):
    """C01: every operator nested `levels` deep in each operand position (JSON depth = 2 per level <= 128),
    plus literal-array element nesting for all/some/none"""
    out = []
    for lv in levels:
        for k, neutral, poss in NEST_TEMPLATES:
            for pos in poss:
                inner = {"merge": [[1]]} if k in ("map", "filter", "reduce", "all", "some", "none", "in", "merge", "missing", "missing_some") and pos == 0 and k not in ("in",) else 1
                if k == "substr": inner = "abc"
                for _ in range(lv):
                    inner = nest(k, pos, inner, neutral)
                out.append(app(inner, {"a": 1}))
        # literal array element nesting: {"all":[[ {"all":[[...],true]} ], true]}
        for k in ("all", "some", "none"):
            inner = 1
            for _ in range(lv // 2):
                inner = {k: [[inner], True if k != "none" else False]}
            out.append(app(inner, None))
    # a malformed leaf under deep chains: every way a rule can be rejected, below every operator, must be rejected promptly
    bad_leaves = [{"<": 1}, {"==": [1]}, {"in": "x"}, {"substr": "abc"}, {"map": 1}, {"reduce": [1]}, {"-": [1, 2, 3]}, {"/": 4}, {"missing_some": 1}, {"!": [1, 2]}, {"var": [1, 2, 3]}, {"unknown_op": 1}]
    for lv in (24, 40, 63):
        for k, neutral, poss in NEST_TEMPLATES:
            for leaf in (bad_leaves if lv == 24 else bad_leaves[:4]):
                inner = leaf
                for _ in range(lv):
                    inner = nest(k, poss[0], inner, neutral)
                out.append(app(inner, {"a": 1}))
    # very long SHALLOW operand lists (a recursive implementation would need one stack frame per operand)
    for n in (3000, 12000):
        out += [app({"if": [0, 0] * n + [1]}, None), app({"?:": [False, "x"] * n}, None), app({"or": [0] * (2 * n) + ["last"]}, None), app({"and": [1] * (2 * n) + ["last"]}, None),
                app({"+": [1] * (2 * n)}, None), app({"cat": ["a"] * (2 * n)}, None), app({"merge": [[1]] * (2 * n)}, None), app({"max": [1] * (2 * n)}, None), app({"missing": ["a"] * (2 * n)}, None),
                app({"all": [[1] * (2 * n), True]}, None), app({"some": [[0] * (2 * n), {"var": ""}]}, None), app({"map": [[1] * (2 * n), 1]}, None), app({"reduce": [[1] * (2 * n), {"var": "current"}, 0]}, None)]
    # very long paths on which EVERY step succeeds (a character of a one-character string is that string again; data nesting cannot do this)
    out += [app({"var": "a" + ".0" * 30000}, {"a": "x"}), app({"missing": ["a" + ".-1" * 30000]}, {"a": "x"}), app({"var": "0.0" * 10000}, ["y"])]
    for n in (1500, 6000):
        for seg in ("0", "-1"):
            out += [app({"var": "a" + ("." + seg) * n}, {"a": "x"}), app({"missing": ["a" + ("." + seg) * n, "b"]}, {"a": "x"}), app({"missing_some": [1, ["a" + ("." + seg) * n]]}, {"a": "é"}),
                    app({"var": ["0" + ("." + seg) * n, "dflt"]}, ["y"]), app({"var": (seg + ".") * n + seg}, "z")]
        out += [app({"var": "a" + ".0.-1" * (n // 2)}, {"a": "x"}), app({"var": "a.b" + ".0" * n + ".1"}, {"a": {"b": "x"}}), app({"cat": ["x"] * n + [{"var": "a" + ".0" * n}]}, {"a": "x"})]
    # deeply nested DATA (126 levels of arrays / objects): string forms, comparisons, membership, lookups, truthiness
    deepa = 1; deepo = 1
    for _ in range(126):
        deepa = [deepa]; deepo = {"k": deepo}
    for dd in (deepa, deepo, [deepa, deepo]):
        for rule in ({"cat": [{"var": ""}]}, {"==": [{"var": ""}, 1]}, {"==": [{"var": ""}, "1"]}, {"<": [{"var": ""}, 2]}, {"<=": [{"var": ""}, {"var": ""}]}, {"in": [{"var": ""}, [{"var": ""}]]},
                     {"merge": [{"var": ""}, {"var": ""}]}, {"var": ""}, {"!!": [{"var": ""}]}, {"max": [{"var": ""}]}, {"+": [{"var": ""}]}, {"===": [{"var": ""}, {"var": ""}]},
                     {"var": ".".join(["0"] * 126)}, {"var": ".".join(["k"] * 126)}, {"missing": [".".join(["0"] * 127)]}, {"map": [[{"var": ""}], {"var": ""}]}, {"log": {"var": ""}},
                     {"all": [{"var": ""}, {"var": ""}]}, {"reduce": [{"var": ""}, {"var": "current"}, 0]}, {"substr": [{"cat": [{"var": ""}]}, -1]}):
            out.append(app(rule, dd))
        out.append("to_string " + enc(dd)); out.append("to_number " + enc(dd)); out.append("parse_float " + enc(dd))
        out.append("abstract_eq %s %s" % (enc(dd), enc(dd))); out.append("abstract_lte %s %s" % (enc(dd), enc(dd)))
    return out


def s_extremes(g, tier):
    """C01: 64-bit extremes in every integer position"""
    ext = [I64MIN, I64MIN + 1, I64MAX, I64MAX - 1, U64MAX, 2 ** 63, 2 ** 63 + 1, -2 ** 53, 2 ** 53, float(2 ** 63), float(-2 ** 63), 1.8446744073709552e19, -1.0e19, 1e300, -1e300,
           5e-324, 0, -0.0, -1, 1, 2 ** 32, -2 ** 32, 2 ** 31, -2 ** 31 - 1]
    datas = [[1, 2, 3], "héllo", {"a": [1, 2], "-9223372036854775808": 1}, None, [], ""]
    out = []
    for e in ext:
        for d in datas:
            out.append(app({"var": e}, d)); out.append(app({"var": [e, "d"]}, d))
            if isinstance(e, int): out.append(app({"var": "a." + str(e)}, d)); out.append(app({"var": str(e)}, d)); out.append(app({"missing": [e, str(e)]}, d))
            out.append(app({"missing_some": [e, ["a", e]]}, d))
        for s in ["", "abc", "héllo😀"]:
            out.append(app({"substr": [s, e]}, None))
            for e2 in ext:
                out.append(app({"substr": [s, e, e2]}, None))
        for k in ("+", "-", "*", "/", "%", "max", "min"):
            for e2 in ext[:12]:
                out.append(app({k: [e, e2]}, None))
            out.append(app({k: [e]}, None))
        out.append(app({"-": e}, None)); out.append(app({"cat": [e]}, None)); out.append(app({"in": [e, [e]]}, None)); out.append(app({"!!": [e]}, None))
        out.append(app({"==": [e, str(e) if isinstance(e, int) else "x"]}, None))
        out.append(app({"reduce": [[e, e], {"+": [{"var": "current"}, {"var": "accumulator"}]}, e]}, None))
        out.append(app({"reduce": [[e, e], {"*": [{"var": "current"}, {"var": "accumulator"}]}, e]}, None))
    return out


def s_helpers(g, tier):
    """C01: every public js_op helper on corpus values and random values"""
    out = []
    one = ["to_string", "to_number", "parse_float", "to_negative"]
    two = ["abstract_eq", "abstract_ne", "strict_eq", "strict_ne", "abstract_lt", "abstract_gt", "abstract_lte", "abstract_gte", "abstract_minus", "abstract_div", "abstract_mod", "abstract_plus"]
    lst = ["abstract_max", "abstract_min", "parse_float_add", "parse_float_mul"]
    vals = CORPUS + [1e308, -1e308, 1.7976931348623157e308, "1e308", "Infinity", "-Infinity", ["Infinity"], [1e308], U64MAX, I64MIN]
    for v in vals:
        for h in one: out.append(h + " " + enc(v))
        if isinstance(v, str): out.append("str_to_number " + enc(v))
    big = [1e308, -1e308, 1.7976931348623157e308, "1e308", "Infinity", "-Infinity", ["Infinity"], U64MAX, I64MIN, True, None, 0, -0.0, "x", [], {}]
    for a in big:
        for b in big:
            for h in two: out.append(h + " " + enc(a) + " " + enc(b))
            for h in lst: out.append(h + " " + enc([a, b]))
    n = 3000 if tier == "quick" else 60000
    for _ in range(n):
        a, b = g.value(2), g.value(2)
        out.append(g.r.choice(two) + " " + enc(a) + " " + enc(b))
        out.append(g.r.choice(one) + " " + enc(a))
        out.append(g.r.choice(lst) + " " + enc([g.value(1) for _ in range(g.r.randint(0, 4))]))
    return out


def s_scale(g, tier):
    """sizes, counts and relations a random generator is unlikely to produce: operand counts beyond 255, collections of 33 / 65 / 257 / 10^4
    elements, 10^5-character strings, 100-key objects, indices equal to the length, keys equal to rendered numbers, long shared prefixes,
    17-digit decimals, rarely used spellings, Unicode corner cases"""
    out = []
    # rarely used spellings
    for r in [{"var": ["a"]}, {"var": []}, {"var": [[]]}, {"var": [None]}, {"var": [""]}, {"missing": [[]]}, {"missing": []}, {"missing": [[], "a"]}, {"missing": [["a"], "b"]}, {"if": []}, {"?:": []},
              {"merge": []}, {"cat": [[]]}, {"cat": []}, {"+": []}, {"+": [[]]}, {"*": [[]]}, {"and": [[]]}, {"or": [[]]}, {"!": [[]]}, {"!!": [[[]]]}, {"in": ["", ""]}, {"in": ["", []]},
              {"substr": ["", 0, 0]}, {"substr": ["", 0]}, {"missing_some": [0, []]}, {"missing_some": [1, []]}, {"reduce": [[], 1, 2]}, {"max": [[]]}, {"min": [[1]]}, {"max": [[1, 2]]},
              {"-": [[]]}, {"-": [[5]]}, {"/": [[], 1]}, {"%": [[4], [3]]}, {"==": [[], []]}, {"==": [[], ""]}, {"==": [[[]], ""]}, {"==": [[None], ""]}, {"==": [[[], []], ","]}, {"<": [[], 1]},
              {"<": ["", 1]}, {"<=": ["", ""]}, {"map": [[], []]}, {"filter": [[[]], [[]]]}, {"all": [[[]], [[]]]}, {"some": ["", ""]}, {"none": ["", ""]}, {"all": ["a", "a"]},
              {"log": []}, {"log": [[]]}, {"var": ["a", None]}, {"var": ["a", []]}, {"var": [[], "d"]}, {"if": [[]]}, {"if": [[], 1]}, {"if": [[], 1, 2]}, {"and": []}, {"or": []},
              {"cat": [None]}, {"cat": [[None]]}, {"cat": [[None, None]]}, {"cat": [[[]]]}, {"cat": [[[], []]]}, {"cat": [[1, [], 2]]}, {"cat": [{}]}, {"cat": [[{}]]}, {"merge": [[[]]]}, {"merge": [None]},
              {"in": [None, [None]]}, {"in": [[], [[]]]}, {"in": [{}, [{}]]}, {"in": ["a", "a"]}, {"substr": ["a", 1]}, {"substr": ["a", 1, 1]}, {"substr": ["a", -1, -1]}, {"substr": ["ab", 1, -1]}]:
        for d in (None, {"a": 1}, [], [[]], "", {"": 1}):
            out.append(app(r, d))
    # operand counts
    for n in (33, 65, 255, 256, 257, 1000):
        ones = [1] * n
        out += [app({"+": ones}, None), app({"*": ones}, None), app({"cat": ["a"] * n}, None), app({"merge": [[i] for i in range(n)]}, None), app({"max": list(range(n))}, None), app({"min": list(range(n))}, None),
                app({"and": [True] * (n - 1) + ["last"]}, None), app({"or": [False] * (n - 1) + ["last"]}, None), app({"if": [False, 0] * (n // 2) + ["else"]}, None),
                app({"missing": ["k%d" % i for i in range(n)]}, {"k%d" % i: i for i in range(0, n, 2)}), app({"missing_some": [n // 2, ["k%d" % i for i in range(n)]]}, {"k%d" % i: i for i in range(0, n, 2)}),
                app({"==": ones}, None), app({"<": ones[:4]}, None), app({"var": ones}, None), app({"substr": ["abc"] + ones}, None)]
    # collection sizes and indices equal to the length
    for n in (32, 33, 64, 65, 256, 257, 2000 if tier == "quick" else 10000):
        xs = list(range(n))
        d = {"xs": xs, "s": "x" * n, "n": n}
        out += [app({"map": [{"var": "xs"}, {"+": [{"var": ""}, 1]}]}, d), app({"filter": [{"var": "xs"}, {"%": [{"var": ""}, 2]}]}, d), app({"reduce": [{"var": "xs"}, {"+": [{"var": "current"}, {"var": "accumulator"}]}, 0]}, d),
                app({"all": [{"var": "xs"}, {">=": [{"var": ""}, 0]}]}, d), app({"some": [{"var": "xs"}, {"==": [{"var": ""}, n - 1]}]}, d), app({"none": [{"var": "xs"}, {"==": [{"var": ""}, n]}]}, d),
                app({"in": [n - 1, {"var": "xs"}]}, d), app({"in": [n, {"var": "xs"}]}, d), app({"merge": [{"var": "xs"}, [n]]}, d),
                app({"var": "xs.%d" % n}, d), app({"var": "xs.%d" % (n - 1)}, d), app({"var": "xs.-%d" % n}, d), app({"var": "xs.-%d" % (n + 1)}, d), app({"var": ["xs.%d" % n, "dflt"]}, d),
                app({"var": "s.%d" % n}, d), app({"var": "s.%d" % (n - 1)}, d), app({"var": "s.-%d" % n}, d), app({"missing": ["xs.%d" % (n - 1), "xs.%d" % n, "s.%d" % n, "s.-%d" % n, "s.-%d" % (n + 1)]}, d),
                app({"substr": [{"var": "s"}, n]}, d), app({"substr": [{"var": "s"}, n - 1]}, d), app({"substr": [{"var": "s"}, -n]}, d), app({"substr": [{"var": "s"}, 0, n]}, d), app({"substr": [{"var": "s"}, 1, -(n - 1)]}, d),
                app({"substr": [{"var": "s"}, 0, -n]}, d), app({"all": [{"var": "s"}, {"==": [{"var": ""}, "x"]}]}, d), app({"cat": [{"var": "xs"}]}, d), app({"==": [{"var": "xs"}, {"cat": [{"var": "xs"}]}]}, d),
                app({"max": [{"var": "n"}, n]}, d), app({"all": [xs[:300], {">=": [{"var": ""}, 0]}]}, d)]
    # long collections holding look-alike elements of different types (a per-element cache keyed on text would conflate them)
    alike = [1, "1", None, "null", True, "true", [], "[]", 0, "0", False, "false", "", [0], "0", {}, "[object Object]", 1.0, "1.0", [1], "1"]
    for pad in (0, 3, 31, 32, 38, 300):
        coll = [0] * pad + alike
        d = {"c": coll}
        for pred in ({"===": [{"var": ""}, "1"]}, {"===": [{"var": ""}, 1]}, {"===": [{"var": ""}, None]}, {"===": [{"var": ""}, "null"]}, {"in": [{"var": ""}, ["1", "true", "[]"]]}, {"!==": [{"var": ""}, 0]},
                     {"===": [{"var": ""}, True]}, {"log": {"var": ""}}, {"==": [{"var": ""}, []]}, {"!": [{"var": ""}]}):
            for q in ("all", "some", "none", "filter", "map"):
                out.append(app({q: [{"var": "c"}, pred]}, d))
        out.append(app({"reduce": [{"var": "c"}, {"cat": [{"var": "accumulator"}, "|", {"var": "current"}]}, ""]}, d))
        out.append(app({"merge": [{"var": "c"}, {"var": "c"}]}, d)); out.append(app({"in": ["1", {"var": "c"}]}, d)); out.append(app({"in": [[0], {"var": "c"}]}, d))
    # error paths that quote a long non-ASCII operand (a message cut at a byte offset can split a character): every alignment 0..3
    for pad in range(4):
        for unit, cnt in (("é", 200), ("日", 100), ("😀", 80), ("é", 130)):
            long_s = "a" * pad + unit * cnt
            for bad in (long_s, {"name": long_s}, {long_s: 1}, [long_s, {"k": long_s}]):
                d = {"v": bad}
                for q in ("map", "filter", "all", "some", "none"):
                    out.append(app({q: [{"var": "v"}, True]}, d))
                out += [app({"reduce": [{"var": "v"}, 1, 0]}, d), app({"+": [{"var": "v"}]}, d), app({"*": [1, {"var": "v"}]}, d), app({"-": [{"var": "v"}, 1]}, d), app({"max": [{"var": "v"}]}, d),
                        app({"substr": [{"var": "v"}, {"var": "v"}]}, d), app({"substr": ["abc", {"var": "v"}]}, d), app({"in": [1, {"var": "v"}]}, d), app({"in": [{"var": "v"}, "abc"]}, d),
                        app({"var": [{"var": "v"}]}, d), app({"missing": [{"var": "v"}]}, d), app({"missing_some": [{"var": "v"}, ["a"]]}, d), app({"missing_some": [1, {"var": "v"}]}, d),
                        app({"missing_some": [1, [{"var": "v"}]]}, d)]
                if not isinstance(bad, list):
                    out += [app({"==": bad if not isinstance(bad, dict) else long_s}, None), app({"map": bad if isinstance(bad, str) else long_s}, None), app({"reduce": long_s}, None),
                            app({"==": [long_s]}, None), app({"substr": [long_s]}, None), app({"!": [long_s, long_s]}, None), app({"var": [long_s, 1, 2]}, None), app({"missing_some": [long_s]}, None),
                            app({"/": long_s}, None), app({"in": [long_s, long_s, long_s]}, None), app({"all": long_s}, None)]
    # very long strings through the equality and relational operators
    huge2 = "ab" * 33000
    for k in ("==", "!=", "===", "!==", "<", "<=", ">", ">="):
        out += [app({k: [{"var": ""}, {"var": ""}]}, huge2), app({k: [{"var": ""}, 5]}, huge2), app({k: [{"var": ""}, {"cat": [{"var": ""}, "x"]}]}, huge2), app({k: [{"var": "0"}, {"var": ""}]}, huge2)]
    # long strings, long shared prefixes
    big = "ab" * 1500         # (the model's infix test is quadratic; the 10^5-character string below is used for linear operations only)
    huge = "ab" * 50000
    out += [app({"substr": [{"var": ""}, -3]}, huge), app({"substr": [{"var": ""}, 99999, 5]}, huge), app({"==": [{"var": ""}, {"var": ""}]}, huge), app({"<": [{"var": ""}, {"cat": [{"var": ""}, "c"]}]}, huge),
            app({"var": "99999"}, huge), app({"var": "100000"}, huge), app({"var": -100000}, huge), app({"!!": [{"var": ""}]}, huge), app({"in": ["abc", {"var": ""}]}, "x" * 100000 + "abc")]
    for a, b in ((big, big), (big, big + "c"), (big + "c", big + "d"), (big + "é", big + "e"), ("x" * 65, "x" * 64), (big, "")):
        out += [app({"==": [{"var": "a"}, {"var": "b"}]}, {"a": a, "b": b}), app({"<": [{"var": "a"}, {"var": "b"}]}, {"a": a, "b": b}), app({"<=": [{"var": "b"}, {"var": "a"}]}, {"a": a, "b": b}),
                app({"in": [{"var": "b"}, {"var": "a"}]}, {"a": a, "b": b}), app({"in": [{"var": "a"}, {"var": "b"}]}, {"a": a, "b": b}), app({"===": [{"var": "a"}, {"var": "b"}]}, {"a": a, "b": b}),
                app({"cat": [{"var": "a"}, {"var": "b"}]}, {"a": a[:1000], "b": b[:1000]}), app({"in": [{"var": "a"}, [{"var": "b"}, {"var": "a"}]]}, {"a": a, "b": b})]
    # many keys, long keys, keys that are rendered numbers
    many = {"k%03d" % i: i for i in range(100)}
    many.update({"1.5": "onepointfive", "1e+21": "big", "-0": "negzero", "0": "zero", "-0.0": "negzerofloat", "1": "one", "1.0": "onefloat", "x" * 64: 64, "x" * 65: 65, "x" * 256: 256})
    for k in ["k000", "k099", "k100", "1.5", "1e+21", "-0", "-0.0", "1.0", "x" * 64, "x" * 65, "x" * 256, "x" * 257, 1, 0, -1, 1.0, 1.5, -0.0, 1e21]:
        out += [app({"var": [k]}, many), app({"var": [k, "dflt"]}, many), app({"missing": [k]}, many), app({"missing_some": [1, [k]]}, many)]
    out += [app({"in": [{"var": ""}, [{"var": ""}]]}, many), app({"==": [{"var": ""}, "[object Object]"]}, many), app({"cat": [{"var": ""}]}, many), app({"!!": [{"var": ""}]}, many)]
    # decimals with 16 / 17 significant digits, as numbers and as strings
    for t in ["9007199254740993", "0.30000000000000004", "0.1", "1.7976931348623157e308", "123456789012345678", "12345678901234567", "1234567890123456", "5e-324", "2.2250738585072014e-308",
              "4.35", "0.000001", "1e-7", "123456789012345680000", "1e21", "1.2345678901234567", "9.999999999999999e22", "1e23", "8.41e21", "2e-323", "1.5e300"]:
        f = float(t)
        out += [app({"==": [t, f]}, None), app({"==": [[f], f]}, None), app({"cat": [f]}, None), app({"==": [{"cat": [f]}, f]}, None), app({"+": [t]}, None), app({"+": [[f]]}, None), app({"max": [t, [f]]}, None),
                app({"<": [t, f]}, None), app({"<=": [t, f]}, None), app({"in": [f, [f]]}, None), app({"===": [f, {"+": [t]}]}, None), "to_string " + enc(f), "str_to_number " + enc(t), "parse_float " + enc(t)]
    # Unicode corner cases: combining marks, line separators, BOM inside, characters whose case mapping changes length
    cp = lambda *xs: "".join(chr(x) for x in xs)
    us = ["e" + cp(0x301), cp(0xe9), "a" + cp(0x2028) + "b", "a" + cp(0x2029) + "b", "a" + cp(0xfeff) + "b", cp(0xfeff), cp(0xdf), cp(0x130), cp(0x1c5), cp(0xfb01), cp(0x1d4b3),
          cp(0x1f600, 0x200d, 0x1f525), "a" + cp(0) + "b", cp(0x85), cp(0x3000) + "x" + cp(0x3000), cp(0x200b) + "1"]
    for u in us:
        d = {u: "val-" + u, "s": u, "l": [u]}
        out += [app({"var": u}, d), app({"var": [u, "dflt"]}, d), app({"missing": [u, u + "x"]}, d), app({"cat": [u, u]}, None), app({"substr": [u + "z", 1]}, None), app({"substr": [u + "z", -1]}, None),
                app({"substr": [u, 0, 1]}, None), app({"in": [u, u + u]}, None), app({"in": ["b", u]}, None), app({"==": [u, u]}, None), app({"==": [u, 0]}, None), app({"<": [u, u + "a"]}, None),
                app({"all": [u, {"var": ""}]}, None), app({"some": [u, {"==": [{"var": ""}, u[-1:]]}]}, None), app({"var": "s.0"}, d), app({"var": "s.-1"}, d), app({"+": [u]}, None), app({"!!": [u]}, None),
                app({"===": [{"var": "s"}, {"var": "l.0"}]}, d), app({"log": u}, None), app({"var": "l.0.0"}, d), "to_string " + enc([u, None, u]), "str_to_number " + enc(u), "str_to_number " + enc(u + "1")]
    return out


def s_hints(g, h, tier):
    """diff-guided cases: sizes / counts / lengths / indices / values taken from integer literals of the CHANGED source lines, and keys /
    operands / characters taken from its string and char literals (tools/diffguide.py). Empty on an unchanged tree."""
    out = []
    alike = [1, "1", None, "null", True, "true", [], "[]", 0, "0", 7, "7", 7.0, [7], "x"]
    sizes = []
    for n in h.get("ints", []):
        for m in (n - 1, n, n + 1, 2 * n, n // 2):
            if 0 <= m <= 70000 and m not in sizes: sizes.append(m)
    sizes = sizes[:30]
    for m in sizes:
        ones = [1] * m
        # operand counts
        for k in ("+", "*", "cat", "merge", "max", "min", "and", "or", "if", "missing", "==", "-", "var", "substr", "<", "in", "!", "missing_some", "map", "reduce", "all", "log"):
            out.append(app({k: ones}, {"1": 1}))
        if m >= 2:
            out += [app({"+": [0.1] * min(m, 3000)}, None), app({"*": [1.0000000000000002] * min(m, 2000)}, None), app({"cat": ["é"] * m}, None), app({"and": [1] * (m - 1) + [0]}, None),
                    app({"or": [0] * (m - 1) + ["t"]}, None), app({"if": [0, "x"] * (m // 2) + ["e"]}, None), app({"max": list(range(m))}, None), app({"merge": [[i, [i]] for i in range(min(m, 5000))]}, None)]
        # collections of that length, look-alike elements at the end
        coll = ([0] * max(0, m - len(alike)) + alike)[:m] if m >= 1 else []
        d = {"c": coll, "s": "x" * m, "u": "é" * m, "n": m, "k" * min(m, 300): "longkey"}
        for pred in ({"===": [{"var": ""}, "1"]}, {"===": [{"var": ""}, 7]}, {"in": [{"var": ""}, ["7", "true"]]}, {"log": {"var": ""}}, {"log": "tick"}, {"!": [{"var": ""}]}, {"var": ""}):
            for q in ("all", "some", "none", "filter", "map"):
                out.append(app({q: [{"var": "c"}, pred]}, d))
            if m <= 300: out.append(app({"all": [coll, pred]}, d))
        out += [app({"reduce": [{"var": "c"}, {"cat": [{"var": "accumulator"}, {"var": "current"}]}, ""]}, d), app({"reduce": [{"var": "c"}, {"+": [{"var": "current"}, {"var": "accumulator"}]}, 0.5]}, {"c": [0.1] * m}),
                app({"in": [7.0, {"var": "c"}]}, d), app({"in": ["7", {"var": "c"}]}, d), app({"in": [[7.0], {"var": "c"}]}, d), app({"merge": [{"var": "c"}, {"var": "c"}]}, d), app({"cat": [{"var": "c"}]}, d),
                app({"in": [7.0, list(range(m))]}, None) if m <= 5000 else app({"in": [7.0, {"var": "c"}]}, d), app({"in": [{"var": "x"}, list(range(min(m, 5000)))]}, {"x": 7.0}),
                app({"var": "c.%d" % m}, d), app({"var": "c.%d" % (m - 1)}, d), app({"var": "c.-%d" % m}, d), app({"var": ["c.%d" % m, "dflt"]}, d), app({"var": "s.%d" % m}, d), app({"var": "u.%d" % (m - 1)}, d),
                app({"var": "u.-%d" % m}, d), app({"missing": ["c.%d" % (m - 1), "c.%d" % m, "s.%d" % m, "u.%d" % (m - 1), "u.-%d" % m, "u.-%d" % (m + 1)]}, d), app({"var": "k" * min(m, 300)}, d),
                app({"substr": [{"var": "s"}, m]}, d), app({"substr": [{"var": "s"}, m - 1]}, d), app({"substr": [{"var": "u"}, -m]}, d), app({"substr": [{"var": "u"}, 1, m]}, d), app({"substr": [{"var": "u"}, 0, -(m - 1)]}, d),
                app({"substr": [{"var": "u"}, m - 1, 2]}, d), app({"==": [{"var": "s"}, {"var": "s"}]}, d), app({"===": [{"var": "u"}, {"var": "u"}]}, d), app({"<": [{"var": "s"}, {"var": "u"}]}, d), app({"!=": [{"var": "u"}, 1]}, d),
                app({"in": ["xx", {"var": "s"}]}, d), app({"cat": [{"var": "s"}, {"var": "u"}]}, d), app({"all": [{"var": "u"}, {"==": [{"var": ""}, "é"]}]}, d) if m <= 5000 else app({"!!": [{"var": "u"}]}, d),
                app({"+": [{"var": "s"}]}, d), app({"map": [{"var": "u"}, 1]}, d), app({"max": [{"var": "u"}]}, d), app({"var": [{"var": "u"}]}, d), app({"==": [{"var": "u"}]}, d), app({"reduce": {"var": "u"}}, d)]
        for pad in range(4):
            su = "a" * pad + "é" * m
            out += [app({"all": [{"var": ""}, True]}, {"name": su}), app({"==": [su]}, None), app({"map": su}, None), app({"+": [su]}, None), app({"substr": [su, su]}, None)]
        # key lists of that length with look-alike keys
        ks = (["f%d" % i for i in range(max(0, m - 6))] + [7, "7", 7, "gone", "7", -1])[:m]
        present = {"f%d" % i: i for i in range(0, m, 2)}
        out.append(app({"missing": ks}, present))
        for t in (0, 1, m // 2, m // 2 + 1, m - 1, m, m + 1):
            if t >= 0: out.append(app({"missing_some": [t, ks]}, present))
        # the number itself as a value, index, length
        for v in (m, -m, float(m), str(m), [m], m + 0.5):
            out += [app({"+": [v, 1]}, None), app({"-": [v]}, None), app({"==": [v, m]}, None), app({"<": [v, m]}, None), app({"<=": [m, v]}, None), app({"===": [v, float(m)]}, None), app({"in": [v, [m]]}, None),
                    app({"!!": [v]}, None), app({"cat": [v]}, None), app({"max": [v, m - 1]}, None), app({"%": [v, 7]}, None), app({"*": [v, v]}, None)]
            if isinstance(v, int): out += [app({"substr": ["abcdef" * 3, v]}, None), app({"substr": ["abcdef" * 3, 1, v]}, None), app({"var": v}, list(range(20))), app({"var": [v, "d"]}, "héllo"), app({"missing_some": [v, ["a"]]}, {})]
        # nesting depth
        if 2 <= m <= 126:
            for k, neutral, poss in NEST_TEMPLATES[:30]:
                inner = 1
                for _ in range(m): inner = nest(k, poss[0], inner, neutral)
                out.append(app(inner, {"a": 1}))
            dd = 1
            for _ in range(m): dd = [dd]
            out += [app({"cat": [{"var": ""}]}, dd), app({"==": [{"var": ""}, {"var": ""}]}, dd), app({"in": [{"var": ""}, [{"var": ""}]]}, dd), app({"var": ".".join(["0"] * m)}, dd)]
    # string literals of the changed code: as keys, paths, values, operands, needles
    for sv in h.get("strs", []):
        d = {sv: "val", "a": {sv: 1, "b": [sv]}, "s": sv, "l": [sv, 1], "note": "n"}
        out += [app({"var": sv}, d), app({"var": [sv, "dflt"]}, d), app({"var": "a." + sv}, d), app({"missing": [sv, sv + "x"]}, d), app({"missing_some": [1, [sv]]}, d), app({sv: [1, 2]}, d), app({sv: "x"}, d),
                app({sv: [1, 2], "var": "a"}, d), app({"var": "a", sv: 1}, d), app({"if": [True, {sv: 1, "var": "s"}, 0]}, d), app({"merge": [{sv: "c", "cat": ["a"]}]}, d),
                app({"cat": [sv, sv]}, None), app({"==": [sv, sv]}, None), app({"==": [sv, 0]}, None), app({"<": [sv, "a"]}, None), app({"+": [sv]}, None), app({"+": ["1" + sv]}, None), app({"-": [sv + "1", 0]}, None),
                app({"in": [sv, "x" + sv + "y"]}, None), app({"in": [sv, [sv]]}, None), app({"substr": [sv + "z", 1]}, None), app({"substr": [sv, -1]}, None), app({"!!": [sv]}, None), app({"all": [sv, {"var": ""}]}, None),
                app({"log": sv}, None), app({"var": "s.0"}, d), app({"===": [{"var": "s"}, {"var": "l.0"}]}, d), "str_to_number " + enc(sv), "str_to_number " + enc(" " + sv + " "), "parse_float " + enc(sv), "to_string " + enc([sv, None])]
        for k in ALLOPS:
            out.append(app({k: [sv, sv]}, d)); out.append(app({k: sv}, d)); out.append(app({sv: 1, k: [good_operand(k, 0), good_operand(k, 1)]}, d))
    # char literals of the changed code
    for c in h.get("chars", []):
        for sv in (c, "1" + c, c + "1", "a" + c + "b", c + "1" + c, "1" + c + "2", c * 3, "1.5" + c, "1e" + c, "0x" + c + "1", "e" + c):
            d = {sv: 1, "s": sv}
            out += [app({"var": sv}, d), app({"var": [sv, "d"]}, {}), app({"+": [sv]}, None), app({"*": [sv, 2]}, None), app({"-": [sv, 0]}, None), app({"==": [sv, 1]}, None), app({"==": [sv, sv]}, None), app({"<": [sv, "1"]}, None),
                    app({"substr": [sv, 1]}, None), app({"substr": [sv, 0, 1]}, None), app({"substr": [sv, -1]}, None), app({"in": [c, sv]}, None), app({"all": [sv, {"==": [{"var": ""}, c]}]}, None), app({"some": [sv, {"==": [{"var": ""}, "1"]}]}, None),
                    app({"cat": [sv]}, None), app({"var": "s.0"}, d), app({"var": "s.-1"}, d), app({"missing": [sv]}, d), "str_to_number " + enc(sv), "parse_float " + enc(sv), "to_number " + enc([sv])]
    return out
