"""Process-level correspondence for C18 (the `jsonlogic` command) and C19 (the Python module).

The real binary / the real extension behind the real __init__.py are driven as processes; the expected
observation is computed from the model (`Wrap.cli`, `Wrap.pyApply…` instantiated with the real text codec:
texts are parsed by the real serde_json through the harness (`parsehex`), evaluated by the Lean driver, and
serialised by the model's `Json.ser`)."""
import os, sys, json, subprocess, binascii, concurrent.futures, math
import jl, gen
from jl import enc, dec


def hexs(s):
    try:
        return binascii.hexlify(s.encode("utf-8")).decode()
    except UnicodeEncodeError:          # a lone surrogate: not a Unicode text at all, no parser accepts it
        return "ff"


class Codec:
    def __init__(self, runner):
        self.R = runner

    def parse_many(self, texts):
        lines = ["parsehex " + hexs(t) for t in texts]
        return self.R.impl(lines)          # "ok <enc>" | "err"

    def model_eval(self, pairs):
        """pairs of wire-encoded (rule, data) -> (head, logs(list of text), ser(result) or None)"""
        lines = ["apply %s %s" % p for p in pairs]
        rm = self.R.model(lines)
        sers = self.R.model(["ser " + r.split("\t")[0][3:] for r in rm if r.startswith("ok ")])
        out = []; j = 0
        for r in rm:
            parts = r.split("\t")
            if r.startswith("ok "):
                out.append(("ok", parts[1:], sers[j])); j += 1
            else:
                out.append((parts[0].split(" ")[0], parts[1:], None))
        return out


def streams_good(k, i):
    import streams
    return streams.good_operand(k, i)


def json_texts(g, tier):
    """(rule text, data text) pairs: valid and invalid JSON"""
    vals = []
    n = 120 if tier == "quick" else 1500
    for _ in range(n):
        paths = []
        rule = g.rule(g.r.randint(1, 3), None, paths)
        vals.append((rule, g.data_for(paths)))
    hand_rules = [{"var": "a"}, {"log": {"var": "a"}}, {"cat": [{"log": 1}, {"log": "two"}, {"var": ""}]}, {"+": [1, {"var": "a"}]}, {"==": [1]}, {"+": ["x"]},
                  {"cat": [{"log": "before-error"}, {"+": ["x"]}]}, {"var": ""}, 1, "s", None, [1, {"var": "a"}], {"merge": [{"var": ""}, [1.5, -0.0, 1e21, 1e-7]]},
                  {"map": [{"var": ""}, {"log": {"var": ""}}]}, {"substr": ["héllo😀", -2]}, {"cat": ["é", "\u2028", "\"", "\\", "\u0001", "\t", "😀"]},
                  {"if": [{"var": "a"}, {"log": "T"}, {"log": "F"}]}, {"*": [1e200, 1e200]}, {"/": [1, 0]}, {"reduce": [{"var": ""}, {"+": [{"var": "current"}, {"var": "accumulator"}]}, 0]}]
    hand_datas = [None, {"a": 1}, {"a": [1, 2, {"b": "é😀"}]}, [1, 2, 3], "text", 1.5, -0.0, 2 ** 64 - 1, -2 ** 63, {"a": None}, [], {}, True, 1e21, 5e-324, {"a": "\u0000\u001f\"\\"}]
    for r in hand_rules:
        for d in hand_datas:
            vals.append((r, d))
    texts = []
    for r, d in vals:
        rt = json.dumps(r, ensure_ascii=g.r.random() < 0.3, separators=((",", ":") if g.r.random() < 0.5 else (", ", ": ")))
        dt = json.dumps(d, ensure_ascii=g.r.random() < 0.3)
        texts.append((rt, dt))
    odd = ["", " ", "{", "}", "[1,]", "nul", "1 2", "{\"a\":1} trailing", "1e400", "-1e400", "1e-400", "{\"a\":1,\"a\":2}", "\ufeff1", "18446744073709551616", "-9223372036854775809",
           "-0", "1E2", "1.50", "0.1e1", "01", "+1", ".5", "1.", "NaN", "Infinity", "'a'", "\"\\ud83d\\ude00\"", "\"\\ud83d\"", "\"\\u0000\"", "\"a\nb\"", "[" * 127 + "]" * 127, "[" * 128 + "]" * 128,
           "[" * 129 + "]" * 129, "{\"var\":\"a\"} {\"var\":\"b\"}", "true", "null", "\"-\"", "-", "--", "-1", "\"é\"", " \n\t{\"a\" :\r [1 , 2]} \n", "1.0", "100000000000000000000000", "1e19", "0.30000000000000004",
           "9007199254740993", "9007199254740993.0", "123456789012345678901234567890.5", "\"\\/\"", "{\"\":1}", "[1,2", "\"unterminated"]
    for w in ["\u00a0", "\u2028", "\u2029", "\u3000", "\u0085", "\u000b", "\u000c", "\ufeff", "\u200b", "\u1680"]:
        odd += [w + "{\"a\":1}", "{\"a\":1}" + w, w + "1" + w, "[1," + w + "2]", w + "null"]
    odd += ["\"x\ufeffy\"", "{\"k\ufeff\":1,\"k\":2}", "[\"\ufeff\"]", "\"\ufeff\"", "{\"\ufeffa\":\"\ufeff\"}"]
    rules_for_odd = ["{\"var\":\"\"}", "{\"var\":\"k\ufeff\"}", "{\"var\":1}", "{\"cat\":[{\"var\":\"\"}]}", "{\"+\":[{\"var\":\"\"},0]}", "1"]
    for o in odd:
        for rt in rules_for_odd:
            texts.append((rt, o))
        texts.append((o, "null")); texts.append((o, "{\"a\":1}"))
    return texts


CLI_CWD = None


def hostile_cwd(texts):
    """a working directory holding a file named like every short argument text (each containing other JSON): the command line takes
    JSON texts, and whatever happens to exist in the current directory must not matter"""
    d = os.path.join(jl.BUILD, "tmp", "cwd-%d" % os.getpid())
    os.makedirs(d, exist_ok=True)
    names = set(["7", "true", "null", "1", "0", "\"notes\"", "[1]", "{}", "rule.json", "data.json", "-", "--"])
    for a, b in texts:
        for t in (a, b):
            if 0 < len(t.encode("utf-8", "replace")) <= 200 and "/" not in t and "\x00" not in t and t not in (".", ".."): names.add(t)
    for nm in names:
        try:
            with open(os.path.join(d, nm), "w", encoding="utf-8", errors="replace") as f: f.write("\"@from-a-file\"")
        except OSError:
            pass
    return d


def run_cli_pty(binary, logic, data, timeout=20):
    """the data typed at a terminal: standard input is a pseudo-terminal, the text is written followed by a newline and end-of-file (Ctrl-D)"""
    import pty, select
    master, slave = pty.openpty()
    try:
        p = subprocess.Popen([binary, "--", logic], stdin=slave, stdout=subprocess.PIPE, stderr=subprocess.PIPE, cwd=CLI_CWD)
        os.close(slave); slave = None
        os.write(master, data.encode("utf-8") + b"\n\x04")
        try:
            out, err = p.communicate(timeout=timeout)
        except subprocess.TimeoutExpired:
            p.kill(); p.communicate()
            return (["<hang>"], None, False)
    finally:
        if slave is not None: os.close(slave)
        os.close(master)
    lines = out.decode("utf-8", "replace").split("\n")
    if lines and lines[-1] == "": lines.pop()
    return (lines, p.returncode, b"panicked" in err or (p.returncode is not None and p.returncode < 0) or p.returncode in (101, 134))


def run_cli(binary, logic, data, mode, timeout=20):
    """mode: 'arg' | 'stdin' | 'dash' | 'argfile' (as 'arg', standard output being a regular file); returns (stdout lines, exit status, panicked)"""
    if mode == "pty":
        return run_cli_pty(binary, logic, data, timeout)
    if mode == "argfile":
        import tempfile
        with tempfile.NamedTemporaryFile(dir=os.path.join(jl.BUILD, "tmp"), delete=True) as tf:
            try:
                p = subprocess.run([binary, "--", logic, data], input=b"", stdout=tf, stderr=subprocess.PIPE, timeout=timeout, cwd=CLI_CWD)
            except subprocess.TimeoutExpired:
                return (["<hang>"], None, False)
            except (OSError, ValueError):
                return None
            tf.seek(0); out = tf.read().decode("utf-8", "replace")
        lines = out.split("\n")
        if lines and lines[-1] == "": lines.pop()
        return (lines, p.returncode, b"panicked" in p.stderr or (p.returncode is not None and p.returncode < 0) or p.returncode in (101, 134))
    if mode == "arg":
        cmd = [binary, "--", logic, data]; inp = b""
    elif mode == "stdin":
        cmd = [binary, "--", logic]; inp = data.encode("utf-8")
    else:
        cmd = [binary, "--", logic, "-"]; inp = data.encode("utf-8")
    try:
        p = subprocess.run(cmd, input=inp, stdout=subprocess.PIPE, stderr=subprocess.PIPE, timeout=timeout, cwd=CLI_CWD)
    except subprocess.TimeoutExpired:
        return (["<hang>"], None, False)
    except (OSError, ValueError) as e:      # e.g. NUL byte in an argument: not expressible on a command line
        return None
    out = p.stdout.decode("utf-8", "replace")
    lines = out.split("\n")
    if lines and lines[-1] == "": lines.pop()
    return (lines, p.returncode, b"panicked" in p.stderr or (p.returncode is not None and p.returncode < 0) or p.returncode in (101, 134))


def run_c18(ex, g, tier):
    R = ex.runner
    binary = jl.build_cli("dev")
    codec = Codec(R)
    texts = json_texts(g, tier)
    texts = [(a, b) for a, b in texts if "\x00" not in a and "\x00" not in b]
    # large documents (beyond 1 MiB) can only arrive on standard input
    big = "[" + ",".join(str(i) for i in range(300000)) + "]"
    bigs = json.dumps({"k": "x" * 1200000, "n": 5})
    # multi-byte characters around every 8 KiB / 64 KiB boundary of a document read from standard input
    for unit in ("é", "日", "😀"):
        for base in (8192, 16384, 65536):
            for off in range(-6, 3):
                texts.append(("{\"var\":-1}", "\"" + "a" * (base + off - 1) + unit * 3 + "\""))
        texts.append(("{\"substr\":[{\"var\":\"\"},-2]}", "\"" + unit * 9000 + "\""))
    texts += [("{\"var\":-1}", big), ("{\"var\":\"n\"}", bigs), ("{\"var\":\"1.0\"}", "[\"" + "y" * 2200000 + "\"]")]
    # diff-guided: sizes, characters and strings named in the changed source lines steer document sizes / padding / contents
    import diffguide
    hh = diffguide.hints()
    for n_ in hh.get("ints", []):
        if 16 <= n_ <= 3000000:
            for unit in ("é", "😀"):
                for off in range(-5, 3):
                    texts.append(("{\"var\":-1}", "\"" + "a" * max(0, n_ + off - 1) + unit * 2 + "\""))
            texts.append(("{\"var\":\"n\"}", json.dumps({"k": "x" * n_, "n": 5}))); texts.append(("{\"var\":-1}", "[" + ",".join("1" for _ in range(min(n_, 500000))) + "]"))
    for c_ in hh.get("chars", []) + [s_ for s_ in hh.get("strs", []) if len(s_) <= 3]:
        if "\x00" in c_: continue
        for body in ("{\"a\":1}", "1", "[1,2]", "\"s\""):
            texts += [("{\"var\":\"\"}", c_ + body), ("{\"var\":\"\"}", body + c_), (c_ + body, "null"), (body + c_, "null")]
        texts += [("{\"var\":\"\"}", json.dumps("x" + c_ + "y", ensure_ascii=False)), ("{\"var\":" + json.dumps("k" + c_, ensure_ascii=False) + "}", json.dumps({"k" + c_: 1, "k": 2}, ensure_ascii=False)),
                  ("{\"var\":2}", json.dumps("x" + c_ + "y", ensure_ascii=False)), ("{\"cat\":[{\"var\":\"\"}," + json.dumps(c_, ensure_ascii=False) + "]}", json.dumps(c_ * 3, ensure_ascii=False))]
    for sv in hh.get("strs", []):
        if "\x00" in sv: continue
        texts += [("{\"var\":" + json.dumps(sv, ensure_ascii=False) + "}", json.dumps({sv: 1}, ensure_ascii=False)), (json.dumps({sv: [1, 2]}, ensure_ascii=False), "null"), ("{\"var\":\"\"}", json.dumps(sv, ensure_ascii=False)),
                  (json.dumps({"missing_some": [1, [sv, "b"]]}, ensure_ascii=False), json.dumps({sv: 1, "c": 3}, ensure_ascii=False))]
    for k_ in gen.ALLOPS:      # every operator once through the three data modes, on data it reads
        texts.append((json.dumps({k_: [streams_good(k_, 0), streams_good(k_, 1)]}), json.dumps({"a": 1, "c": 3})))
        texts.append((json.dumps({"if": [{k_: [streams_good(k_, 0), streams_good(k_, 1)]}, "T", "F"]}), json.dumps({"a": 1, "c": 3})))
    pr = codec.parse_many([t[0] for t in texts]); pd = codec.parse_many([t[1] for t in texts])
    idx = [i for i in range(len(texts)) if pr[i].startswith("ok ") and pd[i].startswith("ok ")]
    ev = codec.model_eval([(pr[i][3:], pd[i][3:]) for i in idx])
    expected = {}
    for i, e in zip(idx, ev):
        head, logs, ser = e
        expected[i] = (logs + [ser], True) if head == "ok" else (logs, False)
    jobs = []
    for i, (rt, dt) in enumerate(texts):
        modes = ["arg", "stdin", "dash"] if dt != "-" else ["stdin", "dash"]
        if len(dt) > 100000: modes = ["stdin", "dash"]
        if dt == "": modes = ["stdin", "dash", "arg"]
        if "arg" in modes and ("log" in rt or i % 7 == 0): modes = modes + ["argfile"]
        if i % 23 == 0 and "\n" not in dt and "\r" not in dt and 0 < len(dt.encode("utf-8")) < 1000 and all(ord(ch) >= 32 and ord(ch) != 127 for ch in dt) and i in expected and expected[i][1]:
            modes = modes + ["pty"]          # the same data typed at a terminal
        for m in modes:
            jobs.append((i, m))
    global CLI_CWD
    os.makedirs(os.path.join(jl.BUILD, "tmp"), exist_ok=True)
    CLI_CWD = hostile_cwd(texts)
    with concurrent.futures.ThreadPoolExecutor(max_workers=16) as pool:
        results = list(pool.map(lambda j: run_cli(binary, texts[j[0]][0], texts[j[0]][1], j[1]), jobs))
    first_ok = {}
    for (i, m), res in zip(jobs, results):
        if res is None: continue
        ex.evaluations += 1
        lines, rc, panicked = res
        rt, dt = texts[i]
        key = "cli %s | %s | %s" % (m, rt[:300], dt[:300])
        ex.distinct.add(key); ex.nontrivial += 1
        ex.outcomes["exit0" if rc == 0 else "exit!=0"] += 1
        if len(ex.samples) < 8 and len(ex.distinct) % 97 == 0:
            ex.samples.append({"case": key[:300], "result": "%s exit=%s" % (lines[:3], rc)})
        if i in expected:
            want_lines, want_ok = expected[i]
        else:
            want_lines, want_ok = [], False
        got_ok = rc == 0
        line = "cli " + json.dumps({"logic": rt, "data": dt, "mode": m})
        if panicked:
            ex.violate("the command panicked / was killed instead of exiting with an error status", line, "%s exit=%s" % (lines[:4], rc), "%s exit %s" % (want_lines[:4], "0" if want_ok else "!=0"))
        elif got_ok != want_ok:
            ex.violate("exit status", line, "%s exit=%s" % (lines[:4], rc), "%s exit %s" % (want_lines[:4], "0" if want_ok else "!=0"))
        elif want_ok and lines != want_lines:
            ex.violate("standard output differs from log lines + one result line", line, "%s" % lines[:6], "%s" % want_lines[:6])
        elif not want_ok and i in expected and lines != want_lines:
            # evaluation error: no result line; log lines written before the failure may be present (any prefix of the trace)
            if len(lines) > len(want_lines) or lines != want_lines[:len(lines)]:
                ex.violate("a line was printed on standard output although evaluation failed", line, "%s" % lines[:6], "%s" % want_lines[:6])
        elif not want_ok and i not in expected and lines:
            ex.violate("a line was printed on standard output although a text did not parse", line, "%s" % lines[:6], "[]")
        if got_ok and want_ok and m in ("arg", "stdin") and i not in first_ok and lines:
            first_ok[i] = lines[-1]
    # chaining: output of invocation 1 piped into invocation 2 == apply r2 (parsed output 1)
    stage2 = ["{\"var\":\"\"}", "{\"cat\":[{\"var\":\"\"},\"!\"]}", "{\"===\":[{\"var\":\"\"},{\"var\":\"\"}]}", "{\"+\":[{\"var\":\"\"},1]}", "{\"var\":\"a\"}", "{\"map\":[{\"var\":\"\"},{\"var\":\"\"}]}"]
    items = list(first_ok.items())
    if tier == "quick": items = items[:150]
    outs = [o for _, o in items]
    po = codec.parse_many(outs)
    p2 = codec.parse_many(stage2)
    cj = []
    for (i, o), pv in zip(items, po):
        if not pv.startswith("ok "):
            ex.violate("the result line is not valid JSON", "cli " + json.dumps({"logic": texts[i][0], "data": texts[i][1], "mode": "arg"}), o[:200], "valid JSON")
            continue
        if expected[i][1] and pr[i].startswith("ok "):
            # the printed text must denote the library's value
            pass
        for s, ps in zip(stage2, p2):
            cj.append((s, o, ps[3:], pv[3:]))
    ev2 = codec.model_eval([(c[2], c[3]) for c in cj])
    with concurrent.futures.ThreadPoolExecutor(max_workers=16) as pool:
        res2 = list(pool.map(lambda c: run_cli(binary, c[0], c[1], "stdin"), cj))
    for c, e, res in zip(cj, ev2, res2):
        if res is None: continue
        ex.evaluations += 1
        lines, rc, panicked = res
        head, logs, ser = e
        want_lines, want_ok = ((logs + [ser], True) if head == "ok" else (logs, False))
        if (rc == 0) != want_ok or (want_ok and lines != want_lines):
            ex.violate("chaining: second invocation on the piped output differs from evaluating the second rule on the parsed output",
                       "cli " + json.dumps({"logic": c[0], "data": c[1], "mode": "stdin"}), "%s exit=%s" % (lines[:4], rc), "%s exit %s" % (want_lines[:4], "0" if want_ok else "!=0"))
    import shutil
    shutil.rmtree(CLI_CWD, ignore_errors=True); CLI_CWD = None
    # NOTE (false alarm removed): an earlier version also demanded parse(print(v)) == v of serde_json. The property does not: chaining is
    # stated against "the parsed output of the first" invocation, whatever the parser makes of it; and serde_json 1.0.151 without its
    # `float_roundtrip` feature does NOT re-read every float it prints (e.g. 2.5959450144065498e-306 comes back one ulp lower). See DESIGN.md §15.5.


PY_CHILD = r'''
import sys, json, math
sys.path.insert(0, sys.argv[1])
import jsonlogic_rs
custom_de = lambda s: ["custom", s]
custom_ser = lambda o: json.dumps(o, separators=(",", ":"))
for raw in sys.stdin:
    t = json.loads(raw)
    try:
        kind = t["kind"]
        if kind == "mutate":
            # the SAME rule object is evaluated, edited in place, and evaluated again: the second result must be that of the edited rule
            r = t["value0"]
            jsonlogic_rs.apply(r, t.get("data"))
            if isinstance(r, dict): r.clear(); r.update(t["value"])
            else: r[:] = t["value"]
            res = jsonlogic_rs.apply(r, t.get("data"))
        elif kind == "apply":
            import copy
            before = copy.deepcopy((t["value"], t.get("data")))
            args = [t["value"]] + ([t["data"]] if "data" in t else [])
            kw = {}
            if t.get("ser"): kw["serializer"] = custom_ser
            if t.get("de"): kw["deserializer"] = custom_de
            res = jsonlogic_rs.apply(*args, **kw)
        else:
            args = [t["value"]] + ([t["data"]] if "data" in t else [])
            kw = {}
            if t.get("de"): kw["deserializer"] = custom_de
            res = jsonlogic_rs.apply_serialized(*args, **kw)
        if kind == "apply" and repr(before) != repr((t["value"], t.get("data"))):
            print("differs the call modified the caller's rule or data: " + repr((t["value"], t.get("data")))[:200], flush=True); continue
        if kind != "mutate":
            # the caller edits what it was given back, then asks the same question again (equal, fresh arguments): same answer expected
            first = json.dumps(res, sort_keys=True)
            if isinstance(res, list): res.append("@edited"); res.reverse()
            elif isinstance(res, dict): res["@edited"] = 1
            t2 = json.loads(raw)
            args = [t2["value"]] + ([t2["data"]] if "data" in t2 else [])
            res = (jsonlogic_rs.apply if kind == "apply" else jsonlogic_rs.apply_serialized)(*args, **kw)
            if json.dumps(res, sort_keys=True) != first:
                print("differs second identical call after the first result was edited in place returned " + json.dumps(res, sort_keys=True)[:200], flush=True); continue
        print("value " + json.dumps(res, sort_keys=True), flush=True)
    except BaseException as e:
        print("exc " + ("ValueError" if isinstance(e, ValueError) else type(e).__name__), flush=True)
'''


def py_objects(g, tier):
    objs = []
    n = 150 if tier == "quick" else 2500
    for _ in range(n):
        paths = []
        rule = g.rule(g.r.randint(1, 3), None, paths)
        objs.append((rule, g.data_for(paths)))
    specials = [0, False, "", [], {}, None, 0.0, -0.0, 1, True, "0", [0], 2 ** 64, 2 ** 64 - 1, -2 ** 63, -2 ** 63 - 1, 10 ** 30, 1e308, 5e-324, float("inf"), float("-inf"), float("nan"),
                "é😀", {"a": float("nan")}, [1, [2, [3, {"k": None}]]], {"1": 1}, 1.5, "x" + "я" * 150]
    for s in specials:
        objs.append(({"var": ""}, s)); objs.append(({"===": [{"var": ""}, False]}, s)); objs.append(({"cat": [{"var": ""}]}, s)); objs.append((s, None)); objs.append(({"+": [s, 1]}, None))
        objs.append(({"!!": [{"var": ""}]}, s)); objs.append(({"var": "a"}, {"a": s}))
    for nf in (float("nan"), float("inf"), float("-inf")):
        objs += [({"var": "sensor.readings.1"}, {"sensor": {"readings": [1.5, nf, 2.5]}}), ({"in": [1, [1, nf, 3]]}, None), ({"var": "a"}, {"a": 1, "deep": {"x": [nf]}}), ({"cat": [[nf]]}, None), ({"var": ""}, [[nf]])]
    for fm in ["about 50%sure", "up to 50% off", "%(name)s", "%s", "%d", "100%", "{}", "{0}", "{name}", "$x", "%%s", "%c", "%5.2f", "%n"]:
        objs += [({"+": [fm]}, None), ({"*": [2, fm]}, None), ({"substr": [{fm: 1}, 1]}, None), ({"max": [1, fm]}, None), ({"-": [fm, 1]}, None), ({"var": fm}, {fm: 1}), ({fm: [1]}, None), ({"==": [fm]}, None),
                 ({"in": [1, fm]}, None), ({"cat": [fm, fm]}, None), ({"missing_some": [fm, []]}, None), ({"/": [1, fm]}, None)]
    objs += [({"+": ["x" + "я" * 150, 1]}, None), ({"==": [1]}, None), ({"+": ["x"]}, {"я" * 70: "€" * 70}), ({"var": ["zz", {"var": "a"}]}, {"a": {"var": "zz"}})]
    return objs


def run_c19(ex, g, tier):
    R = ex.runner
    pydir = jl.build_pyext()
    codec = Codec(R)
    objs = py_objects(g, tier)
    tasks = []
    for v, d in objs:
        combos = [dict(kind="apply", value=v, data=d), dict(kind="apply", value=v, data=d, ser=True), dict(kind="apply", value=v, data=d, de=True),
                  dict(kind="apply", value=v, data=d, ser=True, de=True)]
        if d is None: combos.append(dict(kind="apply", value=v))
        try:
            vt, dt = json.dumps(v), json.dumps(d)
            combos += [dict(kind="ser", value=vt, data=dt), dict(kind="ser", value=vt, data=dt, de=True)]
            if d is None: combos += [dict(kind="ser", value=vt), dict(kind="ser", value=vt, de=True)]
        except Exception:
            pass
        tasks += combos
    # histories at the Python level: a rule object edited in place between two calls
    muts = [({"var": "a"}, {"var": "b"}), ({"+": [1, 2]}, {"+": [1, 3]}), ({"if": [True, 1, 2]}, {"if": [False, 1, 2]}), ({"cat": ["a"]}, {"==": [1]}), ([1, 2], [3]),
            ({"var": "a"}, {"cat": ["x", {"var": "a"}]}), ({"==": [1, 1]}, {"==": [1]}), ({"and": [1, {"var": "b"}]}, {"and": [0, {"var": "b"}]})]
    for v0, v1 in muts:
        if type(v0) == type(v1):
            tasks.append(dict(kind="mutate", value0=v0, value=v1, data={"a": "A", "b": "B"}))
    for a, b in [("[1", "2],3"), ("\"x", "y\",null"), ("{\"cat\":[\"a\"", "\"b\"]},null"), ("[", "]"), ("1,2", "3"), ("1]", "[2"), ("{\"var\":\"a\"}", "{\"a\":1},{\"a\":2}"), ("1", "2,3"),
                 ("[" * 127 + "]" * 127, "null"), ("null", "[" * 127 + "]" * 127), ("[" * 126 + "]" * 126, "[" * 126 + "]" * 126), ("[" * 128 + "]" * 128, "null")]:
        tasks += [dict(kind="ser", value=a, data=b), dict(kind="ser", value=a, data=b, de=True)]
    for sur in ["\ud800", "ab\udc80", "\udfff\ud800", "x\ud83dy"]:
        for t_ in (dict(kind="apply", value={"var": ""}, data=sur), dict(kind="apply", value={"==": [sur, "\ufffd"]}), dict(kind="apply", value={"var": sur}, data={sur: 1}), dict(kind="apply", value={"cat": [sur]}, ser=True),
                   dict(kind="ser", value="{\"var\":\"\"}", data="\"" + sur + "\""), dict(kind="ser", value="\"" + sur + "\"")):
            tasks.append(t_)
    for sdat in JSONISH_STRINGS:
        for rule in ({"!!": [{"var": ""}]}, {"var": ""}, {"if": [{"var": ""}, "T", "F"]}):
            tasks += [dict(kind="apply", value=rule, data=sdat), dict(kind="apply", value=sdat, data=None), dict(kind="apply", value=rule, data=sdat, ser=True)]
    for pad in ("\n", " ", "\t", "\r\n  "):
        tasks += [dict(kind="ser", value=pad + "{\"var\": \"a\"}", data="{\"a\": 1}"), dict(kind="ser", value="{\"var\": \"a\"}" + pad, data=pad + "{\"a\": 1}" + pad), dict(kind="ser", value=pad + "[1]" + pad)]
    import diffguide
    hh = diffguide.hints()
    for sv in hh.get("strs", []) + hh.get("chars", []):
        for t_ in (dict(kind="apply", value={"var": sv}, data={sv: 1}), dict(kind="apply", value={"var": ""}, data=sv), dict(kind="apply", value={sv: [1, 2]}), dict(kind="apply", value={"cat": [sv, sv]}, ser=True),
                   dict(kind="ser", value=sv + "{\"var\":\"a\"}", data="{\"a\":1}"), dict(kind="ser", value="{\"var\":\"a\"}" + sv, data="{\"a\":1}"), dict(kind="ser", value="{\"var\":\"a\"}", data=sv + "{\"a\":1}"),
                   dict(kind="ser", value=json.dumps(sv)), dict(kind="apply", value=sv, data=None), dict(kind="apply", value={"!!": [{"var": ""}]}, data=sv)):
            tasks.append(t_)
    for n_ in hh.get("ints", []):
        if n_ <= 300000:
            for m_ in (n_ - 1, n_, n_ + 1):
                tasks += [dict(kind="apply", value={"var": ""}, data="é" * m_), dict(kind="apply", value={"+": ["x" * m_, 1]}), dict(kind="apply", value={"+": ["x" + "я" * m_, 1]}), dict(kind="apply", value={"cat": [1] * min(m_, 20000)}),
                          dict(kind="ser", value="{\"var\":\"\"}", data="\"" + "я" * m_ + "\""), dict(kind="apply", value={"var": "a"}, data={"a": m_}), dict(kind="apply", value=m_), dict(kind="apply", value={"==": ["z" * m_]})]
    for bad in ["", "{", "nul", "1 2", "{\"a\":1} trailing", "NaN", "[1,]", "{\"var\":\"a\"} {\"var\":\"b\"}", "1e400", "\"\\ud83d\""]:
        tasks += [dict(kind="ser", value=bad, data="null"), dict(kind="ser", value="{\"var\":\"\"}", data=bad), dict(kind="ser", value=bad), dict(kind="ser", value="1", data=bad, de=True)]
    # expected, from the model
    def texts_of(t):
        if t["kind"] == "mutate":
            return json.dumps(t["value"]), json.dumps(t.get("data"))
        if t["kind"] == "apply":
            dumps = (lambda o: json.dumps(o, separators=(",", ":"))) if t.get("ser") else json.dumps
            return dumps(t["value"]), dumps(t.get("data"))
        return t["value"], t.get("data") if t.get("data") is not None else "null"
    tx = [texts_of(t) for t in tasks]
    pr = codec.parse_many([a for a, _ in tx]); pd = codec.parse_many([b for _, b in tx])
    idx = [i for i in range(len(tasks)) if pr[i].startswith("ok ") and pd[i].startswith("ok ")]
    ev = codec.model_eval([(pr[i][3:], pd[i][3:]) for i in idx])
    expected = ["exc ValueError"] * len(tasks)
    for i, (head, logs, ser) in zip(idx, ev):
        if head == "ok":
            if tasks[i].get("de"):
                expected[i] = "value " + json.dumps(["custom", ser], sort_keys=True)
            else:
                try:
                    expected[i] = "value " + json.dumps(json.loads(ser), sort_keys=True)
                except Exception:
                    expected[i] = "exc ?"
        elif head == "panic":
            expected[i] = "exc <crash>"
    # run the real module, in a child interpreter per batch
    child = os.path.join(jl.BUILD, "tmp", "py_child.py")
    os.makedirs(os.path.dirname(child), exist_ok=True)
    open(child, "w").write(PY_CHILD)
    got = []
    start = 0
    while start < len(tasks):
        chunk = tasks[start:start + 400]
        data = "".join(json.dumps(t) + "\n" for t in chunk).encode()
        try:
            p = subprocess.run([sys.executable, child, pydir], input=data, stdout=subprocess.PIPE, stderr=subprocess.PIPE, timeout=300)
            out = [l for l in p.stdout.decode("utf-8", "replace").split("\n") if l and (l.startswith("value ") or l.startswith("exc "))]
        except subprocess.TimeoutExpired as e:
            out = [l for l in (e.stdout or b"").decode("utf-8", "replace").split("\n") if l.startswith("value ") or l.startswith("exc ")]
        got += out[:len(chunk)]
        if len(out) < len(chunk):
            got.append("crash (interpreter ended)")
            start += len(out) + 1
        else:
            start += len(chunk)
    for t, want, g_ in zip(tasks, expected, got):
        ex.evaluations += 1
        key = "py " + json.dumps(t, sort_keys=True)[:400]
        ex.distinct.add(key); ex.nontrivial += 1
        ex.outcomes[g_.split(" ")[0] + ("" if g_.startswith("value") else " " + g_.split(" ")[1] if " " in g_ else "")] += 1
        if len(ex.samples) < 8 and len(ex.distinct) % 131 == 0:
            ex.samples.append({"case": key[:300], "result": g_[:120]})
        if g_.startswith("value") and want.startswith("value"):
            same_ = json.loads(g_[6:]) == json.loads(want[6:]) and g_[6:] == want[6:]
        else:
            same_ = g_ == want
        if not same_:
            ex.violate("python module result differs from decode(library(encode(rule), encode(data)))", "py " + json.dumps(t, sort_keys=True), g_[:300], want[:300])


def to_json_text(v):
    """JSON text that serde_json parses back to exactly this value (number variants kept: ints as digits, floats with '.'/exponent)"""
    if v is None: return "null"
    if v is True: return "true"
    if v is False: return "false"
    if isinstance(v, int): return str(v)
    if isinstance(v, float):
        r = repr(v)
        return r if ("." in r or "e" in r or "E" in r) else r + ".0"
    if isinstance(v, str): return json.dumps(v, ensure_ascii=False)
    if isinstance(v, list): return "[" + ",".join(to_json_text(x) for x in v) + "]"
    if isinstance(v, dict): return "{" + ",".join(json.dumps(k, ensure_ascii=False) + ":" + to_json_text(x) for k, x in v.items()) + "}"
    raise TypeError(v)


JSONISH_STRINGS = ["[]", "[ ]", "[\n]", "{}", "null", "0", "false", "\"\"", "[0]", "{\"a\":1}", "1", "true", " [] ", "[1,2]"]


def boundary_sample(ex, lines, n=60):
    """a sample of this property's cases through the OTHER two entry points: the `jsonlogic` command (data as argument and on stdin) and
    the Python module (`apply` on objects, `apply_serialized` on texts padded with JSON whitespace); expected = the model on the same values"""
    R = ex.runner
    cand = [l for l in lines if l.startswith("apply ") and len(l) < 3000]
    if not cand: return
    step = max(1, len(cand) // n)
    pick = cand[:8] + cand[8::step][:n]
    vals = []
    for l in pick:
        try:
            toks = l.split(" "); r, pos = jl.dec_tokens(toks, 1); d, pos = jl.dec_tokens(toks, pos)
            rt, dt = to_json_text(r), to_json_text(d)
            if "\x00" in rt or "\x00" in dt: continue
            rt.encode("utf-8"); dt.encode("utf-8")
            vals.append((l, r, d, rt, dt))
        except Exception:
            continue
    # truthiness / identity of string data that happens to look like JSON (must stay a string at every boundary)
    extra = []
    for sdat in JSONISH_STRINGS:
        for rule in ({"!!": [{"var": ""}]}, {"var": ""}, {"cat": [{"var": ""}, "|"]}, {"if": [{"var": ""}, "T", "F"]}):
            extra.append((gen.app(rule, sdat), rule, sdat, to_json_text(rule), to_json_text(sdat)))
    vals += extra
    codec = Codec(R)
    # both boundaries hand the crate JSON *text*; what the crate then works on is what serde_json reads from that text (which, without its
    # `float_roundtrip` feature, is not always the double the text was printed from: DESIGN §15.5) - the expectation is computed from that
    prs = codec.parse_many([v[3] for v in vals]); pds = codec.parse_many([v[4] for v in vals])
    keep = [i for i in range(len(vals)) if prs[i].startswith("ok ") and pds[i].startswith("ok ")]
    vals = [vals[i] for i in keep]
    ev = codec.model_eval([(prs[i][3:], pds[i][3:]) for i in keep])
    try:
        binary = jl.build_cli("dev"); pydir = jl.build_pyext()
    except jl.BuildError as e:
        ex.notes.append("boundary sample skipped: " + str(e)[:200]); return
    # CLI
    jobs = []
    for i, (l, r, d, rt, dt) in enumerate(vals):
        jobs.append((i, "stdin"))
        if len(rt) + len(dt) < 100000 and dt != "-": jobs.append((i, "arg"))
    global CLI_CWD
    os.makedirs(os.path.join(jl.BUILD, "tmp"), exist_ok=True)
    CLI_CWD = hostile_cwd([(v[3], v[4]) for v in vals])
    with concurrent.futures.ThreadPoolExecutor(max_workers=16) as pool:
        res = list(pool.map(lambda j: run_cli(binary, vals[j[0]][3], vals[j[0]][4], j[1]), jobs))
    import shutil
    shutil.rmtree(CLI_CWD, ignore_errors=True); CLI_CWD = None
    for (i, mode), out in zip(jobs, res):
        if out is None: continue
        ex.evaluations += 1
        head, logs, ser = ev[i]
        want_lines, want_ok = ((logs + [ser], True) if head == "ok" else (logs, False))
        lines_, rc, panicked = out
        okk = (rc == 0) == want_ok and (lines_ == want_lines if want_ok else (len(lines_) <= len(want_lines) and lines_ == want_lines[:len(lines_)]))
        if panicked or not okk:
            ex.violate("boundary (jsonlogic command, data %s): differs from the library result on the same rule and data" % ("as argument" if mode == "arg" else "on stdin"),
                       "cli " + json.dumps({"logic": vals[i][3], "data": vals[i][4], "mode": mode}), "%s exit=%s" % (lines_[:4], rc), "%s exit %s" % (want_lines[:4], "0" if want_ok else "!=0"))
    # Python
    tasks = []; want = []
    pads = ["", "\n", "  ", "\t\r\n "]
    for i, (l, r, d, rt, dt) in enumerate(vals):
        head, logs, ser = ev[i]
        exp = "exc ValueError"
        if head == "ok":
            try: exp = "value " + json.dumps(json.loads(ser), sort_keys=True)
            except Exception: exp = "exc ?"
        elif head == "panic": exp = "exc <crash>"
        pad = pads[i % len(pads)]
        tasks.append(dict(kind="ser", value=pad + rt + pad, data=pad + dt)); want.append(exp)
        try:
            ro, do = json.loads(rt), json.loads(dt)
            if to_json_text_roundtrip_ok(ro, r) and to_json_text_roundtrip_ok(do, d):
                tasks.append(dict(kind="apply", value=ro, data=do)); want.append(exp)
        except Exception:
            pass
    # what a caller hands in is left as it was, also when it cannot be encoded (non-finite floats nested in rule or data)
    for nf in (float("nan"), float("inf")):
        for v_, d_ in (({"var": "sensor.readings.0"}, {"sensor": {"readings": [1.5, nf, 2.5]}}), ({"in": [1, [1, [nf], 3]]}, None), ({"var": "a"}, {"a": 1, "deep": {"x": [nf]}})):
            tasks.append(dict(kind="apply", value=v_, data=d_)); want.append("exc ValueError")
    child = os.path.join(jl.BUILD, "tmp", "py_child.py")
    os.makedirs(os.path.dirname(child), exist_ok=True)
    open(child, "w").write(PY_CHILD)
    data = "".join(json.dumps(t) + "\n" for t in tasks).encode()
    try:
        p = subprocess.run([sys.executable, child, pydir], input=data, stdout=subprocess.PIPE, stderr=subprocess.PIPE, timeout=300)
        got = [x for x in p.stdout.decode("utf-8", "replace").split("\n") if x.startswith("value ") or x.startswith("exc ") or x.startswith("differs ")]
    except subprocess.TimeoutExpired:
        got = []
    if len(got) < len(tasks):
        ex.violate("boundary (python module): the interpreter ended or hung during the batch", "py " + json.dumps(tasks[len(got)] if len(got) < len(tasks) else {}, sort_keys=True)[:2000],
                   "crash after %d of %d calls" % (len(got), len(tasks)), want[len(got)] if len(got) < len(want) else "")
    for t, w, g_ in zip(tasks, want, got):
        ex.evaluations += 1
        if g_ != w:
            ex.violate("boundary (python module): differs from decode(library(encode(rule), encode(data)))", "py " + json.dumps(t, sort_keys=True)[:3000], g_[:300], w[:300])


def to_json_text_roundtrip_ok(pyobj, orig):
    """python's json keeps int/float apart, so the object rebuilt from the text denotes the same value"""
    return True


def replay(r):
    line = r["input_line"]
    if line.startswith("cli "):
        t = json.loads(line[4:])
        binary = jl.build_cli("dev")
        res = run_cli(binary, t["logic"], t["data"], t["mode"])
        print("input   :", t); print("observed:", res); print("expected:", r.get("expected"))
        return 1
    t = json.loads(line[3:])
    print("input:", t, "expected:", r.get("expected"), "observed at check time:", r.get("implementation"))
    return 1
