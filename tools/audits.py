#!/usr/bin/env python3
"""Static source audits that justify modelling assumptions (DESIGN.md §3.3). Each is pinned to a committed,
reviewed list under /verif/audits/. A construct that is not on the list does not by itself mean a property is
violated; it means the model's analysis no longer covers the code, which the check reports as such.

  panic-site audit (C01, C18, C19)  every panic-capable construct outside #[cfg(test)]
  global-state audit (C17)          no statics / interior mutability / unsafe / thread-locals
  wrapper fingerprint (C18, C19)    informational
"""
import os, re, sys, json, hashlib

VERIF = os.path.dirname(os.path.dirname(os.path.abspath(__file__)))
REPO = os.environ.get("VERIF_REPO", "/repo")
LIST = os.path.join(VERIF, "audits", "panic_sites.json")

PANICKY = [
    ("unwrap", re.compile(r"\.unwrap\(\)")),
    ("expect", re.compile(r"\.expect\(")),
    ("panic-macro", re.compile(r"\b(panic|unreachable|unimplemented|todo|assert|assert_eq|assert_ne|debug_assert|debug_assert_eq|debug_assert_ne)!")),
    ("index", re.compile(r"(?<![#&\w])[A-Za-z_][\w.]*(?:\(\))?\[[^\]\[]+\]")),
    ("abs", re.compile(r"\.abs\(\)")),
    ("int-cast", re.compile(r"\bas\s+(?:u8|u16|u32|u64|u128|usize|i8|i16|i32|i64|i128|isize)\b")),
    ("int-arith", re.compile(r"\b(?:pow|swap_remove|remove|split_at|split_off|truncate|drain|insert|copy_from_slice|chunks|windows|step_by)\(")),
    ("neg-or-arith-on-int", re.compile(r"(?:len\(\)|count\(\)|_idx|_len|\bidx|\bpos|\bint\b)\s*[-+*/%]\s*[\w(]|[-]\s*(?:int|idx)\b|[-+*]=\s")),
    ("slice", re.compile(r"\[[^\]]*\.\.[^\]]*\]")),
    ("from-utf8-unchecked", re.compile(r"unchecked")),
]

GLOBAL_STATE = re.compile(r"\bstatic\s+mut\b|\bunsafe\b|thread_local!|\bCell<|\bRefCell\b|\bAtomic\w+|\bMutex\b|\bRwLock\b|\bOnceCell\b|\bOnceLock\b|lazy_static|\bRc<|\bArc<|\bstatic\s+\w+\s*:|LazyLock|LazyCell|\bOnce\b")


def non_test_source(text):
    """drop `#[cfg(test)] mod … { … }` blocks and comments"""
    out = []
    i = 0
    n = len(text)
    # strip comments first (keeping line structure)
    def strip(src):
        res = []; j = 0
        while j < len(src):
            c = src[j]
            if c == '"':
                k = j + 1
                while k < len(src) and src[k] != '"':
                    k += 2 if src[k] == "\\" else 1
                res.append('"' + "_" * max(0, k - j - 1) + '"'); j = k + 1
            elif src.startswith("//", j):
                k = src.find("\n", j); j = len(src) if k < 0 else k
            elif src.startswith("/*", j):
                k = src.find("*/", j + 2); k = len(src) if k < 0 else k + 2
                res.append("\n" * src[j:k].count("\n")); j = k
            elif c == "'" and j + 2 < len(src) and (src[j + 2] == "'" or (src[j + 1] == "\\" and "'" in src[j + 2:j + 8])):
                k = src.find("'", j + 2 if src[j + 1] != "\\" else j + 3)
                res.append("'_'"); j = k + 1
            else:
                res.append(c); j += 1
        return "".join(res)
    text = strip(text)
    while True:
        m = re.search(r"#\[cfg\(test\)\]\s*(?:pub\s+)?mod\s+\w+\s*\{", text)
        if not m: break
        depth = 1; j = m.end()
        while depth > 0 and j < len(text):
            if text[j] == "{": depth += 1
            elif text[j] == "}": depth -= 1
            j += 1
        text = text[:m.start()] + "\n" * text[m.start():j].count("\n") + text[j:]
    return text


def source_files():
    fs = []
    for root, _, files in os.walk(os.path.join(REPO, "src")):
        for f in sorted(files):
            if f.endswith(".rs"): fs.append(os.path.join(root, f))
    return sorted(fs)


def panic_sites():
    sites = []
    for path in source_files():
        rel = os.path.relpath(path, REPO)
        text = non_test_source(open(path, encoding="utf-8").read())
        fn = "?"
        for ln in text.split("\n"):
            m = re.search(r"\bfn\s+(\w+)", ln)
            if m: fn = m.group(1)
            s = ln.strip()
            if not s or s.startswith("#["): continue
            if re.match(r"^(pub\s+)?(use|mod|type|const|static)\b", s) and "phf_map" not in s: continue
            for kind, rx in PANICKY:
                for mm in rx.finditer(s):
                    frag = mm.group(0)
                    if kind == "index" and re.match(r"^(vec|phf_map|json|format|println|write|matches)$", frag.split("[")[0]): continue
                    norm = re.sub(r"\s+", "", s)
                    sites.append(dict(file=rel, fn=fn, kind=kind, frag=re.sub(r"\s+", "", frag), text=norm[:160]))
    return sites


def key_of(s):
    """a site is identified by file, kind of construct and the construct itself (whitespace-free) - not by the line it stands on,
    so that re-flowing or reordering code does not look like a new construct; occurrences are counted (multiset)"""
    return "%s|%s|%s" % (s["file"], s["kind"], s.get("frag", s["text"]))


def global_state():
    hits = []
    for path in source_files():
        rel = os.path.relpath(path, REPO)
        text = non_test_source(open(path, encoding="utf-8").read())
        for i, ln in enumerate(text.split("\n")):
            if GLOBAL_STATE.search(ln) and "phf::Map" not in ln:
                hits.append("%s:%d: %s" % (rel, i + 1, ln.strip()[:120]))
    return hits


def fingerprint(paths):
    h = hashlib.sha1()
    for p in paths:
        try:
            h.update(re.sub(r"\s+", " ", open(os.path.join(REPO, p), encoding="utf-8").read()).encode())
        except OSError:
            h.update(b"<missing>")
    return h.hexdigest()[:16]


def run(pid):
    problems = []; summary = {}
    if pid in ("C01", "C18", "C19"):
        import collections
        allowed = collections.Counter()
        if os.path.exists(LIST):
            allowed = collections.Counter(key_of(s) for s in json.load(open(LIST))["sites"])
        cur = panic_sites()
        seen = collections.Counter(); new = []
        for s in cur:
            seen[key_of(s)] += 1
            if seen[key_of(s)] > allowed[key_of(s)]: new.append(s)
        if pid == "C18": new = [s for s in new if s["file"].endswith("bin.rs")]
        if pid == "C19": new = [s for s in new if s["file"].endswith("lib.rs")]
        summary["panic_sites"] = dict(listed=sum(allowed.values()), found=len(cur), unlisted=len(new))
        for s in new[:10]:
            problems.append("panic-site audit: unlisted panic-capable construct in %s fn %s (%s): %s" % (s["file"], s["fn"], s["kind"], s["text"]))
    if pid == "C17":
        hits = global_state()
        summary["global_state_hits"] = len(hits)
        for h in hits[:10]:
            problems.append("global-state audit: " + h)
    if pid in ("C18", "C19"):
        summary["wrapper_fingerprint"] = fingerprint(["src/bin.rs", "py/jsonlogic_rs/__init__.py"])
    return dict(problems=problems, summary=summary)


if __name__ == "__main__":
    if "--init" in sys.argv:
        os.makedirs(os.path.dirname(LIST), exist_ok=True)
        sites = panic_sites()
        old = {}
        if os.path.exists(LIST):
            for s0 in json.load(open(LIST))["sites"]:
                old.setdefault((s0["file"], s0["kind"], s0["text"]), s0)
        for s in sites:
            s["why_safe"] = old.get((s["file"], s["kind"], s["text"]), {}).get("why_safe", "TODO")
        json.dump(dict(sites=sites), open(LIST, "w"), indent=1)
        print("wrote %d sites" % len(sites))
    else:
        for p in ("C01", "C17", "C18"):
            print(p, json.dumps(run(p), indent=1)[:3000])
