#!/usr/bin/env python3
"""Entry point of every check:  check.py <ID> [--tier quick|thorough] [--replay FILE]

Decision procedure (DESIGN.md §7):
  1 source tie      regenerate JL/Generated/Tables.lean from /repo/src/op/mod.rs; static audits
  2 proof           lake build JL.Props.<ID>; every theorem of namespace JL.Props.<ID> audited for axioms
  3 build impl      harness (real crate, in-process), CLI / Python extension where the property needs them
  4 correspondence  corpus, exhaustive scopes, random cases: implementation vs model; shrink; attribute
  5 decide          VIOLATION (with replay) / KNOWN-FINDING / exit 0
"""
import sys, os, time, json, re, collections, traceback
sys.path.insert(0, os.path.dirname(os.path.abspath(__file__)))
import jl, gen, streams
from jl import enc, dec, dec_tokens, show, show_line

ALLOWED_AXIOMS = {"propext", "Classical.choice", "Quot.sound"}
TRUSTED_BASE = [
    "Lean 4.33.0 kernel (thorough tier: leanchecker re-check of the compiled modules)",
    "axioms allowed per theorem: propext, Classical.choice, Quot.sound (audited on every run); no sorry/admit/native_decide/user axioms",
    "hand-written Lean model of the crate tied to /repo by (a) operator tables, constants and arity predicates regenerated from src/op/mod.rs / src/js_op.rs by tools/extract_tables.py, (b) the bodies of the crate's functions re-translated from the current source by tools/rs2lean.py (parser tools/rsparse.py) into lean/JL/Generated/Fns.lean, with a tie theorem JL.Tie.<fn> per function proving the translation equal to the model's function for every input, (c) the differential correspondence check of this run (real crate in-process vs model driver), (d) static source audits",
    "the translation takes on trust: lean/JL/Rs.lean (meaning of each Rust std / serde_json call, one Lean definition per call), erasure of references/clones/iterator plumbing/integer widths (overflow not visible), Result<_,Error> as Option or the outcome monad M (which error is not modelled), std::ptr::eq = false, strict evaluation order of lets/folds as coded in Rs.strict/Rs.foldM; the recursive knot Parsed::from_value / evaluate is the model's check / run",
    "modelled, not verified: serde_json Value/Number/Map, zmij float printing, Rust std (f64 arithmetic, f64::from_str, i64::from_str, char/str methods), LLVM/CPU IEEE-754, 64-bit usize",
    "tools/*.py (generators, comparison, shrinking) and harness/src/main.rs",
]


# ------------------------------------------------------------------------------------------ helpers

def split_case(line):
    toks = line.split(" ")
    cmd = toks[0]
    args = []; pos = 1
    while pos < len(toks):
        v, pos = dec_tokens(toks, pos); args.append(v)
    return cmd, args


def join_case(cmd, args):
    return cmd + "".join(" " + enc(a) for a in args)


def same(a, m):
    """implementation result vs model result, through what properties observe: value (+logs) on success, error-ness, panic-ness"""
    ha, hm = a.split("\t")[0], m.split("\t")[0]
    if ha == "skipped-after-hangs" or hm == "skipped-after-hangs": return True       # not run (see jl.run_impl)
    if ha.startswith("ok") and hm.startswith("ok"):
        return a == m
    return jl.classify(ha).split(" ")[0] == jl.classify(hm).split(" ")[0]


def local_simpl(v):
    """simplifications of the node v itself (not of its descendants), smaller first"""
    out = []
    if v is None: return out
    out.append(None)
    if isinstance(v, bool): return out
    if isinstance(v, (int, float)):
        if v != 0: out.append(0)
        if v not in (0, 1): out.append(1)
        return out
    if isinstance(v, str):
        if v:
            out += ["", v[:len(v) // 2], v[len(v) // 2:]] + ([v[1:], v[:-1]] if len(v) <= 400 else [])
        return out
    if isinstance(v, list):
        if len(v) > 40:                                 # big list: halve, do not enumerate per-element edits
            h = len(v) // 2
            return [None, v[0], v[-1], [], v[:h], v[h:], v[:len(v) - len(v) // 4], v[len(v) // 4:], v[:40]]
        for x in v: out.append(x)                       # hoist an element
        if v: out.append([])
        for i in range(len(v)): out.append(v[:i] + v[i + 1:])
        return out
    if isinstance(v, dict):
        if len(v) > 40:
            ks = sorted(v)
            return [None, {}, {k: v[k] for k in ks[:len(ks) // 2]}, {k: v[k] for k in ks[len(ks) // 2:]}]
        for k, x in v.items():
            out.append(x)                               # hoist a member
            if isinstance(x, list):
                for y in x: out.append(y)               # hoist an operand of a single-key operation
        for k in v: out.append({kk: xx for kk, xx in v.items() if kk != k})
        return out
    return out


def simplifications(v):
    """every value obtained from v by ONE local simplification at ONE position (any depth)"""
    out = list(local_simpl(v))
    if isinstance(v, list):
        idxs = range(len(v)) if len(v) <= 40 else [0, 1, len(v) - 1]
        for i in idxs:
            for s in simplifications(v[i]):
                out.append(v[:i] + [s] + v[i + 1:])
    elif isinstance(v, dict):
        for k, x in v.items():
            for s in simplifications(x):
                d = dict(v); d[k] = s; out.append(d)
    return out


class Runner:
    """runs cases on the implementation (one or more build profiles) and on the model"""
    def __init__(self, profiles):
        self.bins = {p: jl.build_harness(p) for p in profiles}
        self.main = profiles[0]
        self.n_impl = 0
        self.base_timeout = 30.0

    def impl(self, lines, profile=None, **kw):
        self.n_impl += len(lines)
        dump = os.environ.get("VERIF_DUMP_CASES")        # development aid: record every case sent to the implementation (tools/coverage.py)
        if dump and not kw.get("threads"):
            with open(dump, "a", encoding="utf-8") as f:
                f.write("\n".join(lines) + "\n")
        kw.setdefault("base_timeout", self.base_timeout)
        return jl.run_impl(lines, self.bins[profile or self.main], **kw)

    def model(self, lines):
        return jl.run_model(lines)

    def disagreements(self, lines, profile=None):
        ri = self.impl(lines, profile)
        rm = self.model(lines)
        return [(l, a, m) for l, a, m in zip(lines, ri, rm) if not same(a, m)], ri, rm

    def shrink(self, line, profile=None, rounds=120):
        """greedy structural shrinking, re-querying both sides"""
        try:
            cmd, args = split_case(line)
        except Exception:
            return line
        cur = (cmd, args)
        t_end = time.time() + (45 if len(line) < 200000 else 15)
        for _ in range(rounds):
            if time.time() > t_end: break
            cands = []
            for i, a in enumerate(cur[1]):
                for s in simplifications(a):
                    c = (cur[0], cur[1][:i] + [s] + cur[1][i + 1:])
                    try:
                        l = join_case(*c)
                    except Exception:
                        continue
                    if len(l) < len(join_case(*cur)):
                        cands.append((len(l), l, c))
            if not cands: break
            cands.sort(key=lambda t: t[0])
            cands = cands[:1500]
            lines = [c[1] for c in cands]
            ri = self.impl(lines, profile, per_case_timeout=20); rm = self.model(lines)
            nxt = None
            for (ln, l, c), a, m in zip(cands, ri, rm):
                if not same(a, m):
                    nxt = c; break
            if nxt is None: break
            cur = nxt
        return join_case(*cur)


def owners_in(line):
    """the properties owning any operator that occurs anywhere in the (shrunk) rule: a minimal failing case needs everything left in it"""
    try:
        cmd, args = split_case(line)
    except Exception:
        return set()
    if cmd != "apply": return set()
    found = set()
    def walk(v):
        if isinstance(v, dict):
            if gen.is_op_shaped(v):
                k = next(iter(v))
                if k in streams.OWNER: found.add(streams.OWNER[k])
            for x in v.values(): walk(x)
        elif isinstance(v, list):
            for x in v: walk(x)
    walk(args[0])
    return found


def owner_of(line):
    cmd = line.split(" ")[0]
    if cmd != "apply":
        return streams.HELPER_OWNER.get(cmd, "C10" if cmd.startswith("f.") else "C01")
    try:
        _, args = split_case(line)
    except Exception:
        return "C01"
    rule = args[0]
    if gen.is_op_shaped(rule):
        return streams.OWNER[next(iter(rule))]
    return "C02"


# ------------------------------------------------------------------------------------------ proof side

PROP_MODULES = {"C07": ["C07", "C07Num", "C07Final", "Consts"], "C09": ["C09", "C09Final", "C09Utf8", "Consts"], "C10": ["C10", "C10Num", "Consts"],
                "C15": ["C15", "C15Utf8", "Consts"], "C03": ["C03", "ArityFns"]}
# optional modules (added as proof agents deliver them): used only when the file exists
for _pid, _mods in (("C10", ["C10IEEE", "C10RoundTrip"]), ("C01", ["C01", "C01Wf"]), ("C18", ["C18", "C18RoundTrip"])):
    for _m in _mods:
        if os.path.exists(os.path.join(os.path.dirname(os.path.dirname(os.path.abspath(__file__))), "lean", "JL", "Props", _m + ".lean")):
            PROP_MODULES.setdefault(_pid, [_pid] if _m != _pid else [])
            if _m not in PROP_MODULES[_pid]: PROP_MODULES[_pid].append(_m)
# namespaces whose theorems are the obligations of a property (Consts = tie theorems against constants regenerated from the source)
PROP_NAMESPACES = {"C03": ["C03", "ArityFns"], "C07": ["C07", "Consts"], "C09": ["C09", "Consts"], "C10": ["C10", "Consts"], "C15": ["C15", "Consts"]}


def modules_of(pid):
    return ["JL.Props." + m for m in PROP_MODULES.get(pid, [pid])]


AUDIT_TEMPLATE = """import Lean
%(imports)s
open Lean Elab Command
elab "#audit_ns " ns:ident : command => do
  let env ← getEnv
  let nsName := ns.getId
  let mut out : Array String := #[]
  for (n, ci) in env.constants.toList do
    if nsName.isPrefixOf n && !n.isInternal then
      match ci with
      | .thmInfo _ =>
        let axs ← liftCoreM (collectAxioms n)
        out := out.push s!"THEOREM {n} AXIOMS {axs.toList}"
      | _ => pure ()
  for l in out.qsort (· < ·) do logInfo l
%(audits)s
"""

FORBIDDEN = re.compile(r"\b(sorry|admit|native_decide|bv_decide|implemented_by|unsafe)\b|^\s*axiom\s|maxHeartbeats\s+0")


def strip_lean_comments(src):
    src = re.sub(r"/-.*?-/", "", src, flags=re.S)
    return re.sub(r"--[^\n]*", "", src)


TIE_NAMES = {}


KNOT_FNS = {"Operation::from_value", "Operation::evaluate", "LazyOperation::from_value", "LazyOperation::evaluate", "DataOperation::from_value", "DataOperation::evaluate",
            "Raw::from_value", "Raw::evaluate", "Parsed::from_value", "Parsed::from_values", "Parsed::evaluate", "Operator::execute", "LazyOperator::execute", "DataOperator::execute", "apply"}


def tie_module(rs):
    """file name (under lean/JL/Tie) of the tie theorem of a translated function: the Lean name the translator gives it"""
    if rs.startswith("table:"): return "tables"
    if rs in KNOT_FNS: return "knot"          # the parse / evaluate layer is tied as a whole: JL.Tie.apply : Gen.apply = JL.apply
    return TIE_NAMES.get(rs, rs)


def tie_side(pid, fn_status, res):
    """the tie theorems `JL.Tie.<fn> : Gen.<fn> = model's <fn>` for the functions behind this property, re-checked against the
    definitions regenerated from the current source; returns the list of tie modules that built"""
    mine = {rs: st for rs, st in fn_status.items() if pid in st.get("props", [])}
    try:
        import rs2lean
        for _, rs_, ln_, _, _ in rs2lean.FUNCS: TIE_NAMES[rs_] = ln_
    except Exception:
        pass
    res["tie_functions"] = {}
    built = []
    todo = []
    for rs, st in sorted(mine.items()):
        if not st.get("translated"):
            res["tie_functions"][rs] = "not translated (%s): tied by the correspondence streams only" % st.get("reason", "?")[:200]
            continue
        if not os.path.exists(os.path.join(jl.LEAN, "JL", "Tie", tie_module(rs) + ".lean")):
            res["tie_functions"][rs] = "translated; no tie theorem yet"
            continue
        todo.append(rs)
    res["lost_translation"] = [rs for rs, st in sorted(mine.items()) if not st.get("translated") and os.path.exists(os.path.join(jl.LEAN, "JL", "Tie", tie_module(rs) + ".lean"))]
    anything_lost = [rs for rs, st in fn_status.items() if not st.get("translated")] + [r for rs, st in fn_status.items() for r in st.get("skipped", [])]
    if anything_lost and any(tie_module(rs) == "knot" for rs in todo):
        for rs in [r for r in todo if tie_module(r) == "knot"]:
            todo.remove(rs)
            res["tie_functions"][rs] = "not re-checked: the theorem about the whole parse/evaluate layer (JL.Tie.apply) needs every function translated, and %s left the translated subset" % ", ".join(sorted(set(anything_lost))[:4])
            if rs not in res["lost_translation"]: res["lost_translation"].append(rs)
    if not todo: return built
    ok, out = jl.lake_build(sorted({"JL.Tie." + tie_module(rs) for rs in todo}))
    gen_failed = re.search(r"✖ \[\d+/\d+\] Building JL\.(Generated\.Fns|Rs)\b", out) is not None
    failed = set()
    # tie modules of functions that left the translated subset cannot be stated any more; whatever imports them is not re-checked either
    lost_mods = {tie_module(rs) for rs, st in fn_status.items() if not st.get("translated")}
    status_of = {}
    if not gen_failed:
        for tm in sorted({tie_module(rs) for rs in todo}):
            if ok:
                status_of[tm] = ("proved", "")
                continue
            ok1, out1 = jl.lake_build(["JL.Tie." + tm])          # (the bulk build above did the work; this only tells the modules apart)
            if ok1:
                status_of[tm] = ("proved", "")
                continue
            own = re.search(r"error: JL/Tie/%s\.lean:(\d+):\d+: ([^\n]*)" % re.escape(tm), out1)
            roots = set(re.findall(r"✖ \[\d+/\d+\] Building JL\.Tie\.(\w+)", out1)) - {tm}
            if own and not (roots and roots <= lost_mods):
                status_of[tm] = ("broken", own.group(2)[:160]); failed.add(tm)
            elif roots and roots <= lost_mods:
                status_of[tm] = ("lost-dep", ", ".join(sorted(roots)))
            elif roots:
                status_of[tm] = ("dep", ", ".join(sorted(roots)))
            else:
                status_of[tm] = ("broken", "see build log: " + out1[-200:].replace("\n", " ")); failed.add(tm)
    for rs in todo:
        st = mine[rs]
        tm = tie_module(rs)
        kind, detail = status_of.get(tm, ("gen", ""))
        if gen_failed:
            res["tie_functions"][rs] = "generated definitions do not build"
        elif kind == "broken":
            res["tie_functions"][rs] = "BROKEN"
            res["problems"].append("tie theorem JL.Tie.%s no longer checks: `%s` in %s, as translated from the current source, is not provably the model's `%s` any more (%s)"
                                   % (tm, rs, st.get("file", "?"), st.get("model", "?"), detail or "see build log"))
            res.setdefault("broken_ties", []).append(rs)
        elif kind == "lost-dep":
            res["tie_functions"][rs] = "not re-checked: its tie theorem rests on that of a function that left the translated subset (%s)" % detail
            if rs not in res["lost_translation"]: res["lost_translation"].append(rs)
        elif kind == "dep":
            # did not build because something it imports failed: reported against the root failure (by the properties that function backs)
            res["tie_functions"][rs] = "not re-checked (a tie theorem it depends on is broken: %s)" % detail
            res.setdefault("broken_ties", []).append(rs)
        else:
            res["tie_functions"][rs] = "proved"
            if tm not in built: built.append(tm)
    if gen_failed:
        res["problems"].append("lean/JL/Generated/Fns.lean (translated function bodies) does not build: " + out[-600:])
    if not ok and not gen_failed and not status_of:
        res["problems"].append("tie theorems could not be built: " + out[-600:])
    return built


def proof_side(pid, tier, fn_status=None):
    """returns dict(ok, obligations=[names], discharged=[names], problems=[...], build_log)"""
    res = dict(ok=False, obligations=[], discharged=[], problems=[], axioms={})
    ok, out = jl.lake_build(modules_of(pid) + ["jldrv"])
    if not ok:
        res["problems"].append("lake build JL.Props.%s failed:\n%s" % (pid, out[-3000:]))
        return res
    tie_built = tie_side(pid, fn_status or {}, res)
    # forbidden constructs in any model/proof source (comments stripped)
    for root, _, files in os.walk(os.path.join(jl.LEAN, "JL")):
        for f in files:
            if f.endswith(".lean"):
                src = strip_lean_comments(open(os.path.join(root, f), encoding="utf-8").read())
                for i, ln in enumerate(src.split("\n")):
                    if FORBIDDEN.search(ln):
                        res["problems"].append("forbidden construct in %s: %s" % (f, ln.strip()[:80]))
    os.makedirs(os.path.join(jl.BUILD, "tmp"), exist_ok=True)
    af = os.path.join(jl.BUILD, "tmp", "audit_%s.lean" % pid)
    extra_mods = []; extra_ns = []
    if "knot" in tie_built and pid in ("C01", "C02", "C05", "C14", "C17"):
        # the headline theorems restated about the translated `apply` (corollaries of JL.Tie.apply)
        okx, outx = jl.lake_build(["JL.Props.Translated"])
        if okx: extra_mods = ["JL.Props.Translated"]; extra_ns = ["#audit_ns JL.Props.Translated"]
        else: res["problems"].append("JL.Props.Translated (property theorems restated about the translated apply) no longer builds: " + outx[-400:])
    open(af, "w").write(AUDIT_TEMPLATE % dict(pid=pid, imports="\n".join("import " + m for m in modules_of(pid) + ["JL.Tie." + t for t in tie_built] + extra_mods),
                                             audits="\n".join(["#audit_ns JL.Props." + n for n in PROP_NAMESPACES.get(pid, [pid])] + (["#audit_ns JL.Tie"] if tie_built else []) + extra_ns)))
    rc, out = jl.sh(["lake", "env", "lean", af], cwd=jl.LEAN, timeout=1800)
    for m in re.finditer(r"THEOREM (\S+) AXIOMS \[(.*?)\]", out):
        name = m.group(1)
        if re.match(r"^(eq_\d+|eq_def|eq_unfold|match_.*|proof_.*|.*induct.*|congr.*|injEq|sizeOf_spec|noConfusion.*|_.*)$", name.split(".")[-1]):
            continue      # auto-generated equation lemmas etc., not property theorems
        axs = [a.strip() for a in m.group(2).split(",") if a.strip()]
        res["obligations"].append(name)
        res["axioms"][name] = axs
        if set(axs) <= ALLOWED_AXIOMS:
            res["discharged"].append(name)
        else:
            res["problems"].append("theorem %s depends on axioms %s" % (name, axs))
    if rc != 0 or not res["obligations"]:
        res["problems"].append("axiom audit failed (rc=%s): %s" % (rc, out[-1500:]))
    if tier == "thorough":
        rc, out = jl.sh(["lake", "env", "leanchecker"] + modules_of(pid) + ["JL.Tie." + t for t in tie_built] + extra_mods, cwd=jl.LEAN, timeout=3600)
        res["leanchecker"] = "ok" if rc == 0 else "FAILED: " + out[-500:]
        if rc != 0:
            res["problems"].append("leanchecker rejected JL.Props.%s: %s" % (pid, out[-500:]))
    res["ok"] = not res["problems"]
    return res


# ------------------------------------------------------------------------------------------ corpus & findings

def load_corpus(pid):
    p = os.path.join(jl.VERIF, "corpus", pid + ".txt")
    if not os.path.exists(p): return []
    return [l.rstrip("\n") for l in open(p, encoding="utf-8") if l.strip() and not l.startswith("#")]


def load_findings():
    p = os.path.join(jl.VERIF, "known_findings.json")
    if not os.path.exists(p): return {"findings": [], "fixed": []}
    return json.load(open(p))


# ------------------------------------------------------------------------------------------ per-property exploration

class Explore:
    """collects what a run explored and what it found"""
    def __init__(self, pid, tier, seed, runner):
        self.pid, self.tier, self.seed, self.runner = pid, tier, seed, runner
        self.evaluations = 0
        self.distinct = set()
        self.nontrivial = 0
        self.samples = []
        self.violations = []     # dicts: kind, line, impl, model, note
        self.foreign = []
        self.outcomes = collections.Counter()
        self.ops = collections.Counter()
        self.cells = collections.Counter()     # (operator or helper, outcome class): partition coverage
        self.notes = []

    def account(self, lines, results):
        for l, r in zip(lines, results):
            self.evaluations += 1
            h = r.split("\t")[0].split(" ")[0]
            if h not in ("ok", "err", "panic", "crash", "hang", "t", "f", "none", "bad-op", "diverged"): h = "value"
            self.outcomes[h] += 1
            if l not in self.distinct:
                self.distinct.add(l)
                cmd = l.split(" ")[0]
                if cmd != "apply":
                    self.nontrivial += 1; self.ops[cmd] += 1; self.cells[cmd + ":" + h] += 1
                else:
                    m = re.match(r"apply \{ s([0-9,]*) ", l)
                    if m:
                        key = "".join(chr(int(t)) for t in m.group(1).split(",")) if m.group(1) else ""
                        if key in gen.ALLOPS:
                            self.nontrivial += 1; self.ops[key] += 1; self.cells[key + ":" + h] += 1
                        elif self.pid == "C02":
                            self.nontrivial += 1
                    elif self.pid == "C02" and l != "apply n n":
                        self.nontrivial += 1
        if len(self.samples) < 12 and lines:
            step = max(1, len(lines) // 4)
            for i in range(0, len(lines), step):
                if len(self.samples) < 12:
                    self.samples.append({"case": show_line(lines[i])[:400], "result": results[i][:200]})

    def compare(self, lines, profile=None, domain=None, label=""):
        """implementation vs model on `lines`; disagreements are shrunk and attributed"""
        if not lines: return
        dis, ri, rm = self.runner.disagreements(lines, profile)
        self.account(lines, ri)
        seen = set()
        t_stop = time.time() + 150            # shrinking budget per stream and profile
        for l, a, m in dis[:25]:
            # a hang costs a full timeout per candidate: report it as found; same once the budget is used up, and for big crashing cases
            costly = a.startswith("hang") or time.time() > t_stop or (a.startswith("crash") and len(l) > 20000 and len(seen) >= 1)
            small = l if costly else self.runner.shrink(l, profile)
            if small in seen: continue
            seen.add(small)
            if costly:
                sa, sm = a, m
            else:
                sa = self.runner.impl([small], profile, per_case_timeout=20)[0]; sm = self.runner.model([small])[0]
            own = owner_of(small)
            rec = dict(kind="impl-vs-model", profile=profile or self.runner.main, stream=label, original=show_line(l)[:600], line=small, case=show_line(small)[:600],
                       impl=sa[:300], model=sm[:300], owner=own)
            bad = jl.is_bad(sa)
            if self.pid == "C01":
                if bad: self.violations.append(rec)
                else: self.foreign.append(rec)
            elif domain is None or own in domain or (owners_in(small) & set(domain)):
                self.violations.append(rec)
            else:
                self.foreign.append(rec)
        if len(dis) > 25:
            self.notes.append("%d further disagreements in stream %s not shrunk" % (len(dis) - 25, label))
        return ri, rm

    def violate(self, kind, line, impl, expected, note=""):
        self.violations.append(dict(kind=kind, line=line, case=show_line(line)[:600], impl=impl[:300], model=expected[:300], owner=self.pid, note=note))


def sample_third(lines, k=3):
    if len(lines) <= 450000: return list(lines)      # profile-only differences must not depend on which third is sampled
    return [l for i, l in enumerate(lines) if i % k == 0]


def JL_num_text(v):
    """the JSON text serde_json prints for a number (via the model's printer for floats)"""
    if isinstance(v, int): return str(v)
    return jl.run_model(["to_string " + enc(v)])[0] and "".join(chr(int(t)) for t in jl.run_model(["to_string " + enc(v)])[0][1:].split(","))


def explore(pid, tier, seed, ex):
    g = gen.Gen(seed * 1000003 + int(pid[1:]))
    R = ex.runner
    rel = "release"
    corpus = load_corpus(pid)
    if corpus:
        ex.compare(corpus, None, None if pid in ("C01",) else None, "corpus")
        ex.compare(corpus, rel, None, "corpus")

    seen_for_boundary = []

    def both(lines, domain, label):
        seen_for_boundary.extend(lines[:: max(1, len(lines) // 400)])
        ex.compare(lines, None, domain, label)
        ex.compare(lines if tier == "thorough" else sample_third(lines), rel, domain, label + "/release")
        if tier == "thorough":
            for p in ("relchk", "devwrap"):
                ex.compare(sample_third(lines), p, domain, label + "/" + p)

    import diffguide
    hints = diffguide.hints()
    ex.hints = hints
    if hints["changed_lines"] and pid not in ("C17", "C18", "C19"):
        # the working tree differs from the reference source: steer sizes / counts / keys / characters by the literals of the changed lines
        hl = streams.s_hints(g, hints, tier)
        # very long lines are costly for the exact-arithmetic model: keep the 80 shortest of those beyond 300 000 characters
        long_ = sorted([l for l in hl if len(l) > 300000], key=len)
        if len(long_) > 80:
            drop = set(long_[80:]); hl = [l for l in hl if l not in drop]
        if pid == "C03":
            ra = R.impl(hl); ma = R.model(hl); ex.account(hl, ra)
            for l, a, m in zip(hl, ra, ma):
                if l.startswith("apply ") and (jl.is_bad(a) or a.split("\t")[0].split(" ")[0] != m.split("\t")[0].split(" ")[0]):
                    ex.violate("diff-guided: acceptance / rejection differs from the model", l, a, m)
                    if len(ex.violations) > 5: break
        else:
            both(hl, None if pid in ("C01", "C04") else {pid}, "diff-guided")
    if pid not in ("C03", "C17", "C18", "C19"):
        # sizes / counts / relations / spellings a random generator is unlikely to produce; attributed by outermost operator
        both(streams.s_scale(g, tier), None if pid in ("C01", "C04") else {pid}, "scale-and-relations")
    if pid == "C01":
        rnd = g.random_cases(6000 if tier == "quick" else 150000, depth=6)
        both(rnd, None, "random")
        both(streams.s_extremes(g, tier), None, "extremes")
        both(streams.s_helpers(g, tier), None, "helpers")
        deep = streams.s_depth()
        R.base_timeout = 8.0            # a rule of depth <= 126 that needs more than ~10 s is reported as a hang
        ex.compare(deep, None, None, "depth")
        ex.compare(deep, rel, None, "depth/release")
        R.base_timeout = 30.0
        # any outcome that is not a value or an error value, on any stream, is a violation of C01 whatever the model says
    elif pid == "C02":
        cases = streams.s_literals(g, tier)
        lines = [c[-1] for c in cases]
        both([c[-1] for c in cases if c[0] != "inert"], {"C02"}, "literals")
        both([c[-1] for c in cases if c[0] == "inert"], None, "literal operands are inert")
        ri = R.impl(lines)
        for c, r in zip(cases, ri):
            if c[0] == "inert":
                continue
            if c[0] == "lit":
                want = "ok " + enc(c[1])
                if r != want:
                    ex.violate("oracle: literal must evaluate to itself", c[-1], r, want)
            else:
                want_not = "ok " + enc(split_case(c[-1])[1][0])
                if r == want_not:
                    ex.violate("oracle: operator name not dispatched (returned as a literal)", c[-1], r, "an operation result")
    elif pid == "C03":
        cases = streams.s_arity(tier)
        mod = [c[3] for c in cases if c[0] == "model"]
        rmi = R.impl(mod); rmm = R.model(mod); ex.account(mod, rmi)
        for l, a, m in zip(mod, rmi, rmm):
            if jl.is_bad(a) or not same(a, m):
                ex.violate("a wrong operand count in a lazily parsed position / nested operand is not handled as the model says (error vs value)", l, a, m)
        cnt = [c for c in cases if c[0] in ("count", "count-filler")]
        lines = [c[3] for c in cnt]
        ri = R.impl(lines); rm = R.model(lines)
        ex.account(lines, ri)
        for c, a, m in zip(cnt, ri, rm):
            accepted = a.startswith("ok")
            doc = gen.DOC[c[1]](c[2])
            if jl.is_bad(a):
                ex.violate("operand count crashed instead of being rejected", c[3], a, "err" if not doc else "ok …")
            elif c[0] == "count-filler" and doc:
                if not same(a, m): ex.violate("impl-vs-model on arity stream (filler operands)", c[3], a, m)
            elif accepted != doc:
                ex.violate("oracle: operand count %d of %s is %s but documented %s" % (c[2], c[1], "accepted" if accepted else "rejected", "valid" if doc else "invalid"),
                           c[3], a, "ok …" if doc else "err")
            elif not same(a, m):
                ex.violate("impl-vs-model on arity stream", c[3], a, m)
        bare = [c for c in cases if c[0] == "bare"]
        l1 = [c[3] for c in bare]; l2 = [c[4] for c in bare]
        r1 = R.impl(l1); r2 = R.impl(l2); m1 = R.model(l1)
        ex.account(l1, r1); ex.account(l2, r2)
        for c, a, b, m in zip(bare, r1, r2, m1):
            if not same(a, b) or (a.startswith("ok") and a != b):
                ex.violate("oracle: {op: x} differs from {op: [x]}", c[3], a, b)
            elif not same(a, m):
                ex.violate("impl-vs-model on unbracketed operand", c[3], a, m)
        longs = []
        for pad in range(4):
            for unit, cntu in (("é", 200), ("日", 100), ("😀", 80), ("é", 130), ("é", 123)):
                ls_ = "a" * pad + unit * cntu
                for k in gen.ALLOPS:
                    for n_ in range(0, 5):
                        if not gen.DOC[k](n_): longs.append(gen.app({k: [ls_] * n_}, {"a": 1}))
                    if not gen.DOC[k](1): longs += [gen.app({k: ls_}, None), gen.app({k: {"name": ls_}}, None), gen.app({k: {ls_: 1, "b": 2}}, None)]
        rl = R.impl(longs); ml = R.model(longs)
        ex.account(longs, rl)
        for l, a, m in zip(longs, rl, ml):
            if jl.is_bad(a): ex.violate("an undocumented operand count / unbracketed operand crashed instead of being rejected", l, a, "err")
            elif not same(a, m): ex.violate("impl-vs-model on arity stream (long operands)", l, a, m)
        rr = R.impl(lines, rel); rd = ri
        for l, a, b in zip(lines, rr, rd):
            if not same(a, b): ex.violate("release build differs from debug build on arity", l, a, b)
    elif pid == "C04":
        run_c04(ex, g, tier, both)
    elif pid == "C05":
        both(streams.s_control(g, tier), {"C05"}, "control")
    elif pid == "C06":
        both(streams.s_truthy(g, tier), {"C06", "C05", "C13", "C14"}, "truthiness")
    elif pid == "C07":
        both(streams.s_pairs(["==", "!="], ["abstract_eq", "abstract_ne"], tier, g), {"C07"}, "pairs")
        def radix_lit():
            r = g.r
            pre, digs = r.choice([("0x", "0123456789abcdefABCDEF"), ("0o", "01234567"), ("0b", "01"), ("0X", "0123456789abcdef")])
            n = r.choice([r.randint(1, 12), r.randint(13, 20), r.randint(50, 70), r.randint(1, 300)])
            body = "".join(r.choice(digs) for _ in range(n))
            if r.random() < 0.5: body = r.choice(["1", "2", "4", "8", "1f", "3"])[:1] + body     # vary the leading bit position
            if r.random() < 0.3: body = body[:max(1, len(body) - 3)] + r.choice(["800", "801", "7ff", "000", "001", "400"]) if pre.lower() == "0x" else body
            return r.choice(["", " ", ""]) + pre + body
        rad = [radix_lit() for _ in range(4000 if tier == "quick" else 100000)]
        lines = ["str_to_number " + enc(s) for s in gen.NUMSTRS + [g.string() for _ in range(2000)] + rad]
        lines += [gen.app({"==": [s, {"var": ""}]}, 2305843009213694464) for s in rad[:300]]
        for nv in gen.NUMS:
            if isinstance(nv, (int, float)) and not isinstance(nv, bool):
                txt = JL_num_text(nv)
                for arrv in ([nv], [[nv]], [nv, nv]):
                    sform = txt if arrv != [nv, nv] else txt + "," + txt
                    lines += [gen.via_var("==", [arrv, sform]), gen.via_var("==", [sform, arrv]), gen.via_var("!=", [arrv, sform]), gen.via_var("==", [arrv, nv]), gen.via_var("<=", [arrv, sform])]
        both(lines, {"C07"}, "str_to_number")
    elif pid == "C08":
        both(streams.s_pairs(["===", "!=="], ["strict_eq", "strict_ne"], tier, g), {"C08"}, "pairs")
        both(["strict_eq_same " + enc(v) for v in gen.CORPUS], {"C08"}, "same-instance")
        # whenever === holds, == holds too (implementation alone, through apply and through the helpers)
        vals = [v for v in gen.CORPUS]
        imp = []
        for a in vals:
            for b in vals:
                imp.append((gen.via_var("===", [a, b]), gen.via_var("==", [a, b])))
                imp.append(("strict_eq %s %s" % (enc(a), enc(b)), "abstract_eq %s %s" % (enc(a), enc(b))))
        r1 = R.impl([x[0] for x in imp]); r2 = R.impl([x[1] for x in imp])
        ex.account([x[0] for x in imp], r1)
        for (l1, l2), a, b in zip(imp, r1, r2):
            if a in ("ok t", "t") and b not in ("ok t", "t"):
                ex.violate("oracle: === holds but == does not", l1, a, "== gives " + b, note="second call: " + show_line(l2)[:300])
    elif pid == "C09":
        both(streams.s_pairs(["<", "<=", ">", ">="], ["abstract_lt", "abstract_lte", "abstract_gt", "abstract_gte"], tier, g, triples=True), {"C09"}, "pairs+triples")
    elif pid == "C10":
        both(streams.s_arith(g, tier), {"C10"}, "arith")
        both(streams.s_float_prims(g, tier), {"C10"}, "float-primitives")
    elif pid == "C11":
        both(streams.s_var(g, tier), {"C11"}, "var")
    elif pid == "C12":
        cases = streams.s_missing(g, tier)
        both([c for c in cases if isinstance(c, str)], {"C12"}, "missing")
        xv = [c for c in cases if not isinstance(c, str)]
        r1 = R.impl([c[1] for c in xv]); r2 = R.impl([c[2] for c in xv])
        for c, a, b in zip(xv, r1, r2):
            if a.startswith("ok") and b.startswith("ok"):
                reported = a != "ok [ ]"
                absent = b == "ok " + enc("@@sentinel@@")
                key = split_case(c[1])[1][0]["missing"][0]
                if key is not None and reported != absent:
                    ex.violate("oracle: missing disagrees with var on the same key", c[1], a, "var gives " + b)
    elif pid == "C13":
        both(streams.s_hof(g, tier), {"C13"}, "map/filter/reduce")
    elif pid == "C14":
        lines = streams.s_quant(g, tier)
        both(lines, {"C14"}, "all/some/none")
    elif pid == "C15":
        both(streams.s_merge_in(g, tier), {"C15"}, "merge/in")
    elif pid == "C16":
        both(streams.s_cat_substr(g, tier), {"C16"}, "cat/substr")
    elif pid == "C17":
        run_c17(ex, g, tier)
        seen_for_boundary.extend(g.random_cases(60, depth=3))       # purity at the boundaries too: the caller's rule and data are left as they were
    elif pid == "C18":
        import wrappers
        wrappers.run_c18(ex, g, tier)
    elif pid == "C19":
        import wrappers
        wrappers.run_c19(ex, g, tier)
    if pid not in ("C18", "C19") and seen_for_boundary:
        import wrappers
        wrappers.boundary_sample(ex, seen_for_boundary, 60 if tier == "quick" else 600)


def neutralise(v):
    """rename every operator key inside a data value so that it no longer looks like an operation"""
    if isinstance(v, list): return [neutralise(x) for x in v]
    if isinstance(v, dict): return {("_" + k if k in gen.ALLOPS else k): neutralise(x) for k, x in v.items()}
    return v


def deneutralise(v):
    if isinstance(v, list): return [deneutralise(x) for x in v]
    if isinstance(v, dict): return {(k[1:] if k.startswith("_") and k[1:] in gen.ALLOPS else k): deneutralise(x) for k, x in v.items()}
    return v


def run_c04(ex, g, tier, both):
    R = ex.runner
    n = 8000 if tier == "quick" else 200000
    lines = []
    for _ in range(n):
        paths = []
        rule = g.rule(g.r.randint(1, 4), None, paths)
        lines.append(gen.app(rule, g.data_for(paths, opshaped=0.6)))
    # hand-written shapes: defaults, computed collections, computed haystacks/keys holding operation-shaped values
    d = {"d": {"var": "secret"}, "secret": 42, "l": [{"var": "x"}, {"+": [1, 2]}, {"log": "LEAK"}], "x": 0, "k": {"var": "x"}, "xs": [{"var": "secret"}], "ok": "ok",
         "self": {"var": ["zz", {"var": "self"}]}, "coll": [{"all": [{"var": "coll"}, 1]}], "allowed": ["guest", {"var": "secret"}], "guess": 42}
    hand = [{"var": ["zz", {"var": "d"}]}, {"var": ["zz", {"var": "self"}]}, {"all": [{"var": "l"}, {"var": ""}]}, {"some": [{"var": "l"}, {"==": [{"var": ""}, 3]}]},
            {"none": [{"var": "l"}, {"==": [{"var": ""}, 3]}]}, {"all": [{"var": "coll"}, 1]}, {"all": [{"var": "xs"}, {"===": [{"var": ""}, 42]}]},
            {"in": [{"var": "guess"}, {"var": "allowed"}]}, {"in": [42, {"var": "xs"}]}, {"map": [{"var": "l"}, {"var": ""}]}, {"filter": [{"var": "l"}, True]},
            {"reduce": [{"var": "l"}, {"var": "current"}, {"var": "d"}]}, {"merge": [{"var": "l"}, {"var": "d"}]}, {"cat": [{"var": "d"}]}, {"if": [{"var": "d"}, {"var": "d"}, 0]},
            {"and": [{"var": "d"}, {"var": "k"}]}, {"or": [{"var": "k"}, 1]}, {"==": [{"var": "d"}, "[object Object]"]}, {"!!": [{"var": "k"}]}, {"var": {"var": "zz"}},
            {"missing": [{"var": "l"}]}, {"missing_some": [1, {"var": "l"}]}, {"max": [{"var": "xs"}]}, {"+": [{"var": "xs"}]}, {"log": {"var": "d"}},
            {"<": [1, {"log": 2}, 3]}, {"<=": [1, {"log": 2}, 3]}, {">": [3, {"log": 2}, 1]}, {">=": [3, {"log": {"log": 2}}, 1]}, {"or": [False, {"log": 0}]}, {"and": [True, {"log": 1}]},
            {"if": [False, 1, {"log": "e"}]}, {"var": [{"log": "k"}, {"log": "d"}]}, {"substr": [{"log": "abc"}, {"log": 1}]}, {"map": [{"log": [1]}, 1]},
            {"reduce": [{"log": [1]}, {"log": {"var": "current"}}, {"log": 0}]}, {"all": [{"log": [1]}, {"log": {"var": ""}}]}, {"in": [{"log": 1}, {"log": [1]}]}]
    lines = [gen.app(r, d) for r in hand] + lines
    # collections fetched as the WHOLE data (var "", null, no key), at top level and per element of an outer map/filter
    arrd = [{"+": [1, 2]}, {"var": "nope"}, {"log": "LEAK"}, 3, {"==": [1]}]
    for q in ("all", "some", "none"):
        for key in ("", None, []):
            for pred in ({"===": [{"var": ""}, 3]}, {"var": ""}, True, {"!": [{"var": ""}]}):
                lines.insert(0, gen.app({q: [{"var": key} if key != [] else {"var": []}, pred]}, arrd))
                lines.insert(0, gen.app({"map": [{"var": "rows"}, {q: [{"var": key} if key != [] else {"var": []}, pred]}]}, {"rows": [[1, {"var": "nope"}], [2, 3], arrd]}))
                lines.insert(0, gen.app({"filter": [{"var": "rows"}, {q: [{"var": key} if key != [] else {"var": []}, pred]}]}, {"rows": [[{"+": [1, 2]}], [3], []]}))
    for k2 in ("map", "filter"):
        lines.insert(0, gen.app({k2: [{"var": ""}, {"var": ""}]}, arrd))
    lines.insert(0, gen.app({"reduce": [{"var": ""}, {"var": "current"}, 0]}, arrd))
    lines.insert(0, gen.app({"in": [3, {"var": ""}]}, arrd)); lines.insert(0, gen.app({"merge": [{"var": ""}, {"var": ""}]}, arrd))
    ri = R.impl(lines); rm = R.model(lines)
    ex.account(lines, ri)
    dis = [(l, a, m) for l, a, m in zip(lines, ri, rm) if not same(a, m)]
    seen = set()
    for l, a, m in dis[:25]:
        small = R.shrink(l)
        if small in seen: continue
        seen.add(small)
        sa = R.impl([small])[0]; sm = R.model([small])[0]
        cmd, args = split_case(small)
        neutral = join_case(cmd, [args[0], neutralise(args[1])])
        na = R.impl([neutral])[0]; nm = R.model([neutral])[0]
        logs_differ = sa.startswith("ok") and sm.startswith("ok") and sa.split("\t")[0] == sm.split("\t")[0]
        rec = dict(kind="impl-vs-model", stream="marker-data", original=show_line(l)[:600], line=small, case=show_line(small)[:600], impl=sa[:300], model=sm[:300], owner=owner_of(small))
        if logs_differ:
            rec["note"] = "same value, different log trace: an operand was evaluated a different number of times"
            ex.violations.append(rec)
        elif same(na, nm):
            rec["note"] = "the disagreement disappears when operation-shaped values in the data are renamed: data was interpreted as logic"
            ex.violations.append(rec)
        elif jl.is_bad(sa):
            ex.violations.append(rec)
        else:
            ex.foreign.append(rec)
    # release profile on a sample
    sl = sample_third(lines)
    rr = R.impl(sl, "release")
    for l, a, b in zip(sl, rr, (ri if len(sl) == len(lines) else [r for i, r in enumerate(ri) if i % 3 == 0])):
        if not same(a, b):
            ex.violations.append(dict(kind="release-vs-debug", line=l, case=show_line(l)[:600], impl=a[:300], model=b[:300], owner=owner_of(l)))
    # renaming oracle on the implementation alone: operation-shaped values in the data are inert, so renaming their operator keys
    # (in the data only) must rename them in the result and change nothing else
    def strings_of(v, acc):
        if isinstance(v, str): acc.append(v)
        elif isinstance(v, list):
            for x in v: strings_of(x, acc)
        elif isinstance(v, dict):
            for k, x in v.items():
                strings_of(x, acc)
    def addresses_op_key(rule):
        acc = []; strings_of(rule, acc)
        def keys_of(v):
            if isinstance(v, dict):
                for k, x in v.items():
                    if not gen.is_op_shaped(v): acc.append(k)
                    keys_of(x)
            elif isinstance(v, list):
                for x in v: keys_of(x)
        keys_of(rule)
        return any(seg.replace("\\", "") in gen.ALLOPS for st in acc for seg in st.split("."))
    ren = []
    for l in lines:
        cmd, args = split_case(l)
        if addresses_op_key(args[0]): continue
        nd = neutralise(args[1])
        if nd != args[1]: ren.append((l, join_case(cmd, [args[0], nd])))
    ra = R.impl([x[0] for x in ren]); rb = R.impl([x[1] for x in ren])
    ex.account([x[1] for x in ren], rb)
    for (l1, l2), a, b in zip(ren, ra, rb):
        ha, hb = a.split("\t")[0], b.split("\t")[0]
        if ha.startswith("ok ") and hb.startswith("ok "):
            okk = dec(ha[3:]) == deneutralise(dec(hb[3:]))     # renamed keys can only have come from the data
        else:
            okk = jl.classify(ha).split(" ")[0] == jl.classify(hb).split(" ")[0]
        if not okk:
            small = l1
            ex.violate("oracle: renaming the operator keys of operation-shaped DATA values changes the outcome: data was interpreted as logic",
                       l1, a, "with the data keys renamed: " + b, note="second call: " + show_line(l2)[:400])
            if len([v for v in ex.violations if v["kind"].startswith("oracle: renaming")]) >= 5: break
    # substitution law on the implementation alone: apply({k:[a1..an]}, d) = apply({k:[var 0..]}, [apply(a1,d)..])
    subs = []
    for _ in range(1500 if tier == "quick" else 40000):
        k = g.r.choice(gen.EAGER)
        if k == "log": continue
        paths = []
        n = {"!": 1, "!!": 1}.get(k, g.r.choice([2, 2, 3]) if k in ("<", "<=", ">", ">=", "substr") else (g.r.randint(1, 2) if k == "-" else (2 if gen.DOC[k](2) and not gen.DOC[k](5) else g.r.randint(1, 3))))
        ops = [g.rule(2, None, paths) for _ in range(n)]
        dd = g.data_for(paths, opshaped=0.6)
        subs.append((k, ops, dd))
    r40 = list(range(40))
    for k, ops in (("in", [7.0, r40]), ("in", [-0.0, r40]), ("in", [1e1, r40]), ("in", [{"var": "x"}, r40]), ("in", ["7", [str(i) for i in r40]]), ("in", [7, [float(i) for i in r40]]),
                   ("merge", [r40, [1.0]]), ("cat", [r40]), ("==", [r40, ",".join(str(i) for i in r40)]), ("max", r40), ("+", r40), ("in", [None, r40 + [None]]), ("in", [[1.0], [[1]] * 40]),
                   ("===", [{"var": ""}, {"var": ""}]), ("in", [{"var": "x"}, [{"var": "x"}] * 3]), ("<", [1, {"var": "x"}, 9]), ("substr", ["x" * 40, {"var": "x"}])):
        subs.append((k, ops, {"x": 7.0}))
    first = []
    for k, ops, dd in subs:
        first.append(gen.app({k: ops}, dd))
        for o in ops: first.append(gen.app(o, dd))
    rf = R.impl(first)
    ex.account(first, rf)
    pos = 0; second = []; meta = []
    for k, ops, dd in subs:
        whole = rf[pos]; parts = rf[pos + 1: pos + 1 + len(ops)]; pos += 1 + len(ops)
        if all(p.startswith("ok") for p in parts):
            vals = [dec(p.split("\t")[0][3:]) for p in parts]
            second.append(gen.app({k: [{"var": i} for i in range(len(vals))]}, vals)); meta.append((k, ops, dd, whole))
    rs = R.impl(second)
    ex.account(second, rs)
    for (k, ops, dd, whole), l2, b in zip(meta, second, rs):
        if whole.split("\t")[0] != b.split("\t")[0] and not (whole.startswith("err") and b.startswith("err")):
            ex.violate("oracle: substituting precomputed operand values changes the result of an eager operator",
                       gen.app({k: ops}, dd), whole, b, note="second call: " + show_line(l2)[:300])


def run_c17(ex, g, tier):
    R = ex.runner
    # (b) history correspondence: a history is a sequence of calls; each result must equal the isolated result
    base = g.random_cases(400 if tier == "quick" else 4000, depth=4)
    base += [gen.app({"log": "x"}, None), gen.app({"cat": [{"log": 1}, {"log": 2}]}, None), gen.app({"var": "a"}, {"a": [1, 2]}),
             gen.app({"reduce": [[1, 2, 3], {"+": [{"var": "current"}, {"var": "accumulator"}]}, 0]}, None), gen.app({"map": [{"var": "l"}, {"log": {"var": ""}}]}, {"l": [1, 2]})]
    iso = {}
    ri = R.impl(base); rm = R.model(base)
    ex.account(base, ri)
    for l, a, m in zip(base, ri, rm):
        iso[l] = a
        if not same(a, m):
            ex.foreign.append(dict(kind="impl-vs-model", line=l, case=show_line(l)[:400], impl=a[:200], model=m[:200], owner=owner_of(l)))
    nh = 60 if tier == "quick" else 600
    for h in range(nh):
        ln = g.r.randint(2, 50)
        seq = [g.r.choice(base) for _ in range(ln)]
        if g.r.random() < 0.5:
            x = g.r.choice(base); seq = seq + [x] * g.r.randint(2, 5) + seq[::-1]
        res = R.impl(seq)
        ex.account(seq, res)
        for i, (l, a) in enumerate(zip(seq, res)):
            if a != iso[l]:
                ex.violate("history: call %d of a %d-call history differs from the same call in isolation" % (i, len(seq)), l, a, iso[l],
                           note="history: " + json.dumps([show_line(s)[:120] for s in seq[:i + 1]][-6:]))
                break
    # two-step interference: every ordered pair of a set of special calls, adjacent in one history
    pd = {"": {"b": "X"}, ".b": "Y", "dir\\": "D", "a": {"b": [1, 2]}, "\\x": 1, "x": 2, "w": "12px", "h": "0x10", "e": ""}
    special = [gen.app({"var": "dir\\"}, pd), gen.app({"var": ".b"}, pd), gen.app({"var": "\\x"}, pd), gen.app({"var": "a.b.1"}, pd), gen.app({"missing": ["dir\\", ".b"]}, pd),
               gen.app({"==": [{"var": "w"}, 12]}, pd), gen.app({"+": [{"var": "w"}, 1]}, pd), gen.app({"*": [{"var": "h"}, 2]}, pd), gen.app({"==": [{"var": "h"}, 16]}, pd),
               gen.app({"-": [{"var": "e"}, 1]}, pd), gen.app({"+": [{"var": "e"}, 1]}, pd), gen.app({"in": [1, 2]}, None), gen.app({"if": [True, "a", {"in": [1, 2]}]}, None),
               gen.app({"if": [{"in": [1, 2]}, 1, 2]}, None), gen.app({"map": [5, 1]}, None), gen.app({"map": [[1, 2], {"+": [{"var": ""}, 1]}]}, None),
               gen.app({"all": [[1], {"in": ["a", {"var": ""}]}]}, None), gen.app({"all": [[1, 2], {">": [{"var": ""}, 0]}]}, None), gen.app({"reduce": [1, 2, 3]}, None),
               gen.app({"substr": ["héllo", -2]}, None), gen.app({"cat": [1.5, "x"]}, None), gen.app({"var": ["zz", {"+": ["q"]}]}, None)]
    iso2 = dict(zip(special, R.impl(special)))
    hist = []
    for a in special:
        for b in special:
            hist += [a, b]
    res = R.impl(hist)
    ex.account(hist, res)
    for i, (l, a) in enumerate(zip(hist, res)):
        if a != iso2[l]:
            ex.violate("history: a call differs from the same call in isolation after the call before it", l, a, iso2[l],
                       note="previous call: " + show_line(hist[i - 1])[:300] if i else "")
            break
    # aliasing keys: distinct paths that agree under the cheap fingerprints a memo or cache would key on (equal length and 31-/33-multiplier hash,
    # equal byte sum / xor, equal first and last character, equal 8/16/32-character prefix, equal up to case), looked up in adjacent calls in
    # both orders and inside one rule; the isolated result is the model's (pure by construction), confirmed on the implementation in a process of its own
    groups = [["Aa", "BB"], ["AaAa", "BBBB", "AaBB", "BBAa"], ["ab", "ba"], ["axb", "ayb"], ["Key", "key", "KEY"], ["b0", "aO"], ["ac", "bB"],
              ["k" * 8 + "1", "k" * 8 + "2"], ["p" * 16 + "x", "p" * 16 + "y"], ["q" * 32 + "x", "q" * 32 + "y"], ["q" * 64 + "x", "q" * 64 + "y"],
              ["user.Aa", "user.BB"], ["Aa.user", "BB.user"], ["0.Aa", "0.BB"], ["a.b", "a\\.b"], ["é", "e\u0301"], ["10", "1e1"], ["1", "01"]]
    ali = []
    for grp in groups:
        vals = {}
        for i, k in enumerate(grp):
            cur = vals; segs = k.replace("\\.", "\x00").split("."); segs = [x.replace("\x00", ".") for x in segs]
            for sgm in segs[:-1]: cur = cur.setdefault(sgm, {})
            if not isinstance(cur, dict): continue
            cur.setdefault(segs[-1], "v%d" % i)
        if "0" in vals: vals = [vals["0"]]
        for a in grp:
            for b in grp:
                if a == b: continue
                ali += [gen.app({"var": a}, vals), gen.app({"var": b}, vals), gen.app({"var": a}, vals), gen.app({"missing": [b]}, {a: 1}), gen.app({"var": a}, {a: 1}),
                        gen.app({"missing": [b, a]}, {a: 1}), gen.app({"missing_some": [1, [b]]}, {a: 1}), gen.app({"cat": [{"var": a}, "|", {"var": b}, "|", {"var": a}]}, vals),
                        gen.app({"var": [b, "dflt"]}, {a: 1}), gen.app({"map": [[{a: 1}, {b: 2}], {"var": b}]}, None)]
    res = R.impl(ali); mod = R.model(ali)
    ex.account(ali, res)
    for i, (l, a, m) in enumerate(zip(ali, res, mod)):
        if not same(a, m):
            alone = R.impl([l])[0]
            if same(alone, m):
                ex.violate("history: a lookup differs from the same call in isolation after a lookup of a different key that a cheap fingerprint cannot tell apart", l, a, alone,
                           note="previous calls: " + json.dumps([show_line(x)[:160] for x in ali[max(0, i - 2):i]]))
            else:
                ex.foreign.append(dict(kind="impl-vs-model", line=l, case=show_line(l)[:400], impl=a[:200], model=m[:200], owner=owner_of(l)))
            break
    # N-th call: many failing calls first, then the valid ones again
    failing = [l for l in special if iso2[l].startswith("err")]
    deepfail = {"in": [1, 2]}
    for _ in range(24): deepfail = {"or": [0, {"if": [1, deepfail]}]}
    reps = 70 if tier == "quick" else 400
    import diffguide
    hh = diffguide.hints()
    for n_ in hh.get("ints", []):
        if n_ <= 20000: reps = max(reps, n_ // 4 + 8)        # enough failing calls (25 lazy levels each, 23 calls per repetition) to cross any counter limit named in the change
    hist = ([gen.app(deepfail, None)] + failing) * reps + special
    res = R.impl(hist)
    ex.account(hist, res)
    iso2[gen.app(deepfail, None)] = R.impl([gen.app(deepfail, None)])[0]
    for i, (l, a) in enumerate(zip(hist, res)):
        if a != iso2[l]:
            ex.violate("history: call %d differs from the same call in isolation after %d earlier (mostly failing) calls" % (i, i), l, a, iso2[l])
            break
    # log: exactly one line per evaluated log, operand returned unchanged (through the model comparison)
    logs = []
    for v in gen.CORPUS[:120]:
        logs.append(gen.app({"log": [{"var": "v"}]}, {"v": v}))
        logs.append(gen.app({"cat": [{"log": {"var": "v"}}, {"log": {"var": "v"}}]}, {"v": v}))
    for pred in ({"log": "tick"}, {"log": 1}, {"log": [1, 2]}, {"!": [{"log": "t"}]}, {"log": {"cat": ["a", "b"]}}, {"cat": [{"log": "a"}, {"log": "a"}]}):
        for q in ("map", "filter", "all", "some", "none"):
            logs.append(gen.app({q: [[1, 2, 3], pred]}, None)); logs.append(gen.app({q: [{"var": ""}, pred]}, [0, 1, 2]))
        logs += [gen.app({"reduce": [[1, 2, 3], pred, 0]}, None), gen.app({"if": [pred, pred, pred]}, None), gen.app({"and": [pred, pred, pred]}, None), gen.app({"or": [{"!": [pred]}, {"!": [pred]}]}, None),
                 gen.app({"cat": [pred, pred]}, None), gen.app({"map": [[1, 2], {"map": [[1, 2], pred]}]}, None)]
    ex.compare(logs, None, None, "log")                    # any disagreement in this stream is about what gets written by `log`
    ex.compare(logs, "release", None, "log/release")
    # (c) concurrent stress: 16 threads, shared Arc<Value> rules and data
    conc = [l for l in base if "s108,111,103" not in l]   # rules without `log` (its lines would interleave)
    rounds = 3 if tier == "quick" else 40
    # `log` under concurrency: every line that reaches standard output is one intact line of one evaluated `log`
    lg = [gen.app({"log": [{"var": ""}]}, v) for v in ([1, 2, 3, [4, 5, {"k": "v"}]], {"a": [1, 2, 3], "b": {"c": "dddddddddddddddddddd"}}, "plain", [[], [[]], {"x": None}])]
    lg.append(gen.app({"map": [{"var": ""}, {"log": {"var": ""}}]}, [[1, 2], {"p": "q"}, "zzzzzzzzzzzzzzzzzzzzzzzzzzzzzzzzzzzzzzzz"]))
    want_lines = set()
    for r in R.model(lg):
        want_lines.update(r.split("\t")[1:])
    for prof in ("dev", "release"):
        logs, res = jl.run_impl_threads_raw(lg, R.bins[prof], 16, 40 if tier == "quick" else 400)
        ex.evaluations += len(logs)
        bad = [l for l in logs if l not in want_lines]
        if bad:
            ex.violate("concurrent (%s): a line on standard output is not the intact line of one evaluated log (%d stray of %d lines)" % (prof, len(bad), len(logs)),
                       lg[0], bad[0][:200], "one of " + json.dumps(sorted(want_lines))[:300])
    for prof in ("dev", "release"):
        res = jl.run_impl(conc, R.bins[prof], threads=(16, rounds), per_case_timeout=120)
        ex.evaluations += len(conc) * 16 * rounds
        for l, a in zip(conc, res):
            if a.split("\t")[0] != iso[l].split("\t")[0]:
                ex.violate("concurrent (%s): result under 16 threads differs from the isolated result" % prof, l, a, iso[l])


# ------------------------------------------------------------------------------------------ main

def main():
    args = sys.argv[1:]
    pid = args[0]
    tier = os.environ.get("VERIF_TIER", "quick")
    replay = None
    i = 1
    while i < len(args):
        if args[i] == "--tier": tier = args[i + 1]; i += 2
        elif args[i] == "--replay": replay = args[i + 1]; i += 2
        else: i += 1
    seed = int(os.environ.get("VERIF_SEED", "1"))
    t0 = time.time()
    if replay:
        return do_replay(pid, replay)

    problems = []       # things that break the proof or the tie (not yet a failing input)
    tie_ok, tie_msg = jl.regen_tables()
    if not tie_ok:
        problems.append(dict(what="translator", detail="operator tables of src/op/mod.rs can no longer be extracted: " + tie_msg))
    fn_ok, fn_msg, fn_status = jl.regen_fns()
    if not fn_ok:
        problems.append(dict(what="translator", detail="function translator failed: " + fn_msg[-600:]))
    import audits
    audit_res = audits.run(pid)
    for p in audit_res["problems"]:
        problems.append(dict(what="audit", detail=p))
    if os.environ.get("VERIF_SKIP_PROOF"):      # development aid only (never used by MANIFEST commands): skip the Lean build/audit
        proof = dict(ok=True, obligations=["<skipped>"], discharged=["<skipped>"], problems=[], axioms={})
        jl.lake_build(["jldrv"])
        if os.environ.get("VERIF_TIES"):        # development aid: only the tie theorems
            tie_side(pid, fn_status, proof)
    else:
        proof = proof_side(pid, tier, fn_status)
    for p in proof["problems"]:
        problems.append(dict(what="proof", detail=p))

    ex = None
    try:
        profiles = ["dev", "release"] + (["relchk", "devwrap"] if tier == "thorough" else [])
        runner = Runner(profiles)
        ex = Explore(pid, tier, seed, runner)
        if not os.environ.get("VERIF_NO_EXPLORE"):        # development aid only: look at the proof / tie side alone
            explore(pid, tier, seed, ex)
            # a function behind this property is no longer tied by translation + proof (its tie theorem broke, or it left the translated
            # subset): the correspondence streams are its only tie now - look harder before concluding anything
            weak = list(proof.get("broken_ties", [])) + list(proof.get("lost_translation", []))
            if weak and not ex.violations:
                for extra in (seed + 101, seed + 202):
                    if ex.violations or time.time() - t0 > 600: break
                    ex.notes.append("extra exploration with seed %d because the translation tie is gone for: %s" % (extra, ", ".join(sorted(set(weak)))))
                    explore(pid, tier, extra, ex)
    except jl.BuildError as e:
        problems.append(dict(what="build", detail=str(e)[:3000]))
    except Exception as e:
        problems.append(dict(what="harness", detail="exploration failed: " + traceback.format_exc()[-3000:]))

    spec_val = None
    if pid in ("C07", "C08", "C09", "C10"):
        try:
            import spec_validate
            spec_val = spec_validate.run()
            if spec_val["mismatches"]:
                problems.append(dict(what="spec-validation", detail="the ECMAScript specification layer disagrees with V8 on %d judgments, e.g. %s" % (spec_val["mismatches"], json.dumps(spec_val["first"][:2]))))
        except Exception as e:
            spec_val = dict(error=str(e)[:300])
    findings = load_findings()
    known = [f for f in findings.get("findings", []) if f.get("property") == pid]
    viol = ex.violations if ex else []
    new_viol = []; known_hit = []
    for v in viol:
        k = next((f for f in known if f.get("line") == v.get("line")), None)
        if k: known_hit.append(k)
        else: new_viol.append(v)
    for k in {json.dumps(k, sort_keys=True) for k in known_hit}:
        print("KNOWN-FINDING: property=%s %s" % (pid, json.loads(k).get("what", "")))

    status = 0
    out_lines = []
    if new_viol:
        for n, v in enumerate(new_viol[:5]):
            path = jl.write_replay(pid, "v%d" % n, dict(property=pid, kind=v["kind"], input_line=v["line"], input=v.get("case"), implementation=v["impl"],
                                                           expected=v["model"], note=v.get("note", ""), profile=v.get("profile", "dev"),
                                                           theorem="JL.Props.%s.* relate the model output to the property; the implementation differs from the model on this input" % pid,
                                                           replay_cmd="./check %s --replay <this file>" % pid))
            out_lines.append("VIOLATION property=%s replay=%s" % (pid, path))
        status = 1
    elif problems:
        path = jl.write_replay(pid, "unproved", dict(property=pid, no_failing_input_found=True, broken=problems,
                                                        searched=dict(evaluations=ex.evaluations if ex else 0, distinct=len(ex.distinct) if ex else 0)))
        out_lines.append("VIOLATION property=%s replay=%s no-failing-input-found" % (pid, path))
        status = 1

    wall = time.time() - t0
    cov = dict(obligations=len(proof["obligations"]), discharged=len(proof["discharged"]),
               checker_cmd="cd /verif/lean && lake build %s && lake env lean <audit: collectAxioms of every theorem in namespace JL.Props.%s>%s" % (" ".join(modules_of(pid)), pid, " && lake env leanchecker " + " ".join(modules_of(pid)) if tier == "thorough" else ""),
               trusted_base=TRUSTED_BASE, theorems=proof["obligations"], axioms_used=sorted({a for v in proof["axioms"].values() for a in v}),
               evaluations=ex.evaluations if ex else 0, distinct_nontrivial=ex.nontrivial if ex else 0,
               rule="cases are wire lines (command + JSON values); distinct = by exact wire text; non-trivial = an `apply` whose rule is a recognised operation (C02: any non-null literal) or a helper/primitive call",
               samples=ex.samples if ex else [], exhaustive=False,
               outcomes=dict(ex.outcomes) if ex else {}, partition_coverage=dict(sorted(ex.cells.items())) if ex else {}, operator_histogram=dict(ex.ops.most_common()) if ex else {},
               disagreements_attributed_elsewhere=[dict(owner=f["owner"], case=f["case"], impl=f["impl"], model=f["model"]) for f in (ex.foreign[:10] if ex else [])],
               tie=dict(tables=tie_msg, audits=audit_res["summary"], functions=proof.get("tie_functions", {}), function_translator=fn_msg.split("\n")[0] if fn_msg else ""), diff_guidance=getattr(ex, "hints", None) if ex else None, proof_problems=[p["detail"][:300] for p in problems], notes=ex.notes if ex else [],
               leanchecker=proof.get("leanchecker", "not run in this tier"),
               spec_validation_against_v8=spec_val if spec_val is not None else "not applicable to this property")
    ev = dict(property_id=pid, tier=tier, seed=seed, level="proof", coverage=cov, wall_s=round(wall, 1), violations=len(new_viol),
              assumptions=["the model's executable definitions agree with the implementation on every input (sampled by the correspondence part of this run)",
                           "IEEE-754 / Rust std / serde_json behave as modelled (see trusted_base)"])
    jl.write_evidence(pid, ev)
    for rs_ in sorted(set(proof.get("lost_translation", [])))[:6]:
        print("NOTE: `%s` is no longer within what the function translator reads (%s): for it the model is tied to the code by the correspondence streams of this run only" % (rs_, str(proof.get("tie_functions", {}).get(rs_, ""))[:140]))
    for f in (ex.foreign[:5] if ex else []):
        print("NOTE: disagreement outside this property's domain (owner %s): %s | impl %s | model %s" % (f["owner"], f["case"][:160], f["impl"][:80], f["model"][:80]))
    print("%s tier=%s seed=%d: %d theorems (%d discharged), %d evaluations, %d distinct non-trivial, %d violations, %.1fs" %
          (pid, tier, seed, len(proof["obligations"]), len(proof["discharged"]), ex.evaluations if ex else 0, ex.nontrivial if ex else 0, len(new_viol), wall))
    for l in out_lines: print(l)
    sys.exit(status)


def do_replay(pid, path):
    r = json.load(open(path))
    if r.get("no_failing_input_found"):
        print("replay names what no longer checks:"); print(json.dumps(r["broken"], indent=1)[:3000]); sys.exit(1)
    line = r["input_line"]
    prof = r.get("profile", "dev")
    if line.startswith("cli ") or line.startswith("py "):
        import wrappers
        sys.exit(wrappers.replay(r))
    b = jl.build_harness(prof if prof in jl.PROFILE_DIR else "dev")
    a = jl.run_impl([line], b, per_case_timeout=30)[0]
    m = jl.run_model([line])[0] if r.get("kind", "").startswith("impl-vs-model") else r.get("expected", "")
    print("input   :", show_line(line)); print("impl    :", a); print("expected:", m)
    sys.exit(0 if same(a, m) else 1)


if __name__ == "__main__":
    main()
