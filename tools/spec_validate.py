#!/usr/bin/env python3
"""Validation of the SPEC layer (JL/Spec/ES*.lean) against V8: runs the `spec.*` driver commands on corpus/es_pool.json and
compares with corpus/es_truth.json (written by `nodejs tools/es_truth.js`, committed; node is not needed at check time)."""
import os, sys, json
sys.path.insert(0, os.path.dirname(os.path.abspath(__file__)))
import jl, gen
from jl import enc

def load(text):
    g = gen.Gen(0)
    def fix(v):
        if isinstance(v, bool) or v is None or isinstance(v, str): return v
        if isinstance(v, int): return g.fixnum(v)
        if isinstance(v, list): return [fix(x) for x in v]
        if isinstance(v, dict): return {k: fix(x) for k, x in v.items()}
        return v
    return fix(json.loads(text))

def run():
    pool = json.load(open(os.path.join(jl.VERIF, "corpus", "es_pool.json")))
    truth = json.load(open(os.path.join(jl.VERIF, "corpus", "es_truth.json")))
    cmds = ["spec.loosely_equal", "spec.strictly_equal", "spec.less_than", "spec.less_eq", "spec.greater_than", "spec.greater_eq"]
    vals = {t: enc(load(t)) for t in pool["values"]}
    lines = []
    for a, b in pool["pairs"]:
        for c in cmds: lines.append("%s %s %s" % (c, vals[a], vals[b]))
    for s in pool["strings"]:
        lines.append("spec.string_to_number " + enc(s)); lines.append("spec.parse_float " + enc(s))
    for t in pool["values"]:
        lines.append("spec.to_number " + vals[t])
    out = jl.run_model(lines)
    bad = []; pos = 0
    for (a, b), want in zip(pool["pairs"], truth["pairs"]):
        for i, c in enumerate(cmds):
            if out[pos] != want[i]: bad.append((c, a, b, out[pos], want[i]))
            pos += 1
    for s, (n, p) in zip(pool["strings"], truth["strings"]):
        if out[pos] != n: bad.append(("spec.string_to_number", s, "", out[pos], n))
        if out[pos + 1] != p: bad.append(("spec.parse_float", s, "", out[pos + 1], p))
        pos += 2
    for t, w in zip(pool["values"], truth["tonumber"]):
        if out[pos] != w: bad.append(("spec.to_number", t, "", out[pos], w))
        pos += 1
    return dict(compared=len(lines), mismatches=len(bad), first=[dict(cmd=c, a=a, b=b, spec=o, v8=w) for c, a, b, o, w in bad[:10]])

if __name__ == "__main__":
    print(json.dumps(run(), indent=1, ensure_ascii=False))
