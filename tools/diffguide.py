#!/usr/bin/env python3
"""Diff-guided case generation. The checks are handed a working tree that may have been edited; what was edited is visible by comparing it
with the reference copy of the source kept in /verif/reference_src (the tree the model was validated against). Nothing here decides
anything: the literals that occur in added or changed lines only *steer the generators* (sizes, counts, lengths, indices, keys, characters
taken from the changed code), and every generated case is still judged against the model. On an unchanged tree there are no hints."""
import os, re, difflib

VERIF = os.path.dirname(os.path.dirname(os.path.abspath(__file__)))
REF = os.path.join(VERIF, "reference_src")
REPO = os.environ.get("VERIF_REPO", "/repo")

TYPE_BOUNDS = {"u8": [255, 256], "i8": [127, 128], "u16": [65535, 65536], "i16": [32767, 32768], "u32": [2 ** 32 - 1, 2 ** 32], "i32": [2 ** 31 - 1, 2 ** 31], "i64": [2 ** 63 - 1], "u64": [2 ** 64 - 1],
               "i128": [2 ** 127], "f32": [16777216, 16777217]}


def files():
    out = []
    for base in ("src", "py"):
        for root, _, fs in os.walk(os.path.join(REF, base)):
            for f in fs:
                if f.endswith((".rs", ".py")): out.append(os.path.relpath(os.path.join(root, f), REF))
        for root, _, fs in os.walk(os.path.join(REPO, base)):
            for f in fs:
                if f.endswith((".rs", ".py")):
                    rel = os.path.relpath(os.path.join(root, f), REPO)
                    if rel not in out: out.append(rel)
    out.append("Cargo.toml")
    return sorted(set(out))


def changed_lines():
    """lines that are new or changed in the working tree, with the file they are in"""
    added = []
    for rel in files():
        a = open(os.path.join(REF, rel), encoding="utf-8", errors="replace").read().split("\n") if os.path.exists(os.path.join(REF, rel)) else []
        b = open(os.path.join(REPO, rel), encoding="utf-8", errors="replace").read().split("\n") if os.path.exists(os.path.join(REPO, rel)) else []
        if a == b: continue
        sm = difflib.SequenceMatcher(None, a, b, autojunk=False)
        for tag, i1, i2, j1, j2 in sm.get_opcodes():
            if tag in ("replace", "insert"):
                for ln in b[j1:j2]: added.append((rel, ln))
            if tag in ("replace", "delete"):
                for ln in a[i1:i2]: added.append((rel, ln))       # what was removed also says where behaviour may differ
    return added


def unescape_rust(s):
    def rep(m):
        t = m.group(0)
        if t.startswith("\\u{"): return chr(int(t[3:-1], 16))
        return {"\\n": "\n", "\\t": "\t", "\\r": "\r", "\\\\": "\\", "\\\"": "\"", "\\'": "'", "\\0": "\0"}.get(t, t[1:])
    return re.sub(r"\\u\{[0-9a-fA-F]+\}|\\.", rep, s)


def hints():
    lines = changed_lines()
    ints = set(); strs = set(); chars = set(); flags = set()
    for rel, ln in lines:
        code = ln.split("//")[0] if rel.endswith(".rs") else ln.split("#")[0]
        for m in re.finditer(r"\"((?:[^\"\\]|\\.)*)\"", code):
            try:
                sv = unescape_rust(m.group(1))
                if 0 < len(sv) <= 40 and "{}" not in sv and "{:" not in sv: strs.add(sv)
            except Exception:
                pass
        code_ns = re.sub(r"\"(?:[^\"\\]|\\.)*\"", "\"\"", code)
        for m in re.finditer(r"'((?:\\u\{[0-9a-fA-F]+\})|(?:\\.)|[^'\\])'", code_ns):
            try:
                c = unescape_rust(m.group(1))
                if len(c) == 1: chars.add(c)
            except Exception:
                pass
        for m in re.finditer(r"(?<![\w.])(0x[0-9a-fA-F_]+|\d[\d_]*)(?:(?:usize|isize|u8|u16|u32|u64|i8|i16|i32|i64|u128|i128))?(?![\w.]|\.\d)", code_ns):
            t = m.group(1).replace("_", "")
            try:
                n = int(t, 16) if t.startswith("0x") else int(t)
                if 2 <= n <= 2 ** 64: ints.add(n)
            except ValueError:
                pass
        for m in re.finditer(r"\b(u8|i8|u16|i16|u32|i32|i128|f32)\b", code_ns):
            for n in TYPE_BOUNDS[m.group(1)]: ints.add(n)
        for m in re.finditer(r"(\d+)\s*<<\s*(\d+)", code_ns):
            try: ints.add(int(m.group(1)) << int(m.group(2)))
            except Exception: pass
        if re.search(r"EPSILON|total_cmp|is_normal|is_subnormal|ulp|abs\(\)\s*<|to_bits|round\(|trunc\(|floor\(|ceil\(|powi|mul_add", code_ns): flags.add("float")
        if re.search(r"thread_local|static |OnceCell|OnceLock|Mutex|RefCell|Cell<|Atomic|lazy_static|cache|memo|HashMap|HashSet|BTreeMap", code_ns, re.I): flags.add("state")
        if re.search(r"utf16|to_uppercase|to_lowercase|is_alphabetic|is_numeric|is_whitespace|is_alphanumeric|trim\(|trim_start|trim_end|len\(\)|as_bytes|bytes\(\)|char_indices|is_char_boundary|truncate|from_utf8|lossy|encode", code_ns): flags.add("text")
        if re.search(r"pointer|split\(|splitn|rsplit|find\(|contains\(|starts_with|ends_with|strip_prefix|replace\(", code_ns): flags.add("path")
    ints = sorted(n for n in ints if n not in (0, 1))
    return dict(ints=ints[:40], strs=sorted(strs)[:40], chars=sorted(chars)[:40], flags=sorted(flags), changed_files=sorted({r for r, _ in lines}), changed_lines=len(lines))


if __name__ == "__main__":
    import json
    print(json.dumps(hints(), indent=1, ensure_ascii=False))
