#!/usr/bin/env python3
"""Apply each seeded change of /verif/seeded/<name>/patch.diff to /repo, run the quick check of its property
(and optionally others), undo it, and record what was detected in /verif/seeded/RESULTS.json.
usage: run_seeded.py [--all-props] [name ...]"""
import os, sys, json, subprocess, glob, time
V = os.path.dirname(os.path.dirname(os.path.abspath(__file__)))
def sh(cmd, **kw):
    return subprocess.run(cmd, shell=True, stdout=subprocess.PIPE, stderr=subprocess.STDOUT, **kw)
names = [a for a in sys.argv[1:] if not a.startswith("--")] or sorted(os.path.basename(d) for d in glob.glob("/verif/seeded/C*"))
resf = "/verif/seeded/RESULTS.json"
results = json.load(open(resf)) if os.path.exists(resf) else {}
assert sh("git -C /repo status --porcelain").stdout.strip() == b"", "/repo not clean"
for name in names:
    d = "/verif/seeded/" + name
    prop = json.load(open(d + "/meta.json"))["property"]
    r = sh("git -C /repo apply %s/patch.diff" % d)
    if r.returncode != 0:
        results[name] = dict(error="patch does not apply: " + r.stdout.decode()[-300:]); continue
    try:
        t = time.time()
        c = sh("cd %s && ./check %s --tier quick" % (V, prop), env=dict(os.environ))
        out = c.stdout.decode("utf-8", "replace")
        viol = [l for l in out.split("\n") if l.startswith("VIOLATION")]
        rec = dict(property=prop, exit=c.returncode, detected=bool(viol) and c.returncode == 1, violation_lines=viol[:3], wall_s=round(time.time() - t, 1),
                   tail=out.strip().split("\n")[-4:])
        if viol:
            try:
                rp = viol[0].split("replay=")[1].split()[0]
                rj = json.load(open(rp))
                rec["replay"] = {k: rj.get(k) for k in ("kind", "input", "implementation", "expected", "note", "broken") if k in rj}
            except Exception as e:
                rec["replay"] = "unreadable: %s" % e
        results[name] = rec
        print(name, "DETECTED" if rec["detected"] else "MISSED", rec["violation_lines"][:1], "%.0fs" % rec["wall_s"], flush=True)
    finally:
        sh("git -C /repo apply -R %s/patch.diff" % d)
        sh("git -C /repo checkout -- . && git -C /repo clean -fdq -- src py tests")
    json.dump(results, open(resf, "w"), indent=1, ensure_ascii=False)
assert sh("git -C /repo status --porcelain").stdout.strip() == b"", "/repo not clean after run"
