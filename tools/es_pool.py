#!/usr/bin/env python3
"""Writes corpus/es_pool.json: JSON texts on which the stipulated semantics (JSON-text number forms, code-point string
order) coincide with plain JavaScript, so that V8 is an oracle for the Lean SPEC layer (tools/es_truth.js)."""
import json, sys, os
sys.path.insert(0, os.path.dirname(os.path.abspath(__file__)))
import gen
def astral(s): return any(ord(c) > 0xFFFF for c in s)
def js_safe(v, top=True):
    if isinstance(v, str): return not astral(v)
    if isinstance(v, bool) or v is None: return True
    if isinstance(v, int): return top or abs(v) < 2 ** 53
    if isinstance(v, float): return top          # floats only as top-level operands (their string form differs: 1.0 vs "1")
    if isinstance(v, list): return all(js_safe(x, False) for x in v)
    if isinstance(v, dict): return len(v) == 0 or all(js_safe(x, False) for x in v.values())
    return False
vals = [v for v in gen.CORPUS if js_safe(v)]
vals += [[1, 2, 3], [[]], [[1]], ["a", None, 1], [None, None], [0], ["0"], [""], [" "], [True], [False], [{}], {"a": [1]}, [1, [2, [3]]], "[object Object]", "1,2,3", ",", "1,2"]
texts = []
for v in vals:
    t = json.dumps(v, ensure_ascii=False)
    if isinstance(v, float) and v == 0 and str(v).startswith("-"): t = "-0.0"
    texts.append(t)
pairs = [[a, b] for a in texts for b in texts]
strings = [s for s in gen.NUMSTRS + gen.STRS if not astral(s)] + ["0x" + "f" * 20, "0x1" + "0" * 16 + "1", "0b" + "1" * 70, "0o7" * 1, "1e310", "-1e310", "0." + "0" * 330 + "1", "9" * 400, "1" + "0" * 22,
        "  \t\n 42 \r\n", "４２", "1e1000", ".e1", "1.e1", "+.1", "-.1e-1", "1e-1000", "Infinity ", " -Infinity", "InfinitY", "0x", "0xg", "0b", "0o", "0B101", "0O17", "0XfF", "1 1", "1,1", "1e1.5", "e", "E5", "+e5", "++1", "--1", "+-1",
        "0.1e", "0.1e+", "0.1e-", "5e5e5", "1__0", "٣", "1 ", " 1", " 1", "᠎1", "​1", "﻿", "\u0085", "\u0085" + "1"]
json.dump(dict(pairs=pairs, strings=strings, values=texts), open(os.path.join(os.path.dirname(os.path.abspath(__file__)), "..", "corpus", "es_pool.json"), "w"), ensure_ascii=False)
print(len(texts), "values", len(pairs), "pairs", len(strings), "strings")
