"""Shared machinery of the checks: wire format, building, running implementation and model, comparison.

JSON values are plain Python values with the number *variant* kept by the Python type:
int -> PosInt / NegInt (must fit u64 / i64), float -> Float (finite), str, list, dict, None, bool.
"""
import os, sys, re, struct, subprocess, json, time, fcntl, hashlib, shutil

VERIF = os.path.dirname(os.path.dirname(os.path.abspath(__file__)))
REPO = os.environ.get("VERIF_REPO", "/repo")
BUILD = os.path.join(VERIF, "build")
LEAN = os.path.join(VERIF, "lean")
HARNESS = os.path.join(VERIF, "harness")
DRV = os.path.join(LEAN, ".lake", "build", "bin", "jldrv")
PROFILE_DIR = {"dev": "debug", "release": "release", "relchk": "relchk", "devwrap": "devwrap"}

# ---------------------------------------------------------------- wire format

def fbits(x):
    return struct.unpack("<Q", struct.pack("<d", x))[0]

def bits_to_float(b):
    return struct.unpack("<d", struct.pack("<Q", b))[0]

def enc_str(s):
    return "s" + ",".join(str(ord(c)) for c in s)

def enc(v):
    if v is None: return "n"
    if v is True: return "t"
    if v is False: return "f"
    if isinstance(v, int):
        if v >= 0:
            assert v < 2 ** 64, v
            return "u%d" % v
        assert v >= -2 ** 63, v
        return "i%d" % (-v)
    if isinstance(v, float):
        assert v == v and v not in (float("inf"), float("-inf")), v
        return "d%016x" % fbits(v)
    if isinstance(v, str): return enc_str(v)
    if isinstance(v, (list, tuple)):
        return " ".join(["["] + [enc(x) for x in v] + ["]"])
    if isinstance(v, dict):
        parts = ["{"]
        for k in sorted(v.keys()):
            parts.append(enc_str(k)); parts.append(enc(v[k]))
        parts.append("}")
        return " ".join(parts)
    raise TypeError(repr(v))

def _dec_str(body):
    return "" if body == "" else "".join(chr(int(t)) for t in body.split(","))

def dec_tokens(toks, pos=0):
    t = toks[pos]; pos += 1
    if t == "n": return None, pos
    if t == "t": return True, pos
    if t == "f": return False, pos
    if t == "[":
        out = []
        while toks[pos] != "]":
            v, pos = dec_tokens(toks, pos); out.append(v)
        return out, pos + 1
    if t == "{":
        out = {}
        while toks[pos] != "}":
            k = _dec_str(toks[pos][1:]); v, pos = dec_tokens(toks, pos + 1); out[k] = v
        return out, pos + 1
    h, body = t[0], t[1:]
    if h == "u": return int(body), pos
    if h == "i": return -int(body), pos
    if h == "d": return bits_to_float(int(body, 16)), pos
    if h == "s": return _dec_str(body), pos
    raise ValueError("bad token " + t)

def dec(s):
    v, pos = dec_tokens(s.split(" "))
    return v

def show(v):
    """human-readable JSON-ish text of a value (floats keep a visible '.0'; only for reports)"""
    if isinstance(v, float):
        r = repr(v)
        return r
    if isinstance(v, (list, tuple)): return "[" + ",".join(show(x) for x in v) + "]"
    if isinstance(v, dict): return "{" + ",".join(json.dumps(k, ensure_ascii=False) + ":" + show(x) for k, x in sorted(v.items())) + "}"
    return json.dumps(v, ensure_ascii=False)

def show_line(line):
    """render a wire line for a report: command + decoded args"""
    toks = line.split(" ")
    cmd = toks[0]
    if cmd.startswith("f.") or cmd == "parsehex":
        return line
    out = []; pos = 1
    try:
        while pos < len(toks):
            v, pos = dec_tokens(toks, pos); out.append(show(v))
    except Exception:
        return line
    return cmd + " " + " | ".join(out)

# ---------------------------------------------------------------- building

class BuildError(Exception):
    pass

def _lock():
    os.makedirs(BUILD, exist_ok=True)
    f = open(os.path.join(BUILD, ".lock"), "w")
    fcntl.flock(f, fcntl.LOCK_EX)
    return f

def sh(cmd, cwd=None, timeout=3600, env=None):
    e = dict(os.environ)
    e["CARGO_NET_OFFLINE"] = "true"
    if env: e.update(env)
    p = subprocess.run(cmd, cwd=cwd, shell=isinstance(cmd, str), stdout=subprocess.PIPE, stderr=subprocess.STDOUT,
                       timeout=timeout, env=e)
    return p.returncode, p.stdout.decode("utf-8", "replace")

def build_harness(profile="dev"):
    """(re)build the harness against /repo's working tree; returns the binary path"""
    lk = _lock()
    try:
        lock_src = os.path.join(REPO, "Cargo.lock")
        lock_dst = os.path.join(HARNESS, "Cargo.lock")
        if not os.path.exists(lock_dst) and os.path.exists(lock_src):
            shutil.copy(lock_src, lock_dst)
        # a copy of /verif used for sweeps against a clone of the crate (VERIF_REPO) must build its harness against that clone
        ct = os.path.join(HARNESS, "Cargo.toml")
        txt = open(ct).read()
        want = re.sub(r'jsonlogic-rs = \{ path = "[^"]*" \}', 'jsonlogic-rs = { path = "%s" }' % REPO, txt)
        if want != txt and VERIF != "/verif":
            open(ct, "w").write(want)
        cmd = ["cargo", "build", "--offline", "--quiet"]
        if profile != "dev":
            cmd += ["--profile", profile]
        rc, out = sh(cmd, cwd=HARNESS, env={"CARGO_TARGET_DIR": os.path.join(BUILD, "target")})
        if rc != 0:
            raise BuildError("harness build failed (%s):\n%s" % (profile, out[-4000:]))
    finally:
        lk.close()
    return os.path.join(BUILD, "target", PROFILE_DIR[profile], "jlharness")

def build_cli(profile="dev"):
    """build the real `jsonlogic` binary from /repo's working tree into /verif/build/cli-target"""
    lk = _lock()
    try:
        tdir = os.path.join(BUILD, "cli-target")
        cmd = ["cargo", "build", "--offline", "--quiet", "--features", "cmdline", "--target-dir", tdir]
        if profile == "release": cmd.append("--release")
        rc, out = sh(cmd, cwd=REPO)
        if rc != 0:
            raise BuildError("CLI build failed:\n" + out[-4000:])
    finally:
        lk.close()
    return os.path.join(tdir, "release" if profile == "release" else "debug", "jsonlogic")

def build_pyext():
    """build the real Python extension from /repo's working tree and stage it behind the real __init__.py"""
    lk = _lock()
    try:
        tdir = os.path.join(BUILD, "py-target")
        rc, out = sh(["cargo", "build", "--offline", "--quiet", "--features", "python", "--target-dir", tdir], cwd=REPO)
        if rc != 0:
            raise BuildError("python extension build failed:\n" + out[-4000:])
        stage = os.path.join(BUILD, "py", "jsonlogic_rs")
        os.makedirs(stage, exist_ok=True)
        shutil.copy(os.path.join(REPO, "py", "jsonlogic_rs", "__init__.py"), os.path.join(stage, "__init__.py"))
        shutil.copy(os.path.join(tdir, "debug", "libjsonlogic_rs.so"), os.path.join(stage, "jsonlogic.so"))
    finally:
        lk.close()
    return os.path.join(BUILD, "py")

def regen_tables():
    """run the translator; returns (ok, message)"""
    rc, out = sh([sys.executable, os.path.join(VERIF, "tools", "extract_tables.py")])
    return rc == 0, out.strip()

def regen_fns():
    """run the function translator (Rust bodies -> lean/JL/Generated/Fns.lean); returns (ok, message, status per function)"""
    lk = _lock()
    try:
        sh(["lake", "build", "JL.Rs"], cwd=LEAN, timeout=3600)
        rc, out = sh([sys.executable, os.path.join(VERIF, "tools", "rs2lean.py")], timeout=3600)
        st = {}
        try:
            st = json.load(open(os.path.join(LEAN, "JL", "Generated", "fns_status.json")))
        except Exception:
            pass
    finally:
        lk.close()
    return rc == 0 and bool(st), out.strip(), st


def lake_build(targets):
    lk = _lock()
    try:
        rc, out = sh(["lake", "build"] + list(targets), cwd=LEAN, timeout=7200)
    finally:
        lk.close()
    return rc == 0, out

# ---------------------------------------------------------------- running

def _tmpdir():
    d = os.path.join(BUILD, "tmp")
    os.makedirs(d, exist_ok=True)
    return d

def run_model(lines):
    """one output line per input line from the Lean driver"""
    if not lines: return []
    data = ("\n".join(lines) + "\n").encode("utf-8")
    p = subprocess.run([DRV], input=data, stdout=subprocess.PIPE, stderr=subprocess.PIPE, timeout=3600)
    out = p.stdout.decode("utf-8").split("\n")
    if out and out[-1] == "": out.pop()
    if len(out) != len(lines):
        raise RuntimeError("model driver produced %d lines for %d cases (rc=%s, stderr=%s)" % (len(out), len(lines), p.returncode, p.stderr[-500:]))
    return out

def _parse_impl_output(text):
    """returns list of results for completed cases, and whether a case was begun but not finished"""
    res = []; logs = None; begun = False
    for ln in text.split("\n"):
        if ln == "@@B":
            logs = []; begun = True
        elif ln.startswith("@@E "):
            r = ln[4:]
            if logs: r = r + "\t" + "\t".join(logs)
            res.append(r); logs = None; begun = False
        elif logs is not None and ln != "":
            logs.append(ln)
    return res, begun

def run_impl(lines, binary, stack=None, per_case_timeout=5.0, threads=None, base_timeout=30.0):
    """run the real code on `lines`; a crash or hang becomes the result of the case it happened in
    (`crash <status>` / `hang`) and the run resumes with the next case"""
    results = []
    start = 0
    hangs = 0
    env = dict(os.environ)
    if stack: env["HARNESS_STACK"] = str(stack)
    while start < len(lines):
        chunk = lines[start:]
        data = ("\n".join(chunk) + "\n").encode("utf-8")
        cmd = [binary] + (["--threads", str(threads[0]), str(threads[1])] if threads else [])
        budget = base_timeout + per_case_timeout + len(chunk) * 0.002
        try:
            p = subprocess.run(cmd, input=data, stdout=subprocess.PIPE, stderr=subprocess.PIPE, timeout=budget, env=env)
            out = p.stdout.decode("utf-8", "replace"); rc = p.returncode; hung = False
        except subprocess.TimeoutExpired as ex:
            out = (ex.stdout or b"").decode("utf-8", "replace"); rc = None; hung = True
        res, begun = _parse_impl_output(out)
        results.extend(res)
        start += len(res)
        if start >= len(lines): break
        # the process ended (or hung) inside case `start`
        results.append("hang" if hung else "crash rc=%s" % rc)
        start += 1
        if hung:
            hangs += 1
            if hangs >= 3:
                # three hangs are a finding already; every further one would cost a full timeout: the rest of this batch is not run
                results.extend(["skipped-after-hangs"] * (len(lines) - start))
                break
    return results

def run_impl_threads_raw(lines, binary, n, rounds, timeout=300):
    """concurrent mode, keeping what the crate printed: returns (lines printed by `log` during the run, per-case results)"""
    data = ("\n".join(lines) + "\n").encode("utf-8")
    try:
        p = subprocess.run([binary, "--threads", str(n), str(rounds)], input=data, stdout=subprocess.PIPE, stderr=subprocess.PIPE, timeout=timeout)
        out = p.stdout.decode("utf-8", "replace")
    except subprocess.TimeoutExpired as ex:
        out = (ex.stdout or b"").decode("utf-8", "replace") + "\n@@E hang"
    logs = []; res = []
    for ln in out.split("\n"):
        if ln.startswith("@@E "): res.append(ln[4:])
        elif ln != "" and not res: logs.append(ln)
        elif ln != "": logs.append("<after-results> " + ln)
    return logs, res


def classify(r):
    """canonical form of a result line for comparison: panics/crashes/hangs are compared by class only"""
    if r.startswith("panic"): return "panic"
    if r.startswith("crash"): return "crash"
    return r

def is_bad(r):
    """an outcome that is neither a value nor an error value"""
    return r.startswith("panic") or r.startswith("crash") or r.startswith("hang") or r.startswith("diverged") or r.startswith("mutated")

# ---------------------------------------------------------------- evidence

def write_evidence(pid, ev):
    # development runs (proof side skipped) never overwrite the evidence that is committed
    d = os.path.join(BUILD, "dev-evidence") if os.environ.get("VERIF_SKIP_PROOF") else os.path.join(VERIF, "evidence")
    os.makedirs(d, exist_ok=True)
    with open(os.path.join(d, pid + ".json"), "w") as f:
        json.dump(ev, f, indent=1, ensure_ascii=False, sort_keys=True)
        f.write("\n")

def write_replay(pid, name, obj):
    d = os.path.join(VERIF, "replays")
    os.makedirs(d, exist_ok=True)
    path = os.path.join(d, "%s-%s.json" % (pid, name))
    with open(path, "w") as f:
        json.dump(obj, f, indent=1, ensure_ascii=False)
        f.write("\n")
    return path
