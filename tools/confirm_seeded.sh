#!/bin/bash
# confirm_seeded.sh Cxx : for each patchN.diff of /tmp/wt/Cxx-out, in the scratch worktree /tmp/wt/Cxx:
# the unedited suite passes with the patch, the demonstration fails with it and passes without it.
ID=$1; W=/tmp/wt/$ID; O=/tmp/wt/$ID-out
export CARGO_NET_OFFLINE=true
cd $W || exit 2
git checkout -q -- . ; git clean -fdq -e target -e Cargo.lock
for n in 1 2 3; do
  [ -f $O/patch$n.diff ] || continue
  res="$ID-$n"
  if ! git apply $O/patch$n.diff 2>/dev/null; then echo "$res APPLY-FAIL"; continue; fi
  if cargo test --offline >$O/confirm_test$n.log 2>&1; then t=pass; else t=FAIL; fi
  timeout 900 bash $O/demo$n.sh $W >$O/confirm_demo_patched$n.log 2>&1; dp=$?
  git checkout -q -- . ; git clean -fdq -e target -e Cargo.lock
  timeout 900 bash $O/demo$n.sh $W >$O/confirm_demo_clean$n.log 2>&1; dc=$?
  git checkout -q -- . ; git clean -fdq -e target -e Cargo.lock
  echo "$res tests=$t demo_patched_rc=$dp demo_clean_rc=$dc"
done
