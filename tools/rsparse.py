#!/usr/bin/env python3
"""A parser for the subset of Rust that the crate's pure functions are written in.

It produces a small AST (nested tuples) for function items: signature, and the body as statements and expressions.
It is part of the translator (tools/rs2lean.py): functions that use syntax outside the subset are reported as
"not translated" (UnsupportedSyntax), never guessed at.

AST
  expr :=
    ("lit", kind, text)                 kind in int|float|str|char|byte|bool
    ("path", [segments])                a::b::c     (generic arguments dropped)
    ("call", f, [args])
    ("mcall", recv, name, [args])       method call (turbofish dropped)
    ("field", e, name)
    ("index", e, i)
    ("unary", op, e)                    op in - ! * & &mut
    ("binary", op, a, b)
    ("assign", op, a, b)                = += -= ...
    ("cast", e, type_text)
    ("try", e)                          e?
    ("tuple", [es])
    ("array", [es])
    ("struct", path, [(field, e)])
    ("closure", [patterns], body)
    ("if", cond, then_block, else_expr_or_None)        cond may be ("let", pat, e)
    ("match", scrutinee, [(pat, guard_or_None, expr)])
    ("block", [stmts], tail_or_None)
    ("return", e_or_None) ("break",) ("continue",)
    ("for", pat, iter, block) ("while", cond, block) ("loop", block)
    ("macro", name, raw_token_texts)
    ("range", lo_or_None, hi_or_None, inclusive)
  stmt := ("let", pat, type_text_or_None, init_or_None, else_block_or_None) | ("expr", e, has_semicolon) | ("item", fn) | ("const", name, type, e)
  pat  := ("wild",) | ("bind", name, by_ref, mutable, subpat_or_None) | ("plit", expr) | ("prange", lo, hi, inclusive)
        | ("ppath", [segments]) | ("ptuplestruct", [segments], [pats]) | ("pstruct", [segments], [(field, pat)], has_rest)
        | ("ptuple", [pats]) | ("por", [pats]) | ("pref", pat) | ("prest",)
"""
import re


class UnsupportedSyntax(Exception):
    pass


TOKEN_RE = re.compile(r"""
    (?P<ws>\s+)
  | (?P<lcomment>//[^\n]*)
  | (?P<bcomment>/\*.*?\*/)
  | (?P<str>b?"(?:[^"\\]|\\.)*")
  | (?P<rawstr>r\#*"(?s:.*?)"\#*)
  | (?P<byte>b'(?:[^'\\]|\\.[^']*)')
  | (?P<char>'(?:[^'\\]|\\u\{[0-9a-fA-F]+\}|\\.)')
  | (?P<lifetime>'[A-Za-z_]\w*)
  | (?P<float>\d[\d_]*\.\d[\d_]*(?:[eE][+-]?\d+)?(?:f32|f64)?|\d[\d_]*[eE][+-]?\d+(?:f32|f64)?|\d[\d_]*(?:f32|f64))
  | (?P<int>0x[0-9a-fA-F_]+(?:[iu](?:8|16|32|64|128|size))?|0b[01_]+(?:[iu](?:8|16|32|64|128|size))?|0o[0-7_]+|\d[\d_]*(?:[iu](?:8|16|32|64|128|size))?)
  | (?P<ident>r\#[A-Za-z_]\w*|[A-Za-z_]\w*)
  | (?P<punct><<=|>>=|\.\.\.|\.\.=|::|->|=>|==|!=|<=|>=|&&|\|\||\+=|-=|\*=|/=|%=|\^=|&=|\|=|<<|>>|\.\.|[-+*/%^!&|=<>@.,;:#$?~(){}\[\]])
""", re.X | re.S)


def tokenize(src):
    toks = []
    pos = 0
    line = 1
    while pos < len(src):
        m = TOKEN_RE.match(src, pos)
        if not m:
            raise UnsupportedSyntax("cannot tokenize at line %d: %r" % (line, src[pos:pos + 30]))
        kind = m.lastgroup
        text = m.group(0)
        if kind not in ("ws", "lcomment", "bcomment"):
            toks.append((kind, text, line))
        line += text.count("\n")
        pos = m.end()
    toks.append(("eof", "", line))
    return toks


BINPREC = [
    ("||", 1), ("&&", 2),
    ("==", 3), ("!=", 3), ("<", 3), (">", 3), ("<=", 3), (">=", 3),
    ("|", 4), ("^", 5), ("&", 6), ("<<", 7), (">>", 7),
    ("+", 8), ("-", 8), ("*", 9), ("/", 9), ("%", 9),
]
PREC = dict(BINPREC)
ASSIGN_OPS = {"=", "+=", "-=", "*=", "/=", "%=", "^=", "&=", "|=", "<<=", ">>="}


class Parser:
    def __init__(self, toks):
        self.t = toks
        self.p = 0

    # ---- token helpers
    def peek(self, k=0):
        return self.t[min(self.p + k, len(self.t) - 1)]

    def at(self, text, k=0):
        return self.peek(k)[1] == text and self.peek(k)[0] in ("punct", "ident")

    def next(self):
        tok = self.t[self.p]
        self.p += 1
        return tok

    def expect(self, text):
        tok = self.next()
        if tok[1] != text:
            raise UnsupportedSyntax("line %d: expected %r, found %r" % (tok[2], text, tok[1]))
        return tok

    def accept(self, text):
        if self.at(text):
            self.p += 1
            return True
        return False

    def err(self, what):
        tok = self.peek()
        raise UnsupportedSyntax("line %d: %s (at %r)" % (tok[2], what, tok[1]))

    # ---- types: kept as text, delimited by bracket depth
    def type_text(self, stops):
        """consume a type up to (not including) one of `stops` at depth 0"""
        depth = 0
        out = []
        while True:
            k, tx, _ = self.peek()
            if k == "eof": self.err("unterminated type")
            if depth == 0 and tx in stops and k == "punct":
                break
            if depth == 0 and tx == "where" and k == "ident":
                break
            if tx in ("(", "[", "<"): depth += 1
            elif tx in (")", "]", ">"):
                if depth == 0: break
                depth -= 1
            elif tx == ">>":
                if depth < 2:
                    if depth == 0: break
                    # split '>>' closing one level: treat as two
                    depth -= 1
                    out.append(">"); self.p += 1
                    # put back a single '>'
                    self.t.insert(self.p, ("punct", ">", self.peek()[2]))
                    continue
                depth -= 2
            elif tx == "->" and depth == 0:
                pass
            out.append(tx)
            self.p += 1
        return " ".join(out)

    def generic_args_skip(self):
        """at '<' : skip a balanced generic argument list"""
        depth = 0
        while True:
            k, tx, _ = self.next()
            if k == "eof": self.err("unterminated generics")
            if tx == "<": depth += 1
            elif tx == ">":
                depth -= 1
            elif tx == ">>":
                depth -= 2
            if depth <= 0: return

    # ---- paths
    def path(self, in_expr):
        segs = []
        if self.accept("::"): pass
        while True:
            k, tx, _ = self.peek()
            if k != "ident": self.err("path segment expected")
            self.p += 1
            segs.append(tx)
            if self.at("::"):
                if self.at("<", 1):
                    self.p += 1; self.generic_args_skip()
                    if self.at("::"): self.p += 1; continue
                    break
                self.p += 1
                continue
            if not in_expr and self.at("<"):
                self.generic_args_skip()
                if self.accept("::"): continue
            break
        return segs

    # ---- patterns
    def pattern(self):
        alts = [self.pattern_single()]
        while self.at("|"):
            self.p += 1
            alts.append(self.pattern_single())
        return alts[0] if len(alts) == 1 else ("por", alts)

    def pattern_top(self):
        self.accept("|")
        return self.pattern()

    def pattern_single(self):
        k, tx, _ = self.peek()
        if tx == "_" and k == "ident":
            self.p += 1
            return ("wild",)
        if tx == ".." and k == "punct":
            self.p += 1
            return ("prest",)
        if tx == "&":
            self.p += 1
            self.accept("mut")
            return ("pref", self.pattern_single())
        if tx == "&&":
            self.p += 1
            return ("pref", ("pref", self.pattern_single()))
        if tx == "(":
            self.p += 1
            pats = []
            while not self.at(")"):
                pats.append(self.pattern())
                if not self.accept(","): break
            self.expect(")")
            if len(pats) == 1: return pats[0]
            return ("ptuple", pats)
        if k in ("int", "float", "str", "char", "byte") or (tx == "-" and self.peek(1)[0] in ("int", "float")) or tx in ("true", "false"):
            lo = self.literal_expr()
            if self.at("..=") or self.at("..."):
                self.p += 1
                hi = self.literal_expr()
                return ("prange", lo, hi, True)
            if self.at(".."):
                self.p += 1
                hi = self.literal_expr()
                return ("prange", lo, hi, False)
            return ("plit", lo)
        if k == "ident":
            by_ref = False; mutable = False
            if tx == "ref":
                self.p += 1; by_ref = True
                if self.at("mut"): self.p += 1; mutable = True
            elif tx == "mut":
                self.p += 1; mutable = True
            if by_ref or mutable:
                name = self.next()[1]
                sub = None
                if self.accept("@"): sub = self.pattern_single()
                return ("bind", name, by_ref, mutable, sub)
            segs = self.path(in_expr=True)
            if self.at("("):
                self.p += 1
                pats = []
                while not self.at(")"):
                    pats.append(self.pattern())
                    if not self.accept(","): break
                self.expect(")")
                return ("ptuplestruct", segs, pats)
            if self.at("{"):
                self.p += 1
                fields = []; rest = False
                while not self.at("}"):
                    if self.accept(".."):
                        rest = True
                        break
                    fname = self.next()[1]
                    if self.accept(":"):
                        fields.append((fname, self.pattern()))
                    else:
                        fields.append((fname, ("bind", fname, False, False, None)))
                    if not self.accept(","): break
                self.expect("}")
                return ("pstruct", segs, fields, rest)
            if len(segs) == 1 and (segs[0][0].islower() or segs[0][0] == "_"):
                sub = None
                if self.accept("@"): sub = self.pattern_single()
                return ("bind", segs[0], False, False, sub)
            return ("ppath", segs)
        self.err("pattern expected")

    def literal_expr(self):
        neg = self.accept("-")
        k, tx, _ = self.next()
        if k in ("int", "float", "str", "char", "byte"):
            e = ("lit", k, tx)
        elif tx in ("true", "false"):
            e = ("lit", "bool", tx)
        else:
            raise UnsupportedSyntax("literal expected, found %r" % tx)
        return ("unary", "-", e) if neg else e

    # ---- expressions
    def expr(self, no_struct=False):
        return self.assign_expr(no_struct)

    def assign_expr(self, no_struct):
        lhs = self.range_expr(no_struct)
        if self.peek()[0] == "punct" and self.peek()[1] in ASSIGN_OPS:
            op = self.next()[1]
            rhs = self.assign_expr(no_struct)
            return ("assign", op, lhs, rhs)
        return lhs

    def range_expr(self, no_struct):
        if self.at("..") or self.at("..="):
            inc = self.next()[1] == "..="
            hi = None
            if self.starts_expr(): hi = self.binary_expr(0, no_struct)
            return ("range", None, hi, inc)
        lo = self.binary_expr(0, no_struct)
        if self.at("..") or self.at("..="):
            inc = self.next()[1] == "..="
            hi = None
            if self.starts_expr(no_struct): hi = self.binary_expr(0, no_struct)
            return ("range", lo, hi, inc)
        return lo

    def starts_expr(self, no_struct=False):
        k, tx, _ = self.peek()
        if k in ("int", "float", "str", "char", "byte", "ident", "rawstr"): return not (tx in ("as",))
        if tx == "{": return not no_struct
        return tx in ("(", "[", "-", "!", "*", "&", "|", "||")

    def binary_expr(self, minprec, no_struct):
        lhs = self.unary_expr(no_struct)
        while True:
            k, tx, _ = self.peek()
            if k != "punct" or tx not in PREC: break
            prec = PREC[tx]
            if prec < minprec: break
            # generic-looking '<' after a path is not supported in expression position (turbofish only)
            self.p += 1
            rhs = self.binary_expr(prec + 1, no_struct)
            lhs = ("binary", tx, lhs, rhs)
        return lhs

    def unary_expr(self, no_struct):
        k, tx, _ = self.peek()
        if k == "punct" and tx in ("-", "!", "*"):
            self.p += 1
            return ("unary", tx, self.unary_expr(no_struct))
        if k == "punct" and tx == "&":
            self.p += 1
            if self.accept("mut"):
                return ("unary", "&mut", self.unary_expr(no_struct))
            return ("unary", "&", self.unary_expr(no_struct))
        if k == "punct" and tx == "&&":
            self.p += 1
            return ("unary", "&", ("unary", "&", self.unary_expr(no_struct)))
        e = self.postfix_expr(no_struct)
        while self.at("as"):
            self.p += 1
            ty = self.cast_type()
            e = ("cast", e, ty)
        return e

    def cast_type(self):
        out = []
        if self.at("&"): out.append(self.next()[1])
        if self.at("*"):
            out.append(self.next()[1]); out.append(self.next()[1])
        segs = self.path(in_expr=False)
        return "::".join(segs)

    def postfix_expr(self, no_struct):
        e = self.primary_expr(no_struct)
        while True:
            k, tx, _ = self.peek()
            if tx == "?" and k == "punct":
                self.p += 1
                e = ("try", e)
            elif tx == "." and k == "punct":
                nk, ntx, _ = self.peek(1)
                if nk == "ident":
                    self.p += 2
                    if ntx == "await": self.err("await")
                    fish = None
                    if self.at("::"):
                        self.p += 1
                        p0 = self.p
                        self.generic_args_skip()
                        fish = " ".join(t[1] for t in self.t[p0:self.p])
                    if self.at("("):
                        args = self.call_args()
                        e = ("mcall", e, ntx, args, fish) if fish else ("mcall", e, ntx, args)
                    else:
                        e = ("field", e, ntx)
                elif nk == "int":
                    self.p += 2
                    e = ("field", e, ntx)
                elif nk == "float":       # tuple.0.1
                    self.p += 2
                    a, b = ntx.split(".")
                    e = ("field", ("field", e, a), b)
                else:
                    self.err("field or method expected")
            elif tx == "(" and k == "punct":
                args = self.call_args()
                e = ("call", e, args)
            elif tx == "[" and k == "punct":
                self.p += 1
                idx = self.expr()
                self.expect("]")
                e = ("index", e, idx)
            else:
                break
        return e

    def call_args(self):
        self.expect("(")
        args = []
        while not self.at(")"):
            args.append(self.expr())
            if not self.accept(","): break
        self.expect(")")
        return args

    def block(self):
        self.expect("{")
        stmts = []; tail = None
        while not self.at("}"):
            if self.accept(";"): continue
            k, tx, _ = self.peek()
            if tx == "#" and k == "punct":      # attribute
                self.p += 1
                self.accept("!")
                self.skip_balanced("[", "]")
                continue
            if tx == "let" and k == "ident":
                self.p += 1
                pat = self.pattern_top()
                ty = None
                if self.accept(":"):
                    ty = self.type_text(["=", ";"])
                init = None; els = None
                if self.accept("="):
                    init = self.expr()
                    if self.at("else"):
                        self.p += 1
                        els = self.block()
                self.expect(";")
                stmts.append(("let", pat, ty, init, els))
                continue
            if tx in ("fn", "pub") and k == "ident" or (tx in ("unsafe", "async") and self.at("fn", 1)):
                stmts.append(("item", self.fn_item()))
                continue
            if tx == "const" and k == "ident":
                self.p += 1
                name = self.next()[1]
                self.expect(":")
                ty = self.type_text(["="])
                self.expect("=")
                e = self.expr()
                self.expect(";")
                stmts.append(("const", name, ty, e))
                continue
            if tx == "enum" and k == "ident":
                self.p += 1
                name = self.next()[1]
                if self.at("<"): self.err("generic nested enum")
                self.expect("{")
                variants = []
                while not self.at("}"):
                    if self.at("#"):
                        self.p += 1; self.skip_balanced("[", "]"); continue
                    vname = self.next()[1]
                    tys = []
                    if self.at("("):
                        self.p += 1
                        while not self.at(")"):
                            tys.append(self.type_text([","]))
                            if not self.accept(","): break
                        self.expect(")")
                    elif self.at("{"):
                        self.err("struct-like enum variant")
                    variants.append((vname, tys))
                    if not self.accept(","): break
                self.expect("}")
                stmts.append(("enum", name, variants))
                continue
            if tx in ("use", "struct", "impl", "type", "static", "mod", "trait") and k == "ident":
                self.err("nested item '%s' not supported" % tx)
            e = self.expr_stmt()
            if self.accept(";"):
                stmts.append(("expr", e, True))
            elif self.at("}"):
                tail = e
            else:
                if e[0] in ("if", "match", "block", "for", "while", "loop"):
                    stmts.append(("expr", e, False))
                else:
                    self.err("';' or '}' expected after expression")
        self.expect("}")
        return ("block", stmts, tail)

    def expr_stmt(self):
        # block-like expressions at statement start end the statement without ';' - but may continue with a method call
        k, tx, _ = self.peek()
        if k == "ident" and tx in ("if", "match", "for", "while", "loop") or tx == "{":
            e = self.primary_expr(False)
            if self.at(".") or self.at("?"):
                # e.g. match ... { }.foo() : continue as postfix
                self.p_save = None
                e = self.postfix_from(e)
                return self.finish_binary(e)
            return e
        return self.expr()

    def postfix_from(self, e):
        # re-enter postfix loop with an already parsed primary
        while True:
            k, tx, _ = self.peek()
            if tx == "?" and k == "punct":
                self.p += 1; e = ("try", e)
            elif tx == "." and k == "punct" and self.peek(1)[0] == "ident":
                name = self.peek(1)[1]; self.p += 2
                if self.at("::"):
                    self.p += 1; self.generic_args_skip()
                if self.at("("):
                    e = ("mcall", e, name, self.call_args())
                else:
                    e = ("field", e, name)
            else:
                return e

    def finish_binary(self, lhs):
        while True:
            k, tx, _ = self.peek()
            if k != "punct" or tx not in PREC: return lhs
            self.p += 1
            rhs = self.binary_expr(PREC[tx] + 1, False)
            lhs = ("binary", tx, lhs, rhs)

    def skip_balanced(self, open_, close):
        self.expect(open_)
        depth = 1
        out = []
        while depth > 0:
            k, tx, _ = self.next()
            if k == "eof": self.err("unbalanced")
            if tx == open_: depth += 1
            elif tx == close: depth -= 1
            if depth > 0: out.append(tx)
        return out

    def primary_expr(self, no_struct):
        k, tx, ln = self.peek()
        if k in ("int", "float", "str", "char", "byte", "rawstr"):
            self.p += 1
            return ("lit", "str" if k == "rawstr" else k, tx)
        if k == "ident":
            if tx in ("true", "false"):
                self.p += 1
                return ("lit", "bool", tx)
            if tx == "if": return self.if_expr()
            if tx == "match":
                self.p += 1
                scrut = self.expr(no_struct=True)
                self.expect("{")
                arms = []
                while not self.at("}"):
                    pat = self.pattern_top()
                    guard = None
                    if self.accept("if"): guard = self.expr(no_struct=True)
                    self.expect("=>")
                    body = self.expr_stmt() if self.at("{") else self.expr()
                    arms.append((pat, guard, body))
                    if not self.accept(","):
                        if self.at("}"): break
                        if body[0] == "block": continue
                        self.err("',' expected between match arms")
                self.expect("}")
                return ("match", scrut, arms)
            if tx == "return":
                self.p += 1
                if self.starts_expr(): return ("return", self.expr(no_struct))
                return ("return", None)
            if tx == "break":
                self.p += 1
                if self.peek()[0] == "lifetime": self.err("labelled break")
                if self.starts_expr() and not self.at("}"): self.err("break with value")
                return ("break",)
            if tx == "continue":
                self.p += 1
                return ("continue",)
            if tx == "for":
                self.p += 1
                pat = self.pattern_top()
                self.expect("in")
                it = self.expr(no_struct=True)
                body = self.block()
                return ("for", pat, it, body)
            if tx == "while":
                self.p += 1
                if self.at("let"):
                    self.p += 1
                    pat = self.pattern_top(); self.expect("=")
                    cond = ("let", pat, self.expr(no_struct=True))
                else:
                    cond = self.expr(no_struct=True)
                return ("while", cond, self.block())
            if tx == "loop":
                self.p += 1
                return ("loop", self.block())
            if tx == "move":
                self.p += 1
                return self.closure()
            if tx == "unsafe": self.err("unsafe block")
            segs = self.path(in_expr=True)
            if self.at("!") and not self.at("=", 1) and self.peek(1)[1] in ("(", "[", "{"):
                self.p += 1
                open_ = self.peek()[1]
                raw = self.skip_balanced(open_, {"(": ")", "[": "]", "{": "}"}[open_])
                return ("macro", "::".join(segs), raw)
            if self.at("{") and not no_struct and (segs[-1][0].isupper()):
                self.p += 1
                fields = []
                while not self.at("}"):
                    if self.at(".."): self.err("struct update syntax")
                    fname = self.next()[1]
                    if self.accept(":"):
                        fields.append((fname, self.expr()))
                    else:
                        fields.append((fname, ("path", [fname])))
                    if not self.accept(","): break
                self.expect("}")
                return ("struct", segs, fields)
            return ("path", segs)
        if tx == "(":
            self.p += 1
            es = []
            trailing = False
            while not self.at(")"):
                es.append(self.expr())
                trailing = False
                if not self.accept(","): break
                trailing = True
            self.expect(")")
            if len(es) == 1 and not trailing: return ("paren", es[0])
            return ("tuple", es)
        if tx == "[":
            self.p += 1
            es = []
            while not self.at("]"):
                es.append(self.expr())
                if self.at(";"): self.err("array repeat expression")
                if not self.accept(","): break
            self.expect("]")
            return ("array", es)
        if tx == "{":
            return self.block()
        if tx in ("|", "||"):
            return self.closure()
        self.err("expression expected")

    def closure(self):
        pats = []
        if self.accept("||"):
            pass
        else:
            self.expect("|")
            while not self.at("|"):
                pat = self.pattern_single()
                if self.accept(":"):
                    ty = self.type_text([",", "|"])
                    pat = ("typed", pat, ty)
                pats.append(pat)
                if not self.accept(","): break
            self.expect("|")
        if self.accept("->"):
            self.type_text(["{"])
            body = self.block()
        else:
            body = self.expr()
        return ("closure", pats, body)

    def if_expr(self):
        self.expect("if")
        if self.at("let"):
            self.p += 1
            pat = self.pattern_top()
            self.expect("=")
            cond = ("let", pat, self.expr(no_struct=True))
        else:
            cond = self.expr(no_struct=True)
        then = self.block()
        els = None
        if self.accept("else"):
            if self.at("if"): els = self.if_expr()
            else: els = self.block()
        return ("if", cond, then, els)

    # ---- items
    def fn_item(self):
        while self.at("pub") or self.at("async") or self.at("const") or self.at("unsafe") or self.at("extern"):
            tx = self.next()[1]
            if tx == "pub" and self.at("("): self.skip_balanced("(", ")")
            if tx in ("unsafe", "extern"): self.err("unsafe/extern fn")
        self.expect("fn")
        name = self.next()[1]
        if self.at("<"): self.generic_args_skip()
        self.expect("(")
        params = []
        while not self.at(")"):
            if self.at("&") and (self.at("self", 1) or (self.at("mut", 1) and self.at("self", 2)) or self.peek(1)[0] == "lifetime"):
                while not (self.at(",") or self.at(")")): self.p += 1
                params.append((("bind", "self", False, False, None), "Self"))
            elif self.at("self") or (self.at("mut") and self.at("self", 1)):
                while not (self.at(",") or self.at(")")): self.p += 1
                params.append((("bind", "self", False, False, None), "Self"))
            else:
                pat = self.pattern_single()
                self.expect(":")
                ty = self.type_text([","])
                params.append((pat, ty))
            if not self.accept(","): break
        self.expect(")")
        ret = None
        if self.accept("->"):
            ret = self.type_text(["{", "where", ";"])
            # 'where' is an ident, handle separately
        if self.at("where"):
            while not self.at("{"): self.p += 1
        body = self.block()
        return dict(name=name, params=params, ret=ret, body=body)


def find_functions(src):
    """every `fn` item in a source file outside `#[cfg(test)]` modules, parsed; functions that cannot be parsed map to the error text"""
    # cut test modules (brace matching on the token stream)
    toks = tokenize(src)
    out = {}
    i = 0
    n = len(toks)
    skip_until = -1
    depth_stack = []
    impls = []          # (start index, end index, type name) of every `impl` block
    for a in range(n):
        if toks[a][0] == "ident" and toks[a][1] == "impl" and (a == 0 or toks[a - 1][1] in ("}", ";", "]", "pub") or toks[a - 1][0] in ("lcomment",)):
            b = a + 1
            depth = 0
            header = []
            while b < n and not (toks[b][1] == "{" and depth == 0):
                if toks[b][1] == "<": depth += 1
                elif toks[b][1] == ">": depth -= 1
                elif toks[b][1] == ">>": depth -= 2
                elif depth == 0: header.append(toks[b])
                b += 1
            if b >= n: continue
            names = [t[1] for t in header if t[0] == "ident"]
            if "for" in names: names = names[names.index("for") + 1:]
            names = [x for x in names if x not in ("where",)]
            tyname = names[-1] if names else "?"
            if "where" in [t[1] for t in header]:
                hn = [t[1] for t in header if t[0] == "ident"]
                if "for" in hn: hn = hn[hn.index("for") + 1:]
                tyname = hn[0] if hn else tyname
            d = 1; e = b + 1
            while e < n and d > 0:
                if toks[e][1] == "{": d += 1
                elif toks[e][1] == "}": d -= 1
                e += 1
            impls.append((b, e, tyname))
    def impl_of(idx):
        best = None
        for a, e, ty in impls:
            if a < idx < e and (best is None or a > best[0]): best = (a, e, ty)
        return best[2] if best else None
    while i < n:
        k, tx, ln = toks[i]
        # #[cfg(test)] mod x { ... }
        if tx == "#" and i + 6 < n and [t[1] for t in toks[i:i + 7]] == ["#", "[", "cfg", "(", "test", ")", "]"]:
            j = i + 7
            while j < n and toks[j][1] != "{" and toks[j][1] != ";": j += 1
            if j < n and toks[j][1] == "{":
                d = 1; j += 1
                while j < n and d > 0:
                    if toks[j][1] == "{": d += 1
                    elif toks[j][1] == "}": d -= 1
                    j += 1
            i = j
            continue
        if k == "ident" and tx == "fn" and i + 1 < n and toks[i + 1][0] == "ident":
            name = toks[i + 1][1]
            # find the end of this function (matching braces) to be able to resume after a failure
            j = i
            while j < n and toks[j][1] not in ("{", ";"): j += 1
            if j < n and toks[j][1] == ";":
                i = j + 1
                continue
            d = 1; e = j + 1
            while e < n and d > 0:
                if toks[e][1] == "{": d += 1
                elif toks[e][1] == "}": d -= 1
                e += 1
            sub = toks[i:e] + [("eof", "", ln)]
            try:
                f = Parser(sub).fn_item()
                f["line"] = ln
                f["tokens"] = [t[1] for t in toks[i:e]]
                f["impl"] = impl_of(i)
                key = name
                if key in out:
                    key = "%s@%d" % (name, ln)
                out[key] = f
                if f["impl"]: out["%s::%s" % (f["impl"], name)] = f
            except UnsupportedSyntax as ex:
                out[name if name not in out else "%s@%d" % (name, ln)] = dict(name=name, error=str(ex), line=ln, tokens=[t[1] for t in toks[i:e]])
            except RecursionError:
                out[name] = dict(name=name, error="too deeply nested", line=ln, tokens=[])
            except Exception as ex:
                out[name if name not in out else "%s@%d" % (name, ln)] = dict(name=name, error="parser: %s" % str(ex)[:100], line=ln, tokens=[])
            i = e
            continue
        i += 1
    return out


if __name__ == "__main__":
    import sys, json
    for path in sys.argv[1:]:
        fs = find_functions(open(path, encoding="utf-8").read())
        for name, f in fs.items():
            print(path, name, "ERROR " + f["error"] if "error" in f else "ok (%d params)" % len(f["params"]))
