use std::io;
use std::io::Read;

use anyhow::{Context, Result};
use clap::{App, Arg};
use serde_json;
use serde_json::Value;

use jsonlogic_rs;

fn configure_args<'a, 'b>(app: App<'a, 'b>) -> App<'a, 'b> {
    app.version(env!("CARGO_PKG_VERSION"))
        .author("Matthew Planchard <msplanchard@gmail.com>")
        .about(
            "Parse JSON data with a JsonLogic rule.\n\
            \n\
            When no <data> or <data> is -, read from stdin.
            \n\
            The result is written to stdout as JSON, so multiple calls \n\
            can be chained together if desired.",
        )
        .arg(
            Arg::with_name("logic")
                .help("A JSON logic string")
                .required(true)
                .takes_value(true),
        )
        .arg(
            Arg::with_name("data")
                .help("A string of JSON data to parse. May be provided as stdin.")
                .required(false)
                .takes_value(true),
        )
        .after_help(
            r#"EXAMPLES:
    jsonlogic '{"===": [{"var": "a"}, "foo"]}' '{"a": "foo"}'
    jsonlogic '{"===": [1, 1]}' null
    echo '{"a": "foo"}' | jsonlogic '{"===": [{"var": "a"}, "foo"]}'

Inspired by and conformant with the original JsonLogic (jsonlogic.com).

Report bugs to github.com/Bestowinc/json-logic-rs."#,
        )
}

fn main() -> Result<()> {
    let app = configure_args(App::new("jsonlogic"));
    let matches = app.get_matches();

    let logic = matches.value_of("logic").expect("logic arg expected");
    let json_logic: Value =
        serde_json::from_str(logic).context("Could not parse logic as JSON")?;

    // let mut data: String;
    let data_arg = matches.value_of("data").unwrap_or("-");

    let mut data: String;
    if data_arg != "-" {
        data = data_arg.to_string();
    } else {
        data = String::new();
        io::stdin().lock().read_to_string(&mut data)?;
    }
    let json_data: Value =
        serde_json::from_str(&data).context("Could not parse data as JSON")?;

    let result = jsonlogic_rs::apply(&json_logic, &json_data)
        .context("Could not execute logic")?;

    println!("{}", result.to_string());

    Ok(())
}
