use serde_json;
use serde_json::Value;

mod error;
// TODO consider whether this should be public; move doctests if so
pub mod js_op;
mod op;
mod value;

use error::Error;
use value::{Evaluated, Parsed};

const NULL: Value = Value::Null;

trait Parser<'a>: Sized + Into<Value> {
    fn from_value(value: &'a Value) -> Result<Option<Self>, Error>;
    fn evaluate(&self, data: &'a Value) -> Result<Evaluated, Error>;
}

#[cfg(feature = "wasm")]
pub mod javascript_iface {
    use serde_json::Value;
    use wasm_bindgen::prelude::*;

    fn to_serde_value(js_value: JsValue) -> Result<Value, JsValue> {
        // If we're passed a string, try to parse it as JSON. If we fail,
        // we will just return a Value::String, since that's a valid thing
        // to pass in to JSONLogic.
        // js_value
        if js_value.is_string() {
            let js_string = js_value.as_string().expect(
                "Could not convert value to string, even though it was checked to be a string."
            );
            serde_json::from_str(&js_string).or(Ok(Value::String(js_string)))
        } else {
            // If we're passed anything else, convert it directly to a serde Value.
            js_value
                .into_serde::<Value>()
                .map_err(|err| format!("{}", err))
                .map_err(JsValue::from)
        }
    }

    #[wasm_bindgen]
    pub fn apply(value: JsValue, data: JsValue) -> Result<JsValue, JsValue> {
        let value_json = to_serde_value(value)?;
        let data_json = to_serde_value(data)?;

        let res = crate::apply(&value_json, &data_json)
            .map_err(|err| format!("{}", err))
            .map_err(JsValue::from)?;

        JsValue::from_serde(&res)
            .map_err(|err| format!("{}", err))
            .map_err(JsValue::from)
    }
}

#[cfg(feature = "python")]
pub mod python_iface {
    use cpython::exc::ValueError;
    use cpython::{py_fn, py_module_initializer, PyErr, PyResult, Python};

    py_module_initializer!(jsonlogic, initjsonlogic, PyInit_jsonlogic, |py, m| {
        m.add(py, "__doc__", "Python bindings for json-logic-rs")?;
        m.add(py, "apply", py_fn!(py, py_apply(value: &str, data: &str)))?;
        Ok(())
    });

    fn apply(value: &str, data: &str) -> Result<String, String> {
        let value_json =
            serde_json::from_str(value).map_err(|err| format!("{}", err))?;
        let data_json = serde_json::from_str(data).map_err(|err| format!("{}", err))?;

        crate::apply(&value_json, &data_json)
            .map_err(|err| format!("{}", err))
            .map(|res| res.to_string())
    }

    fn py_apply(py: Python, value: &str, data: &str) -> PyResult<String> {
        apply(value, data).map_err(|err| PyErr::new::<ValueError, _>(py, err))
    }
}

/// Run JSONLogic for the given operation and data.
///
pub fn apply(value: &Value, data: &Value) -> Result<Value, Error> {
    let parsed = Parsed::from_value(&value)?;
    parsed.evaluate(data).map(Value::from)
}

#[cfg(test)]
mod jsonlogic_tests {
    use super::*;
    use serde_json::json;

    fn no_op_cases() -> Vec<(Value, Value, Result<Value, ()>)> {
        vec![
            // Passing a static value returns the value unchanged.
            (json!("foo"), json!({}), Ok(json!("foo"))),
            (json!(""), json!({}), Ok(json!(""))),
            (json!([1, 2]), json!({}), Ok(json!([1, 2]))),
            (json!([]), json!({}), Ok(json!([]))),
            (json!(null), json!({}), Ok(json!(null))),
            (json!(0), json!({}), Ok(json!(0))),
            (json!(234), json!({}), Ok(json!(234))),
            (json!({}), json!({}), Ok(json!({}))),
            // Note: as of this writing, this behavior differs from the
            // original jsonlogic implementation, which errors for objects of
            // length one, due to attempting to parse their key as an operation
            (json!({"a": 1}), json!({}), Ok(json!({"a": 1}))),
            (
                json!({"a": 1, "b": 2}),
                json!({}),
                Ok(json!({"a": 1, "b": 2})),
            ),
        ]
    }

    fn abstract_eq_cases() -> Vec<(Value, Value, Result<Value, ()>)> {
        vec![
            (json!({"==": [1, 1]}), json!({}), Ok(json!(true))),
            (json!({"==": [1, 2]}), json!({}), Ok(json!(false))),
            (json!({"==": [1, "1"]}), json!({}), Ok(json!(true))),
            (
                json!({"==": [{}, "[object Object]"]}),
                json!({}),
                Ok(json!(true)),
            ),
            (json!({"==": [1, [1]]}), json!({}), Ok(json!(true))),
            (json!({"==": [1, true]}), json!({}), Ok(json!(true))),
            // Recursive evaluation
            (
                json!({"==": [true, {"==": [1, 1]}]}),
                json!({}),
                Ok(json!(true)),
            ),
            (
                json!({"==": [{"==": [{"==": [1, 1]}, true]}, {"==": [1, 1]}]}),
                json!({}),
                Ok(json!(true)),
            ),
            // Wrong number of arguments
            (json!({"==": [1]}), json!({}), Err(())),
            (json!({"==": [1, 1, 1]}), json!({}), Err(())),
        ]
    }

    fn abstract_ne_cases() -> Vec<(Value, Value, Result<Value, ()>)> {
        vec![
            (json!({"!=": [1, 1]}), json!({}), Ok(json!(false))),
            (json!({"!=": [1, 2]}), json!({}), Ok(json!(true))),
            (json!({"!=": [1, "1"]}), json!({}), Ok(json!(false))),
            (
                json!({"!=": [{}, "[object Object]"]}),
                json!({}),
                Ok(json!(false)),
            ),
            (
                json!({"!=": [{"!=": [1, 2]}, 1]}),
                json!({}),
                Ok(json!(false)),
            ),
            // Wrong number of arguments
            (json!({"!=": [1]}), json!({}), Err(())),
            (json!({"!=": [1, 1, 1]}), json!({}), Err(())),
        ]
    }

    fn strict_eq_cases() -> Vec<(Value, Value, Result<Value, ()>)> {
        vec![
            (json!({"===": [1, 1]}), json!({}), Ok(json!(true))),
            (json!({"===": [1, 2]}), json!({}), Ok(json!(false))),
            (json!({"===": [1, "1"]}), json!({}), Ok(json!(false))),
            (
                json!({"===": [{}, "[object Object]"]}),
                json!({}),
                Ok(json!(false)),
            ),
            (json!({"===": [1, [1]]}), json!({}), Ok(json!(false))),
            (json!({"===": [1, true]}), json!({}), Ok(json!(false))),
            // Recursive evaluation
            (
                json!({"===": [true, {"===": [1, 1]}]}),
                json!({}),
                Ok(json!(true)),
            ),
            (
                json!({"===": [{"===": [{"===": [1, 1]}, true]}, {"===": [1, 1]}]}),
                json!({}),
                Ok(json!(true)),
            ),
            // Wrong number of arguments
            (json!({"===": [1]}), json!({}), Err(())),
            (json!({"===": [1, 1, 1]}), json!({}), Err(())),
        ]
    }

    fn strict_ne_cases() -> Vec<(Value, Value, Result<Value, ()>)> {
        vec![
            (json!({"!==": [1, 1]}), json!({}), Ok(json!(false))),
            (json!({"!==": [1, 2]}), json!({}), Ok(json!(true))),
            (json!({"!==": [1, "1"]}), json!({}), Ok(json!(true))),
            (
                json!({"!==": [{}, "[object Object]"]}),
                json!({}),
                Ok(json!(true)),
            ),
            (json!({"!==": [1, [1]]}), json!({}), Ok(json!(true))),
            (json!({"!==": [1, true]}), json!({}), Ok(json!(true))),
            // Recursive evaluation
            (
                json!({"!==": [true, {"!==": [1, 1]}]}),
                json!({}),
                Ok(json!(true)),
            ),
            (
                json!({"!==": [{"!==": [{"!==": [1, 1]}, false]}, {"!==": [1, 1]}]}),
                json!({}),
                Ok(json!(false)),
            ),
            // Wrong number of arguments
            (json!({"!==": [1]}), json!({}), Err(())),
            (json!({"!==": [1, 1, 1]}), json!({}), Err(())),
        ]
    }

    fn var_cases() -> Vec<(Value, Value, Result<Value, ()>)> {
        vec![
            // Variable substitution
            (
                json!({"var": "foo"}),
                json!({"foo": "bar"}),
                Ok(json!("bar")),
            ),
            // Index into array data
            (json!({"var": 1}), json!(["foo", "bar"]), Ok(json!("bar"))),
            // Absent variable
            (json!({"var": "foo"}), json!({}), Ok(json!(null))),
            (
                json!({"==": [{"var": "first"}, true]}),
                json!({"first": true}),
                Ok(json!(true)),
            ),
            // Dotted variable substitution
            (
                json!({"var": "foo.bar"}),
                json!({"foo": {"bar": "baz"}}),
                Ok(json!("baz")),
            ),
            // Dotted variable with nested array access
            (
                json!({"var": "foo.1"}),
                json!({"foo": ["bar", "baz", "pop"]}),
                Ok(json!("baz")),
            ),
            // Absent dotted variable
            (
                json!({"var": "foo.bar"}),
                json!({"foo": {"baz": "baz"}}),
                Ok(json!(null)),
            ),
            // Non-object type in dotted variable path
            (
                json!({"var": "foo.bar.baz"}),
                json!({"foo": {"bar": 1}}),
                Ok(json!(null)),
            ),
            (
                json!({"var": "foo.bar"}),
                json!({"foo": "not an object"}),
                Ok(json!(null)),
            ),
        ]
    }

    fn missing_cases() -> Vec<(Value, Value, Result<Value, ()>)> {
        vec![
            // "missing" data operator
            (
                json!({"missing": ["a", "b"]}),
                json!({"a": 1, "b": 2}),
                Ok(json!([])),
            ),
            (
                json!({"missing": ["a", "b"]}),
                json!({"a": 1}),
                Ok(json!(["b"])),
            ),
            (json!({"missing": [1, 5]}), json!([1, 2, 3]), Ok(json!([5]))),
        ]
    }

    fn missing_some_cases() -> Vec<(Value, Value, Result<Value, ()>)> {
        vec![
            // "missing_some" data operator
            (
                json!({"missing_some": [1, ["a", "b"]]}),
                json!({"a": 1, "b": 2}),
                Ok(json!([])),
            ),
            (
                json!({"missing_some": [1, ["a", "b", "c"]]}),
                json!({"a": 1, "b": 2}),
                Ok(json!([])),
            ),
            (
                json!({"missing_some": [2, ["a", "b", "c"]]}),
                json!({"a": 1}),
                Ok(json!(["b", "c"])),
            ),
        ]
    }

    fn if_cases() -> Vec<(Value, Value, Result<Value, ()>)> {
        vec![
            (
                json!({"if": [true, "true", "false"]}),
                json!({}),
                Ok(json!("true")),
            ),
            (
                json!({"if": [false, "true", "false"]}),
                json!({}),
                Ok(json!("false")),
            ),
            (
                json!({"if": [false, "true", true, "true2"]}),
                json!({}),
                Ok(json!("true2")),
            ),
            (
                json!({"if": [false, "true", false, "true2", "false2"]}),
                json!({}),
                Ok(json!("false2")),
            ),
            (
                json!({"if": [{"===": [1, 1]}, "true", "false"]}),
                json!({}),
                Ok(json!("true")),
            ),
            (
                json!({"if": [{"===": [1, 2]}, "true", "false"]}),
                json!({}),
                Ok(json!("false")),
            ),
            (
                json!({"if": [{"===": [1, 2]}, "true", {"===": [1, 1]}, "true2"]}),
                json!({}),
                Ok(json!("true2")),
            ),
            (
                json!({"if": [{"===": [1, 2]}, "true", {"===": [1, 2]}, "true2", "false2"]}),
                json!({}),
                Ok(json!("false2")),
            ),
        ]
    }

    fn or_cases() -> Vec<(Value, Value, Result<Value, ()>)> {
        vec![
            (json!({"or": [true]}), json!({}), Ok(json!(true))),
            (json!({"or": [false]}), json!({}), Ok(json!(false))),
            (json!({"or": [false, true]}), json!({}), Ok(json!(true))),
            (
                json!({"or": [false, true, false]}),
                json!({}),
                Ok(json!(true)),
            ),
            (json!({"or": [false, false, 12]}), json!({}), Ok(json!(12))),
            (
                json!({"or": [false, false, 12, 13, 14]}),
                json!({}),
                Ok(json!(12)),
            ),
            (
                json!({"or": [false, false, 0, 12]}),
                json!({}),
                Ok(json!(12)),
            ),
            (
                json!({"or": [false, {"===": [1, 1]}]}),
                json!({}),
                Ok(json!(true)),
            ),
            (
                json!({"or": [false, {"===": [{"var": "foo"}, 1]}]}),
                json!({"foo": 1}),
                Ok(json!(true)),
            ),
            (
                json!({"or": [false, {"===": [{"var": "foo"}, 1]}]}),
                json!({"foo": 2}),
                Ok(json!(false)),
            ),
        ]
    }

    fn and_cases() -> Vec<(Value, Value, Result<Value, ()>)> {
        vec![
            (json!({"and": [true]}), json!({}), Ok(json!(true))),
            (json!({"and": [false]}), json!({}), Ok(json!(false))),
            (json!({"and": [false, true]}), json!({}), Ok(json!(false))),
            (json!({"and": [true, false]}), json!({}), Ok(json!(false))),
            (json!({"and": [true, true]}), json!({}), Ok(json!(true))),
            (
                json!({"and": [false, true, false]}),
                json!({}),
                Ok(json!(false)),
            ),
            (json!({"and": [12, true, 0]}), json!({}), Ok(json!(0))),
            (
                json!({"and": [12, true, 0, 12, false]}),
                json!({}),
                Ok(json!(0)),
            ),
            (json!({"and": [true, true, 12]}), json!({}), Ok(json!(12))),
            (
                json!({"and": [{"===": [1, 1]}, false]}),
                json!({}),
                Ok(json!(false)),
            ),
            (
                json!({"and": [{"===": [{"var": "foo"}, 1]}, true]}),
                json!({"foo": 1}),
                Ok(json!(true)),
            ),
            (
                json!({"and": [{"===": [{"var": "foo"}, 1]}, true]}),
                json!({"foo": 2}),
                Ok(json!(false)),
            ),
        ]
    }

    fn map_cases() -> Vec<(Value, Value, Result<Value, ()>)> {
        vec![
            (
                json!({"map": [[1, 2, 3], {"*": [{"var": ""}, 2]}]}),
                json!(null),
                Ok(json!([2, 4, 6])),
            ),
            (
                json!({"map": [[], {"*": [{"var": ""}, 2]}]}),
                json!(null),
                Ok(json!([])),
            ),
            (
                json!({"map": [{"var": "vals"}, {"*": [{"var": ""}, 2]}]}),
                json!({"vals": [1, 2, 3]}),
                Ok(json!([2, 4, 6])),
            ),
            (
                json!({"map": [{"var": ""}, {"*": [{"var": ""}, 2]}]}),
                json!([1, 2, 3]),
                Ok(json!([2, 4, 6])),
            ),
            (
                json!({"map": [[true, 2, 0, [], {}], {"!!": [{"var": ""}]}]}),
                json!(null),
                Ok(json!([true, true, false, false, true])),
            ),
        ]
    }

    fn filter_cases() -> Vec<(Value, Value, Result<Value, ()>)> {
        vec![
            (
                json!({"filter": [[1, 2, 3], {"%": [{"var": ""}, 2]}]}),
                json!(null),
                Ok(json!([1, 3])),
            ),
            (
                json!({"filter": [[], {"%": [{"var": ""}, 2]}]}),
                json!(null),
                Ok(json!([])),
            ),
            (
                json!({"filter": [[2, 4, 6], {"%": [{"var": ""}, 2]}]}),
                json!(null),
                Ok(json!([])),
            ),
            (
                json!({"filter": [{"var": "vals"}, {"%": [{"var": ""}, 2]}]}),
                json!({"vals": [1, 2, 3]}),
                Ok(json!([1, 3])),
            ),
            (
                json!({"filter": [["aa", "bb", "aa"], {"===": [{"var": ""}, "aa"]}]}),
                json!(null),
                Ok(json!(["aa", "aa"])),
            ),
            (
                json!(
                    {
                        "filter": [
                            [1, 2, 3],
                            {"<": [
                                {"-": [{"var": ""}, 3]},
                                0
                            ]}
                        ]
                    }
                ),
                json!(null),
                Ok(json!([1, 2])),
            ),
        ]
    }

    fn reduce_cases() -> Vec<(Value, Value, Result<Value, ()>)> {
        vec![
            (
                json!(
                    {"reduce":[
                        [1, 2, 3, 4, 5],
                        {"+": [{"var":"current"}, {"var":"accumulator"}]},
                        0
                    ]}
                ),
                json!(null),
                Ok(json!(15)),
            ),
            (
                json!(
                    {"reduce":[
                        {"var": "vals"},
                        {"+": [{"var":"current"}, {"var":"accumulator"}]},
                        0
                    ]}
                ),
                json!({"vals": [1, 2, 3, 4, 5]}),
                Ok(json!(15)),
            ),
            (
                json!(
                    {"reduce":[
                        {"var": "vals"},
                        {"+": [{"var":"current"}, {"var":"accumulator"}]},
                        {"var": "init"}
                    ]}
                ),
                json!({"vals": [1, 2, 3, 4, 5], "init": 0}),
                Ok(json!(15)),
            ),
            (
                json!(
                    {"reduce":[
                        {"var": "vals"},
                        {"and":
                            [{"var": "accumulator"},
                             {"!!": [{"var": "current"}]}]
                        },
                        true,
                    ]}
                ),
                json!({"vals": [1, true, 10, "foo", 1, 1]}),
                Ok(json!(true)),
            ),
            (
                json!(
                    {"reduce":[
                        {"var": "vals"},
                        {"and":
                            [{"var": "accumulator"},
                             {"!!": [{"var": "current"}]}]
                        },
                        true,
                    ]}
                ),
                json!({"vals": [1, true, 10, "foo", 0, 1]}),
                Ok(json!(false)),
            ),
        ]
    }

    fn all_cases() -> Vec<(Value, Value, Result<Value, ()>)> {
        vec![
            // Invalid first arguments
            (json!({"all": [1, 1]}), json!({}), Err(())),
            (json!({"all": [{}, 1]}), json!({}), Err(())),
            (json!({"all": [false, 1]}), json!({}), Err(())),
            // Empty array/string/null
            (json!({"all": [[], 1]}), json!({}), Ok(json!(false))),
            (json!({"all": ["", 1]}), json!({}), Ok(json!(false))),
            (json!({"all": [null, 1]}), json!({}), Ok(json!(false))),
            // Constant predicate
            (json!({"all": [[1, 2], 1]}), json!({}), Ok(json!(true))),
            (json!({"all": [[1, 2], 0]}), json!({}), Ok(json!(false))),
            // Simple predicate
            (
                json!({"all": [[1, 2], {">": [{"var": ""}, 0]}]}),
                json!({}),
                Ok(json!(true)),
            ),
            (
                json!({"all": [[1, 2, -1], {">": [{"var": ""}, 0]}]}),
                json!({}),
                Ok(json!(false)),
            ),
            (
                json!({"all": ["aaaa", {"===": [{"var": ""}, "a"]}]}),
                json!({}),
                Ok(json!(true)),
            ),
            (
                json!({"all": ["aabaa", {"===": [{"var": ""}, "a"]}]}),
                json!({}),
                Ok(json!(false)),
            ),
            // First argument requires evaluation
            (
                json!({"all": [ {"var": "a"}, {"===": [{"var": ""}, "a"]} ]}),
                json!({"a": "a"}),
                Ok(json!(true)),
            ),
            // Expression in array
            (
                json!({"all": [[1, {"+": [1, 1]}], {">": [{"var": ""}, 0]}]}),
                json!({}),
                Ok(json!(true)),
            ),
            (
                json!({"all": [[1, {"+": [-2, 1]}], {">": [{"var": ""}, 0]}]}),
                json!({}),
                Ok(json!(false)),
            ),
            // Validate short-circuit
            (
                // The equality expression is invalid and would return an
                // Err if parsed, b/c it has an invalid number of arguments.
                // Since the value before it invalidates the predicate, though,
                // we should never attempt to evaluate it.
                json!({"all": [[1, -1, {"==": []}], {">": [{"var": ""}, 0]}]}),
                json!({}),
                Ok(json!(false)),
            ),
            (
                // Same as above, but put the error before the invalidating
                // value just to make sure our hypothesis is correct re:
                // getting an error
                json!({"all": [[1, {"==": []}, -1], {">": [{"var": ""}, 0]}]}),
                json!({}),
                Err(()),
            ),
            // Parse data in array
            (
                json!({"all": [[1, {"var": "foo"}], {">": [{"var": ""}, 0]}]}),
                json!({"foo": 1}),
                Ok(json!(true)),
            ),
            (
                json!({"all": [[1, {"var": "foo"}], {">": [{"var": ""}, 0]}]}),
                json!({"foo": -5}),
                Ok(json!(false)),
            ),
            (
                json!({"all": [[1, {"var": "foo"}], {">": [{"var": ""}, 0]}]}),
                json!({"foo": -5}),
                Ok(json!(false)),
            ),
        ]
    }

    fn some_cases() -> Vec<(Value, Value, Result<Value, ()>)> {
        vec![
            // Invalid first arguments
            (json!({"some": [1, 1]}), json!({}), Err(())),
            (json!({"some": [{}, 1]}), json!({}), Err(())),
            (json!({"some": [false, 1]}), json!({}), Err(())),
            // Empty array/string
            (json!({"some": [[], 1]}), json!({}), Ok(json!(false))),
            (json!({"some": ["", 1]}), json!({}), Ok(json!(false))),
            (json!({"some": [null, 1]}), json!({}), Ok(json!(false))),
            // Constant predicate
            (json!({"some": [[1, 2], 1]}), json!({}), Ok(json!(true))),
            (json!({"some": [[1, 2], 0]}), json!({}), Ok(json!(false))),
            // Simple predicate
            (
                json!({"some": [[-5, 2], {">": [{"var": ""}, 0]}]}),
                json!({}),
                Ok(json!(true)),
            ),
            (
                json!({"some": [[-3, 1, 2, -1], {">": [{"var": ""}, 0]}]}),
                json!({}),
                Ok(json!(true)),
            ),
            (
                json!({"some": ["aaaa", {"===": [{"var": ""}, "a"]}]}),
                json!({}),
                Ok(json!(true)),
            ),
            (
                json!({"some": ["aabaa", {"===": [{"var": ""}, "a"]}]}),
                json!({}),
                Ok(json!(true)),
            ),
            (
                json!({"some": ["cdefg", {"===": [{"var": ""}, "a"]}]}),
                json!({}),
                Ok(json!(false)),
            ),
            // Expression in array
            (
                json!({"some": [[-6, {"+": [1, 1]}], {">": [{"var": ""}, 0]}]}),
                json!({}),
                Ok(json!(true)),
            ),
            (
                json!({"some": [[-5, {"+": [-2, 1]}], {">": [{"var": ""}, 0]}]}),
                json!({}),
                Ok(json!(false)),
            ),
            // Validate short-circuit
            (
                // The equality expression is invalid and would return an
                // Err if parsed, b/c it has an invalid number of arguments.
                // Since the value before it validates the predicate, though,
                // we should never attempt to evaluate it.
                json!({"some": [[1, {"==": []}], {">": [{"var": ""}, 0]}]}),
                json!({}),
                Ok(json!(true)),
            ),
            (
                // Same as above, but put the error before the invalidating
                // value just to make sure our hypothesis is correct re:
                // getting an error
                json!({"some": [[-51, {"==": []}, -1], {">": [{"var": ""}, 0]}]}),
                json!({}),
                Err(()),
            ),
            // Parse data in array
            (
                json!({"some": [[-4, {"var": "foo"}], {">": [{"var": ""}, 0]}]}),
                json!({"foo": 1}),
                Ok(json!(true)),
            ),
            (
                json!({"some": [[-4, {"var": "foo"}], {">": [{"var": ""}, 0]}]}),
                json!({"foo": -5}),
                Ok(json!(false)),
            ),
        ]
    }

    fn none_cases() -> Vec<(Value, Value, Result<Value, ()>)> {
        vec![
            // Invalid first arguments
            (json!({"none": [1, 1]}), json!({}), Err(())),
            (json!({"none": [{}, 1]}), json!({}), Err(())),
            (json!({"none": [false, 1]}), json!({}), Err(())),
            // Empty array/string
            (json!({"none": [[], 1]}), json!({}), Ok(json!(true))),
            (json!({"none": ["", 1]}), json!({}), Ok(json!(true))),
            (json!({"none": [null, 1]}), json!({}), Ok(json!(true))),
            // Constant predicate
            (json!({"none": [[1, 2], 1]}), json!({}), Ok(json!(false))),
            (json!({"none": [[1, 2], 0]}), json!({}), Ok(json!(true))),
            // Simple predicate
            (
                json!({"none": [[-5, 2], {">": [{"var": ""}, 0]}]}),
                json!({}),
                Ok(json!(false)),
            ),
            (
                json!({"none": [[-3, 1, 2, -1], {">": [{"var": ""}, 0]}]}),
                json!({}),
                Ok(json!(false)),
            ),
            (
                json!({"none": ["aaaa", {"===": [{"var": ""}, "a"]}]}),
                json!({}),
                Ok(json!(false)),
            ),
            (
                json!({"none": ["aabaa", {"===": [{"var": ""}, "a"]}]}),
                json!({}),
                Ok(json!(false)),
            ),
            (
                json!({"none": ["cdefg", {"===": [{"var": ""}, "a"]}]}),
                json!({}),
                Ok(json!(true)),
            ),
            // Expression in array
            (
                json!({"none": [[-6, {"+": [1, 1]}], {">": [{"var": ""}, 0]}]}),
                json!({}),
                Ok(json!(false)),
            ),
            (
                json!({"none": [[-5, {"+": [-2, 1]}], {">": [{"var": ""}, 0]}]}),
                json!({}),
                Ok(json!(true)),
            ),
            // Validate short-circuit
            (
                // The equality expression is invalid and would return an
                // Err if parsed, b/c it has an invalid number of arguments.
                // Since the value before it validates the predicate, though,
                // we should never attempt to evaluate it.
                json!({"none": [[1, {"==": []}], {">": [{"var": ""}, 0]}]}),
                json!({}),
                Ok(json!(false)),
            ),
            (
                // Same as above, but put the error before the invalidating
                // value just to make sure our hypothesis is correct re:
                // getting an error
                json!({"none": [[-51, {"==": []}, -1], {">": [{"var": ""}, 0]}]}),
                json!({}),
                Err(()),
            ),
            // Parse data in array
            (
                json!({"none": [[-4, {"var": "foo"}], {">": [{"var": ""}, 0]}]}),
                json!({"foo": 1}),
                Ok(json!(false)),
            ),
            (
                json!({"none": [[-4, {"var": "foo"}], {">": [{"var": ""}, 0]}]}),
                json!({"foo": -5}),
                Ok(json!(true)),
            ),
        ]
    }

    fn merge_cases() -> Vec<(Value, Value, Result<Value, ()>)> {
        vec![
            (json!({"merge": []}), json!({}), Ok(json!([]))),
            (json!({"merge": [1]}), json!({}), Ok(json!([1]))),
            (json!({"merge": [1, 2]}), json!({}), Ok(json!([1, 2]))),
            (
                json!({"merge": [[1, 2], 2]}),
                json!({}),
                Ok(json!([1, 2, 2])),
            ),
            (json!({"merge": [[1], [2]]}), json!({}), Ok(json!([1, 2]))),
            (json!({"merge": [1, [2]]}), json!({}), Ok(json!([1, 2]))),
            (
                json!({"merge": [1, [2, [3, 4]]]}),
                json!({}),
                Ok(json!([1, 2, [3, 4]])),
            ),
            (
                json!({"merge": [{"var": "foo"}, [2]]}),
                json!({"foo": 1}),
                Ok(json!([1, 2])),
            ),
            (json!({"merge": [[], [2]]}), json!(null), Ok(json!([2]))),
            (
                json!({"merge": [[[]], [2]]}),
                json!(null),
                Ok(json!([[], 2])),
            ),
            (json!({"merge": [{}, [2]]}), json!(null), Ok(json!([{}, 2]))),
            (
                json!({"merge": [{}, [2], 3, false]}),
                json!(null),
                Ok(json!([{}, 2, 3, false])),
            ),
        ]
    }

    fn cat_cases() -> Vec<(Value, Value, Result<Value, ()>)> {
        vec![
            (json!({"cat": []}), json!({}), Ok(json!(""))),
            (json!({"cat": [1]}), json!({}), Ok(json!("1"))),
            (json!({"cat": ["a"]}), json!({}), Ok(json!("a"))),
            (json!({"cat": ["a", "b"]}), json!({}), Ok(json!("ab"))),
            (json!({"cat": ["a", "b", "c"]}), json!({}), Ok(json!("abc"))),
            (json!({"cat": ["a", "b", 1]}), json!({}), Ok(json!("ab1"))),
        ]
    }

    fn substr_cases() -> Vec<(Value, Value, Result<Value, ()>)> {
        vec![
            // Wrong number of arguments
            (json!({"substr": []}), json!({}), Err(())),
            (json!({"substr": ["foo"]}), json!({}), Err(())),
            (json!({"substr": ["foo", 1, 2, 3]}), json!({}), Err(())),
            // Wrong argument types
            (json!({"substr": [12, 1]}), json!({}), Err(())),
            (json!({"substr": ["foo", "12"]}), json!({}), Err(())),
            // Non-negative indices
            (json!({"substr": ["foo", 0]}), json!({}), Ok(json!("foo"))),
            (json!({"substr": ["foo", 1]}), json!({}), Ok(json!("oo"))),
            (json!({"substr": ["foo", 2]}), json!({}), Ok(json!("o"))),
            // Negative indices
            (json!({"substr": ["foo", -1]}), json!({}), Ok(json!("o"))),
            (json!({"substr": ["foo", -2]}), json!({}), Ok(json!("oo"))),
            (json!({"substr": ["foo", -3]}), json!({}), Ok(json!("foo"))),
            // Out-of-bounds indices
            (json!({"substr": ["foo", 3]}), json!({}), Ok(json!(""))),
            (json!({"substr": ["foo", 20]}), json!({}), Ok(json!(""))),
            (json!({"substr": ["foo", -4]}), json!({}), Ok(json!("foo"))),
            // Non-negative Limits
            (json!({"substr": ["foo", 0, 1]}), json!({}), Ok(json!("f"))),
            (
                json!({"substr": ["foo", 0, 3]}),
                json!({}),
                Ok(json!("foo")),
            ),
            (json!({"substr": ["foo", 0, 0]}), json!({}), Ok(json!(""))),
            (json!({"substr": ["foo", 1, 1]}), json!({}), Ok(json!("o"))),
            // Negative Limits
            (
                json!({"substr": ["foo", 0, -1]}),
                json!({}),
                Ok(json!("fo")),
            ),
            (json!({"substr": ["foo", 0, -2]}), json!({}), Ok(json!("f"))),
            (json!({"substr": ["foo", 0, -3]}), json!({}), Ok(json!(""))),
            // Out-of-bounds limits
            (
                json!({"substr": ["foo", 0, 10]}),
                json!({}),
                Ok(json!("foo")),
            ),
            (json!({"substr": ["foo", 0, -10]}), json!({}), Ok(json!(""))),
            // Negative indices with negative limits
            (
                json!({"substr": ["foo", -3, -2]}),
                json!({}),
                Ok(json!("f")),
            ),
            // Negative indices with positive limits
            (
                json!({"substr": ["foo", -3, 2]}),
                json!({}),
                Ok(json!("fo")),
            ),
            // Out-of-bounds indices with out-of-bounds limits
            (json!({"substr": ["foo", 10, 10]}), json!({}), Ok(json!(""))),
            (
                json!({"substr": ["foo", 10, -10]}),
                json!({}),
                Ok(json!("")),
            ),
            (
                json!({"substr": ["foo", -10, 10]}),
                json!({}),
                Ok(json!("foo")),
            ),
            (
                json!({"substr": ["foo", -10, -10]}),
                json!({}),
                Ok(json!("")),
            ),
        ]
    }

    fn log_cases() -> Vec<(Value, Value, Result<Value, ()>)> {
        vec![
            // Invalid number of arguments
            (json!({"log": []}), json!({}), Err(())),
            (json!({"log": [1, 2]}), json!({}), Err(())),
            // Correct number of arguments
            (json!({"log": [1]}), json!({}), Ok(json!(1))),
            (json!({"log": 1}), json!({}), Ok(json!(1))),
        ]
    }

    fn lt_cases() -> Vec<(Value, Value, Result<Value, ()>)> {
        vec![
            (json!({"<": [1, 2]}), json!({}), Ok(json!(true))),
            (json!({"<": [3, 2]}), json!({}), Ok(json!(false))),
            (
                json!({"<": [1, {"var": "foo"}]}),
                json!({"foo": 5}),
                Ok(json!(true)),
            ),
            (json!({"<": [1, 2, 3]}), json!({}), Ok(json!(true))),
            (json!({"<": [3, 2, 3]}), json!({}), Ok(json!(false))),
            (json!({"<": [1, 2, 1]}), json!({}), Ok(json!(false))),
        ]
    }

    fn gt_cases() -> Vec<(Value, Value, Result<Value, ()>)> {
        vec![
            (json!({">": [1, 2]}), json!({}), Ok(json!(false))),
            (json!({">": [3, 2]}), json!({}), Ok(json!(true))),
            (
                json!({">": [1, {"var": "foo"}]}),
                json!({"foo": 5}),
                Ok(json!(false)),
            ),
            (json!({">": [1, 2, 3]}), json!({}), Ok(json!(false))),
            (json!({">": [3, 2, 3]}), json!({}), Ok(json!(false))),
            (json!({">": [1, 2, 1]}), json!({}), Ok(json!(false))),
            (json!({">": [3, 2, 1]}), json!({}), Ok(json!(true))),
        ]
    }

    fn plus_cases() -> Vec<(Value, Value, Result<Value, ()>)> {
        vec![
            (json!({"+": []}), json!({}), Ok(json!(0))),
            (json!({"+": [1]}), json!({}), Ok(json!(1))),
            (json!({"+": ["1"]}), json!({}), Ok(json!(1))),
            (json!({"+": [1, 1]}), json!({}), Ok(json!(2))),
            (json!({"+": [1, 1, 1]}), json!({}), Ok(json!(3))),
            (json!({"+": [1, 1, false]}), json!({}), Err(())),
            (json!({"+": [1, 1, "1"]}), json!({}), Ok(json!(3))),
            (
                json!({"+": [1, 1, "123abc"]}), // WHY???
                json!({}),
                Ok(json!(125)),
            ),
        ]
    }

    fn minus_cases() -> Vec<(Value, Value, Result<Value, ()>)> {
        vec![
            (json!({"-": "5"}), json!({}), Ok(json!(-5))),
            (json!({"-": [2]}), json!({}), Ok(json!(-2))),
            (json!({"-": [2, 2]}), json!({}), Ok(json!(0))),
            (json!({"-": ["9", [3]]}), json!({}), Ok(json!(6))),
        ]
    }

    fn multiplication_cases() -> Vec<(Value, Value, Result<Value, ()>)> {
        vec![
            (json!({"*": 1}), json!({}), Ok(json!(1))),
            (json!({"*": [1]}), json!({}), Ok(json!(1))),
            (json!({"*": [1, 2]}), json!({}), Ok(json!(2))),
            (json!({"*": [0, 2]}), json!({}), Ok(json!(0))),
            (json!({"*": [1, 2, 3]}), json!({}), Ok(json!(6))),
            (json!({"*": [1, 2, "3"]}), json!({}), Ok(json!(6))),
            (json!({"*": [1, "2abc", "3"]}), json!({}), Ok(json!(6))),
            (json!({"*": []}), json!({}), Err(())),
        ]
    }

    fn division_cases() -> Vec<(Value, Value, Result<Value, ()>)> {
        vec![
            (json!({"/": [2, 1]}), json!({}), Ok(json!(2))),
            (json!({"/": [1, 2]}), json!({}), Ok(json!(0.5))),
            (json!({"/": [1, "2"]}), json!({}), Ok(json!(0.5))),
            (json!({"/": [12, "-2"]}), json!({}), Ok(json!(-6))),
            (json!({"/": []}), json!({}), Err(())),
            (json!({"/": [5]}), json!({}), Err(())),
            (json!({"/": [5, 2, 1]}), json!({}), Err(())),
        ]
    }

    fn modulo_cases() -> Vec<(Value, Value, Result<Value, ()>)> {
        vec![
            (json!({"%": [2, 1]}), json!({}), Ok(json!(0))),
            (json!({"%": [1, 2]}), json!({}), Ok(json!(1))),
            (json!({"%": [1, "2"]}), json!({}), Ok(json!(1))),
            (json!({"%": [12, "-2"]}), json!({}), Ok(json!(0))),
            (json!({"%": []}), json!({}), Err(())),
            (json!({"%": [5]}), json!({}), Err(())),
            (json!({"%": [5, 2, 1]}), json!({}), Err(())),
        ]
    }

    fn max_cases() -> Vec<(Value, Value, Result<Value, ()>)> {
        vec![
            (json!({"max": [1, 2, 3]}), json!({}), Ok(json!(3))),
            (json!({"max": [false, -1, 2]}), json!({}), Ok(json!(2))),
            (json!({"max": [0, -1, true]}), json!({}), Ok(json!(1))),
            (json!({"max": [0, -1, true, [3]]}), json!({}), Ok(json!(3))),
        ]
    }

    fn min_cases() -> Vec<(Value, Value, Result<Value, ()>)> {
        vec![
            (json!({"min": [1, 2, 3]}), json!({}), Ok(json!(1))),
            (json!({"min": [false, 1, 2]}), json!({}), Ok(json!(0))),
            (json!({"min": [0, -1, true]}), json!({}), Ok(json!(-1))),
            (
                json!({"min": [0, [-1], true, [3]]}),
                json!({}),
                Ok(json!(-1)),
            ),
        ]
    }

    fn bang_cases() -> Vec<(Value, Value, Result<Value, ()>)> {
        vec![
            (json!( {"!": []} ), json!({}), Err(())),
            (json!( {"!": [1, 2]} ), json!({}), Err(())),
            (json!({"!": [true]}), json!({}), Ok(json!(false))),
            (json!({"!": [1]}), json!({}), Ok(json!(false))),
            (json!({"!": [0]}), json!({}), Ok(json!(true))),
            (json!({"!": [[]]}), json!({}), Ok(json!(true))),
            (json!({"!": [{}]}), json!({}), Ok(json!(false))),
            (json!({"!": [""]}), json!({}), Ok(json!(true))),
            (json!({"!": ["foo"]}), json!({}), Ok(json!(false))),
            (json!({"!": true}), json!({}), Ok(json!(false))),
        ]
    }

    fn in_cases() -> Vec<(Value, Value, Result<Value, ()>)> {
        vec![
            // Invalid inputs
            (json!( {"in": []} ), json!({}), Err(())),
            (json!( {"in": [1, [], 1]} ), json!({}), Err(())),
            (json!( {"in": [1, "foo"]} ), json!({}), Err(())),
            (json!( {"in": [1, 1]} ), json!({}), Err(())),
            // Valid inputs
            (json!( {"in": [1, null]} ), json!({}), Ok(json!(false))),
            (json!( {"in": [1, [1, 2]]} ), json!({}), Ok(json!(true))),
            (json!( {"in": [1, [0, 2]]} ), json!({}), Ok(json!(false))),
            (json!( {"in": ["f", "foo"]} ), json!({}), Ok(json!(true))),
            (json!( {"in": ["f", "bar"]} ), json!({}), Ok(json!(false))),
            (json!( {"in": ["f", null]} ), json!({}), Ok(json!(false))),
            (
                json!( {"in": [null, [1, null]]} ),
                json!({}),
                Ok(json!(true)),
            ),
            (json!( {"in": [null, [1, 2]]} ), json!({}), Ok(json!(false))),
            (
                json!( {"in": [true, [true, 2]]} ),
                json!({}),
                Ok(json!(true)),
            ),
            (json!( {"in": [true, [1, 2]]} ), json!({}), Ok(json!(false))),
            (
                json!( {"in": [[1, 2], [[1, 2], 2]]} ),
                json!({}),
                Ok(json!(true)),
            ),
            (
                json!( {"in": [[], [[1, 2], 2]]} ),
                json!({}),
                Ok(json!(false)),
            ),
            (
                json!( {"in": [{"a": 1}, [{"a": 1}, 2]]} ),
                json!({}),
                Ok(json!(true)),
            ),
            (
                json!( {"in": [{"a": 1}, [{"a": 2}, 2]]} ),
                json!({}),
                Ok(json!(false)),
            ),
            (
                json!( {"in": [{"a": 1}, [{"a": 1, "b": 2}, 2]]} ),
                json!({}),
                Ok(json!(false)),
            ),
        ]
    }

    fn assert_jsonlogic((op, data, exp): (Value, Value, Result<Value, ()>)) -> () {
        println!("Running rule: {:?} with data: {:?}", op, data);
        let result = apply(&op, &data);
        println!("- Result: {:?}", result);
        println!("- Expected: {:?}", exp);
        if exp.is_ok() {
            assert_eq!(result.unwrap(), exp.unwrap());
        } else {
            result.unwrap_err();
        }
    }

    fn replace_operator(
        old_op: &'static str,
        new_op: &'static str,
        (op, data, exp): (Value, Value, Result<Value, ()>),
    ) -> (Value, Value, Result<Value, ()>) {
        (
            match op {
                Value::Object(obj) => json!({new_op: obj.get(old_op).unwrap()}),
                _ => panic!(),
            },
            data,
            exp,
        )
    }

    fn flip_boolean_exp(
        (op, data, exp): (Value, Value, Result<Value, ()>),
    ) -> (Value, Value, Result<Value, ()>) {
        (
            op,
            data,
            match exp {
                Err(_) => exp,
                Ok(Value::Bool(exp)) => Ok(Value::Bool(!exp)),
                _ => panic!(),
            },
        )
    }

    fn only_boolean(
        wanted: bool,
        (_, _, exp): &(Value, Value, Result<Value, ()>),
    ) -> bool {
        match exp {
            Err(_) => false,
            Ok(Value::Bool(exp)) => *exp == wanted,
            _ => panic!("unexpected type of expectation"),
        }
    }

    #[test]
    fn test_no_op() {
        no_op_cases().into_iter().for_each(assert_jsonlogic)
    }

    #[test]
    fn test_abstract_eq_op() {
        abstract_eq_cases().into_iter().for_each(assert_jsonlogic)
    }

    #[test]
    fn test_abstract_ne_op() {
        abstract_ne_cases().into_iter().for_each(assert_jsonlogic)
    }

    #[test]
    fn test_strict_eq_op() {
        strict_eq_cases().into_iter().for_each(assert_jsonlogic)
    }

    #[test]
    fn test_strict_ne_op() {
        strict_ne_cases().into_iter().for_each(assert_jsonlogic)
    }

    #[test]
    fn test_var_data_op() {
        var_cases().into_iter().for_each(assert_jsonlogic)
    }

    #[test]
    fn test_missing_data_op() {
        missing_cases().into_iter().for_each(assert_jsonlogic)
    }

    #[test]
    fn test_missing_some_data_op() {
        missing_some_cases().into_iter().for_each(assert_jsonlogic)
    }

    #[test]
    fn test_if_op() {
        if_cases().into_iter().for_each(assert_jsonlogic)
    }

    #[test]
    fn test_or_op() {
        or_cases().into_iter().for_each(assert_jsonlogic)
    }

    #[test]
    fn test_and_op() {
        and_cases().into_iter().for_each(assert_jsonlogic)
    }

    #[test]
    fn test_map_op() {
        map_cases().into_iter().for_each(assert_jsonlogic)
    }

    #[test]
    fn test_filter_op() {
        filter_cases().into_iter().for_each(assert_jsonlogic)
    }

    #[test]
    fn test_reduce_op() {
        reduce_cases().into_iter().for_each(assert_jsonlogic)
    }

    #[test]
    fn test_all_op() {
        all_cases().into_iter().for_each(assert_jsonlogic)
    }

    #[test]
    fn test_some_op() {
        some_cases().into_iter().for_each(assert_jsonlogic)
    }

    #[test]
    fn test_none_op() {
        none_cases().into_iter().for_each(assert_jsonlogic)
    }

    #[test]
    fn test_merge_op() {
        merge_cases().into_iter().for_each(assert_jsonlogic)
    }

    #[test]
    fn test_cat_op() {
        cat_cases().into_iter().for_each(assert_jsonlogic)
    }

    #[test]
    fn test_substr_op() {
        substr_cases().into_iter().for_each(assert_jsonlogic)
    }

    #[test]
    fn test_log_op() {
        log_cases().into_iter().for_each(assert_jsonlogic)
    }

    #[test]
    fn test_lt_op() {
        lt_cases().into_iter().for_each(assert_jsonlogic)
    }

    #[test]
    fn test_lte_op() {
        lt_cases()
            .into_iter()
            .map(|case| replace_operator("<", "<=", case))
            .for_each(assert_jsonlogic);
        abstract_eq_cases()
            .into_iter()
            // Only get cases that are equal, since we don't know whether
            // non-equality cases were lt or gt or what.
            .filter(|case| only_boolean(true, case))
            .map(|case| replace_operator("==", "<=", case))
            .for_each(assert_jsonlogic);
    }

    #[test]
    fn test_gt_op() {
        gt_cases().into_iter().for_each(assert_jsonlogic);
    }

    #[test]
    fn test_gte_op() {
        gt_cases()
            .into_iter()
            .map(|case| replace_operator(">", ">=", case))
            .for_each(assert_jsonlogic);
        abstract_eq_cases()
            .into_iter()
            // Only get cases that are equal, since we don't know whether
            // non-equality cases were lt or gt or what.
            .filter(|case| only_boolean(true, case))
            .map(|case| replace_operator("==", ">=", case))
            .for_each(assert_jsonlogic);
    }

    #[test]
    fn test_plus_op() {
        plus_cases().into_iter().for_each(assert_jsonlogic)
    }

    #[test]
    fn test_minus_op() {
        minus_cases().into_iter().for_each(assert_jsonlogic)
    }

    #[test]
    fn test_mul_op() {
        multiplication_cases()
            .into_iter()
            .for_each(assert_jsonlogic)
    }

    #[test]
    fn test_div_op() {
        division_cases().into_iter().for_each(assert_jsonlogic)
    }

    #[test]
    fn test_mod_op() {
        modulo_cases().into_iter().for_each(assert_jsonlogic)
    }

    #[test]
    fn test_max_op() {
        max_cases().into_iter().for_each(assert_jsonlogic)
    }

    #[test]
    fn test_min_op() {
        min_cases().into_iter().for_each(assert_jsonlogic)
    }

    #[test]
    fn test_bang_op() {
        bang_cases().into_iter().for_each(assert_jsonlogic)
    }

    #[test]
    fn test_bang_bang_op() {
        // just assert the opposite for all the bang cases
        bang_cases()
            .into_iter()
            .map(|case| replace_operator("!", "!!", case))
            .map(flip_boolean_exp)
            .for_each(assert_jsonlogic)
    }

    #[test]
    fn test_in_op() {
        in_cases().into_iter().for_each(assert_jsonlogic)
    }
}
