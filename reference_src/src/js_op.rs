//! Implementations of JavaScript operators for JSON Values

use serde_json::{Number, Value};
use std::f64;
use std::str::FromStr;

use crate::error::Error;

/// WhiteSpace and LineTerminator code points of ECMA-262 (StrWhiteSpaceChar)
fn is_js_whitespace(c: char) -> bool {
    match c {
        '\u{0009}'..='\u{000D}'
        | '\u{0020}'
        | '\u{00A0}'
        | '\u{1680}'
        | '\u{2000}'..='\u{200A}'
        | '\u{2028}'
        | '\u{2029}'
        | '\u{202F}'
        | '\u{205F}'
        | '\u{3000}'
        | '\u{FEFF}' => true,
        _ => false,
    }
}

/// Length of the longest prefix of `s` that is an unsigned decimal literal
/// of the StrDecimalLiteral grammar (digits, optional fraction, optional
/// exponent; at least one digit in the mantissa). Zero if there is none.
fn decimal_literal_len(s: &str) -> usize {
    let bytes = s.as_bytes();
    let digits_end = |from: usize| {
        from + bytes
            .iter()
            .skip(from)
            .take_while(|b| b.is_ascii_digit())
            .count()
    };
    let int_end = digits_end(0);
    let mut mantissa_digits = int_end;
    let mut end = int_end;
    if bytes.get(end) == Some(&b'.') {
        let frac_end = digits_end(end + 1);
        mantissa_digits += frac_end - (end + 1);
        if mantissa_digits > 0 {
            end = frac_end;
        }
    }
    if mantissa_digits == 0 {
        return 0;
    }
    if let Some(b'e') | Some(b'E') = bytes.get(end) {
        let exp_start = match bytes.get(end + 1) {
            Some(b'+') | Some(b'-') => end + 2,
            _ => end + 1,
        };
        let exp_end = digits_end(exp_start);
        if exp_end > exp_start {
            end = exp_end;
        }
    }
    end
}

/// Split an optional leading sign off a string
fn split_sign(s: &str) -> (bool, &str) {
    if let Some(rest) = s.strip_prefix('-') {
        (true, rest)
    } else {
        (false, s.strip_prefix('+').unwrap_or(s))
    }
}

/// Value of a `0x`, `0o` or `0b` integer literal, correctly rounded.
///
/// Returns None if the string does not start with such a prefix, and
/// Some(None) if it does but is not a valid literal.
fn radix_literal(s: &str) -> Option<Option<f64>> {
    let mut chars = s.chars();
    if chars.next() != Some('0') {
        return None;
    }
    let (radix, bits) = match chars.next() {
        Some('x') | Some('X') => (16, 4),
        Some('o') | Some('O') => (8, 3),
        Some('b') | Some('B') => (2, 1),
        _ => return None,
    };
    let digits = chars.as_str();
    if digits.is_empty() {
        return Some(None);
    }
    // Keep the leading 60+ bits exactly, count the bits shifted out and
    // remember whether any of them was set, so that the final conversion
    // rounds once, to nearest even.
    let mut acc: u64 = 0;
    let mut shift: i32 = 0;
    let mut sticky = false;
    for c in digits.chars() {
        let digit = match c.to_digit(radix) {
            Some(d) => d as u64,
            None => return Some(None),
        };
        if acc >> 60 == 0 {
            acc = (acc << bits) | digit;
        } else {
            shift = shift.saturating_add(bits);
            sticky = sticky || digit != 0;
        }
    }
    let mantissa = (acc | sticky as u64) as f64;
    Some(Some(if shift > 1100 {
        f64::INFINITY
    } else {
        mantissa * 2f64.powi(shift)
    }))
}

// TODOS:
// - there are too many tests in docstrings
// - the docstrings are too sarcastic about JS equality

pub fn to_string(value: &Value) -> String {
    match value {
        Value::Object(_) => String::from("[object Object]"),
        Value::Bool(val) => val.to_string(),
        Value::Null => String::from("null"),
        Value::Number(val) => val.to_string(),
        Value::String(val) => String::from(val),
        Value::Array(val) => val
            .iter()
            .map(|i| match i {
                Value::Null => String::from(""),
                _ => to_string(i),
            })
            .collect::<Vec<String>>()
            .join(","),
    }
}

/// Implement something like OrdinaryToPrimitive() with a Number hint.
///
/// If it's possible to return a numeric primitive, returns Some<f64>.
/// Otherwise, return None.
fn to_primitive_number(value: &Value) -> Option<f64> {
    match value {
        // .valueOf() returns the object itself, which is not a primitive
        Value::Object(_) => None,
        // .valueOf() returns the array itself
        Value::Array(_) => None,
        Value::Bool(val) => {
            if *val {
                Some(1.0)
            } else {
                Some(0.0)
            }
        }
        Value::Null => Some(0.0),
        Value::Number(val) => val.as_f64(),
        Value::String(_) => None, // already a primitive
    }
}

/// Convert a string to a number the way JS `Number(string)` does,
/// returning None where that would return NaN.
pub fn str_to_number<S: AsRef<str>>(string: S) -> Option<f64> {
    let s = string.as_ref().trim_matches(is_js_whitespace);
    if s == "" {
        return Some(0.0);
    }
    if let Some(radix_value) = radix_literal(s) {
        return radix_value;
    }
    let (negative, unsigned) = split_sign(s);
    let magnitude = if unsigned == "Infinity" {
        f64::INFINITY
    } else if unsigned != "" && decimal_literal_len(unsigned) == unsigned.len() {
        f64::from_str(unsigned).ok()?
    } else {
        return None;
    };
    Some(if negative { -magnitude } else { magnitude })
}

enum Primitive {
    String(String),
    Number(f64),
}

#[allow(dead_code)]
enum PrimitiveHint {
    String,
    Number,
    Default,
}

fn to_primitive(value: &Value, hint: PrimitiveHint) -> Primitive {
    match hint {
        PrimitiveHint::String => Primitive::String(to_string(value)),
        _ => to_primitive_number(value)
            .map(Primitive::Number)
            .unwrap_or(Primitive::String(to_string(value))),
    }
}

/// Do our best to convert something into a number.
///
/// Should be pretty much equivalent to calling Number(value) in JS,
/// returning None where that would return NaN.
pub fn to_number(value: &Value) -> Option<f64> {
    match to_primitive(value, PrimitiveHint::Number) {
        Primitive::Number(num) => Some(num),
        Primitive::String(string) => str_to_number(string),
    }
}

/// Compare values in the JavaScript `==` style
///
/// Implements the Abstract Equality Comparison algorithm (`==` in JS)
/// as defined [here](https://www.ecma-international.org/ecma-262/5.1/#sec-11.9.3).
///
/// ```rust
/// use serde_json::json;
/// use jsonlogic_rs::js_op::abstract_eq;
///
/// assert!(
///   abstract_eq(
///     &json!(null),
///     &json!(null),
///   )
/// );
/// assert!(
///   abstract_eq(
///     &json!(1.0),
///     &json!(1),
///   )
/// );
/// assert!(
///   abstract_eq(
///     &json!("foo"),
///     &json!("foo"),
///   )
/// );
/// assert!(
///   abstract_eq(
///     &json!(true),
///     &json!(true),
///   )
/// );
/// assert!(
///   abstract_eq(
///     &json!("1"),
///     &json!(1.0),
///   )
/// );
/// assert!(
///   abstract_eq(
///     &json!(1.0),
///     &json!("1"),
///   )
/// );
/// assert!(
///   abstract_eq(
///     &json!(true),
///     &json!("1"),
///   )
/// );
/// assert!(
///   abstract_eq(
///     &json!(true),
///     &json!(1.0),
///   )
/// );
/// assert!(
///   abstract_eq(
///     &json!({}),
///     &json!("[object Object]"),
///   )
/// );
///
/// assert!(
///   ! abstract_eq(
///     &json!({}),
///     &json!({}),
///   )
/// );
/// assert!(
///   ! abstract_eq(
///     &json!([]),
///     &json!([]),
///   )
/// );
/// ```
pub fn abstract_eq(first: &Value, second: &Value) -> bool {
    // Follows the ECMA specification 2019:7.2.14 (Abstract Equality Comparison)
    match (first, second) {
        // 1. If Type(x) is the same as Type(y), then
        //   a. If Type(x) is Undefined, return true.
        //      - No need to handle this case, b/c undefined is not in JSON
        //   b. If Type(x) is Null, return true.
        (Value::Null, Value::Null) => true,
        //   c. If Type(x) is Number, then
        (Value::Number(x), Value::Number(y)) => {
            // i. If x is NaN, return false.
            //    - we can ignore this case, b/c NaN is not in JSON
            // ii. If y is NaN, return false.
            //    - same here
            // iii. If x is the same Number value as y, return true.
            x.as_f64()
                .map(|x_val| y.as_f64().map(|y_val| x_val == y_val).unwrap_or(false))
                .unwrap_or(false)
            // x.as_f64() == y.as_f64()
            // iv. If x is +0 and y is −0, return true.
            //     - with serde's Number, this is handled by the above
            // v. If x is −0 and y is +0, return true.
            //    - same here
            // vi. Return false.
            //     - done!
        }
        //   d. If Type(x) is String, then return true if x and y are exactly
        //      the same sequence of characters (same length and same characters
        //      in corresponding positions). Otherwise, return false.
        (Value::String(x), Value::String(y)) => x == y,
        //   e. If Type(x) is Boolean, return true if x and y are both true
        //      or both false. Otherwise, return false.
        (Value::Bool(x), Value::Bool(y)) => x == y,
        //   f. Return true if x and y refer to the same object. Otherwise, return false.
        //      - not applicable to comparisons from JSON
        // 2. If x is null and y is undefined, return true.
        //    - not applicable to JSON b/c there is no undefined
        // 3. If x is undefined and y is null, return true.
        //    - not applicable to JSON b/c there is no undefined
        // 4. If Type(x) is Number and Type(y) is String, return the result of
        //    the comparison x == ToNumber(y).
        (Value::Number(x), Value::String(y)) => {
            // the empty string is 0
            let y_res = str_to_number(y);
            y_res
                .map(|y_number| {
                    x.as_f64()
                        .map(|x_number| x_number == y_number)
                        .unwrap_or(false)
                })
                .unwrap_or(false)
        }
        // 5. If Type(x) is String and Type(y) is Number, return the result
        //    of the comparison ToNumber(x) == y.
        (Value::String(x), Value::Number(y)) => {
            let x_res = str_to_number(x);
            x_res
                .map(|x_number| {
                    y.as_f64()
                        .map(|y_number| x_number == y_number)
                        .unwrap_or(false)
                })
                .unwrap_or(false)
        }
        // 6. If Type(x) is Boolean, return the result of the comparison ToNumber(x) == y.
        (Value::Bool(x), _) => match x {
            true => Number::from_f64(1 as f64)
                .map(|num| {
                    let value = Value::Number(num);
                    abstract_eq(&value, second)
                })
                .unwrap_or(false),
            false => Number::from_f64(0 as f64)
                .map(|num| {
                    let value = Value::Number(num);
                    abstract_eq(&value, second)
                })
                .unwrap_or(false),
        },
        // 7. If Type(y) is Boolean, return the result of the comparison x == ToNumber(y).
        (_, Value::Bool(y)) => match y {
            true => Number::from_f64(1 as f64)
                .map(|num| {
                    let value = Value::Number(num);
                    abstract_eq(first, &value)
                })
                .unwrap_or(false),
            false => Number::from_f64(0 as f64)
                .map(|num| {
                    let value = Value::Number(num);
                    abstract_eq(first, &value)
                })
                .unwrap_or(false),
        },
        // 8. If Type(x) is either String, Number, or Symbol and Type(y) is
        //    Object, return the result of the comparison x == ToPrimitive(y).
        // NB: the only type of Objects we get in JSON are regular old arrays
        //     and regular old objects. ToPrimitive on the former yields a
        //     stringification of its values, stuck together with commands,
        //     but with no brackets on the outside. ToPrimitive on the later
        //     is just always [object Object].
        (Value::String(_), Value::Array(_)) | (Value::Number(_), Value::Array(_)) => {
            abstract_eq(first, &Value::String(to_string(second)))
        }
        (Value::String(_), Value::Object(_)) | (Value::Number(_), Value::Object(_)) => {
            abstract_eq(first, &Value::String(to_string(second)))
        }
        // 9. If Type(x) is Object and Type(y) is either String, Number, or
        //    Symbol, return the result of the comparison ToPrimitive(x) == y.
        (Value::Object(_), Value::String(_)) | (Value::Object(_), Value::Number(_)) => {
            abstract_eq(&Value::String(to_string(first)), second)
        }
        (Value::Array(_), Value::String(_)) | (Value::Array(_), Value::Number(_)) => {
            abstract_eq(&Value::String(to_string(first)), second)
        }
        _ => false,
    }
}

/// Perform JS-style strict equality
///
/// Items are strictly equal if:
/// - They are the same non-primitive object
/// - They are a primitive object of the same type with the same value
///
/// ```rust
/// use serde_json::json;
/// use jsonlogic_rs::js_op::strict_eq;
///
/// // References of the same type and value are strictly equal
/// assert!(strict_eq(&json!(1), &json!(1)));
/// assert!(strict_eq(&json!(false), &json!(false)));
/// assert!(strict_eq(&json!("foo"), &json!("foo")));
///
/// // "Abstract" type conversion is not performed for strict equality
/// assert!(!strict_eq(&json!(0), &json!(false)));
/// assert!(!strict_eq(&json!(""), &json!(0)));
///
/// // Objects only compare equal if they are the same reference
/// assert!(!strict_eq(&json!([]), &json!([])));
/// assert!(!strict_eq(&json!({}), &json!({})));
///
/// let arr = json!([]);
/// let obj = json!({});
/// assert!(strict_eq(&arr, &arr));
/// assert!(strict_eq(&obj, &obj));
/// ```
///
pub fn strict_eq(first: &Value, second: &Value) -> bool {
    if std::ptr::eq(first, second) {
        return true;
    };
    match (first, second) {
        (Value::Null, Value::Null) => true,
        (Value::Bool(x), Value::Bool(y)) => x == y,
        (Value::Number(x), Value::Number(y)) => x
            .as_f64()
            .and_then(|x_val| y.as_f64().map(|y_val| x_val == y_val))
            .unwrap_or(false),
        (Value::String(x), Value::String(y)) => x == y,
        _ => false,
    }
}

pub fn strict_ne(first: &Value, second: &Value) -> bool {
    !strict_eq(first, second)
}

/// Perform JS-style abstract less-than
///
///
/// ```rust
/// use serde_json::json;
/// use jsonlogic_rs::js_op::abstract_lt;
///
/// assert_eq!(abstract_lt(&json!(-1), &json!(0)), true);
/// assert_eq!(abstract_lt(&json!("-1"), &json!(0)), true);
/// assert_eq!(abstract_lt(&json!(0), &json!(1)), true);
/// assert_eq!(abstract_lt(&json!(0), &json!("1")), true);
/// assert_eq!(abstract_lt(&json!(0), &json!("a")), false);
/// ```
pub fn abstract_lt(first: &Value, second: &Value) -> bool {
    match (
        to_primitive(first, PrimitiveHint::Number),
        to_primitive(second, PrimitiveHint::Number),
    ) {
        (Primitive::String(f), Primitive::String(s)) => f < s,
        (Primitive::Number(f), Primitive::Number(s)) => f < s,
        (Primitive::String(f), Primitive::Number(s)) => {
            if let Some(f) = str_to_number(f) {
                f < s
            } else {
                false
            }
        }
        (Primitive::Number(f), Primitive::String(s)) => {
            if let Some(s) = str_to_number(s) {
                f < s
            } else {
                false
            }
        }
    }
}

/// JS-style abstract gt
///
/// ```rust
/// use serde_json::json;
/// use jsonlogic_rs::js_op::abstract_gt;
///
/// assert_eq!(abstract_gt(&json!(0), &json!(-1)), true);
/// assert_eq!(abstract_gt(&json!(0), &json!("-1")), true);
/// assert_eq!(abstract_gt(&json!(1), &json!(0)), true);
/// assert_eq!(abstract_gt(&json!("1"), &json!(0)), true);
/// ```
pub fn abstract_gt(first: &Value, second: &Value) -> bool {
    match (
        to_primitive(first, PrimitiveHint::Number),
        to_primitive(second, PrimitiveHint::Number),
    ) {
        (Primitive::String(f), Primitive::String(s)) => f > s,
        (Primitive::Number(f), Primitive::Number(s)) => f > s,
        (Primitive::String(f), Primitive::Number(s)) => {
            if let Some(f) = str_to_number(f) {
                f > s
            } else {
                false
            }
        }
        (Primitive::Number(f), Primitive::String(s)) => {
            if let Some(s) = str_to_number(s) {
                f > s
            } else {
                false
            }
        }
    }
}

/// Abstract inequality
pub fn abstract_ne(first: &Value, second: &Value) -> bool {
    !abstract_eq(first, second)
}

/// Provide abstract <= comparisons
pub fn abstract_lte(first: &Value, second: &Value) -> bool {
    match (
        to_primitive(first, PrimitiveHint::Number),
        to_primitive(second, PrimitiveHint::Number),
    ) {
        (Primitive::String(f), Primitive::String(s)) => f <= s,
        (Primitive::Number(f), Primitive::Number(s)) => f <= s,
        (Primitive::String(f), Primitive::Number(s)) => {
            str_to_number(f).map(|f| f <= s).unwrap_or(false)
        }
        (Primitive::Number(f), Primitive::String(s)) => {
            str_to_number(s).map(|s| f <= s).unwrap_or(false)
        }
    }
}

/// Provide abstract >= comparisons
pub fn abstract_gte(first: &Value, second: &Value) -> bool {
    abstract_lte(second, first)
}

/// Get the max of an array of values, performing abstract type conversion
pub fn abstract_max(items: &Vec<&Value>) -> Result<f64, Error> {
    items
        .into_iter()
        .map(|v| {
            to_number(v).ok_or_else(|| Error::InvalidArgument {
                value: (*v).clone(),
                operation: "max".into(),
                reason: "Could not convert value to number".into(),
            })
        })
        .fold(Ok(f64::NEG_INFINITY), |acc, cur| {
            let max = acc?;
            match cur {
                Ok(num) => {
                    if num > max {
                        Ok(num)
                    } else {
                        Ok(max)
                    }
                }
                _ => cur,
            }
        })
}

/// Get the max of an array of values, performing abstract type conversion
pub fn abstract_min(items: &Vec<&Value>) -> Result<f64, Error> {
    items
        .into_iter()
        .map(|v| {
            to_number(v).ok_or_else(|| Error::InvalidArgument {
                value: (*v).clone(),
                operation: "max".into(),
                reason: "Could not convert value to number".into(),
            })
        })
        .fold(Ok(f64::INFINITY), |acc, cur| {
            let min = acc?;
            match cur {
                Ok(num) => {
                    if num < min {
                        Ok(num)
                    } else {
                        Ok(min)
                    }
                }
                _ => cur,
            }
        })
}

/// Do plus
pub fn abstract_plus(first: &Value, second: &Value) -> Value {
    let first_num = to_primitive_number(first);
    let second_num = to_primitive_number(second);

    match (first_num, second_num) {
        (Some(f), Some(s)) => {
            // a non-finite sum has no JSON number; JSON.stringify gives null
            return Number::from_f64(f + s)
                .map(Value::Number)
                .unwrap_or(Value::Null);
        }
        _ => {}
    };

    let first_string = to_string(first);
    let second_string = to_string(second);

    Value::String(first_string.chars().chain(second_string.chars()).collect())
}

/// Add values, parsing to floats first.
///
/// The JSONLogic reference implementation uses the JS `parseFloat` operation
/// on the parameters, which behaves quite differently from the normal JS
/// numeric conversion with `Number(val)`. While the latter uses the
/// `toPrimitive` method on the base object Prototype, the former first
/// converts any incoming value to a string, and then tries to parse it
/// as a float. The upshot is that things that normally parse fine into
/// numbers in JS, like bools and null, convert to NaN, because you can't
/// make "false" into a number.
///
/// The JSONLogic reference implementation deals with any values that
/// evaluate to NaN by returning null. We instead will return an error,
/// the behavior for non-numeric inputs is not specified in the spec,
/// and returning errors seems like a more reasonable course of action
/// than returning null.
pub fn parse_float_add(vals: &Vec<&Value>) -> Result<f64, Error> {
    vals.into_iter()
        .map(|&v| {
            parse_float(v).ok_or_else(|| Error::InvalidArgument {
                value: v.clone(),
                operation: "+".into(),
                reason: "Argument could not be converted to a float".into(),
            })
        })
        .fold(Ok(0.0), |acc, cur| {
            let total = acc?;
            match cur {
                Ok(num) => Ok(total + num),
                _ => cur,
            }
        })
}

/// Multiply values, parsing to floats first
///
/// See notes for parse_float_add on how this differs from normal number
/// conversion as is done for _other_ arithmetic operators in the reference
/// implementation
pub fn parse_float_mul(vals: &Vec<&Value>) -> Result<f64, Error> {
    vals.into_iter()
        .map(|&v| {
            parse_float(v).ok_or_else(|| Error::InvalidArgument {
                value: v.clone(),
                operation: "*".into(),
                reason: "Argument could not be converted to a float".into(),
            })
        })
        .fold(Ok(1.0), |acc, cur| {
            let total = acc?;
            match cur {
                Ok(num) => Ok(total * num),
                _ => cur,
            }
        })
}

/// Do minus
pub fn abstract_minus(first: &Value, second: &Value) -> Result<f64, Error> {
    let first_num = to_number(first);
    let second_num = to_number(second);

    if let None = first_num {
        return Err(Error::InvalidArgument {
            value: first.clone(),
            operation: "-".into(),
            reason: "Could not convert value to number.".into(),
        });
    }
    if let None = second_num {
        return Err(Error::InvalidArgument {
            value: second.clone(),
            operation: "-".into(),
            reason: "Could not convert value to number.".into(),
        });
    }

    Ok(first_num.unwrap() - second_num.unwrap())
}

/// Do division
pub fn abstract_div(first: &Value, second: &Value) -> Result<f64, Error> {
    let first_num = to_number(first);
    let second_num = to_number(second);

    if let None = first_num {
        return Err(Error::InvalidArgument {
            value: first.clone(),
            operation: "/".into(),
            reason: "Could not convert value to number.".into(),
        });
    }
    if let None = second_num {
        return Err(Error::InvalidArgument {
            value: second.clone(),
            operation: "/".into(),
            reason: "Could not convert value to number.".into(),
        });
    }

    Ok(first_num.unwrap() / second_num.unwrap())
}

/// Do modulo
pub fn abstract_mod(first: &Value, second: &Value) -> Result<f64, Error> {
    let first_num = to_number(first);
    let second_num = to_number(second);

    if let None = first_num {
        return Err(Error::InvalidArgument {
            value: first.clone(),
            operation: "%".into(),
            reason: "Could not convert value to number.".into(),
        });
    }
    if let None = second_num {
        return Err(Error::InvalidArgument {
            value: second.clone(),
            operation: "%".into(),
            reason: "Could not convert value to number.".into(),
        });
    }

    Ok(first_num.unwrap() % second_num.unwrap())
}

/// Attempt to convert a value to a negative number
pub fn to_negative(val: &Value) -> Result<f64, Error> {
    to_number(val)
        .map(|v| -1.0 * v)
        .ok_or_else(|| Error::InvalidArgument {
            value: val.clone(),
            operation: "to_negative".into(),
            reason: "Could not convert value to a number".into(),
        })
}

/// Try to parse a string as a float, javascript style
///
/// Strip leading whitespace and convert the longest prefix that is a
/// decimal literal (or `Infinity`), as `parseFloat` does.
fn parse_float_string(val: &String) -> Option<f64> {
    let (negative, unsigned) = split_sign(val.trim_start_matches(is_js_whitespace));
    let magnitude = if unsigned.starts_with("Infinity") {
        f64::INFINITY
    } else {
        let literal: String = unsigned
            .chars()
            .take(decimal_literal_len(unsigned))
            .collect();
        f64::from_str(&literal).ok()?
    };
    Some(if negative { -magnitude } else { magnitude })
}

/// Attempt to parse a value into a float.
///
/// The implementation should match https://developer.mozilla.org/en-US/docs/Web/JavaScript/Reference/Global_Objects/parseFloat
/// as closely as is reasonable.
pub fn parse_float(val: &Value) -> Option<f64> {
    match val {
        Value::Number(num) => num.as_f64(),
        Value::String(string) => parse_float_string(string),
        _ => parse_float(&Value::String(to_string(&val))),
    }
}

// =====================================================================
// Unit Tests
// =====================================================================

#[cfg(test)]
mod abstract_operations {

    use super::*;
    use serde_json::json;

    fn equal_values() -> Vec<(Value, Value)> {
        vec![
            (json!(null), json!(null)),
            (json!(1), json!(1)),
            (json!(1), json!(1.0)),
            (json!(1.0), json!(1)),
            (json!(0), json!(-0)),
            (json!(-0), json!(0)),
            (json!("foo"), json!("foo")),
            (json!(""), json!("")),
            (json!(true), json!(true)),
            (json!(false), json!(false)),
            (json!(1), json!("1")),
            (json!(1), json!("1.0")),
            (json!(1.0), json!("1.0")),
            (json!(1.0), json!("1")),
            (json!(0), json!("")),
            (json!(0), json!("0")),
            (json!(0), json!("-0")),
            (json!(0), json!("+0")),
            (json!(-1), json!("-1")),
            (json!(-1.0), json!("-1")),
            (json!(true), json!(1)),
            (json!(true), json!("1")),
            (json!(true), json!("1.0")),
            (json!(true), json!([1])),
            (json!(true), json!(["1"])),
            (json!(false), json!(0)),
            (json!(false), json!([])),
            (json!(false), json!([0])),
            (json!(false), json!("")),
            (json!(false), json!("0")),
            (json!("[object Object]"), json!({})),
            (json!("[object Object]"), json!({"a": "a"})),
            (json!(""), json!([])),
            (json!(""), json!([null])),
            (json!(","), json!([null, null])),
            (json!("1,2"), json!([1, 2])),
            (json!("a,b"), json!(["a", "b"])),
            (json!(0), json!([])),
            (json!(false), json!([])),
            (json!(true), json!([1])),
            (json!([]), json!("")),
            (json!([null]), json!("")),
            (json!([null, null]), json!(",")),
            (json!([1, 2]), json!("1,2")),
            (json!(["a", "b"]), json!("a,b")),
            (json!([]), json!(0)),
            (json!([0]), json!(0)),
            (json!([]), json!(false)),
            (json!([0]), json!(false)),
            (json!([1]), json!(true)),
        ]
    }

    fn lt_values() -> Vec<(Value, Value)> {
        vec![
            (json!(-1), json!(0)),
            (json!("-1"), json!(0)),
            (json!(0), json!(1)),
            (json!(0), json!("1")),
            (json!("foo"), json!("foos")),
            (json!(""), json!("a")),
            (json!(""), json!([1])),
            (json!(""), json!([1, 2])),
            (json!(""), json!("1")),
            (json!(""), json!({})),
            (json!(""), json!({"a": 1})),
            (json!(false), json!(true)),
            (json!(false), json!(1)),
            (json!(false), json!("1")),
            (json!(false), json!([1])),
            (json!(null), json!(1)),
            (json!(null), json!(true)),
            (json!(null), json!("1")),
            (json!([]), json!([1])),
            (json!([]), json!([1, 2])),
            (json!(0), json!([1])),
            (json!("0"), json!({})),
            (json!("0"), json!({"a": 1})),
            (json!("0"), json!([1, 2])),
        ]
    }

    fn gt_values() -> Vec<(Value, Value)> {
        vec![
            (json!(0), json!(-1)),
            (json!(0), json!("-1")),
            (json!(1), json!(0)),
            (json!("1"), json!(0)),
            (json!("foos"), json!("foo")),
            (json!("a"), json!("")),
            (json!([1]), json!("")),
            (json!("1"), json!("")),
            (json!("1"), json!("0")),
            (json!(true), json!(false)),
            (json!(1), json!(false)),
            (json!("1"), json!(false)),
            (json!([1]), json!(false)),
            (json!(1), json!(null)),
            (json!(true), json!(null)),
            (json!("1"), json!(null)),
            (json!([1]), json!([])),
            (json!([1, 2]), json!([])),
        ]
    }

    fn ne_values() -> Vec<(Value, Value)> {
        vec![
            (json!([]), json!([])),
            (json!([1]), json!([1])),
            (json!([1, 1]), json!([1, 1])),
            (json!({}), json!({})),
            (json!({"a": 1}), json!({"a": 1})),
            (json!([]), json!({})),
            (json!(0), json!(1)),
            (json!("a"), json!("b")),
            (json!(true), json!(false)),
            (json!(true), json!([0])),
            (json!(1.0), json!(1.1)),
            (json!(null), json!(0)),
            (json!(null), json!("")),
            (json!(null), json!(false)),
            (json!(null), json!(true)),
        ]
    }

    /// Values that do not compare true for anything other than ne.
    fn not_gt_not_lt_not_eq() -> Vec<(Value, Value)> {
        vec![
            (json!(null), json!("")),
            (json!(null), json!("a")),
            (json!(0), json!("a")),
            (json!(0), json!([1, 2])),
            (json!([]), json!([])),
            (json!([1]), json!([1])),
            (json!([1, 2]), json!([1, 2])),
            (json!({}), json!({})),
            (json!(false), json!({})),
            (json!(true), json!({})),
            (json!(false), json!([1, 2])),
            (json!(true), json!([1, 2])),
        ]
    }

    fn plus_cases() -> Vec<(Value, Value, Value)> {
        vec![
            (json!(1), json!(1), json!(2.0)),
            (json!(1), json!(true), json!(2.0)),
            (json!(true), json!(true), json!(2.0)),
            (json!(1), json!(false), json!(1.0)),
            (json!(false), json!(false), json!(0.0)),
            (json!(1), json!(null), json!(1.0)),
            (json!(null), json!(null), json!(0.0)),
            (json!(1), json!("1"), json!("11")),
            (json!(1), json!([1]), json!("11")),
            (json!(1), json!([1, 2]), json!("11,2")),
            (json!(1), json!([1, null, 3]), json!("11,,3")),
            (json!(1), json!({}), json!("1[object Object]")),
        ]
    }

    #[test]
    fn test_to_string_obj() {
        assert_eq!(&to_string(&json!({})), "[object Object]");
        assert_eq!(&to_string(&json!({"a": "b"})), "[object Object]");
    }

    #[test]
    fn test_to_string_array() {
        assert_eq!(&to_string(&json!([])), "");
        assert_eq!(&to_string(&json!([1, 2, 3])), "1,2,3");
        assert_eq!(&to_string(&json!([1, [2, 3], 4])), "1,2,3,4");
        assert_eq!(&to_string(&json!([1, {}, 2])), "1,[object Object],2");
        assert_eq!(&to_string(&json!(["a", "b"])), "a,b");
        assert_eq!(&to_string(&json!([null])), "");
        assert_eq!(&to_string(&json!([null, 1, 2, null])), ",1,2,");
        assert_eq!(&to_string(&json!([true, false])), "true,false");
    }

    #[test]
    fn test_to_string_null() {
        assert_eq!(&to_string(&json!(null)), "null");
    }

    #[test]
    fn test_to_string_bool() {
        assert_eq!(&to_string(&json!(true)), "true");
        assert_eq!(&to_string(&json!(false)), "false");
    }

    #[test]
    fn test_to_string_number() {
        assert_eq!(&to_string(&json!(1.0)), "1.0");
        assert_eq!(&to_string(&json!(1)), "1");
    }

    #[test]
    fn test_abstract_eq() {
        equal_values().iter().for_each(|(first, second)| {
            println!("{:?}-{:?}", &first, &second);
            assert!(abstract_eq(&first, &second), true);
        })
    }

    #[test]
    fn test_abstract_ne() {
        ne_values().iter().for_each(|(first, second)| {
            println!("{:?}-{:?}", &first, &second);
            assert_eq!(abstract_ne(&first, &second), true);
        })
    }

    #[test]
    fn test_abstract_lt() {
        lt_values().iter().for_each(|(first, second)| {
            println!("{:?}-{:?}", &first, &second);
            assert_eq!(abstract_lt(&first, &second), true);
        })
    }

    #[test]
    fn test_abstract_gt() {
        gt_values().iter().for_each(|(first, second)| {
            println!("{:?}-{:?}", &first, &second);
            assert_eq!(abstract_gt(&first, &second), true);
        })
    }

    #[test]
    fn test_eq_values_are_not_lt() {
        equal_values().iter().for_each(|(first, second)| {
            println!("{:?}-{:?}", &first, &second);
            assert_eq!(abstract_lt(&first, &second), false);
        })
    }

    #[test]
    fn test_eq_values_are_not_gt() {
        equal_values().iter().for_each(|(first, second)| {
            println!("{:?}-{:?}", &first, &second);
            assert_eq!(abstract_gt(&first, &second), false);
        })
    }

    #[test]
    fn test_eq_values_are_not_ne() {
        equal_values().iter().for_each(|(first, second)| {
            println!("{:?}-{:?}", &first, &second);
            assert_eq!(abstract_ne(&first, &second), false);
        })
    }

    #[test]
    fn test_lt_values_are_not_eq() {
        lt_values().iter().for_each(|(first, second)| {
            println!("{:?}-{:?}", &first, &second);
            assert_eq!(abstract_eq(&first, &second), false);
        })
    }

    #[test]
    fn test_lt_values_are_not_gt() {
        lt_values().iter().for_each(|(first, second)| {
            println!("{:?}-{:?}", &first, &second);
            assert_eq!(abstract_gt(&first, &second), false);
        })
    }

    #[test]
    fn test_lt_values_are_ne() {
        lt_values().iter().for_each(|(first, second)| {
            println!("{:?}-{:?}", &first, &second);
            assert_eq!(abstract_ne(&first, &second), true);
        })
    }

    #[test]
    fn test_gt_values_are_not_eq() {
        gt_values().iter().for_each(|(first, second)| {
            println!("{:?}-{:?}", &first, &second);
            assert_eq!(abstract_eq(&first, &second), false);
        })
    }

    #[test]
    fn test_gt_values_are_not_lt() {
        gt_values().iter().for_each(|(first, second)| {
            println!("{:?}-{:?}", &first, &second);
            assert_eq!(abstract_lt(&first, &second), false);
        })
    }

    #[test]
    fn test_gt_values_are_ne() {
        gt_values().iter().for_each(|(first, second)| {
            println!("{:?}-{:?}", &first, &second);
            assert_eq!(abstract_ne(&first, &second), true);
        })
    }

    #[test]
    fn test_incomparable() {
        not_gt_not_lt_not_eq().iter().for_each(|(first, second)| {
            println!("{:?}-{:?}", &first, &second);
            assert_eq!(abstract_lt(&first, &second), false);
            assert_eq!(abstract_gt(&first, &second), false);
            assert_eq!(abstract_eq(&first, &second), false);
        })
    }

    // abstract_lte

    #[test]
    fn test_lt_values_are_lte() {
        lt_values().iter().for_each(|(first, second)| {
            println!("{:?}-{:?}", &first, &second);
            assert_eq!(abstract_lte(&first, &second), true);
        })
    }

    #[test]
    fn test_eq_values_are_lte() {
        equal_values().iter().for_each(|(first, second)| {
            println!("{:?}-{:?}", &first, &second);
            assert_eq!(abstract_lte(&first, &second), true);
        })
    }

    #[test]
    fn test_gt_values_are_not_lte() {
        gt_values().iter().for_each(|(first, second)| {
            println!("{:?}-{:?}", &first, &second);
            assert_eq!(abstract_lte(&first, &second), false);
        })
    }

    // abstract_gte

    #[test]
    fn test_gt_values_are_gte() {
        gt_values().iter().for_each(|(first, second)| {
            println!("{:?}-{:?}", &first, &second);
            assert_eq!(abstract_gte(&first, &second), true);
        })
    }

    #[test]
    fn test_eq_values_are_gte() {
        equal_values().iter().for_each(|(first, second)| {
            println!("{:?}-{:?}", &first, &second);
            assert_eq!(abstract_gte(&first, &second), true);
        })
    }

    #[test]
    fn test_lt_values_are_not_gte() {
        lt_values().iter().for_each(|(first, second)| {
            println!("{:?}-{:?}", &first, &second);
            assert_eq!(abstract_gte(&first, &second), false);
        })
    }

    #[test]
    fn test_abstract_plus() {
        plus_cases().iter().for_each(|(first, second, exp)| {
            println!("{:?}-{:?}", &first, &second);
            let result = abstract_plus(&first, &second);
            match result {
                Value::Number(ref i) => match exp {
                    Value::Number(j) => assert_eq!(i, j),
                    _ => assert!(false),
                },
                Value::String(ref i) => match exp {
                    Value::String(j) => assert_eq!(i, j),
                    _ => assert!(false),
                },
                _ => assert!(false),
            }
        })
    }
}

#[cfg(test)]
mod test_abstract_max {
    use super::*;
    use serde_json::json;

    fn max_cases() -> Vec<(Vec<Value>, Result<f64, ()>)> {
        vec![
            (vec![json!(1), json!(2), json!(3)], Ok(3.0)),
            (vec![json!("1"), json!(true), json!([1])], Ok(1.0)),
            (
                vec![json!(""), json!(null), json!([]), json!(false)],
                Ok(0.0),
            ),
            (vec![json!("foo")], Err(())),
            (vec![], Ok(f64::NEG_INFINITY)),
        ]
    }

    #[test]
    fn test_abstract_max() {
        max_cases().into_iter().for_each(|(items, exp)| {
            println!("Max: {:?}", items);
            let res = abstract_max(&items.iter().collect());
            println!("Res: {:?}", res);
            match exp {
                Ok(exp) => assert_eq!(res.unwrap(), exp),
                _ => {
                    res.unwrap_err();
                }
            };
        })
    }
}

#[cfg(test)]
mod test_abstract_min {
    use super::*;
    use serde_json::json;

    fn min_cases() -> Vec<(Vec<Value>, Result<f64, ()>)> {
        vec![
            (vec![json!(1), json!(2), json!(3)], Ok(1.0)),
            (vec![json!("1"), json!(true), json!([1])], Ok(1.0)),
            (
                vec![json!(""), json!(null), json!([]), json!(false)],
                Ok(0.0),
            ),
            (vec![json!("foo")], Err(())),
            (vec![], Ok(f64::INFINITY)),
        ]
    }

    #[test]
    fn test_abstract_min() {
        min_cases().into_iter().for_each(|(items, exp)| {
            println!("Min: {:?}", items);
            let res = abstract_min(&items.iter().collect());
            println!("Res: {:?}", res);
            match exp {
                Ok(exp) => assert_eq!(res.unwrap(), exp),
                _ => {
                    res.unwrap_err();
                }
            };
        })
    }
}

#[cfg(test)]
mod test_abstract_minus {
    use super::*;
    use serde_json::json;

    fn minus_cases() -> Vec<(Value, Value, Result<f64, ()>)> {
        vec![
            (json!(5), json!(2), Ok(3.0)),
            (json!(0), json!(2), Ok(-2.0)),
            (json!("5"), json!(2), Ok(3.0)),
            (json!(["5"]), json!(2), Ok(3.0)),
            (json!(["5"]), json!(true), Ok(4.0)),
            (json!("foo"), json!(true), Err(())),
        ]
    }

    #[test]
    fn test_abstract_minus() {
        minus_cases().into_iter().for_each(|(first, second, exp)| {
            println!("Minus: {:?} - {:?}", first, second);
            let res = abstract_minus(&first, &second);
            println!("Res: {:?}", res);
            match exp {
                Ok(exp) => assert_eq!(res.unwrap(), exp),
                _ => {
                    res.unwrap_err();
                }
            }
        })
    }
}

#[cfg(test)]
mod test_strict {

    use super::*;
    use serde_json::json;

    fn eq_values() -> Vec<(Value, Value)> {
        vec![
            (json!(""), json!("")),
            (json!("foo"), json!("foo")),
            (json!(1), json!(1)),
            (json!(1), json!(1.0)),
            (json!(null), json!(null)),
            (json!(true), json!(true)),
            (json!(false), json!(false)),
        ]
    }

    fn ne_values() -> Vec<(Value, Value)> {
        vec![
            (json!({}), json!({})),
            (json!({"a": "a"}), json!({"a": "a"})),
            (json!([]), json!([])),
            (json!("foo"), json!("noop")),
            (json!(1), json!(2)),
            (json!(0), json!([])),
            (json!(0), json!([0])),
            (json!(false), json!(null)),
            (json!(true), json!(false)),
            (json!(false), json!(true)),
            (json!(false), json!([])),
            (json!(false), json!("")),
        ]
    }

    #[test]
    fn test_strict_eq() {
        eq_values().iter().for_each(|(first, second)| {
            println!("{:?}-{:?}", &first, &second);
            assert!(strict_eq(&first, &second));
        });
        ne_values().iter().for_each(|(first, second)| {
            println!("{:?}-{:?}", &first, &second);
            assert!(!strict_eq(&first, &second));
        });
    }

    #[test]
    fn test_strict_eq_same_obj() {
        let obj = json!({});
        assert!(strict_eq(&obj, &obj))
    }

    #[test]
    fn test_strict_ne() {
        ne_values().iter().for_each(|(first, second)| {
            println!("{:?}-{:?}", &first, &second);
            assert!(strict_ne(&first, &second));
        });
        eq_values().iter().for_each(|(first, second)| {
            println!("{:?}-{:?}", &first, &second);
            assert!(!strict_ne(&first, &second));
        });
    }

    #[test]
    fn test_strict_ne_same_obj() {
        let obj = json!({});
        assert!(!strict_ne(&obj, &obj))
    }
}

#[cfg(test)]
mod test_parse_float {
    use super::*;
    use serde_json::json;

    fn cases() -> Vec<(Value, Option<f64>)> {
        vec![
            (json!(1), Some(1.0)),
            (json!(1.5), Some(1.5)),
            (json!(-1.5), Some(-1.5)),
            (json!("1"), Some(1.0)),
            (json!("1e2"), Some(100.0)),
            (json!("1E2"), Some(100.0)),
            (json!("1.1e2"), Some(110.0)),
            (json!("-1.1e2"), Some(-110.0)),
            (json!("1e-2"), Some(0.01)),
            (json!("1.0"), Some(1.0)),
            (json!("1.1"), Some(1.1)),
            (json!("1.1.1"), Some(1.1)),
            (json!("1234abc"), Some(1234.0)),
            (json!("1e"), Some(1.0)),
            (json!("1E"), Some(1.0)),
            (json!(false), None),
            (json!(true), None),
            (json!(null), None),
            (json!("+5"), Some(5.0)),
            (json!("-5"), Some(-5.0)),
            (json!([]), None),
            (json!([1]), Some(1.0)),
            // this is weird, but correct. it converts to a string first
            // "1,2" and then parses up to the first comma as a number
            (json!([1, 2]), Some(1.0)),
            (json!({}), None),
        ]
    }

    #[test]
    fn test_parse_float() {
        cases()
            .into_iter()
            .for_each(|(input, exp)| assert_eq!(parse_float(&input), exp));
    }
}
