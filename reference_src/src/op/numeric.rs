//! Numeric Operations

use serde_json::Value;

use crate::error::Error;
use crate::js_op;
use crate::value::to_number_value;

fn compare<F>(func: F, items: &Vec<&Value>) -> Result<Value, Error>
where
    F: Fn(&Value, &Value) -> bool,
{
    if items.len() == 2 {
        Ok(Value::Bool(func(items[0], items[1])))
    } else {
        Ok(Value::Bool(
            func(items[0], items[1]) && func(items[1], items[2]),
        ))
    }
}

/// Do < for either 2 or 3 values
pub fn lt(items: &Vec<&Value>) -> Result<Value, Error> {
    compare(js_op::abstract_lt, items)
}

/// Do <= for either 2 or 3 values
pub fn lte(items: &Vec<&Value>) -> Result<Value, Error> {
    compare(js_op::abstract_lte, items)
}

/// Do > for either 2 or 3 values
pub fn gt(items: &Vec<&Value>) -> Result<Value, Error> {
    compare(js_op::abstract_gt, items)
}

/// Do >= for either 2 or 3 values
pub fn gte(items: &Vec<&Value>) -> Result<Value, Error> {
    compare(js_op::abstract_gte, items)
}

/// Perform subtraction or convert a number to a negative
pub fn minus(items: &Vec<&Value>) -> Result<Value, Error> {
    let value = if items.len() == 1 {
        js_op::to_negative(items[0])?
    } else {
        js_op::abstract_minus(items[0], items[1])?
    };
    to_number_value(value)
}
