//! String Operations

use serde_json::Value;
use std::cmp;
use std::convert::TryInto;

use crate::error::Error;
use crate::js_op;
use crate::NULL;

/// Concatenate strings.
///
/// Note: the reference implementation just uses JS' builtin string
/// concatenation with implicit casting, so e.g. `cast("foo", {})`
/// evaluates to `"foo[object Object]". Here we explicitly require all
/// arguments to be strings, because the specification explicitly defines
/// `cat` as a string operation.
pub fn cat(items: &Vec<&Value>) -> Result<Value, Error> {
    let mut rv = String::from("");
    items
        .into_iter()
        .map(|i| match i {
            Value::String(i_string) => Ok(i_string.clone()),
            _ => Ok(js_op::to_string(i)),
        })
        .fold(Ok(&mut rv), |acc: Result<&mut String, Error>, i| {
            let rv = acc?;
            rv.push_str(&i?);
            Ok(rv)
        })?;
    Ok(Value::String(rv))
}

/// Get a substring by index
///
/// Note: the reference implementation casts the first argument to a string,
/// but since the specification explicitly defines this as a string operation,
/// the argument types are enforced here to avoid unpredictable behavior.
pub fn substr(items: &Vec<&Value>) -> Result<Value, Error> {
    // We can only have 2 or 3 arguments. Number of arguments is validated elsewhere.
    let (string_arg, idx_arg) = (items[0], items[1]);
    let limit_opt: Option<&Value>;
    if items.len() > 2 {
        limit_opt = Some(items[2]);
    } else {
        limit_opt = None;
    }

    let string = match string_arg {
        Value::String(s) => s,
        _ => {
            return Err(Error::InvalidArgument {
                value: string_arg.clone(),
                operation: "substr".into(),
                reason: "First argument to substr must be a string".into(),
            })
        }
    };
    let idx = match idx_arg {
        Value::Number(n) => {
            if let Some(int) = n.as_i64() {
                int
            } else {
                return Err(Error::InvalidArgument {
                    value: idx_arg.clone(),
                    operation: "substr".into(),
                    reason: "Second argument to substr must be an integer".into(),
                });
            }
        }
        _ => {
            return Err(Error::InvalidArgument {
                value: idx_arg.clone(),
                operation: "substr".into(),
                reason: "Second argument to substr must be a number".into(),
            })
        }
    };
    let limit = limit_opt
        .map(|limit_arg| match limit_arg {
            Value::Number(n) => {
                if let Some(int) = n.as_i64() {
                    Ok(int)
                } else {
                    Err(Error::InvalidArgument {
                        value: limit_arg.clone(),
                        operation: "substr".into(),
                        reason: "Optional third argument to substr must be an integer".into(),
                    })
                }
            }
            _ => Err(Error::InvalidArgument {
                value: limit_arg.clone(),
                operation: "substr".into(),
                reason: "Optional third argument to substr must be a number".into(),
            }),
        })
        .transpose()?;

    let string_len = string.chars().count();

    let idx_abs: usize = idx.unsigned_abs().try_into().map_err(|e| Error::InvalidArgument {
        value: idx_arg.clone(),
        operation: "substr".into(),
        reason: format!(
            "The number {} is too large to index strings on this system",
            e
        ),
    })?;
    let start_idx = match idx {
        // If the index is negative it means "number of characters prior to the
        // end of the string from which to start", and corresponds to the string
        // length minus the index.
        idx if idx < 0 => string_len.checked_sub(idx_abs).unwrap_or(0),
        // A positive index is simply the starting point. Max starting point
        // is the length, which will yield an empty string.
        _ => cmp::min(string_len, idx_abs),
    };

    let end_idx = match limit {
        None => string_len,
        Some(l) => {
            let limit_abs: usize = l.unsigned_abs().try_into().map_err(|e| Error::InvalidArgument {
                value: limit_opt.or(Some(&NULL)).map(|v| v.clone()).unwrap(),
                operation: "substr".into(),
                reason: format!(
                    "The number {} is too large to index strings on this system",
                    e
                ),
            })?;
            match l {
                // If the limit is negative, it means "characters before the end
                // at which to stop", corresponding to an index of either 0 or
                // the length of the string minus the limit.
                l if l < 0 => string_len.checked_sub(limit_abs).unwrap_or(0),
                // A positive limit indicates the number of characters to take,
                // so it corresponds to an index of the start index plus the
                // limit (with a maximum value of the string length).
                _ => cmp::min(
                    string_len,
                    start_idx.checked_add(limit_abs).unwrap_or(string_len),
                ),
            }
        }
    };

    let count_in_substr = end_idx.checked_sub(start_idx).unwrap_or(0);

    // Iter over our expected count rather than indexing directly to avoid
    // potential panics if any of our math is wrong.
    Ok(Value::String(
        string
            .chars()
            .skip(start_idx)
            .take(count_in_substr)
            .collect(),
    ))
}
