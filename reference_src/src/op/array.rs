//! Array Operations
//!
//! Note that some array operations also operate on strings as arrays
//! of characters.

use serde_json::{Map, Number, Value};

use crate::error::Error;
use crate::op::logic;
use crate::value::{Evaluated, Parsed};

/// Map an operation onto values
pub fn map(data: &Value, args: &Vec<&Value>) -> Result<Value, Error> {
    let (items, expression) = (args[0], args[1]);

    let _parsed = Parsed::from_value(items)?;
    let evaluated_items = _parsed.evaluate(data)?;

    let values: Vec<&Value> = match evaluated_items {
        Evaluated::New(Value::Array(ref vals)) => vals.iter().collect(),
        Evaluated::Raw(Value::Array(vals)) => vals.iter().collect(),
        // null is treated as an empty array in the reference tests,
        // for whatever reason
        Evaluated::New(Value::Null) => vec![],
        Evaluated::Raw(Value::Null) => vec![],
        _ => {
            return Err(Error::InvalidArgument {
                value: args[0].clone(),
                operation: "map".into(),
                reason: format!(
                    "First argument to map must evaluate to an array. Got {:?}",
                    evaluated_items
                ),
            })
        }
    };

    let parsed_expression = Parsed::from_value(expression)?;

    values
        .iter()
        .map(|v| parsed_expression.evaluate(v).map(Value::from))
        .collect::<Result<Vec<Value>, Error>>()
        .map(Value::Array)
}

/// Filter values by some predicate
pub fn filter(data: &Value, args: &Vec<&Value>) -> Result<Value, Error> {
    let (items, expression) = (args[0], args[1]);

    let _parsed = Parsed::from_value(items)?;
    let evaluated_items = _parsed.evaluate(data)?;

    let values: Vec<Value> = match evaluated_items {
        Evaluated::New(Value::Array(vals)) => vals,
        Evaluated::Raw(Value::Array(vals)) => {
            vals.into_iter().map(|v| v.clone()).collect()
        }
        // null is treated as an empty array in the reference tests,
        // for whatever reason
        Evaluated::New(Value::Null) => vec![],
        Evaluated::Raw(Value::Null) => vec![],
        _ => {
            return Err(Error::InvalidArgument {
                value: args[0].clone(),
                operation: "map".into(),
                reason: format!(
                    "First argument to filter must evaluate to an array. Got {:?}",
                    evaluated_items
                ),
            })
        }
    };

    let parsed_expression = Parsed::from_value(expression)?;

    let value_vec: Vec<Value> = Vec::with_capacity(values.len());
    values
        .into_iter()
        .fold(Ok(value_vec), |acc, cur| {
            let mut filtered = acc?;
            let predicate = parsed_expression.evaluate(&cur)?;

            match logic::truthy_from_evaluated(&predicate) {
                true => {
                    filtered.push(cur);
                    Ok(filtered)
                }
                false => Ok(filtered),
            }
        })
        .map(Value::Array)
}

/// Reduce values into a single result
///
/// Note this differs from the reference implementation of jsonlogic
/// (but not the spec), in that it evaluates the initializer as a
/// jsonlogic expression rather than a raw value.
pub fn reduce(data: &Value, args: &Vec<&Value>) -> Result<Value, Error> {
    let (items, expression, initializer) = (args[0], args[1], args[2]);

    let _parsed_items = Parsed::from_value(items)?;
    let evaluated_items = _parsed_items.evaluate(data)?;

    let _parsed_initializer = Parsed::from_value(initializer)?;
    let evaluated_initializer = _parsed_initializer.evaluate(data)?;

    let values: Vec<Value> = match evaluated_items {
        Evaluated::New(Value::Array(vals)) => vals,
        Evaluated::Raw(Value::Array(vals)) => vals.iter().map(|v| v.clone()).collect(),
        // null is treated as an empty array in the reference tests,
        // for whatever reason
        Evaluated::New(Value::Null) => vec![],
        Evaluated::Raw(Value::Null) => vec![],
        _ => {
            return Err(Error::InvalidArgument {
                value: args[0].clone(),
                operation: "map".into(),
                reason: format!(
                    "First argument to filter must evaluate to an array. Got {:?}",
                    evaluated_items
                ),
            })
        }
    };

    let parsed_expression = Parsed::from_value(expression)?;

    values
        .into_iter()
        .fold(Ok(Value::from(evaluated_initializer)), |acc, cur| {
            let accumulator = acc?;
            let mut data = Map::with_capacity(2);
            data.insert("current".into(), cur);
            data.insert("accumulator".into(), accumulator);

            parsed_expression
                .evaluate(&Value::Object(data))
                .map(Value::from)
        })
}

/// Return whether all members of an array or string satisfy a predicate.
///
/// The predicate does not need to return true or false explicitly. Its
/// return is evaluated using the "truthy" definition specified in the
/// jsonlogic spec.
pub fn all(data: &Value, args: &Vec<&Value>) -> Result<Value, Error> {
    let (first_arg, second_arg) = (args[0], args[1]);

    // The first argument must be an array of values or a string of chars
    // We won't bother parsing yet if the value is anything other than
    // an object, because we can short-circuit this function if any of
    // the items fail to match the predicate. However, we will parse
    // if it's an object, in case it evaluates to a string or array, which
    // we will then pass on

    // Only the elements of a literal array are rule text that still needs
    // evaluating. The elements of a computed collection are data.
    let items_are_rule_text = match first_arg {
        Value::Array(_) => true,
        _ => false,
    };

    let _new_item: Value;
    let potentially_evaled_first_arg = match first_arg {
        Value::Object(_) => {
            let parsed = Parsed::from_value(first_arg)?;
            let evaluated = parsed.evaluate(data)?;
            _new_item = evaluated.into();
            &_new_item
        }
        _ => first_arg,
    };

    let _new_arr: Vec<Value>;
    let items = match potentially_evaled_first_arg {
        Value::Array(items) => items,
        Value::String(string) => {
            _new_arr = string
                .chars()
                .into_iter()
                .map(|c| Value::String(c.to_string()))
                .collect();
            &_new_arr
        }
        Value::Null => {
            _new_arr = Vec::new();
            &_new_arr
        }
        _ => {
            return Err(Error::InvalidArgument {
                value: first_arg.clone(),
                operation: "all".into(),
                reason: format!(
                "First argument to all must evaluate to an array, string, or null, got {}",
                potentially_evaled_first_arg
            ),
            })
        }
    };

    // Special-case the empty array, since it for some reason is specified
    // to return false.
    if items.len() == 0 {
        return Ok(Value::Bool(false));
    }

    // Note we _expect_ the predicate to be an operator, but it doesn't
    // necessarily have to be. all([1, 2, 3], 1) is a valid operation,
    // returning 1 for each of the items and thus evaluating to true.
    let predicate = Parsed::from_value(second_arg)?;

    let result = items.into_iter().fold(Ok(true), |acc, i| {
        acc.and_then(|res| {
            // "Short-circuit": return false if the previous eval was false
            if !res {
                return Ok(false);
            };
            // Evaluate each item as we go, in case we can short-circuit
            let evaluated_item: Value = if items_are_rule_text {
                let _parsed_item = Parsed::from_value(i)?;
                _parsed_item.evaluate(data)?.into()
            } else {
                i.clone()
            };
            Ok(logic::truthy_from_evaluated(
                &predicate.evaluate(&evaluated_item)?,
            ))
        })
    })?;

    Ok(Value::Bool(result))
}

/// Return whether some members of an array or string satisfy a predicate.
///
/// The predicate does not need to return true or false explicitly. Its
/// return is evaluated using the "truthy" definition specified in the
/// jsonlogic spec.
pub fn some(data: &Value, args: &Vec<&Value>) -> Result<Value, Error> {
    let (first_arg, second_arg) = (args[0], args[1]);

    // The first argument must be an array of values or a string of chars
    // We won't bother parsing yet if the value is anything other than
    // an object, because we can short-circuit this function if any of
    // the items fail to match the predicate. However, we will parse
    // if it's an object, in case it evaluates to a string or array, which
    // we will then pass on

    // Only the elements of a literal array are rule text that still needs
    // evaluating. The elements of a computed collection are data.
    let items_are_rule_text = match first_arg {
        Value::Array(_) => true,
        _ => false,
    };

    let _new_item: Value;
    let potentially_evaled_first_arg = match first_arg {
        Value::Object(_) => {
            let parsed = Parsed::from_value(first_arg)?;
            let evaluated = parsed.evaluate(data)?;
            _new_item = evaluated.into();
            &_new_item
        }
        _ => first_arg,
    };

    let _new_arr: Vec<Value>;
    let items = match potentially_evaled_first_arg {
        Value::Array(items) => items,
        Value::String(string) => {
            _new_arr = string
                .chars()
                .into_iter()
                .map(|c| Value::String(c.to_string()))
                .collect();
            &_new_arr
        }
        Value::Null => {
            _new_arr = Vec::new();
            &_new_arr
        }
        _ => {
            return Err(Error::InvalidArgument {
                value: first_arg.clone(),
                operation: "all".into(),
                reason: format!(
                "First argument must evaluate to an array, a string, or null, got {}",
                potentially_evaled_first_arg
            ),
            })
        }
    };

    // Special-case the empty array, since it for some reason is specified
    // to return false.
    if items.len() == 0 {
        return Ok(Value::Bool(false));
    }

    // Note we _expect_ the predicate to be an operator, but it doesn't
    // necessarily have to be. all([1, 2, 3], 1) is a valid operation,
    // returning 1 for each of the items and thus evaluating to true.
    let predicate = Parsed::from_value(second_arg)?;

    let result = items.into_iter().fold(Ok(false), |acc, i| {
        acc.and_then(|res| {
            // "Short-circuit": return false if the previous eval was false
            if res {
                return Ok(true);
            };
            // Evaluate each item as we go, in case we can short-circuit
            let evaluated_item: Value = if items_are_rule_text {
                let _parsed_item = Parsed::from_value(i)?;
                _parsed_item.evaluate(data)?.into()
            } else {
                i.clone()
            };
            Ok(logic::truthy_from_evaluated(
                &predicate.evaluate(&evaluated_item)?,
            ))
        })
    })?;

    Ok(Value::Bool(result))
}

/// Return whether no members of an array or string satisfy a predicate.
///
/// The predicate does not need to return true or false explicitly. Its
/// return is evaluated using the "truthy" definition specified in the
/// jsonlogic spec.
pub fn none(data: &Value, args: &Vec<&Value>) -> Result<Value, Error> {
    some(data, args).and_then(|had_some| match had_some {
        Value::Bool(res) => Ok(Value::Bool(!res)),
        _ => Err(Error::UnexpectedError(
            "Unexpected return type from op_some".into(),
        )),
    })
}

/// Merge one to n arrays, flattening them by one level.
///
/// Values that are not arrays are (effectively) converted to arrays
/// before flattening.
pub fn merge(items: &Vec<&Value>) -> Result<Value, Error> {
    let rv_vec: Vec<Value> = Vec::new();
    Ok(Value::Array(items.into_iter().fold(
        rv_vec,
        |mut acc, i| {
            match i {
                Value::Array(i_vals) => {
                    i_vals.into_iter().for_each(|val| acc.push((*val).clone()));
                }
                _ => acc.push((**i).clone()),
            };
            acc
        },
    )))
}

/// Numeric equality by value, whatever the JSON spelling of the numbers
fn number_eq(first: &Number, second: &Number) -> bool {
    fn as_int(num: &Number) -> Option<i128> {
        num.as_u64()
            .map(i128::from)
            .or_else(|| num.as_i64().map(i128::from))
            .or_else(|| {
                num.as_f64()
                    .filter(|f| f.fract() == 0.0 && f.abs() < 1e30)
                    .map(|f| f as i128)
            })
    }
    match (as_int(first), as_int(second)) {
        (Some(x), Some(y)) => x == y,
        (None, None) => first.as_f64() == second.as_f64(),
        _ => false,
    }
}

/// Structural equality of JSON values, comparing numbers by value
fn deep_eq(first: &Value, second: &Value) -> bool {
    match (first, second) {
        (Value::Number(x), Value::Number(y)) => number_eq(x, y),
        (Value::Array(x), Value::Array(y)) => {
            x.len() == y.len() && x.iter().zip(y.iter()).all(|(a, b)| deep_eq(a, b))
        }
        (Value::Object(x), Value::Object(y)) => {
            x.len() == y.len()
                && x.iter()
                    .all(|(key, a)| y.get(key).map_or(false, |b| deep_eq(a, b)))
        }
        _ => first == second,
    }
}

/// Perform containment checks with "in"
// TODO: make this a lazy operator, since we don't need to parse things
// later on in the list if we find something that matches early.
pub fn in_(items: &Vec<&Value>) -> Result<Value, Error> {
    let needle = items[0];
    let haystack = items[1];

    match haystack {
        // Note: our containment check for array values is actually a bit
        // more robust than JS. This by default does array equality (e.g.
        // `[[1,2], [3,4]].contains([1,2]) == true`), as well as object
        // equality (e.g. `[{"a": "b"}].contains({"a": "b"}) == true`).
        // Given that anyone relying on this behavior in the existing jsonlogic
        // implementation is relying on broken, undefined behavior, it seems
        // okay to update that behavior to work in a more intuitive way.
        Value::Null => Ok(Value::Bool(false)),
        Value::Array(possibles) => Ok(Value::Bool(
            possibles.iter().any(|possible| deep_eq(possible, needle)),
        )),
        Value::String(haystack_string) => {
            // Note: the reference implementation uses the regular old
            // String.prototype.indexOf() function to check for containment,
            // but that does JS type coercion, leading to crazy things like
            // `"foo[object Object]".indexOf({}) === 3`. Since the MDN docs
            // _explicitly_ say that the argument to indexOf should be a string,
            // we're going to take the same stance here, and throw an error
            // if the needle is a non-string for a haystack that's a string.
            let needle_string =
                match needle {
                    Value::String(needle_string) => needle_string,
                    _ => return Err(Error::InvalidArgument {
                        value: needle.clone(),
                        operation: "in".into(),
                        reason:
                            "If second argument is a string, first argument must also be a string."
                                .into(),
                    }),
                };
            Ok(Value::Bool(haystack_string.contains(needle_string)))
        }
        _ => Err(Error::InvalidArgument {
            value: haystack.clone(),
            operation: "in".into(),
            reason: "Second argument must be an array or a string".into(),
        }),
    }
}
