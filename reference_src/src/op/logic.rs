//! Boolean Logic Operations

use serde_json::Value;

use crate::error::Error;
use crate::value::{Evaluated, Parsed};
use crate::NULL;

/// Implement the "if" operator
///
/// The base case works like: [condition, true, false]
/// However, it can lso work like:
///     [condition, true, condition2, true2, false2]
///     for an if/elseif/else type of operation
pub fn if_(data: &Value, args: &Vec<&Value>) -> Result<Value, Error> {
    // Special case incorrect arguments. These are not defined in the
    // specification, but they are defined in the test cases.
    match args.len() {
        0 => {
            return Ok(NULL);
        }
        // It's not totally clear to me why this would be the behavior,
        // rather than returning NULL regardless of how the single argument
        // evaluates, but this is I can gather is the expected behavior
        // from the tests.
        1 => {
            let parsed = Parsed::from_value(args[0])?;
            let evaluated = parsed.evaluate(&data)?;
            return Ok(evaluated.into());
        }
        _ => {}
    }

    args.into_iter()
        .enumerate()
        // Our accumulator is:
        //  - last conditional evaluation value,
        //  - whether that evaluation is truthy,
        //  - whether we know we should return without further evaluation
        .fold(Ok((NULL, false, false)), |last_res, (i, val)| {
            let (last_eval, was_truthy, should_return) = last_res?;
            // We hit a final value already
            if should_return {
                Ok((last_eval, was_truthy, should_return))
            }
            // Potential false-value, initial evaluation, or else-if clause
            else if i % 2 == 0 {
                let parsed = Parsed::from_value(val)?;
                let eval = parsed.evaluate(data)?;
                let is_truthy = match eval {
                    Evaluated::New(ref v) => truthy(v),
                    Evaluated::Raw(v) => truthy(v),
                };
                // We're not sure we're the return value, so don't
                // force a return.
                Ok((eval.into(), is_truthy, false))
            }
            // We're a possible true-value
            else {
                // If there was a previous evaluation and it was truthy,
                // return, and indicate we're a final value.
                if was_truthy {
                    let parsed = Parsed::from_value(val)?;
                    let t_eval = parsed.evaluate(data)?;
                    Ok((Value::from(t_eval), true, true))
                } else {
                    // Return a null for the last eval to handle cases
                    // where there is an incorrect number of arguments.
                    Ok((NULL, was_truthy, should_return))
                }
            }
        })
        .map(|rv| rv.0)
}

/// Perform short-circuiting or evaluation
pub fn or(data: &Value, args: &Vec<&Value>) -> Result<Value, Error> {
    enum OrResult {
        Uninitialized,
        Truthy(Value),
        Current(Value),
    }

    let eval =
        args.into_iter()
            .fold(Ok(OrResult::Uninitialized), |last_res, current| {
                let last_eval = last_res?;

                // if we've found a truthy value, don't evaluate anything else
                if let OrResult::Truthy(_) = last_eval {
                    return Ok(last_eval);
                }

                let parsed = Parsed::from_value(current)?;
                let evaluated = parsed.evaluate(data)?;

                if truthy_from_evaluated(&evaluated) {
                    return Ok(OrResult::Truthy(evaluated.into()));
                }

                Ok(OrResult::Current(evaluated.into()))
            })?;

    match eval {
        OrResult::Truthy(v) => Ok(v),
        OrResult::Current(v) => Ok(v),
        _ => Err(Error::UnexpectedError(
            "Or operation had no values to operate on".into(),
        )),
    }
}

/// Perform short-circuiting and evaluation
pub fn and(data: &Value, args: &Vec<&Value>) -> Result<Value, Error> {
    enum AndResult {
        Uninitialized,
        Falsey(Value),
        Current(Value),
    }

    let eval =
        args.into_iter()
            .fold(Ok(AndResult::Uninitialized), |last_res, current| {
                let last_eval = last_res?;

                if let AndResult::Falsey(_) = last_eval {
                    return Ok(last_eval);
                }

                let parsed = Parsed::from_value(current)?;
                let evaluated = parsed.evaluate(data)?;

                if !truthy_from_evaluated(&evaluated) {
                    return Ok(AndResult::Falsey(evaluated.into()));
                }

                Ok(AndResult::Current(evaluated.into()))
            })?;

    match eval {
        AndResult::Falsey(v) => Ok(v),
        AndResult::Current(v) => Ok(v),
        _ => Err(Error::UnexpectedError(
            "And operation had no values to operate on".into(),
        )),
    }
}

pub fn truthy_from_evaluated(evaluated: &Evaluated) -> bool {
    match evaluated {
        Evaluated::New(ref v) => truthy(v),
        Evaluated::Raw(v) => truthy(v),
    }
}

/// Return whether a value is "truthy" by the JSONLogic spec
///
/// The spec (http://jsonlogic.com/truthy) defines truthy values that
/// diverge slightly from raw JavaScript. This ensures a matching
/// interpretation.
///
/// In general, the spec specifies that values are truthy or falsey
/// depending on their containing something, e.g. non-zero integers,
/// non-zero length strings, and non-zero length arrays are truthy.
/// This does not apply to objects, which are always truthy.
pub fn truthy(val: &Value) -> bool {
    match val {
        Value::Null => false,
        Value::Bool(v) => *v,
        Value::Number(v) => v
            .as_f64()
            .map(|v_num| if v_num == 0.0 { false } else { true })
            .unwrap_or(false),
        Value::String(v) => {
            if v == "" {
                false
            } else {
                true
            }
        }
        Value::Array(v) => {
            if v.len() == 0 {
                false
            } else {
                true
            }
        }
        Value::Object(_) => true,
    }
}

#[cfg(test)]
mod test_truthy {
    use super::*;
    use serde_json::json;

    #[test]
    fn test_truthy() {
        let trues = [
            json!(true),
            json!([1]),
            json!([1, 2]),
            json!({}),
            json!({"a": 1}),
            json!(1),
            json!(-1),
            json!("foo"),
        ];

        let falses = [json!(false), json!([]), json!(""), json!(0), json!(null)];

        trues.iter().for_each(|v| assert!(truthy(&v)));
        falses.iter().for_each(|v| assert!(!truthy(&v)));
    }
}
