//! Operators
//!
//! This module contains the global operator map, which defines the available
//! JsonLogic operations. Note that some "operations", notably data-related
//! operations like "var" and "missing", are not included here, because they are
//! implemented as parsers rather than operators.

// TODO: it's possible that "missing", "var", et al. could be implemented
// as operators. They were originally done differently because there wasn't
// yet a LazyOperator concept.

use phf::phf_map;
use serde_json::{Map, Value};
use std::fmt;

use crate::error::Error;
use crate::value::to_number_value;
use crate::value::{Evaluated, Parsed};
use crate::{js_op, Parser};

mod array;
mod data;
mod impure;
mod logic;
mod numeric;
mod string;

pub const OPERATOR_MAP: phf::Map<&'static str, Operator> = phf_map! {
    "==" => Operator {
        symbol: "==",
        operator: |items| Ok(Value::Bool(js_op::abstract_eq(items[0], items[1]))),
        num_params: NumParams::Exactly(2)},
    "!=" => Operator {
        symbol: "!=",
        operator: |items| Ok(Value::Bool(js_op::abstract_ne(items[0], items[1]))),
        num_params: NumParams::Exactly(2)},
    "===" => Operator {
        symbol: "===",
        operator: |items| Ok(Value::Bool(js_op::strict_eq(items[0], items[1]))),
        num_params: NumParams::Exactly(2)},
    "!==" => Operator {
        symbol: "!==",
        operator: |items| Ok(Value::Bool(js_op::strict_ne(items[0], items[1]))),
        num_params: NumParams::Exactly(2)},
    // Note: the ! and !! behavior conforms to the specification, but not the
    // reference implementation. The specification states: "Note: unary
    // operators can also take a single, non array argument." However,
    // if a non-unary array of arguments is passed to `!` or `!!` in the
    // reference implementation, it treats them as though they were a unary
    // array argument. I have chosen to conform to the spec because it leads
    // to less surprising behavior. I also think that the idea of taking
    // non-array unary arguments is ridiculous, particularly given that
    // the homepage of jsonlogic _also_ states that a "Virtue" of jsonlogic
    // is that it is "Consistent. `{"operator" : ["values" ... ]}` Always"
    "!" => Operator {
        symbol: "!",
        operator: |items| Ok(Value::Bool(!logic::truthy(items[0]))),
        num_params: NumParams::Unary,
    },
    "!!" => Operator {
        symbol: "!!",
        operator: |items| Ok(Value::Bool(logic::truthy(items[0]))),
        num_params: NumParams::Unary,
    },
    "<" => Operator {
        symbol: "<",
        operator: numeric::lt,
        num_params: NumParams::Variadic(2..4),
    },
    "<=" => Operator {
        symbol: "<=",
        operator: numeric::lte,
        num_params: NumParams::Variadic(2..4),
    },
    // Note: this is actually an _expansion_ on the specification and the
    // reference implementation. The spec states that < and <= can be used
    // for 2-3 arguments, with 3 arguments doing a "between" style test,
    // e.g. `1 < 2 < 3 == true`. However, this isn't explicitly supported
    // for > and >=, and the reference implementation simply ignores any
    // third value for these operators. This to me violates the principle
    // of least surprise, so we do support those operations.
    ">" => Operator {
        symbol: ">",
        operator: numeric::gt,
        num_params: NumParams::Variadic(2..4),
    },
    ">=" => Operator {
        symbol: ">=",
        operator: numeric::gte,
        num_params: NumParams::Variadic(2..4),
    },
    "+" => Operator {
        symbol: "+",
        operator: |items| js_op::parse_float_add(items).and_then(to_number_value),
        num_params: NumParams::Any,
    },
    "-" => Operator {
        symbol: "-",
        operator: numeric::minus,
        num_params: NumParams::Variadic(1..3),
    },
    "*" => Operator {
        symbol: "*",
        operator: |items| js_op::parse_float_mul(items).and_then(to_number_value),
        num_params: NumParams::AtLeast(1),
    },
    "/" => Operator {
        symbol: "/",
        operator: |items| js_op::abstract_div(items[0], items[1])
            .and_then(to_number_value),
        num_params: NumParams::Exactly(2),
    },
    "%" => Operator {
        symbol: "%",
        operator: |items| js_op::abstract_mod(items[0], items[1])
            .and_then(to_number_value),
        num_params: NumParams::Exactly(2),
    },
    "max" => Operator {
        symbol: "max",
        operator: |items| js_op::abstract_max(items)
            .and_then(to_number_value),
        num_params: NumParams::AtLeast(1),
    },
    "min" => Operator {
        symbol: "min",
        operator: |items| js_op::abstract_min(items)
            .and_then(to_number_value),
        num_params: NumParams::AtLeast(1),
    },
    "merge" => Operator {
        symbol: "merge",
        operator: array::merge,
        num_params: NumParams::Any,
    },
    "in" => Operator {
        symbol: "in",
        operator: array::in_,
        num_params: NumParams::Exactly(2),
    },
    "cat" => Operator {
        symbol: "cat",
        operator: string::cat,
        num_params: NumParams::Any,
    },
    "substr" => Operator {
        symbol: "substr",
        operator: string::substr,
        num_params: NumParams::Variadic(2..4),
    },
    "log" => Operator {
        symbol: "log",
        operator: impure::log,
        num_params: NumParams::Unary,
    },
};

pub const DATA_OPERATOR_MAP: phf::Map<&'static str, DataOperator> = phf_map! {
    "var" => DataOperator {
        symbol: "var",
        operator: data::var,
        num_params: NumParams::Variadic(0..3)
    },
    "missing" => DataOperator {
        symbol: "missing",
        operator: data::missing,
        num_params: NumParams::Any,
    },
    "missing_some" => DataOperator {
        symbol: "missing_some",
        operator: data::missing_some,
        num_params: NumParams::Exactly(2),
    },
};

pub const LAZY_OPERATOR_MAP: phf::Map<&'static str, LazyOperator> = phf_map! {
    // Logical operators
    "if" => LazyOperator {
        symbol: "if",
        operator: logic::if_,
        num_params: NumParams::Any,
    },
    // Note this operator isn't defined in the specification, but is
    // present in the tests as what looks like an alias for "if".
    "?:" => LazyOperator {
        symbol: "?:",
        operator: logic::if_,
        num_params: NumParams::Any,
    },
    "or" => LazyOperator {
        symbol: "or",
        operator: logic::or,
        num_params: NumParams::AtLeast(1),
    },
    "and" => LazyOperator {
        symbol: "and",
        operator: logic::and,
        num_params: NumParams::AtLeast(1),
    },
    "map" => LazyOperator {
        symbol: "map",
        operator: array::map,
        num_params: NumParams::Exactly(2),
    },
    "filter" => LazyOperator {
        symbol: "filter",
        operator: array::filter,
        num_params: NumParams::Exactly(2),
    },
    "reduce" => LazyOperator {
        symbol: "reduce",
        operator: array::reduce,
        num_params: NumParams::Exactly(3),
    },
    "all" => LazyOperator {
        symbol: "all",
        operator: array::all,
        num_params: NumParams::Exactly(2),
    },
    "some" => LazyOperator {
        symbol: "some",
        operator: array::some,
        num_params: NumParams::Exactly(2),
    },
    "none" => LazyOperator {
        symbol: "none",
        operator: array::none,
        num_params: NumParams::Exactly(2),
    },
};

#[derive(Debug, Clone)]
pub enum NumParams {
    None,
    Any,
    Unary,
    Exactly(usize),
    AtLeast(usize),
    Variadic(std::ops::Range<usize>), // [inclusive, exclusive)
}
impl NumParams {
    fn is_valid_len(&self, len: &usize) -> bool {
        match self {
            Self::None => len == &0,
            Self::Any => true,
            Self::Unary => len == &1,
            Self::AtLeast(num) => len >= num,
            Self::Exactly(num) => len == num,
            Self::Variadic(range) => range.contains(len),
        }
    }
    fn check_len<'a>(&self, len: &'a usize) -> Result<&'a usize, Error> {
        match self.is_valid_len(len) {
            true => Ok(len),
            false => Err(Error::WrongArgumentCount {
                expected: self.clone(),
                actual: len.clone(),
            }),
        }
    }
    fn can_accept_unary(&self) -> bool {
        match self {
            Self::None => false,
            Self::Any => true,
            Self::Unary => true,
            Self::AtLeast(num) => num >= &1,
            Self::Exactly(num) => num == &1,
            Self::Variadic(range) => range.contains(&1),
        }
    }
}

trait CommonOperator {
    fn param_info(&self) -> &NumParams;
}

pub struct Operator {
    symbol: &'static str,
    operator: OperatorFn,
    num_params: NumParams,
}
impl Operator {
    pub fn execute(&self, items: &Vec<&Value>) -> Result<Value, Error> {
        (self.operator)(items)
    }
}
impl CommonOperator for Operator {
    fn param_info(&self) -> &NumParams {
        &self.num_params
    }
}
impl fmt::Debug for Operator {
    fn fmt(&self, f: &mut fmt::Formatter<'_>) -> fmt::Result {
        f.debug_struct("Operator")
            .field("symbol", &self.symbol)
            .field("operator", &"<operator fn>")
            .finish()
    }
}

pub struct LazyOperator {
    symbol: &'static str,
    operator: LazyOperatorFn,
    num_params: NumParams,
}
impl LazyOperator {
    pub fn execute(&self, data: &Value, items: &Vec<&Value>) -> Result<Value, Error> {
        (self.operator)(data, items)
    }
}
impl CommonOperator for LazyOperator {
    fn param_info(&self) -> &NumParams {
        &self.num_params
    }
}
impl fmt::Debug for LazyOperator {
    fn fmt(&self, f: &mut fmt::Formatter<'_>) -> fmt::Result {
        f.debug_struct("Operator")
            .field("symbol", &self.symbol)
            .field("operator", &"<operator fn>")
            .finish()
    }
}

/// An operator that operates on passed in data.
///
/// Data operators' arguments can be lazily evaluated, but unlike
/// regular operators, they still need access to data even after the
/// evaluation of their arguments.
pub struct DataOperator {
    symbol: &'static str,
    operator: DataOperatorFn,
    num_params: NumParams,
}
impl DataOperator {
    pub fn execute(&self, data: &Value, items: &Vec<&Value>) -> Result<Value, Error> {
        (self.operator)(data, items)
    }
}
impl CommonOperator for DataOperator {
    fn param_info(&self) -> &NumParams {
        &self.num_params
    }
}
impl fmt::Debug for DataOperator {
    fn fmt(&self, f: &mut fmt::Formatter<'_>) -> fmt::Result {
        f.debug_struct("Operator")
            .field("symbol", &self.symbol)
            .field("operator", &"<operator fn>")
            .finish()
    }
}

type OperatorFn = fn(&Vec<&Value>) -> Result<Value, Error>;
type LazyOperatorFn = fn(&Value, &Vec<&Value>) -> Result<Value, Error>;
type DataOperatorFn = fn(&Value, &Vec<&Value>) -> Result<Value, Error>;

/// An operation that doesn't do any recursive parsing or evaluation.
///
/// Any operator functions used must handle parsing of values themselves.
#[derive(Debug)]
pub struct LazyOperation<'a> {
    operator: &'a LazyOperator,
    arguments: Vec<Value>,
}
impl<'a> Parser<'a> for LazyOperation<'a> {
    fn from_value(value: &'a Value) -> Result<Option<Self>, Error> {
        op_from_map(&LAZY_OPERATOR_MAP, value).and_then(|opt| {
            opt.map(|op| {
                Ok(LazyOperation {
                    operator: op.op,
                    arguments: op.args.into_iter().map(|v| v.clone()).collect(),
                })
            })
            .transpose()
        })
    }

    fn evaluate(&self, data: &'a Value) -> Result<Evaluated, Error> {
        self.operator
            .execute(data, &self.arguments.iter().collect())
            .map(Evaluated::New)
    }
}

impl From<LazyOperation<'_>> for Value {
    fn from(op: LazyOperation) -> Value {
        let mut rv = Map::with_capacity(1);
        rv.insert(
            op.operator.symbol.into(),
            Value::Array(op.arguments.clone()),
        );
        Value::Object(rv)
    }
}

#[derive(Debug)]
pub struct Operation<'a> {
    operator: &'a Operator,
    arguments: Vec<Parsed<'a>>,
}
impl<'a> Parser<'a> for Operation<'a> {
    fn from_value(value: &'a Value) -> Result<Option<Self>, Error> {
        op_from_map(&OPERATOR_MAP, value).and_then(|opt| {
            opt.map(|op| {
                Ok(Operation {
                    operator: op.op,
                    arguments: Parsed::from_values(op.args)?,
                })
            })
            .transpose()
        })
    }

    /// Evaluate the operation after recursively evaluating any nested operations
    fn evaluate(&self, data: &'a Value) -> Result<Evaluated, Error> {
        let arguments = self
            .arguments
            .iter()
            .map(|value| value.evaluate(data).map(Value::from))
            .collect::<Result<Vec<Value>, Error>>()?;
        self.operator
            .execute(&arguments.iter().collect())
            .map(Evaluated::New)
    }
}

impl From<Operation<'_>> for Value {
    fn from(op: Operation) -> Value {
        let mut rv = Map::with_capacity(1);
        let values = op
            .arguments
            .into_iter()
            .map(Value::from)
            .collect::<Vec<Value>>();
        rv.insert(op.operator.symbol.into(), Value::Array(values));
        Value::Object(rv)
    }
}

#[derive(Debug)]
pub struct DataOperation<'a> {
    operator: &'a DataOperator,
    arguments: Vec<Parsed<'a>>,
}
impl<'a> Parser<'a> for DataOperation<'a> {
    fn from_value(value: &'a Value) -> Result<Option<Self>, Error> {
        op_from_map(&DATA_OPERATOR_MAP, value).and_then(|opt| {
            opt.map(|op| {
                Ok(DataOperation {
                    operator: op.op,
                    arguments: Parsed::from_values(op.args)?,
                })
            })
            .transpose()
        })
    }

    /// Evaluate the operation after recursively evaluating any nested operations
    fn evaluate(&self, data: &'a Value) -> Result<Evaluated, Error> {
        let arguments = self
            .arguments
            .iter()
            .map(|value| value.evaluate(data).map(Value::from))
            .collect::<Result<Vec<Value>, Error>>()?;
        self.operator
            .execute(data, &arguments.iter().collect())
            .map(Evaluated::New)
    }
}
impl From<DataOperation<'_>> for Value {
    fn from(op: DataOperation) -> Value {
        let mut rv = Map::with_capacity(1);
        let values = op
            .arguments
            .into_iter()
            .map(Value::from)
            .collect::<Vec<Value>>();
        rv.insert(op.operator.symbol.into(), Value::Array(values));
        Value::Object(rv)
    }
}

struct OpArgs<'a, 'b, T> {
    op: &'a T,
    args: Vec<&'b Value>,
}

fn op_from_map<'a, 'b, T: CommonOperator>(
    map: &'a phf::Map<&'static str, T>,
    value: &'b Value,
) -> Result<Option<OpArgs<'a, 'b, T>>, Error> {
    let obj = match value {
        Value::Object(obj) => obj,
        _ => return Ok(None),
    };
    // With just one key.
    if obj.len() != 1 {
        return Ok(None);
    };

    // We've already validated the length to be one, so any error
    // here is super unexpected.
    let key = obj.keys().next().ok_or_else(|| {
        Error::UnexpectedError(format!(
            "could not get first key from len(1) object: {:?}",
            obj
        ))
    })?;
    let val = obj.get(key).ok_or_else(|| {
        Error::UnexpectedError(format!(
            "could not get value for key '{}' from len(1) object: {:?}",
            key, obj
        ))
    })?;

    // See if the key is an operator. If it's not, return None.
    let op = match map.get(key.as_str()) {
        Some(op) => op,
        _ => return Ok(None),
    };

    let err_for_non_unary = || {
        Err(Error::InvalidOperation {
            key: key.clone(),
            reason: "Arguments to non-unary operations must be arrays".into(),
        })
    };

    let param_info = op.param_info();
    // If args value is not an array, and the operator is unary,
    // the value is treated as a unary argument array.
    let args = match val {
        Value::Array(args) => args.iter().collect::<Vec<&Value>>(),
        _ => match param_info.can_accept_unary() {
            true => vec![val],
            false => return err_for_non_unary(),
        },
    };

    param_info.check_len(&args.len())?;

    Ok(Some(OpArgs { op, args }))
}

#[cfg(test)]
mod test_operators {
    use super::*;

    /// All operators symbols must match their keys
    #[test]
    fn test_operator_map_symbols() {
        OPERATOR_MAP
            .into_iter()
            .for_each(|(k, op)| assert_eq!(*k, op.symbol))
    }

    /// All lazy operators symbols must match their keys
    #[test]
    fn test_lazy_operator_map_symbols() {
        LAZY_OPERATOR_MAP
            .into_iter()
            .for_each(|(k, op)| assert_eq!(*k, op.symbol))
    }
}
