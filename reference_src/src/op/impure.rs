//! Impure Operations

use serde_json::Value;

use crate::error::Error;

/// Log the Operation's Value(s)
///
/// The reference implementation ignores any arguments beyond the first,
/// and the specification seems to indicate that the first argument is
/// the only one considered, so we're doing the same.
pub fn log(items: &Vec<&Value>) -> Result<Value, Error> {
    println!("{}", items[0]);
    Ok(items[0].clone())
}
