//! Data Operators

use std::borrow::Cow;
use std::convert::TryFrom;
use std::convert::TryInto;

use serde_json::Value;

use crate::error::Error;
use crate::value::Evaluated;
use crate::NULL;

/// Valid types of variable keys
enum KeyType<'a> {
    Null,
    String(Cow<'a, str>),
    Number(i64),
}
impl<'a> TryFrom<Value> for KeyType<'a> {
    type Error = Error;

    fn try_from(value: Value) -> Result<Self, Self::Error> {
        match value {
            Value::Null => Ok(Self::Null),
            Value::String(s) => Ok(Self::String(Cow::from(s))),
            Value::Number(n) => Ok(Self::Number(n.as_i64().ok_or_else(|| {
                Error::InvalidVariableKey {
                    value: Value::Number(n),
                    reason: "Numeric keys must be valid integers".into(),
                }
            })?)),
            _ => Err(Error::InvalidVariableKey {
                value: value.clone(),
                reason: "Variable keys must be strings, integers, or null".into(),
            }),
        }
    }
}
impl<'a> TryFrom<&'a Value> for KeyType<'a> {
    type Error = Error;

    fn try_from(value: &'a Value) -> Result<Self, Self::Error> {
        match value {
            Value::Null => Ok(Self::Null),
            Value::String(s) => Ok(Self::String(Cow::from(s))),
            Value::Number(n) => Ok(Self::Number(n.as_i64().ok_or_else(|| {
                Error::InvalidVariableKey {
                    value: value.clone(),
                    reason: "Numeric keys must be valid integers".into(),
                }
            })?)),
            _ => Err(Error::InvalidVariableKey {
                value: value.clone(),
                reason: "Variable keys must be strings, integers, or null".into(),
            }),
        }
    }
}
impl<'a> TryFrom<Evaluated<'a>> for KeyType<'a> {
    type Error = Error;

    fn try_from(value: Evaluated<'a>) -> Result<Self, Self::Error> {
        match value {
            Evaluated::Raw(v) => v.try_into(),
            Evaluated::New(v) => v.try_into(),
        }
    }
}

/// A get operation that supports negative indexes
fn get<T>(slice: &[T], idx: i64) -> Option<&T> {
    let vec_len = slice.len();
    let usize_idx: usize = idx.unsigned_abs().try_into().ok()?;

    let adjusted_idx = if idx >= 0 {
        usize_idx
    } else {
        vec_len.checked_sub(usize_idx)?
    };

    slice.get(adjusted_idx)
}

/// Retrieve a variable from the data
///
/// Note that the reference implementation does not support negative
/// indexing for numeric values, but we do.
pub fn var(data: &Value, args: &Vec<&Value>) -> Result<Value, Error> {
    let arg_count = args.len();
    if arg_count == 0 {
        return Ok(data.clone());
    };

    let key = args[0].try_into()?;
    let val = get_key(data, key);

    // The default has already been evaluated along with the other
    // arguments, so it must be returned as is, not interpreted again.
    Ok(val.unwrap_or(if arg_count < 2 {
        NULL
    } else {
        args[1].clone()
    }))
}

/// Check for keys that are missing from the data
pub fn missing(data: &Value, args: &Vec<&Value>) -> Result<Value, Error> {
    let mut missing_keys: Vec<Value> = Vec::new();

    // This bit of insanity is because for some reason the reference
    // implementation is tested to do this, i.e. if missing is passed
    // multiple args and the first arg is an array, _that_ array is
    // treated as the only argument.
    let inner_vec: Vec<&Value>;
    let adjusted_args = if args.len() > 0 {
        match args[0] {
            Value::Array(vals) => {
                inner_vec = vals.iter().collect();
                &inner_vec
            }
            _ => args,
        }
    } else {
        args
    };

    adjusted_args.into_iter().fold(Ok(()), |had_error, arg| {
        had_error?;
        let key: KeyType = (*arg).try_into()?;
        match key {
            KeyType::Null => Ok(()),
            _ => {
                let val = get_key(data, key);
                if val.is_none() {
                    missing_keys.push((*arg).clone());
                };
                Ok(())
            }
        }
    })?;
    Ok(Value::Array(missing_keys))
}

/// Check whether a minimum threshold of keys are present in the data
///
/// Note that I think this function is confusingly named. `contains_at_least`
/// might be better, or something like that. Regardless, it checks to see how
/// many of the specified keys are present in the data. If there are equal
/// to or more than the threshold value _present_ in the data, an empty
/// array is returned. Otherwise, an array containing all missing keys
/// is returned.
pub fn missing_some(data: &Value, args: &Vec<&Value>) -> Result<Value, Error> {
    let (threshold_arg, keys_arg) = (args[0], args[1]);

    let threshold = match threshold_arg {
        Value::Number(n) => n.as_u64(),
        _ => None,
    }
    .ok_or_else(|| Error::InvalidArgument {
        value: threshold_arg.clone(),
        operation: "missing_some".into(),
        reason: "missing_some threshold must be a valid, positive integer".into(),
    })?;

    let keys = match keys_arg {
        Value::Array(keys) => Ok(keys),
        _ => Err(Error::InvalidArgument {
            value: keys_arg.clone(),
            operation: "missig_some".into(),
            reason: "missing_some keys must be an array".into(),
        }),
    }?;

    let mut missing_keys: Vec<Value> = Vec::new();
    let present_count = keys.into_iter().fold(Ok(0 as u64), |last, key| {
        // Don't bother evaluating once we've met the threshold.
        let prev_present_count = last?;
        if prev_present_count >= threshold {
            return Ok(prev_present_count);
        };

        let parsed_key: KeyType = key.try_into()?;
        let current_present_count = match parsed_key {
            // In the reference implementation, I believe null actually is
            // buggy. Since usually, getting "null" as a var against the
            // data returns the whole data, "null" in a `missing_some`
            // list of keys _automatically_ counts as a present key, regardless
            // of what keys are in the data. This behavior is neither in the
            // specification nor the tests, so I'm going to SKIP null keys,
            // since they aren't valid Object or Array keys in JSON.
            KeyType::Null => prev_present_count,
            _ => {
                if get_key(data, parsed_key).is_none() {
                    if !missing_keys.contains(key) {
                        missing_keys.push((*key).clone());
                    }
                    prev_present_count
                } else {
                    prev_present_count + 1
                }
            }
        };
        Ok(current_present_count)
    })?;

    let met_threshold = present_count >= threshold;

    if met_threshold {
        Ok(Value::Array(vec![]))
    } else {
        Ok(Value::Array(missing_keys))
    }
}

fn get_key(data: &Value, key: KeyType) -> Option<Value> {
    match key {
        // If the key is null, we return the data, always, even if there
        // is a default parameter.
        KeyType::Null => return Some(data.clone()),
        KeyType::String(k) => get_str_key(data, k),
        KeyType::Number(i) => match data {
            Value::Object(_) => get_str_key(data, i.to_string()),
            Value::Array(arr) => get(arr, i).map(Value::clone),
            Value::String(s) => {
                let s_vec: Vec<char> = s.chars().collect();
                get(&s_vec, i).map(|c| c.to_string()).map(Value::String)
            }
            _ => None,
        },
    }
}

pub fn split_with_escape(input: &str, delimiter: char) -> Vec<String> {
    let mut result = Vec::new();
    let mut slice = String::new();
    let mut escape = false;

    for c in input.chars() {
        if escape {
            slice.push(c);
            escape = false;
        } else if c == '\\' {
            escape = true;
        } else if c == delimiter {
            result.push(slice.clone());
            slice.clear();
        } else {
            slice.push(c);
        }
    }

    if !slice.is_empty() {
        result.push(slice);
    }

    result
}

fn get_str_key<K: AsRef<str>>(data: &Value, key: K) -> Option<Value> {
    let k = key.as_ref();
    if k == "" {
        return Some(data.clone());
    };
    match data {
        Value::Object(_) | Value::Array(_) | Value::String(_) => {
            // Exterior ref in case we need to make a new value in the match.
            split_with_escape(k, '.')
                .into_iter()
                .fold(Some(data.clone()), |acc, i| match acc? {
                    // If the current value is an object, try to get the value
                    Value::Object(map) => map.get(&i).map(Value::clone),
                    // If the current value is an array, we need an integer
                    // index. If integer conversion fails, return None.
                    Value::Array(arr) => i
                        .parse::<i64>()
                        .ok()
                        .and_then(|i| get(&arr, i))
                        .map(Value::clone),
                    // Same deal if it's a string.
                    Value::String(s) => {
                        let s_chars: Vec<char> = s.chars().collect();
                        i.parse::<i64>()
                            .ok()
                            .and_then(|i| get(&s_chars, i))
                            .map(|c| c.to_string())
                            .map(Value::String)
                    }
                    // This handles cases where we've got an un-indexable
                    // type or similar.
                    _ => None,
                })
        }
        _ => None,
    }
}

#[cfg(test)]
mod tests {
    use super::*;

    // All the tests cases have been discussed here: https://github.com/Bestowinc/json-logic-rs/pull/37
    fn cases() -> Vec<(&'static str, Vec<&'static str>)> {
        vec![
            ("", vec![]),
            ("foo", vec!["foo"]),
            ("foo.bar", vec!["foo", "bar"]),
            (r#"foo\.bar"#, vec!["foo.bar"]),
            (r#"foo\.bar.biz"#, vec!["foo.bar", "biz"]),
            (r#"foo\\.bar"#, vec!["foo\\", "bar"]),
            (r#"foo\\.bar\.biz"#, vec!["foo\\", "bar.biz"]),
            (r#"foo\\\.bar"#, vec!["foo\\.bar"]),
            (r#"foo\\\.bar.biz"#, vec!["foo\\.bar", "biz"]),
            (r#"foo\\bar"#, vec!["foo\\bar"]),
            (r#"foo\\bar.biz"#, vec!["foo\\bar", "biz"]),
            (r#"foo\\bar\.biz"#, vec!["foo\\bar.biz"]),
            (r#"foo\\bar\\.biz"#, vec!["foo\\bar\\", "biz"]),
        ]
    }

    #[test]
    fn test_split_with_escape() {
        cases()
            .into_iter()
            .for_each(|(input, exp)| assert_eq!(split_with_escape(&input, '.'), exp));
    }
}
