//! FUnctions

use serde_json::Value;

use crate::error::Error;

/// A (potentially user-defined) function
///
/// The simplest function definition looks like:
///
/// ```jsonc
/// {
///     "def": [        // function definition operator
///         "is_even",  // function name
///         [a],        // function params
///         // function expression
///         {
///             "===": [
///                 {"%": [{"param": "a"}, 2]},
///                 0
///             ]
///         }
///     ]
/// }
/// ```
///
/// Once defined, the above function can be used like:
///
/// ```jsonc
/// {"is_even": [5]}  // false
/// {"is_even": [2]}  // true
/// ```
///
/// Function expressions may use any of the standard operators or any
/// previously defined functions.
///
pub struct Function {
    name: String,
    params: Vec<String>,
    expression: Value,
}
