use serde_json::{Number, Value};

use crate::error::Error;
use crate::op::{DataOperation, LazyOperation, Operation};
use crate::Parser;

/// A Parsed JSON value
///
/// Parsed values are one of:
///   - An operation whose arguments are eagerly evaluated
///   - An operation whose arguments are lazily evaluated
///   - A raw value: a non-rule, raw JSON value
#[derive(Debug)]
pub enum Parsed<'a> {
    Operation(Operation<'a>),
    LazyOperation(LazyOperation<'a>),
    DataOperation(DataOperation<'a>),
    Raw(Raw<'a>),
}
impl<'a> Parsed<'a> {
    /// Recursively parse a value
    pub fn from_value(value: &'a Value) -> Result<Self, Error> {
        Operation::from_value(value)?
            .map(Self::Operation)
            // .or(Operation::from_value(value)?.map(Self::Operation))
            .or(LazyOperation::from_value(value)?.map(Self::LazyOperation))
            .or(DataOperation::from_value(value)?.map(Self::DataOperation))
            .or(Raw::from_value(value)?.map(Self::Raw))
            .ok_or_else(|| {
                Error::UnexpectedError(format!("Failed to parse Value {:?}", value))
            })
    }

    pub fn from_values(values: Vec<&'a Value>) -> Result<Vec<Self>, Error> {
        values
            .into_iter()
            .map(Self::from_value)
            .collect::<Result<Vec<Self>, Error>>()
    }

    pub fn evaluate(&self, data: &'a Value) -> Result<Evaluated, Error> {
        match self {
            Self::Operation(op) => op.evaluate(data),
            Self::LazyOperation(op) => op.evaluate(data),
            Self::DataOperation(op) => op.evaluate(data),
            Self::Raw(val) => val.evaluate(data),
        }
    }
}
impl From<Parsed<'_>> for Value {
    fn from(item: Parsed) -> Value {
        match item {
            Parsed::Operation(op) => Value::from(op),
            Parsed::LazyOperation(op) => Value::from(op),
            Parsed::DataOperation(op) => Value::from(op),
            Parsed::Raw(raw) => Value::from(raw),
        }
    }
}

/// A Raw JSON value
///
/// Raw values are those that are not any known operation. A raw value may
/// be of any valid JSON type.
#[derive(Debug)]
pub struct Raw<'a> {
    value: &'a Value,
}
impl<'a> Parser<'a> for Raw<'a> {
    fn from_value(value: &'a Value) -> Result<Option<Self>, Error> {
        Ok(Some(Self { value }))
    }
    fn evaluate(&self, _data: &Value) -> Result<Evaluated, Error> {
        Ok(Evaluated::Raw(self.value))
    }
}
impl From<Raw<'_>> for Value {
    fn from(raw: Raw) -> Self {
        raw.value.clone()
    }
}

/// An Evaluated JSON value
///
/// An evaluated value is one of:
///   - A new value: either a calculated Rule or a filled Variable
///   - A raw value: a non-rule, raw JSON value
#[derive(Debug)]
pub enum Evaluated<'a> {
    New(Value),
    Raw(&'a Value),
}

impl From<Evaluated<'_>> for Value {
    fn from(item: Evaluated) -> Self {
        match item {
            Evaluated::Raw(val) => val.clone(),
            Evaluated::New(val) => val,
        }
    }
}

pub fn to_number_value(number: f64) -> Result<Value, Error> {
    // 2^63 and 2^64 as floats: the casts below saturate outside these bounds
    const I64_LIMIT: f64 = 9223372036854775808.0;
    const U64_LIMIT: f64 = 18446744073709551616.0;
    if number.fract() == 0.0 && number >= -I64_LIMIT && number < I64_LIMIT {
        Ok(Value::Number(Number::from(number as i64)))
    } else if number.fract() == 0.0 && number >= I64_LIMIT && number < U64_LIMIT {
        Ok(Value::Number(Number::from(number as u64)))
    } else {
        Number::from_f64(number)
            .ok_or_else(|| {
                Error::UnexpectedError(format!(
                    "Could not make JSON number from result {:?}",
                    number
                ))
            })
            .map(Value::Number)
    }
}
