//! Error handling
//!
use serde_json::Value;
use thiserror;

use crate::op::NumParams;

/// Public error enumeration
#[derive(thiserror::Error, Debug)]
pub enum Error {
    #[error("Invalid data - value: {value:?}, reason: {reason:?}")]
    InvalidData { value: Value, reason: String },

    #[error("Invalid rule - operator: '{key:?}', reason: {reason:?}")]
    InvalidOperation { key: String, reason: String },

    #[error("Invalid variable - '{value:?}', reason: {reason:?}")]
    InvalidVariable { value: Value, reason: String },

    #[error("Invalid variable key - '{value:?}', reason: {reason:?}")]
    InvalidVariableKey { value: Value, reason: String },

    #[error("Invalid argument for '{operation}' - '{value:?}', reason: {reason}")]
    InvalidArgument {
        value: Value,
        operation: String,
        reason: String,
    },

    #[error("Invalid variable mapping - {0} is not an object.")]
    InvalidVarMap(Value),

    #[error("Encountered an unexpected error. Please raise an issue on GitHub and include the following error message: {0}")]
    UnexpectedError(String),

    #[error("Wrong argument count - expected: {expected:?}, actual: {actual:?}")]
    WrongArgumentCount { expected: NumParams, actual: usize },
}
