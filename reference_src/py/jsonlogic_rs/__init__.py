"""Python JSONLogic with a Rust Backend."""

__all__ = (
    "apply",
    "apply_serialized",
)

import json as _json
import sys as _sys

try:
    from .jsonlogic import apply as _apply
except ImportError:
    # See https://docs.python.org/3/library/os.html#os.add_dll_directory
    # for why this is here.
    if _sys.platform.startswith("win"):
        import os
        from pathlib import Path
        if hasattr(os, "add_dll_directory"):
            os.add_dll_directory(str(Path(__file__).parent))
        from .jsonlogic import apply as _apply
    else:
        raise


def apply(value, data=None, serializer=None, deserializer=None):
    """Run JSONLogic on a value and some data."""
    serializer = serializer if serializer is not None else _json.dumps
    deserializer = deserializer if deserializer is not None else _json.loads
    res = _apply(serializer(value), serializer(data))
    return deserializer(res)


def apply_serialized(value: str, data: str = None, deserializer=None):
    """Run JSONLogic on some already serialized value and optional data."""
    deserializer = deserializer if deserializer is not None else _json.loads
    res = _apply(value, data if data is not None else "null")
    return deserializer(res)
