import JL.JsOp
/-!
# Model of `src/op/string.rs` (`cat`, `substr`) and the eager half of `src/op/array.rs` (`merge`, `in`)
-/
namespace JL
open Json

namespace StrOp

/-- `cat`: strings as they are, everything else through `js_op::to_string` -/
def cat (items : List Json) : Str :=
  items.flatMap (fun i => match i with
    | .str s => s
    | v => JsOp.toString v)

/-- the index arithmetic of `substr` on a string of `len` characters: returns `(start_idx, count_in_substr)`.
`usize` arithmetic as written: `checked_sub(..).unwrap_or(0)`, `min`, `checked_add(..).unwrap_or(len)`
(the `checked_add` cannot overflow below 2^64; modelled with the explicit bound). -/
def substrBounds (len : Nat) (idx : Int) (limit : Option Int) : Nat × Nat :=
  let idxAbs := idx.natAbs
  let startIdx := if idx < 0 then (if idxAbs ≤ len then len - idxAbs else 0) else min len idxAbs
  let endIdx :=
    match limit with
    | none => len
    | some l =>
        let limitAbs := l.natAbs
        if l < 0 then (if limitAbs ≤ len then len - limitAbs else 0)
        else min len (if startIdx + limitAbs < 2 ^ 64 then startIdx + limitAbs else len)
  (startIdx, if startIdx ≤ endIdx then endIdx - startIdx else 0)

/-- integer operand of `substr`: a number whose `as_i64` succeeds -/
def intArg : Json → Option Int
  | .num n => n.asI64
  | _ => none

/-- `substr`: `none` = `Err(InvalidArgument)`. `items` has 2 or 3 elements (validated arity). -/
def substr (s : Json) (idx : Json) (limit : Option Json) : Option Json :=
  match s with
  | .str string =>
      match intArg idx with
      | none => none
      | some i =>
          match limit with
          | none =>
              let (st, cnt) := substrBounds string.length i none
              some (.str ((string.drop st).take cnt))
          | some lv =>
              match intArg lv with
              | none => none
              | some l =>
                  let (st, cnt) := substrBounds string.length i (some l)
                  some (.str ((string.drop st).take cnt))
  | _ => none

end StrOp

namespace ArrOp

/-- `merge` -/
def merge (items : List Json) : List Json :=
  items.flatMap (fun i => match i with
    | .arr xs => xs
    | v => [v])

/-- `1e30_f64` -/
def F1e30 : F64 := F64.ofDecimal false 1 30

/-- `as_int` inside `number_eq`: the number as an exact integer when it is one (floats only below 1e30) -/
def asInt : Num → Option Int
  | .pos n => some n
  | .neg m => some (-(m : Int))
  | .flt f => if f.fractIsZero && F64.lt f.abs F1e30 then some f.truncInt else none

/-- `number_eq`: numeric equality by value, whatever the JSON spelling -/
def numberEq (a b : Num) : Bool :=
  match asInt a, asInt b with
  | some x, some y => x == y
  | none, none => F64.eq a.toF64 b.toF64
  | _, _ => false

/-! `deep_eq`: structural equality with numbers by value. Objects are maps: same size and every
key of the first present in the second with an equal value. -/
mutual
def deepEq : Json → Json → Bool
  | .num x, .num y => numberEq x y
  | .arr x, .arr y => deepEqList x y
  | .obj x, .obj y => x.length == y.length && deepEqKvs x y
  | .null, .null => true
  | .bool a, .bool b => a == b
  | .str a, .str b => a == b
  | _, _ => false
def deepEqList : List Json → List Json → Bool
  | [], [] => true
  | a :: as, b :: bs => deepEq a b && deepEqList as bs
  | _, _ => false
/-- `x.iter().all(|(key, a)| y.get(key).map_or(false, |b| deep_eq(a, b)))` -/
def deepEqKvs : List (Str × Json) → List (Str × Json) → Bool
  | [], _ => true
  | (k, a) :: rest, y =>
      (match lookupEq k a y with
       | some r => r
       | none => false) && deepEqKvs rest y
/-- `y.get(key).map(|b| deep_eq(a, b))`, structurally recursive on the first value -/
def lookupEq (k : Str) (a : Json) : List (Str × Json) → Option Bool
  | [] => none
  | (k', b) :: rest => if k' = k then some (deepEq a b) else lookupEq k a rest
end

/-- `in_`: `none` = `Err` -/
def in_ (needle haystack : Json) : Option Bool :=
  match haystack with
  | .null => some false
  | .arr possibles => some (possibles.any (fun p => deepEq p needle))
  | .str h =>
      match needle with
      | .str n => some (isInfix n h)
      | _ => none
  | _ => none

end ArrOp
end JL
