import Lean.Meta.Tactic.Simp.RegisterCommand
/-! the simp set `rs`: unfolding lemmas for the library-call definitions of `JL/Rs.lean` -/
register_simp_attr rs
