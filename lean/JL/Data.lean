import JL.JsOp
/-!
# Model of `src/op/data.rs`: keys, negative indexing, path splitting, `var`, `missing`, `missing_some`
-/
namespace JL
open Json

namespace Data

/-- `KeyType` -/
inductive Key where
  | null
  | string (s : Str)
  | number (i : Int)

/-- `KeyType::try_from(&Value)`: `none` = `Err(InvalidVariableKey)` -/
def keyOf : Json → Option Key
  | .null => some .null
  | .str s => some (.string s)
  | .num n => match n.asI64 with
      | some i => some (.number i)
      | none => none
  | _ => none

/-- `get`: indexing that supports negative indexes -/
def get {α : Type} (xs : List α) (idx : Int) : Option α :=
  if idx ≥ 0 then xs[idx.toNat]?
  else if idx.natAbs ≤ xs.length then xs[xs.length - idx.natAbs]?
  else none

/-- the loop of `split_with_escape`: (result so far, current slice, escape flag) -/
def splitLoop (delim : Char) : List Char → List Str → Str → Bool → List Str × Str
  | [], result, slice, _ => (result, slice)
  | c :: cs, result, slice, escape =>
      if escape then splitLoop delim cs result (slice ++ [c]) false
      else if c = '\\' then splitLoop delim cs result slice true
      else if c = delim then splitLoop delim cs (result ++ [slice]) [] false
      else splitLoop delim cs result (slice ++ [c]) false

/-- `split_with_escape` -/
def splitWithEscape (input : Str) (delim : Char) : List Str :=
  let (result, slice) := splitLoop delim input [] [] false
  if slice.isEmpty then result else result ++ [slice]

/-- Rust `str::parse::<i64>()`: optional sign, at least one ASCII digit, in range -/
def parseI64 (s : Str) : Option Int :=
  let (neg, ds) : Bool × Str :=
    match s with
    | '-' :: r => (true, r)
    | '+' :: r => (false, r)
    | r => (false, r)
  if ds.isEmpty || !ds.all isDigit then none
  else
    let v : Int := digitsVal ds
    let r := if neg then -v else v
    if -(2 ^ 63 : Int) ≤ r && r < 2 ^ 63 then some r else none

/-- one step of the fold in `get_str_key` -/
def step (acc : Json) (seg : Str) : Option Json :=
  match acc with
  | .obj kvs => lookup seg kvs
  | .arr xs => match parseI64 seg with
      | some i => get xs i
      | none => none
  | .str s => match parseI64 seg with
      | some i => (get s i).map (fun c => .str [c])
      | none => none
  | _ => none

def walk : List Str → Json → Option Json
  | [], acc => some acc
  | seg :: rest, acc => match step acc seg with
      | some v => walk rest v
      | none => none

/-- `get_str_key` -/
def getStrKey (data : Json) (k : Str) : Option Json :=
  if k.isEmpty then some data
  else
    match data with
    | .obj _ | .arr _ | .str _ => walk (splitWithEscape k '.') data
    | _ => none

/-- `get_key` -/
def getKey (data : Json) : Key → Option Json
  | .null => some data
  | .string k => getStrKey data k
  | .number i =>
      match data with
      | .obj _ => getStrKey data (intToStr i)
      | .arr xs => get xs i
      | .str s => (get s i).map (fun c => .str [c])
      | _ => none

end Data
end JL
