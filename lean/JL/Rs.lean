import JL.Eval
import JL.RsAttr
import JL.Spec.Utf8
/-!
# Meaning of the Rust standard-library and serde_json calls that occur in translated code

`tools/rs2lean.py` turns the bodies of the crate's pure functions into Lean terms (`JL/Generated/Fns.lean`). Every
library call in such a body becomes a call of the function of the same name below. This file is hand-written and is part
of the trusted base of the translation: each definition says what the Rust call computes, on the model's data types
(strings are lists of characters, vectors and iterators are lists, `Result<_, Error>` is `Option _`).

Rust overloads (`==` on `f64` is IEEE, on strings is character-wise; `len()` counts bytes on `str` and elements on `Vec`)
are resolved by Lean's type classes, i.e. by the types the model gives to the operands.
-/
namespace JL
namespace Rs

/-- the enum `PrimitiveHint` of `src/js_op.rs` -/
inductive PrimitiveHint where
  | String | Number | Default
  deriving DecidableEq, Repr

/-! ## `==`, `<`, … -/
class REq (α : Type) where eq : α → α → Bool
class ROrd (α : Type) where
  lt : α → α → Bool
  le : α → α → Bool

instance : REq F64 := ⟨F64.eq⟩                          -- IEEE: NaN ≠ NaN, +0 = −0
instance : REq Bool := ⟨fun a b => a == b⟩
instance : REq Char := ⟨fun a b => a == b⟩
instance : REq Nat := ⟨fun a b => a == b⟩
instance : REq Int := ⟨fun a b => a == b⟩
instance : REq Str := ⟨fun a b => a == b⟩
instance : REq Json := ⟨Json.beq⟩                        -- serde_json `Value: PartialEq`
instance : REq Num := ⟨Num.beq⟩
instance {α : Type} [REq α] : REq (Option α) := ⟨fun a b => match a, b with
  | some x, some y => REq.eq x y
  | none, none => true
  | _, _ => false⟩

instance : ROrd F64 := ⟨F64.lt, F64.le⟩
instance : ROrd Str := ⟨strLt, strLe⟩                    -- byte-wise order of UTF-8 = code-point order (C09.utf8_order)
instance : ROrd Nat := ⟨fun a b => decide (a < b), fun a b => decide (a ≤ b)⟩
instance : ROrd Int := ⟨fun a b => decide (a < b), fun a b => decide (a ≤ b)⟩

@[rs] def eq {α : Type} [REq α] (a b : α) : Bool := REq.eq a b
@[rs] def lt {α : Type} [ROrd α] (a b : α) : Bool := ROrd.lt a b
@[rs] def le {α : Type} [ROrd α] (a b : α) : Bool := ROrd.le a b
@[rs] def gt {α : Type} [ROrd α] (a b : α) : Bool := ROrd.lt b a
@[rs] def ge {α : Type} [ROrd α] (a b : α) : Bool := ROrd.le b a

/-- `f64 > f64` and `f64 >= f64` are IEEE operations of their own (they differ from the swapped `<` only in name) -/
theorem gt_f64 (a b : F64) : gt a b = F64.gt a b := by
  cases a <;> cases b <;> simp [gt, ROrd.lt, F64.gt, F64.lt]
theorem ge_f64 (a b : F64) : ge a b = F64.ge a b := by
  cases a <;> cases b <;> simp [ge, ROrd.le, F64.ge, F64.le]

/-! ## `Ordering` -/
class RCmp (α : Type) where partialCmp : α → α → Option Ordering
instance : RCmp F64 := ⟨fun a b => if F64.lt a b then some .lt else if F64.eq a b then some .eq else if F64.lt b a then some .gt else none⟩   -- `None` iff a NaN is involved
instance : RCmp Str := ⟨fun a b => some (if strLt a b then .lt else if a == b then .eq else .gt)⟩
instance : RCmp Nat := ⟨fun a b => some (Ord.compare a b)⟩
instance : RCmp Int := ⟨fun a b => some (Ord.compare a b)⟩
@[rs] def partial_cmp {α : Type} [RCmp α] (a b : α) : Option Ordering := RCmp.partialCmp a b
class RTotalCmp (α : Type) where cmp : α → α → Ordering
instance : RTotalCmp Str := ⟨fun a b => if strLt a b then .lt else if a == b then .eq else .gt⟩
instance : RTotalCmp Nat := ⟨fun a b => Ord.compare a b⟩
instance : RTotalCmp Int := ⟨fun a b => Ord.compare a b⟩
@[rs] def cmp_ {α : Type} [RTotalCmp α] (a b : α) : Ordering := RTotalCmp.cmp a b
@[rs] def is_lt (o : Ordering) : Bool := o == .lt
@[rs] def is_le (o : Ordering) : Bool := o != .gt
@[rs] def is_gt (o : Ordering) : Bool := o == .gt
@[rs] def is_ge (o : Ordering) : Bool := o != .lt
@[rs] def is_eq (o : Ordering) : Bool := o == .eq
@[rs] def is_ne (o : Ordering) : Bool := o != .eq
instance : REq Ordering := ⟨fun a b => a == b⟩

/-! ## arithmetic -/
class RArith (α : Type) where
  add : α → α → α
  sub : α → α → α
  mul : α → α → α
  div : α → α → α
  rem : α → α → α
  neg : α → α

instance : RArith F64 := ⟨F64.add, F64.sub, F64.mul, F64.div, F64.rem, F64.negate⟩
/-- machine integers are rendered as mathematical integers: overflow is not visible here (see the panic-site audit) -/
instance : RArith Int := ⟨(· + ·), (· - ·), (· * ·), Int.tdiv, Int.tmod, (- ·)⟩
instance : RArith Nat := ⟨(· + ·), (· - ·), (· * ·), (· / ·), (· % ·), id⟩

@[rs] def add {α : Type} [RArith α] (a b : α) : α := RArith.add a b
@[rs] def sub {α : Type} [RArith α] (a b : α) : α := RArith.sub a b
@[rs] def mul {α : Type} [RArith α] (a b : α) : α := RArith.mul a b
@[rs] def div {α : Type} [RArith α] (a b : α) : α := RArith.div a b
@[rs] def rem {α : Type} [RArith α] (a b : α) : α := RArith.rem a b
@[rs] def neg {α : Type} [RArith α] (a : α) : α := RArith.neg a

/-! ## casts -/
class RToF64 (α : Type) where toF64 : α → F64
instance : RToF64 Nat := ⟨F64.ofNat⟩
instance : RToF64 Int := ⟨F64.ofInt⟩
instance : RToF64 F64 := ⟨id⟩
@[rs] def to_f64 {α : Type} [RToF64 α] (a : α) : F64 := RToF64.toF64 a

/-- `x as i64` on a float: truncation towards zero, saturating, NaN ↦ 0 -/
class RToI64 (α : Type) where toI64 : α → Int
instance : RToI64 F64 := ⟨F64.toI64Sat⟩
instance : RToI64 Int := ⟨id⟩
instance : RToI64 Nat := ⟨fun n => (n : Int)⟩
@[rs] def to_i64 {α : Type} [RToI64 α] (a : α) : Int := RToI64.toI64 a
/-- `x as u64` on a float: truncation towards zero, saturating at 0 and 2^64 − 1, NaN ↦ 0 -/
def f64_to_u64 : F64 → Nat
  | .nan => 0
  | .inf n => if n then 0 else 2 ^ 64 - 1
  | .fin n k => if n then 0 else if k / F64.S > 2 ^ 64 - 1 then 2 ^ 64 - 1 else k / F64.S
class RToNat (α : Type) where toNat : α → Nat
instance : RToNat F64 := ⟨f64_to_u64⟩
instance : RToNat Nat := ⟨id⟩                       -- widenings between unsigned integer types
instance : RToNat Bool := ⟨fun b => if b then 1 else 0⟩
@[rs] def to_u64 {α : Type} [RToNat α] (a : α) : Nat := RToNat.toNat a
@[rs] def to_nat {α : Type} [RToNat α] (a : α) : Nat := RToNat.toNat a
/-- `x as i128` on a float -/
@[rs] def to_i128 : F64 → Int
  | .nan => 0
  | .inf n => if n then -(2 ^ 127 : Int) else 2 ^ 127 - 1
  | .fin n k =>
      let t : Int := (k / F64.S : Nat)
      let v := if n then -t else t
      if v < -(2 ^ 127 : Int) then -(2 ^ 127 : Int) else if v > 2 ^ 127 - 1 then 2 ^ 127 - 1 else v

class RToInt (α : Type) where toInt : α → Int
instance : RToInt Nat := ⟨fun n => (n : Int)⟩
instance : RToInt Int := ⟨id⟩
/-- `i128::from(x)` / `i64::from(x)` (lossless widenings) -/
@[rs] def to_int {α : Type} [RToInt α] (a : α) : Int := RToInt.toInt a

class RNumberFrom (α : Type) where numberFrom : α → Num
instance : RNumberFrom Int := ⟨Num.ofI64⟩                -- `Number::from(i64)`: PosInt when non-negative, else NegInt
instance : RNumberFrom Nat := ⟨Num.pos⟩                  -- `Number::from(u64)`
@[rs] def number_from {α : Type} [RNumberFrom α] (a : α) : Num := RNumberFrom.numberFrom a

/-! ## `f64` methods -/
/-- `f64::fract`: `x − trunc x` (keeps the sign; not a number for the infinities) -/
@[rs] def fract : F64 → F64
  | .fin n k => .fin n (k % F64.S)
  | _ => .nan
/-- `f64::abs` -/
@[rs] def abs (x : F64) : F64 := x.abs
@[rs] def is_nan (x : F64) : Bool := x.isNaN
@[rs] def is_finite (x : F64) : Bool := x.isFinite

/-! ## `Option` (and `Result`, whose error side is not modelled) -/
@[rs] def map {f : Type → Type} [Functor f] {α β : Type} (x : f α) (g : α → β) : f β := g <$> x
class RAndThen (f : Type → Type) where andThen : {α β : Type} → f α → (α → f β) → f β
instance : RAndThen Option := ⟨fun o g => o.bind g⟩
instance : RAndThen M := ⟨fun x g => M.bind x g⟩
@[rs] def and_then {f : Type → Type} [RAndThen f] {α β : Type} (o : f α) (g : α → f β) : f β := RAndThen.andThen o g
@[rs] def unwrap_or {α : Type} (o : Option α) (d : α) : α := o.getD d
@[rs] def map_or {α β : Type} (o : Option α) (d : β) (g : α → β) : β := match o with | some x => g x | none => d
@[rs] def filter {α : Type} (o : Option α) (p : α → Bool) : Option α := o.filter p
@[rs] def or_else {α : Type} (o : Option α) (g : Unit → Option α) : Option α := match o with | some x => some x | none => g ()
@[rs] def or_ {α : Type} (o p : Option α) : Option α := match o with | some x => some x | none => p
@[rs] def is_some {α : Type} (o : Option α) : Bool := o.isSome
@[rs] def is_none {α : Type} (o : Option α) : Bool := o.isNone
/-- `Option::unwrap`: the translation has no panics; where the Rust code would panic this yields the type's default value,
which makes the translated function differ from the model (whose outcome there is a panic), never agree with it by accident
in a tie theorem's favour: every use is preceded in the source by a check that the value is present. -/
@[rs] def unwrap {α : Type} [Inhabited α] (o : Option α) : α := o.getD default

/-! ## serde_json `Number` -/
@[rs] def as_f64 (n : Num) : Option F64 := some n.toF64        -- always `Some` without the `arbitrary_precision` feature
@[rs] def as_i64 (n : Num) : Option Int := n.asI64
@[rs] def as_u64 (n : Num) : Option Nat := n.asU64

/-! ## strings, vectors, iterators -/
@[rs] def utf8Len (c : Char) : Nat := if c.toNat < 0x80 then 1 else if c.toNat < 0x800 then 2 else if c.toNat < 0x10000 then 3 else 4

class RLen (α : Type) where len : α → Nat
instance (priority := low) {α : Type} : RLen (List α) := ⟨List.length⟩          -- `Vec::len`, `Map::len`
instance (priority := high) : RLen Str := ⟨fun s => (s.map utf8Len).sum⟩      -- `str::len`: bytes of the UTF-8 encoding
@[rs] def len {α : Type} [RLen α] (a : α) : Nat := RLen.len a
@[rs] def is_empty {α : Type} (l : List α) : Bool := l.isEmpty

class RGet (c : Type) (k : Type) (v : outParam Type) where get : c → k → Option v
instance {α : Type} : RGet (List α) Nat α := ⟨fun l i => l[i]?⟩                 -- `slice::get`
instance : RGet (List (Str × Json)) Str Json := ⟨fun m k => Json.lookup k m⟩    -- `Map::get`
@[rs] def get {c k v : Type} [RGet c k v] (a : c) (i : k) : Option v := RGet.get a i

@[rs] def fold {α β : Type} (l : List α) (init : β) (g : β → α → β) : β := l.foldl g init
@[rs] def all {α : Type} (l : List α) (p : α → Bool) : Bool := l.all p
@[rs] def any {α : Type} (l : List α) (p : α → Bool) : Bool := l.any p
class RZip (f : Type → Type) where zip : {α β : Type} → f α → f β → f (α × β)
instance : RZip List := ⟨fun a b => a.zip b⟩
instance : RZip Option := ⟨fun a b => match a, b with | some x, some y => some (x, y) | _, _ => none⟩
@[rs] def zip {f : Type → Type} [RZip f] {α β : Type} (a : f α) (b : f β) : f (α × β) := RZip.zip a b
@[rs] def chain {α : Type} (a b : List α) : List α := a ++ b
@[rs] def take {α : Type} (l : List α) (n : Nat) : List α := l.take n
@[rs] def skip {α : Type} (l : List α) (n : Nat) : List α := l.drop n
@[rs] def rev {α : Type} (l : List α) : List α := l.reverse
/-- `[String]::join(sep)` -/
@[rs] def join (l : List Str) (sep : Str) : Str := joinWith sep l
@[rs] def count {α : Type} (l : List α) : Nat := l.length

class RPat (π : Type) where stripPrefix : Str → π → Option Str
instance : RPat Char := ⟨fun s c => match s with | x :: rest => if x == c then some rest else none | [] => none⟩
instance : RPat Str := ⟨fun s p => if isPrefix p s then some (s.drop p.length) else none⟩
@[rs] def strip_prefix {π : Type} [RPat π] (s : Str) (p : π) : Option Str := RPat.stripPrefix s p
@[rs] def starts_with (s p : Str) : Bool := isPrefix p s
class RContains (c : Type) (e : outParam Type) where contains : c → e → Bool
instance (priority := high) : RContains Str Str := ⟨fun s p => isInfix p s⟩                 -- `str::contains(&str)`
instance (priority := low) : RContains (List Json) Json := ⟨fun l x => Json.contains l x⟩   -- `Vec<Value>::contains` (`Value: PartialEq`)
@[rs] def contains {c e : Type} [RContains c e] (a : c) (x : e) : Bool := RContains.contains a x
@[rs] def trim_start_matches (s : Str) (p : Char → Bool) : Str := s.dropWhile p
@[rs] def trim_end_matches (s : Str) (p : Char → Bool) : Str := (s.reverse.dropWhile p).reverse
@[rs] def trim_matches (s : Str) (p : Char → Bool) : Str := trim_end_matches (trim_start_matches s p) p
/-- `char::is_whitespace` (Unicode White_Space), for `str::trim*` -/
def isUnicodeWhitespace (c : Char) : Bool :=
  let n := c.toNat
  (9 ≤ n && n ≤ 13) || n == 0x20 || n == 0x85 || n == 0xA0 || n == 0x1680 || (0x2000 ≤ n && n ≤ 0x200A) || n == 0x2028 || n == 0x2029 || n == 0x202F || n == 0x205F || n == 0x3000
@[rs] def trim (s : Str) : Str := trim_matches s isUnicodeWhitespace
@[rs] def trim_start (s : Str) : Str := trim_start_matches s isUnicodeWhitespace
@[rs] def trim_end (s : Str) : Str := trim_end_matches s isUnicodeWhitespace

class RToString (α : Type) where toStr : α → Str
instance : RToString Bool := ⟨fun b => if b then "true".toList else "false".toList⟩
instance : RToString Num := ⟨Num.toStr⟩
instance : RToString Str := ⟨id⟩
@[rs] def to_string {α : Type} [RToString α] (a : α) : Str := RToString.toStr a

/-! ## loops and mutation
A `for` loop over a finite iterator is a fold over the list of its items, whose state is the tuple of the `let mut` variables the body
re-binds; the body says how the iteration ended (`continue`/fall-through, `break`, `return`). -/
inductive Flow (σ ρ : Type) where
  | next (s : σ) | brk (s : σ) | ret (r : ρ)
inductive LoopOut (σ ρ : Type) where
  | done (s : σ) | ret (r : ρ)
def for_ {α σ ρ : Type} : List α → σ → (σ → α → Flow σ ρ) → LoopOut σ ρ
  | [], s, _ => .done s
  | x :: xs, s, f =>
      match f s x with
      | .next s' => for_ xs s' f
      | .brk s' => .done s'
      | .ret r => .ret r
@[rs] def push {α : Type} (l : List α) (x : α) : List α := l ++ [x]          -- `Vec::push`, `String::push`
@[rs] def push_str (s t : Str) : Str := s ++ t
@[rs] def extend {α : Type} (l m : List α) : List α := l ++ m
@[rs] def clear {α : Type} (_ : List α) : List α := []
@[rs] def enumerate {α : Type} (l : List α) : List (Nat × α) := l.zipIdx.map (fun p => (p.2, p.1))
@[rs] def take_while {α : Type} (l : List α) (p : α → Bool) : List α := l.takeWhile p
@[rs] def skip_while {α : Type} (l : List α) (p : α → Bool) : List α := l.dropWhile p
@[rs] def last {α : Type} (l : List α) : Option α := l.getLast?
@[rs] def first {α : Type} (l : List α) : Option α := l.head?
class RBits (α : Type) where
  bor : α → α → α
  band : α → α → α
  bxor : α → α → α
instance : RBits Nat := ⟨(· ||| ·), (· &&& ·), (· ^^^ ·)⟩
instance : RBits Bool := ⟨(· || ·), (· && ·), (· != ·)⟩          -- `|`, `&`, `^` on `bool` (no short-circuit; operands are pure here)
@[rs] def bitor {α : Type} [RBits α] (a b : α) : α := RBits.bor a b
@[rs] def bitand {α : Type} [RBits α] (a b : α) : α := RBits.band a b
@[rs] def bitxor {α : Type} [RBits α] (a b : α) : α := RBits.bxor a b
@[rs] def shl (a b : Nat) : Nat := a <<< b
@[rs] def shr (a b : Nat) : Nat := a >>> b
class RAsciiDigit (α : Type) where isAsciiDigit : α → Bool
instance : RAsciiDigit Char := ⟨isDigit⟩
instance : RAsciiDigit Nat := ⟨fun b => 48 ≤ b && b ≤ 57⟩                      -- `u8::is_ascii_digit`
@[rs] def is_ascii_digit {α : Type} [RAsciiDigit α] (c : α) : Bool := RAsciiDigit.isAsciiDigit c
/-- `str::as_bytes` / `str::bytes`: the UTF-8 encoding (RFC 3629, `JL.Spec.Utf8`) -/
def as_bytes (s : Str) : List Nat := JL.Spec.Utf8.encode s
def bytes (s : Str) : List Nat := JL.Spec.Utf8.encode s
@[rs] def to_digit (c : Char) (radix : Nat) : Option Nat := JsOp.toDigit radix c

@[rs] def new_ {α : Type} (_ : Unit) : List α := []                            -- `Vec::new()`, `String::new()`
/-- `Iterator::next` on `chars()`: the first item and the rest -/
@[rs] def next {α : Type} (l : List α) : Option α × List α := match l with | [] => (none, []) | x :: xs => (some x, xs)
@[rs] def pop {α : Type} (l : List α) : Option α × List α := (l.getLast?, l.dropLast)
/-- `v[i]`: panics when out of range in Rust; here the type's default value (every use is behind an arity check) -/
@[rs] def index {α : Type} [Inhabited α] (l : List α) (i : Nat) : α := l[i]?.getD default
@[rs] def transpose {α : Type} (o : Option (Option α)) : Option (Option α) := match o with | none => some none | some none => none | some (some x) => some (some x)
@[rs] def parse (s : Str) : Option Int := Data.parseI64 s                        -- `str::parse::<i64>()` (the only instantiation in the crate)
@[rs] def checked_add (a b : Nat) : Option Nat := if a + b < 2 ^ 64 then some (a + b) else none
@[rs] def saturating_add (a b : Nat) : Nat := a + b
@[rs] def saturating_sub (a b : Nat) : Nat := a - b                              -- truncated subtraction is what saturation at 0 means
/-- `std::mem::take(&mut x)` as a value: what was in `x` (the translator re-binds `x` to its default separately) -/
@[rs] def mem_take {α : Type} (a : α) : α := a
/-- what `std::mem::take` leaves behind in a `String` / `Vec` -/
@[rs] theorem default_list {α : Type} : (default : List α) = [] := rfl
@[rs] def unwrap_or_else {α : Type} (o : Option α) (g : Unit → α) : α := match o with | some x => x | none => g ()
@[rs] def flatten {α : Type} (o : Option (Option α)) : Option α := o.join                              -- machine integers are rendered as unbounded (see header)
class RMinMax (α : Type) where
  min : α → α → α
  max : α → α → α
instance : RMinMax Nat := ⟨Nat.min, Nat.max⟩
instance : RMinMax Int := ⟨fun a b => if a ≤ b then a else b, fun a b => if a ≤ b then b else a⟩
@[rs] def min_ {α : Type} [RMinMax α] (a b : α) : α := RMinMax.min a b
@[rs] def max_ {α : Type} [RMinMax α] (a b : α) : α := RMinMax.max a b
instance : RToString Char := ⟨fun c => [c]⟩
instance : RToString Int := ⟨intToStr⟩
instance : RToString Nat := ⟨natToStr⟩
/-- `2f64.powi(n)`; other bases are not used by the crate and are not given a meaning -/
@[rs] def powi (b : F64) (n : Nat) : F64 := if b == F64.fin false (2 * F64.S) then JsOp.pow2 n else F64.nan

/-! ## evaluation of sub-rules (the outcome monad `M` of the model: log lines, then a value / an error / a panic) -/
/-- a successfully parsed sub-rule (`Parsed`): the rule text that `check` accepted -/
structure Parsed where
  rule : Json
/-- `Parsed::from_value(v)`: the parse phase of the model (`check`) -/
@[rs] def parsed_from_value (v : Json) : M Parsed := if check v then pure ⟨v⟩ else M.err
/-- `parsed.evaluate(data)`: the evaluation phase of the model (`run`) -/
@[rs] def evaluate (p : Parsed) (d : Json) : M Json := run p.rule d
@[rs] def ok {α : Type} (a : α) : M α := pure a
@[rs] def err {α : Type} : M α := M.err
@[rs] def ok_or {α : Type} (o : Option α) : M α := M.ofOption o
/-- `?` inside a function that returns `Result<_, Error>` and may log -/
class RTry (f : Type → Type) where try_ : {α β : Type} → f α → (α → M β) → M β
instance : RTry M := ⟨fun x k => M.bind x k⟩
instance : RTry Option := ⟨fun x k => match x with | some a => k a | none => M.err⟩     -- a `Result` of a function that cannot log
@[rs] def try_ {f : Type → Type} [RTry f] {α β : Type} (x : f α) (k : α → M β) : M β := RTry.try_ x k
/-- the outcome of a computation whose log lines are already out -/
def settled {α : Type} (x : M α) : M α := ⟨[], x.out⟩
/-- `iter.fold(init, f)` where the accumulator is a `Result` and `f` may log: strict left fold. Each step is handed the *settled*
outcome of the steps before it (what a Rust `Result` value is), and the log lines come out in the order the steps run. -/
def foldM {α β : Type} : List α → M β → (M β → α → M β) → M β
  | [], acc, _ => acc
  | x :: xs, acc, f => let r := foldM xs (f (settled acc) x) f; ⟨acc.logs ++ r.logs, r.out⟩
/-- the same fold when the closure also re-binds variables it captured (`σ`): they are threaded next to the outcome; an error outcome
does not undo what the closure did to them before it failed -/
def foldMS {α β σ : Type} : List α → M β → σ → (M β → σ → α → M β × σ) → M β × σ
  | [], acc, s, _ => (acc, s)
  | x :: xs, acc, s, f =>
      let step := f (settled acc) s x
      let r := foldMS xs step.1 step.2 f
      (⟨acc.logs ++ r.1.logs, r.1.out⟩, r.2)
/-- `?` inside such a closure: on failure the closure returns the error together with the variables as they are now -/
class RTryS (f : Type → Type) where tryS : {α β σ : Type} → f α → σ → (α → M β × σ) → M β × σ
instance : RTryS M := ⟨fun x s k =>
  match x.out with
  | .ok a => let r := k a; (⟨x.logs ++ r.1.logs, r.1.out⟩, r.2)
  | .err => (⟨x.logs, .err⟩, s)
  | .panic => (⟨x.logs, .panic⟩, s)⟩
instance : RTryS Option := ⟨fun x s k => match x with | some a => k a | none => (M.err, s)⟩
@[rs] def tryS {f : Type → Type} [RTryS f] {α β σ : Type} (x : f α) (s : σ) (k : α → M β × σ) : M β × σ := RTryS.tryS x s k
/-- `let x = e;` in a function that may log: when `e` is itself a `Result` computed by logging code, its log lines come out here,
and `x` is the settled outcome; for every other type this is a plain `let` -/
class RStrict (τ : Type) where strict : {β : Type} → τ → (τ → M β) → M β
instance (priority := low) {τ : Type} : RStrict τ := ⟨fun e k => k e⟩
instance {α : Type} : RStrict (M α) := ⟨fun e k => let r := k (settled e); ⟨e.logs ++ r.logs, r.out⟩⟩
@[rs] def strict {τ : Type} [RStrict τ] {β : Type} (e : τ) (k : τ → M β) : M β := RStrict.strict e k
/-- collecting an iterator of results into `Result<Vec<_>, _>`: stops at the first error -/
def collectM {α : Type} : List (M α) → M (List α)
  | [] => pure []
  | x :: xs => M.bind x (fun a => M.bind (collectM xs) (fun as => pure (a :: as)))
def collectO {α : Type} : List (Option α) → Option (List α)
  | [] => some []
  | x :: xs => x.bind (fun a => (collectO xs).bind (fun as => some (a :: as)))
class RCollect (f : Type → Type) where collect : {α : Type} → List (f α) → f (List α)
instance : RCollect M := ⟨collectM⟩
instance : RCollect Option := ⟨collectO⟩
@[rs] def collect_result {f : Type → Type} [RCollect f] {α : Type} (l : List (f α)) : f (List α) := RCollect.collect l
/-- `Map::insert` (a `BTreeMap`: keys stay sorted; an existing key is replaced) -/
def insert_ (m : List (Str × Json)) (k : Str) (v : Json) : List (Str × Json) :=
  match m with
  | [] => [(k, v)]
  | (k', v') :: rest => if k == k' then (k, v) :: rest else if strLt k k' then (k, v) :: (k', v') :: rest else (k', v') :: insert_ rest k v
class RTryInto (α : Type) (β : outParam Type) where tryInto : α → Option β
instance : RTryInto Nat Nat := ⟨fun n => some n⟩             -- `u64 → usize` cannot fail on the 64-bit targets the crate is built for
instance : RTryInto Json Data.Key := ⟨Data.keyOf⟩           -- `KeyType::try_from(&Value)`
@[rs] def try_into_i64 (n : Nat) : Option Int := if n < 2 ^ 63 then some (n : Int) else none

/-! ## the parse tree (`Parsed` of src/value.rs, `Operation` / `LazyOperation` / `DataOperation` of src/op/mod.rs)
An operator reference (`&'static Operator` …) is identified by the key of its table entry; what calling it means is given, per table,
by the functions `Gen.eager_call` / `Gen.lazy_call` / `Gen.data_call` next to the translated tables. -/
structure OpRef where
  key : Str
  arity : Arity
  deriving DecidableEq
inductive PLazy where
  | mk (operator : OpRef) (arguments : List Json)
inductive PRaw where
  | mk (value : Json)
mutual
inductive PParsed where
  | Operation (o : POperation)
  | LazyOperation (o : PLazy)
  | DataOperation (o : PData)
  | Raw (r : PRaw)
inductive POperation where
  | mk (operator : OpRef) (arguments : List PParsed)
inductive PData where
  | mk (operator : OpRef) (arguments : List PParsed)
end
instance : Inhabited PParsed := ⟨.Raw (.mk .null)⟩
mutual
def PParsed.depth : PParsed → Nat
  | .Operation o => o.depth + 1
  | .LazyOperation _ => 1
  | .DataOperation o => o.depth + 1
  | .Raw _ => 1
def POperation.depth : POperation → Nat
  | .mk _ args => PParsed.depthList args + 1
def PData.depth : PData → Nat
  | .mk _ args => PParsed.depthList args + 1
def PParsed.depthList : List PParsed → Nat
  | [] => 0
  | x :: xs => max x.depth (PParsed.depthList xs)
end
/-- how much fuel a mutually recursive group needs for an argument (a bound on how deep the recursion can go into it) -/
class RFuel (τ : Type) where fuelOf : τ → Nat
instance : RFuel Json := ⟨Json.depth⟩
instance : RFuel (List Json) := ⟨Json.depthList⟩
instance : RFuel PParsed := ⟨PParsed.depth⟩
instance : RFuel POperation := ⟨POperation.depth⟩
instance : RFuel PData := ⟨PData.depth⟩
def fuelOf {τ : Type} [RFuel τ] (x : τ) : Nat := RFuel.fuelOf x
class RHasOperator (τ : Type) where operator : τ → OpRef
instance : RHasOperator POperation := ⟨fun | .mk o _ => o⟩
instance : RHasOperator PData := ⟨fun | .mk o _ => o⟩
instance : RHasOperator PLazy := ⟨fun | .mk o _ => o⟩
class RHasArguments (τ : Type) (α : outParam Type) where arguments : τ → List α
instance : RHasArguments POperation PParsed := ⟨fun | .mk _ a => a⟩
instance : RHasArguments PData PParsed := ⟨fun | .mk _ a => a⟩
instance : RHasArguments PLazy Json := ⟨fun | .mk _ a => a⟩
@[rs] def operator {τ : Type} [RHasOperator τ] (x : τ) : OpRef := RHasOperator.operator x
@[rs] def arguments {τ α : Type} [RHasArguments τ α] (x : τ) : List α := RHasArguments.arguments x
@[rs] def value_ (r : PRaw) : Json := match r with | .mk v => v
/-- the three `phf_map!` tables as lookups from a key to the reference of its entry (keys and arities: `JL/Generated/Tables.lean`) -/
def opsOf (t : List Entry) (k : Str) : Option OpRef := (findEntry k t).map (fun e => ⟨e.key, e.arity⟩)
def eagerOps : Str → Option OpRef := opsOf Tables.eager
def lazyOps : Str → Option OpRef := opsOf Tables.lazy
def dataOps : Str → Option OpRef := opsOf Tables.data
/-- association-list lookup (the translated tables are lists of (key, function)) -/
def assoc {β : Type} (k : Str) : List (Str × β) → Option β
  | [] => none
  | (k', v) :: rest => if k' = k then some v else assoc k rest

/-! ## operator descriptors (`NumParams`, seen through `CommonOperator::param_info`) -/
@[rs] def param_info (o : OpRef) : Arity := o.arity
@[rs] def is_valid_len (a : Arity) (n : Nat) : Bool := a.isValidLen n            -- tied to the source by `JL.Props.ArityFns`
@[rs] def can_accept_unary (a : Arity) : Bool := a.canAcceptUnary
instance {β : Type} : RGet (Str → Option β) Str β := ⟨fun m k => m k⟩            -- `phf::Map::get`
/-- `Map::keys()` of a serde_json object (a `BTreeMap`): in key order -/
@[rs] def keys (m : List (Str × Json)) : List Str := m.map Prod.fst

/-! ## integers -/
@[rs] def unsigned_abs (i : Int) : Nat := i.natAbs
/-- `u64 → usize` (`try_into`) cannot fail on the 64-bit targets the crate is built for -/
@[rs] def try_into {α β : Type} [RTryInto α β] (a : α) : Option β := RTryInto.tryInto a
@[rs] def checked_sub (a b : Nat) : Option Nat := if b ≤ a then some (a - b) else none

/-! ## identity of references -/
/-- `std::ptr::eq(a, b)`: the operands reach the translated functions as distinct references (`JsOp.strictEq`) -/
@[rs] def ptr_eq {α : Type} (_ _ : α) : Bool := false
@[rs] def id_ {α : Type} (a : α) : α := a

/-! ## measures for the two functions that recurse on a *converted* operand -/
/-- `abstract_eq` recurses after turning a boolean into a number and a container into a string -/
def eqRank : Json → Nat
  | .bool _ => 2
  | .arr _ => 1
  | .obj _ => 1
  | _ => 0
/-- `parse_float` recurses once, on the string form -/
def strRank : Json → Nat
  | .str _ => 0
  | .num _ => 0
  | _ => 1

attribute [rs] REq.eq ROrd.lt ROrd.le RArith.add RArith.sub RArith.mul RArith.div RArith.rem RArith.neg RToF64.toF64 RToInt.toInt RNumberFrom.numberFrom RAsciiDigit.isAsciiDigit RCmp.partialCmp RTotalCmp.cmp RCollect.collect RHasOperator.operator RHasArguments.arguments RTryS.tryS RContains.contains RStrict.strict RZip.zip RBits.bor RBits.band RBits.bxor RTry.try_ RTryInto.tryInto RAndThen.andThen RToNat.toNat RToI64.toI64 RMinMax.min RMinMax.max f64_to_u64 RLen.len RGet.get RPat.stripPrefix RToString.toStr

end Rs
end JL
