import JL.Eval
/-!
# Models of the boundaries: `src/bin.rs` (`jsonlogic` command), `python_iface::apply`, `py/jsonlogic_rs/__init__.py`

The JSON text codec (`serde_json::from_str`, `Value::to_string`, Python's `json.dumps/loads`) is external to the
crate and enters as parameters `parse : Str → Option Json`, `ser : Json → Str`.
-/
namespace JL
namespace Wrap

/-- what one invocation of the `jsonlogic` command shows: the lines on standard output and whether it exited 0 -/
structure CliOut where
  stdout : List Str
  exitZero : Bool
  deriving DecidableEq

/-- `main`: the data text is the second argument unless that is absent or `-`, in which case it is standard input -/
def dataText (arg : Option Str) (stdin : Str) : Str :=
  match arg with
  | some a => if a = "-".toList then stdin else a
  | none => stdin

/-- `main` of `src/bin.rs`: parse logic (`?`), parse data (`?`), apply (`?`), `println!("{}", result)`.
A panic inside `apply` ends the process with a non-zero status after the `log` lines already written. -/
def cliEval (ser : Json → Str) (rule data : Json) : CliOut :=
  let m := apply rule data
  match m.out with
  | .ok v => ⟨m.logs.map ser ++ [ser v], true⟩
  | _ => ⟨m.logs.map ser, false⟩

def cli (parse : Str → Option Json) (ser : Json → Str) (logic : Str) (arg : Option Str) (stdin : Str) : CliOut :=
  match parse logic with
  | none => ⟨[], false⟩
  | some rule =>
    match parse (dataText arg stdin) with
    | none => ⟨[], false⟩
    | some data => cliEval ser rule data

/-- outcome of a call into the Python module -/
inductive PyOut (α : Type) where
  | value (v : α)
  | valueError
  | crash          -- anything else: another exception type, an aborted interpreter
  deriving DecidableEq

/-- `python_iface::apply` behind `py_apply`: every failure is mapped to `ValueError`; a panic is not -/
def native (parse : Str → Option Json) (ser : Json → Str) (value data : Str) : PyOut Str :=
  match parse value with
  | none => .valueError
  | some rule =>
    match parse data with
    | none => .valueError
    | some d =>
      match (apply rule d).out with
      | .ok v => .value (ser v)
      | .err => .valueError
      | .panic => .crash

/-- `jsonlogic_rs.apply(value, data=None, serializer=None, deserializer=None)` on JSON-representable objects
(Python objects are modelled by the JSON value they encode to; `dumps`/`loads` are `json.dumps`/`json.loads`;
a user-supplied deserializer is an arbitrary function of the result text) -/
def pyApply {α : Type} (parse : Str → Option Json) (ser : Json → Str) (dumps : Json → Str) (loads : Str → α)
    (value : Json) (data : Option Json) (serializer : Option (Json → Str)) (deserializer : Option (Str → α)) : PyOut α :=
  let s := serializer.getD dumps
  let de := deserializer.getD loads
  match native parse ser (s value) (s (data.getD .null)) with
  | .value res => .value (de res)
  | .valueError => .valueError
  | .crash => .crash

/-- `jsonlogic_rs.apply_serialized(value, data=None, deserializer=None)` -/
def pyApplySerialized {α : Type} (parse : Str → Option Json) (ser : Json → Str) (loads : Str → α)
    (value : Str) (data : Option Str) (deserializer : Option (Str → α)) : PyOut α :=
  let de := deserializer.getD loads
  match native parse ser value (data.getD "null".toList) with
  | .value res => .value (de res)
  | .valueError => .valueError
  | .crash => .crash

end Wrap
end JL
