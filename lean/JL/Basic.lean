/-!
# Basic definitions shared by the model

`Str` is the model of a Rust `String`: a sequence of Unicode scalar values. Lean's `Char` is
exactly a Unicode scalar value (surrogates excluded), as is Rust's `char`, and every API the
crate uses on strings that matters here is character-indexed (`chars()`), so `List Char` is the
representation used everywhere (model, spec, wire format).
-/
namespace JL

abbrev Str := List Char

/-- Lexicographic `<` on code points. Rust compares `String`s by UTF-8 bytes, which orders
strings exactly like the sequence of their code points (UTF-8 preserves code-point order). -/
def strLt : Str → Str → Bool
  | [], [] => false
  | [], _ :: _ => true
  | _ :: _, [] => false
  | a :: as, b :: bs => if a.val < b.val then true else if b.val < a.val then false else strLt as bs

def strLe (a b : Str) : Bool := !strLt b a

/-- `haystack.contains(needle)` on strings: infix test on scalar values (UTF-8 is
self-synchronising, so a byte-level substring match of valid UTF-8 is a char-level one). -/
def isPrefix : Str → Str → Bool
  | [], _ => true
  | _ :: _, [] => false
  | a :: as, b :: bs => a == b && isPrefix as bs

def isInfix (needle : Str) : Str → Bool
  | [] => needle.isEmpty
  | c :: cs => isPrefix needle (c :: cs) || isInfix needle cs

def joinWith (sep : Str) : List Str → Str
  | [] => []
  | [x] => x
  | x :: y :: rest => x ++ sep ++ joinWith sep (y :: rest)

def natToStr (n : Nat) : Str := Nat.toDigits 10 n
def intToStr (i : Int) : Str := if i < 0 then '-' :: natToStr i.natAbs else natToStr i.toNat

def isDigit (c : Char) : Bool := '0' ≤ c && c ≤ '9'
def digitVal (c : Char) : Nat := c.toNat - '0'.toNat

/-- value of a string of ASCII digits -/
def digitsVal (cs : List Char) : Nat := cs.foldl (fun acc c => acc * 10 + digitVal c) 0

end JL
