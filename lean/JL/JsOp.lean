import JL.Json
/-!
# Model of `src/js_op.rs` (the public coercion helpers), as the code is written

Each definition mirrors one Rust function; comments name it. `Option F64` plays `Option<f64>`.
-/
namespace JL
open Json

namespace JsOp

/-! ## `to_string` -/
mutual
/-- `js_op::to_string` -/
def toString : Json → Str
  | obj _ => "[object Object]".toList
  | .bool true => "true".toList
  | .bool false => "false".toList
  | null => "null".toList
  | num n => n.toStr
  | str s => s
  | arr xs => joinWith [','] (toStringElems xs)
/-- the `.map(|i| match i { Null => "", _ => to_string(i) })` over array elements -/
def toStringElems : List Json → List Str
  | [] => []
  | null :: rest => [] :: toStringElems rest
  | x :: rest => toString x :: toStringElems rest
end

/-- `to_primitive_number` -/
def toPrimitiveNumber : Json → Option F64
  | obj _ => none
  | arr _ => none
  | .bool b => some (if b then F64.one else F64.zero)
  | null => some F64.zero
  | num n => some n.toF64
  | str _ => none

/-! ## scanners -/

/-- `is_js_whitespace`: WhiteSpace and LineTerminator code points of ECMA-262 -/
def isJsWhitespace (c : Char) : Bool :=
  let n := c.toNat
  (9 ≤ n && n ≤ 13) || n == 0x20 || n == 0xA0 || n == 0x1680 || (0x2000 ≤ n && n ≤ 0x200A)
    || n == 0x2028 || n == 0x2029 || n == 0x202F || n == 0x205F || n == 0x3000 || n == 0xFEFF

def trimStart (s : Str) : Str := s.dropWhile isJsWhitespace
def trimEnd (s : Str) : Str := (s.reverse.dropWhile isJsWhitespace).reverse
/-- `str::trim_matches(is_js_whitespace)` -/
def trimBoth (s : Str) : Str := trimEnd (trimStart s)

/-- number of leading ASCII digits -/
def digitsLen (s : Str) : Nat := (s.takeWhile isDigit).length

/-- `decimal_literal_len`: length of the longest prefix that is an unsigned StrDecimalLiteral
(digits, optional fraction, optional exponent; at least one mantissa digit); 0 if none. -/
def decimalLiteralLen (s : Str) : Nat :=
  let intEnd := digitsLen s
  let afterInt := s.drop intEnd
  -- (mantissa digit count, end of mantissa)
  let (mant, endM) :=
    match afterInt with
    | '.' :: fr =>
        let fracLen := digitsLen fr
        if intEnd + fracLen > 0 then (intEnd + fracLen, intEnd + 1 + fracLen) else (intEnd + fracLen, intEnd)
    | _ => (intEnd, intEnd)
  if mant == 0 then 0
  else
    match s.drop endM with
    | e :: rest =>
        if e == 'e' || e == 'E' then
          let (signLen, ds) :=
            match rest with
            | sgn :: r => if sgn == '+' || sgn == '-' then (1, r) else (0, rest)
            | [] => (0, rest)
          let expLen := digitsLen ds
          if expLen > 0 then endM + 1 + signLen + expLen else endM
        else endM
    | [] => endM

/-- `split_sign` -/
def splitSign : Str → Bool × Str
  | '-' :: rest => (true, rest)
  | '+' :: rest => (false, rest)
  | s => (false, s)

/-- `char::to_digit(radix)` for radix 2, 8, 16 -/
def toDigit (radix : Nat) (c : Char) : Option Nat :=
  let n := c.toNat
  let v :=
    if '0'.toNat ≤ n && n ≤ '9'.toNat then some (n - '0'.toNat)
    else if 'a'.toNat ≤ n && n ≤ 'z'.toNat then some (n - 'a'.toNat + 10)
    else if 'A'.toNat ≤ n && n ≤ 'Z'.toNat then some (n - 'A'.toNat + 10)
    else none
  match v with
  | some d => if d < radix then some d else none
  | none => none

/-- `2f64.powi(n)` for `n ≥ 0` -/
def pow2 (n : Nat) : F64 := if n ≤ 1023 then F64.fin false (2 ^ n * F64.S) else F64.inf false

/-- the digit loop of `radix_literal`: keeps the leading 60+ bits exactly, counts the bits shifted
out and remembers whether any of them was set -/
def radixLoop (radix bits : Nat) : List Char → (Nat × Nat × Bool) → Option (Nat × Nat × Bool)
  | [], st => some st
  | c :: cs, (acc, shift, sticky) =>
      match toDigit radix c with
      | none => none
      | some d =>
          if acc / 2 ^ 60 = 0 then radixLoop radix bits cs (acc * 2 ^ bits + d, shift, sticky)
          else radixLoop radix bits cs (acc, shift + bits, sticky || d != 0)

/-- `radix_literal`: `none` = no `0x/0o/0b` prefix; `some none` = prefix but invalid literal -/
def radixLiteral : Str → Option (Option F64)
  | '0' :: p :: digits =>
      let rb : Option (Nat × Nat) :=
        if p == 'x' || p == 'X' then some (16, 4)
        else if p == 'o' || p == 'O' then some (8, 3)
        else if p == 'b' || p == 'B' then some (2, 1)
        else none
      match rb with
      | none => none
      | some (radix, bits) =>
          if digits.isEmpty then some none
          else
            match radixLoop radix bits digits (0, 0, false) with
            | none => some none
            | some (acc, shift, sticky) =>
                let mantissa := F64.ofNat (if sticky then acc ||| 1 else acc)
                some (some (if shift > 1100 then F64.inf false else F64.mul mantissa (pow2 shift)))
  | _ => none

/-- Rust `f64::from_str` (core::num::dec2flt), whole grammar:
`[+-]? (inf | infinity | nan | digits [. digits*] [e [+-]? digits+] | . digits+ [e…])`, case-insensitive
keywords. Correct rounding of the decimal value is Rust's documented contract (trusted, and compared
bit-for-bit by the correspondence check). -/
def lower (c : Char) : Char := if 'A' ≤ c && c ≤ 'Z' then Char.ofNat (c.toNat + 32) else c

def rustParseF64 (s : Str) : Option F64 :=
  let (neg, explicitSign, u) : Bool × Bool × Str :=
    match s with
    | '-' :: r => (true, true, r)
    | '+' :: r => (false, true, r)
    | r => (false, false, r)
  let _ := explicitSign
  let lu := u.map lower
  if lu == "inf".toList || lu == "infinity".toList then some (F64.inf neg)
  else if lu == "nan".toList then some F64.nan
  else
    let intDs := u.takeWhile isDigit
    let r1 := u.drop intDs.length
    let (fracDs, r2) : Str × Str :=
      match r1 with
      | '.' :: fr => (fr.takeWhile isDigit, fr.drop (fr.takeWhile isDigit).length)
      | _ => ([], r1)
    if intDs.length + fracDs.length == 0 then none
    else
      let mant := digitsVal (intDs ++ fracDs)
      match r2 with
      | [] => some (F64.ofDecimal neg mant (-(fracDs.length : Int)))
      | e :: r3 =>
          if e == 'e' || e == 'E' then
            let (eneg, ds) : Bool × Str :=
              match r3 with
              | '-' :: r => (true, r)
              | '+' :: r => (false, r)
              | r => (false, r)
            if ds.isEmpty || !ds.all isDigit then none
            else
              let ev : Int := digitsVal ds
              some (F64.ofDecimal neg mant ((if eneg then -ev else ev) - (fracDs.length : Int)))
          else none

/-- `str_to_number`: JS `Number(string)`, `none` where that is NaN -/
def strToNumber (string : Str) : Option F64 :=
  let s := trimBoth string
  if s.isEmpty then some F64.zero
  else
    match radixLiteral s with
    | some rv => rv
    | none =>
        let (negative, unsigned) := splitSign s
        let magnitude : Option F64 :=
          if unsigned == "Infinity".toList then some (F64.inf false)
          else if !unsigned.isEmpty && decimalLiteralLen unsigned == unsigned.length then rustParseF64 unsigned
          else none
        match magnitude with
        | none => none
        | some m => some (if negative then F64.negate m else m)

inductive Primitive where
  | string (s : Str)
  | number (f : F64)

/-- `to_primitive(value, PrimitiveHint::Number)` -/
def toPrimitive (v : Json) : Primitive :=
  match toPrimitiveNumber v with
  | some f => .number f
  | none => .string (toString v)

/-- `to_number` -/
def toNumber (v : Json) : Option F64 :=
  match toPrimitive v with
  | .number f => some f
  | .string s => strToNumber s

/-! ## equality -/

/-- arms 1–6 of `abstract_eq` (null/number/string against each other) -/
def eqPrim : Json → Json → Bool
  | null, null => true
  | num x, num y => F64.eq x.toF64 y.toF64
  | str x, str y => x == y
  | num x, str y => match strToNumber y with | some yn => F64.eq x.toF64 yn | none => false
  | str x, num y => match strToNumber x with | some xn => F64.eq xn y.toF64 | none => false
  | _, _ => false

/-- `abstract_eq` without the boolean arms: containers meet strings/numbers through `to_string` -/
def eqNoBool : Json → Json → Bool
  | str a, arr b => eqPrim (str a) (str (toString (arr b)))
  | num a, arr b => eqPrim (num a) (str (toString (arr b)))
  | str a, obj b => eqPrim (str a) (str (toString (obj b)))
  | num a, obj b => eqPrim (num a) (str (toString (obj b)))
  | obj a, str b => eqPrim (str (toString (obj a))) (str b)
  | obj a, num b => eqPrim (str (toString (obj a))) (num b)
  | arr a, str b => eqPrim (str (toString (arr a))) (str b)
  | arr a, num b => eqPrim (str (toString (arr a))) (num b)
  | a, b => eqPrim a b

def boolNum (b : Bool) : Json := num (.flt (if b then F64.one else F64.zero))

/-- `abstract_eq` -/
def abstractEq : Json → Json → Bool
  | .bool x, .bool y => x == y
  | .bool x, b => eqNoBool (boolNum x) b
  | a, .bool y => eqNoBool a (boolNum y)
  | a, b => eqNoBool a b

/-- `abstract_ne` -/
def abstractNe (a b : Json) : Bool := !abstractEq a b

/-- `strict_eq` on two distinct instances (the pointer-identity shortcut cannot fire through `apply`,
where the operands are separate elements of a freshly collected vector) -/
def strictEq : Json → Json → Bool
  | null, null => true
  | .bool x, .bool y => x == y
  | num x, num y => F64.eq x.toF64 y.toF64
  | str x, str y => x == y
  | _, _ => false

/-- `strict_ne` -/
def strictNe (a b : Json) : Bool := !strictEq a b

/-! ## relational -/

/-- `abstract_lt` -/
def abstractLt (a b : Json) : Bool :=
  match toPrimitive a, toPrimitive b with
  | .string f, .string s => strLt f s
  | .number f, .number s => F64.lt f s
  | .string f, .number s => match strToNumber f with | some f => F64.lt f s | none => false
  | .number f, .string s => match strToNumber s with | some s => F64.lt f s | none => false

/-- `abstract_gt` (a separate body in the Rust source) -/
def abstractGt (a b : Json) : Bool :=
  match toPrimitive a, toPrimitive b with
  | .string f, .string s => strLt s f
  | .number f, .number s => F64.gt f s
  | .string f, .number s => match strToNumber f with | some f => F64.gt f s | none => false
  | .number f, .string s => match strToNumber s with | some s => F64.gt f s | none => false

/-- `abstract_lte` -/
def abstractLte (a b : Json) : Bool :=
  match toPrimitive a, toPrimitive b with
  | .string f, .string s => strLe f s
  | .number f, .number s => F64.le f s
  | .string f, .number s => match strToNumber f with | some f => F64.le f s | none => false
  | .number f, .string s => match strToNumber s with | some s => F64.le f s | none => false

/-- `abstract_gte` -/
def abstractGte (a b : Json) : Bool := abstractLte b a

/-! ## arithmetic -/

/-- `abstract_max`: `none` = `Err` -/
def abstractMax (items : List Json) : Option F64 :=
  items.foldlM (fun max v => match toNumber v with
    | some n => some (if F64.gt n max then n else max)
    | none => none) (F64.inf true)

/-- `abstract_min` -/
def abstractMin (items : List Json) : Option F64 :=
  items.foldlM (fun min v => match toNumber v with
    | some n => some (if F64.lt n min then n else min)
    | none => none) (F64.inf false)

/-- `abstract_plus` (public helper; not reachable from any operator) -/
def abstractPlus (a b : Json) : Json :=
  match toPrimitiveNumber a, toPrimitiveNumber b with
  | some f, some s =>
      match Num.ofF64? (F64.add f s) with
      | some n => num n
      | none => null
  | _, _ => str (toString a ++ toString b)

/-- `parse_float_string` -/
def parseFloatString (val : Str) : Option F64 :=
  let (negative, unsigned) := splitSign (trimStart val)
  let magnitude : Option F64 :=
    if isPrefix "Infinity".toList unsigned then some (F64.inf false)
    else rustParseF64 (unsigned.take (decimalLiteralLen unsigned))
  match magnitude with
  | none => none
  | some m => some (if negative then F64.negate m else m)

/-- `parse_float` -/
def parseFloat : Json → Option F64
  | num n => some n.toF64
  | str s => parseFloatString s
  | v => parseFloatString (toString v)

/-- `parse_float_add` -/
def parseFloatAdd (vals : List Json) : Option F64 :=
  vals.foldlM (fun total v => match parseFloat v with
    | some n => some (F64.add total n)
    | none => none) F64.zero

/-- `parse_float_mul` -/
def parseFloatMul (vals : List Json) : Option F64 :=
  vals.foldlM (fun total v => match parseFloat v with
    | some n => some (F64.mul total n)
    | none => none) F64.one

/-- `abstract_minus` -/
def abstractMinus (a b : Json) : Option F64 :=
  match toNumber a, toNumber b with
  | some x, some y => some (F64.sub x y)
  | _, _ => none

/-- `abstract_div` -/
def abstractDiv (a b : Json) : Option F64 :=
  match toNumber a, toNumber b with
  | some x, some y => some (F64.div x y)
  | _, _ => none

/-- `abstract_mod` -/
def abstractMod (a b : Json) : Option F64 :=
  match toNumber a, toNumber b with
  | some x, some y => some (F64.rem x y)
  | _, _ => none

/-- `to_negative`: `-1.0 * v` -/
def toNegative (v : Json) : Option F64 :=
  match toNumber v with
  | some x => some (F64.mul (F64.fin true F64.S) x)
  | none => none

end JsOp

/-! ## `value::to_number_value` -/

def I64_LIMIT : F64 := F64.fin false (2 ^ 63 * F64.S)
def U64_LIMIT : F64 := F64.fin false (2 ^ 64 * F64.S)

/-- `to_number_value`: `none` = `Err` -/
def toNumberValue (x : F64) : Option Json :=
  if x.fractIsZero && F64.ge x (F64.negate I64_LIMIT) && F64.lt x I64_LIMIT then
    some (.num (Num.ofI64 x.truncInt))
  else if x.fractIsZero && F64.ge x I64_LIMIT && F64.lt x U64_LIMIT then
    some (.num (.pos x.truncInt.toNat))
  else
    match Num.ofF64? x with
    | some n => some (.num n)
    | none => none

end JL
