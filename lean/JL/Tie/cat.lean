import JL.Generated.Fns
import JL.Tie.to_string
/-! tie: `cat`, as translated from the crate's current source, is the model's function - for every input -/
namespace JL.Tie
open JL
set_option linter.unusedSimpArgs false

/-- the string form `cat` gives each operand -/
def catPiece (i : Json) : Str := match i with | .str s => s | v => JsOp.toString v

theorem cat_fold (items : List Json) (acc : Str) (pieces : List (Option Str)) (step : Option Str → Option Str → Option Str)
    (hp : pieces = items.map (fun i => some (catPiece i)))
    (hs : ∀ a p, step (some a) (some p) = some (a ++ p)) :
    pieces.foldl step (some acc) = some (acc ++ (items.map catPiece).flatten) := by
  subst hp
  induction items generalizing acc with
  | nil => simp
  | cons i is ih => simp [hs, ih, List.append_assoc]

theorem cat_model (items : List Json) : StrOp.cat items = (items.map catPiece).flatten := by
  unfold StrOp.cat
  induction items with
  | nil => simp
  | cons i is ih => cases i <;> simp_all [catPiece, List.flatMap]

theorem cat (items : List Json) : Gen.cat items = some (.str (StrOp.cat items)) := by
  unfold Gen.cat
  simp only [rs]
  rw [cat_fold items [] _ _ (by
        show List.map _ items = List.map _ items
        apply List.map_congr_left
        intro i _
        cases i <;> simp [catPiece, to_string])
      (by intro a p; rfl)]
  -- whatever surrounds the fold (a fast path for a single string operand, say) is settled by the shape of the operand list
  rcases items with _ | ⟨a, _ | ⟨b, rest⟩⟩ <;> (try cases a) <;> simp [cat_model, catPiece, rs, Rs.index]

end JL.Tie
