import JL.Generated.Fns
import JL.Lemmas.TieAuto
/-! tie: `to_primitive_number`, as translated from the crate's current source, is the model's function - for every input -/
namespace JL.Tie
open JL

theorem to_primitive_number (v : Json) : Gen.to_primitive_number v = JsOp.toPrimitiveNumber v := by
  cases v <;> tie_close [Gen.to_primitive_number, JsOp.toPrimitiveNumber]

end JL.Tie
