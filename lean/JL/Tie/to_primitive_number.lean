import JL.Generated.Fns
/-! tie: `to_primitive_number`, as translated from the crate's current source, is the model's function - for every input -/
namespace JL.Tie
open JL

theorem to_primitive_number (v : Json) : Gen.to_primitive_number v = JsOp.toPrimitiveNumber v := by
  cases v <;> simp [Gen.to_primitive_number, JsOp.toPrimitiveNumber, rs]
  all_goals (rename_i b; cases b <;> rfl)

end JL.Tie
