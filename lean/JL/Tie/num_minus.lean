import JL.Generated.Fns
import JL.Lemmas.Monad
import JL.Tie.to_negative
import JL.Tie.abstract_minus
import JL.Tie.to_number_value
/-! tie: `num_minus`, as translated from the crate's current source, is the model's function - for every input -/
namespace JL.Tie
open JL

theorem num_minus (items : List Json) (h : 1 ≤ items.length) : Rs.ok_or (Gen.num_minus items) = execEager "-".toList items := by
  match items, h with
  | [a], _ =>
    unfold execEager
    simp only [Gen.num_minus, to_negative, to_number_value]
    cases hm : JsOp.toNegative a <;> simp [rs, numResult, hm]
  | a :: b :: rest, _ =>
    unfold execEager
    simp only [Gen.num_minus, abstract_minus, to_number_value]
    cases hm : JsOp.abstractMinus a b <;> simp [rs, numResult, hm]

end JL.Tie
