import JL.Generated.Fns
import JL.Lemmas.Monad
import JL.Tie.to_negative
import JL.Tie.abstract_minus
import JL.Tie.to_number_value
/-! tie: `num_minus`, as translated from the crate's current source, is the model's function - for every input -/
namespace JL.Tie
open JL
set_option linter.unusedSimpArgs false  -- which of the listed facts are used depends on how the source is spelled

/- by the model's own case analysis (one operand / at least two; does the helper succeed?), each case closed by one `simp`
that unfolds the function and the library calls and rewrites the callees with their ties wherever they end up being applied
(`helper(..)?` then `to_number_value(v)`, or `helper(..).and_then(to_number_value)`) -/
theorem num_minus (items : List Json) (h : 1 ≤ items.length) : Rs.ok_or (Gen.num_minus items) = execEager "-".toList items := by
  match items, h with
  | [a], _ =>
    unfold execEager
    cases hm : JsOp.toNegative a <;>
      simp [Gen.num_minus, to_negative, abstract_minus, to_number_value, rs, numResult, hm]
  | a :: b :: rest, _ =>
    unfold execEager
    cases hm : JsOp.abstractMinus a b <;>
      simp [Gen.num_minus, to_negative, abstract_minus, to_number_value, rs, numResult, hm]

end JL.Tie
