import JL.Generated.Fns
import JL.Tie.truthy
import JL.Lemmas.TieD
import JL.Lemmas.C05
/-! tie: `op_if`, as translated from the crate's current source, is the model's function - for every input -/
namespace JL.Tie
open JL JL.Lemmas.TieD

/-- one step of the translated fold of `if`, on an unwrapped state -/
def ifStep (d : Json) (s : Json × Bool × Bool) (iv : Nat × Json) : M (Json × Bool × Bool) :=
  if s.2.2 then pure s
  else if iv.1 % 2 == 0 then
    (if check iv.2 then pure (⟨iv.2⟩ : Rs.Parsed) else M.err) >>= fun p => run p.rule d >>= fun e =>
      pure (e, JL.truthy e, false)
  else if s.2.1 then
    (if check iv.2 then pure (⟨iv.2⟩ : Rs.Parsed) else M.err) >>= fun p => run p.rule d >>= fun t =>
      pure (t, true, true)
  else pure (Json.null, s.2.1, s.2.2)

theorem if_fold (d : Json) : ∀ (xs : List Json) (i : Nat) (s : Json × Bool × Bool),
    (foldBind (ifStep d) ((xs.zipIdx i).map (fun p => (p.2, p.1))) s >>= fun rv => (pure rv.1 : M Json)) = runIf xs i s d
  | [], i, s => by simp [runIf]
  | x :: xs, i, (l, w, r) => by
      have ih := if_fold d xs (i + 1)
      rw [List.zipIdx_cons, List.map_cons, foldBind_cons, M.bind_assoc]
      unfold runIf
      simp only [ifStep]
      cases r
      · simp only [Bool.false_eq_true, if_false]
        by_cases hi : (i % 2 == 0) = true
        · simp only [hi, if_true]
          by_cases hc : check x = true
          · simp only [hc, if_true, M.pure_bind, M.bind_assoc]
            congr 1; funext e
            simpa using ih _
          · simp [hc]
        · simp only [hi, if_false, Bool.false_eq_true]
          cases w
          · simpa using ih _
          · by_cases hc : check x = true
            · simp only [hc, if_true, M.pure_bind, M.bind_assoc]
              congr 1; funext e
              simpa using ih _
            · simp [hc]
      · simpa using ih _

/-- `if` and `?:` are the same function in the operator table -/
theorem op_if (d : Json) (xs : List Json) : Gen.op_if d xs = run (.obj [("if".toList, .arr xs)]) d := by
  unfold run
  simp only [Lemmas.C05.lookup_if]
  rw [if_pos (by decide)]
  unfold Gen.op_if
  match xs with
  | [] => simp [rs]
  | [x] =>
      by_cases hc : check x = true
      · simp [rs, hc, bind_eq, Lemmas.C05.bind_mk_pure]
      · simp [rs, hc, bind_eq]
  | x :: y :: rest =>
      simp only []
      rw [← if_fold d (x :: y :: rest) 0 (.null, false, false)]
      simp only [Rs.len, Rs.RLen.len, List.length_cons]
      rw [foldM_bind' _ (ifStep d)]
      · simp only [rs, bind_eq, M.pure_bind, map_eq_bind]
      · intro a iv
        obtain ⟨i, v⟩ := iv
        simp only [rs, truthy]
        first
          | rfl
          | (congr 1; funext s
             obtain ⟨l, w, r⟩ := s
             simp only [ifStep, bind_eq]
             cases r <;> simp)

end JL.Tie
