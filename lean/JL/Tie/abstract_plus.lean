import JL.Generated.Fns
import JL.Tie.to_primitive_number
import JL.Tie.to_string
/-! tie: `abstract_plus`, as translated from the crate's current source, is the model's function - for every input -/
namespace JL.Tie
open JL

theorem abstract_plus (a b : Json) : Gen.abstract_plus a b = JsOp.abstractPlus a b := by
  unfold Gen.abstract_plus JsOp.abstractPlus
  simp only [to_primitive_number, to_string]
  cases JsOp.toPrimitiveNumber a <;> cases JsOp.toPrimitiveNumber b <;> simp [rs]
  all_goals (first | (split <;> simp_all) | skip)

end JL.Tie
