import JL.Generated.Fns
import JL.Lemmas.TieAuto
import JL.Tie.to_primitive_number
import JL.Tie.to_string
/-! tie: `abstract_plus`, as translated from the crate's current source, is the model's function - for every input -/
namespace JL.Tie
open JL

theorem abstract_plus (a b : Json) : Gen.abstract_plus a b = JsOp.abstractPlus a b := by
  tie_close [Gen.abstract_plus, JsOp.abstractPlus, to_primitive_number, to_string]
    splitting JsOp.toPrimitiveNumber Num.ofF64?

end JL.Tie
