import JL.Generated.Fns
import JL.Tie.to_primitive_number
import JL.Tie.to_string
/-! tie: `to_primitive`, as translated from the crate's current source, is the model's function - for every input -/
namespace JL.Tie
open JL

/-- the hint is `PrimitiveHint::Number` at every call site (the model's `toPrimitive` has no other mode) -/
theorem to_primitive (v : Json) : Gen.to_primitive v Rs.PrimitiveHint.Number = JsOp.toPrimitive v := by
  unfold Gen.to_primitive JsOp.toPrimitive
  rw [to_primitive_number, to_string]
  cases JsOp.toPrimitiveNumber v <;> simp [rs]

end JL.Tie
