import JL.Generated.Fns
import JL.Lemmas.TieAuto
import JL.Tie.to_primitive_number
import JL.Tie.to_string
/-! tie: `to_primitive`, as translated from the crate's current source, is the model's function - for every input -/
namespace JL.Tie
open JL

/-- the hint is `PrimitiveHint::Number` at every call site (the model's `toPrimitive` has no other mode) -/
theorem to_primitive (v : Json) : Gen.to_primitive v Rs.PrimitiveHint.Number = JsOp.toPrimitive v := by
  tie_close [Gen.to_primitive, JsOp.toPrimitive, to_primitive_number, to_string] splitting JsOp.toPrimitiveNumber

end JL.Tie
