import JL.Generated.Fns
import JL.Tie.abstract_lte
/-! tie: `abstract_gte`, as translated from the crate's current source, is the model's function - for every input -/
namespace JL.Tie
open JL

theorem abstract_gte (a b : Json) : Gen.abstract_gte a b = JsOp.abstractGte a b := by
  simp [Gen.abstract_gte, JsOp.abstractGte, abstract_lte]

end JL.Tie
