import JL.Generated.Fns
import JL.Tie.knot
import JL.Wrap
/-! tie: `python_iface::apply` (the native function behind the Python module), as translated from the crate's current source, is the
model's `Wrap.native` - for every pair of texts, whatever the JSON codec (serde_json's parser and printer are parameters of both) -/
namespace JL.Tie
open JL
set_option linter.unusedSimpArgs false

/-- how the outcome of the native function reaches Python: a value, `ValueError` for every error, anything else for a panic -/
def pyOut {α : Type} (m : M α) : Wrap.PyOut α :=
  match m.out with
  | .ok v => .value v
  | .err => .valueError
  | .panic => .crash

theorem python_apply (parse : Str → Option Json) (ser : Json → Str) (value data : Str) :
    pyOut (Gen.python_apply parse ser value data) = Wrap.native parse ser value data := by
  unfold Gen.python_apply Wrap.native pyOut
  cases hv : parse value <;> simp [rs, M.err]
  cases hd : parse data <;> simp [rs, M.err]
  rw [Tie.apply]
  cases h : (JL.apply _ _).out <;> simp [Functor.map, M.bind, M.pure, h, bind, pure]

end JL.Tie
