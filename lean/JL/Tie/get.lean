import JL.Generated.Fns
/-! tie: `get`, as translated from the crate's current source, is the model's function - for every input -/
namespace JL.Tie
open JL

theorem get {α : Type} (xs : List α) (idx : Int) : Gen.get xs idx = Data.get xs idx := by
  unfold Gen.get Data.get
  simp only [rs]
  by_cases h : 0 ≤ idx
  · have : idx.natAbs = idx.toNat := by omega
    simp [h, this]
  · by_cases h2 : idx.natAbs ≤ xs.length <;> simp [h, h2]

end JL.Tie
