import JL.Generated.Fns
/-! tie: `get`, as translated from the crate's current source, is the model's function - for every input -/
namespace JL.Tie
open JL
set_option linter.unusedSimpArgs false  -- which of the listed facts are used depends on how the source is spelled

/- The cases of the model (sign of the index; whether a negative index reaches before the start) are decided first, and only
then are the library calls unfolded (`simp [rs, <the facts>]`), so that nothing depends on how the source arranges its tests
(`let … = if … else …?`, early `return`, `match`), nor on the names of its locals. -/
theorem get {α : Type} (xs : List α) (idx : Int) : Gen.get xs idx = Data.get xs idx := by
  unfold Gen.get Data.get
  -- every fact is supplied in both spellings (`0 ≤ idx` / `idx < 0`, `k ≤ n` / `n < k`): which one the code tests is its business
  by_cases h : 0 ≤ idx
  · have h' : idx.natAbs = idx.toNat := by omega
    have h'' : ¬ idx < 0 := by omega
    simp [rs, h, h', h'']
  · have h' : idx < 0 := by omega
    by_cases h2 : idx.natAbs ≤ xs.length
    · have h2' : ¬ xs.length < idx.natAbs := by omega
      simp [rs, h, h', h2, h2']
    · have h2' : xs.length < idx.natAbs := by omega
      simp [rs, h, h', h2, h2']

end JL.Tie
