import JL.Generated.Fns
import JL.Tie.num_compare
import JL.Tie.abstract_lte
/-! tie: `num_lte`, as translated from the crate's current source, is the model's function - for every input -/
namespace JL.Tie
open JL

theorem num_lte (items : List Json) (h : 2 ≤ items.length) : Rs.ok_or (Gen.num_lte items) = JL.compare JsOp.abstractLte items := by
  have hf : Gen.abstract_lte = JsOp.abstractLte := by
    funext a b; exact abstract_lte a b
  unfold Gen.num_lte
  rw [hf]
  exact num_compare _ items h

end JL.Tie
