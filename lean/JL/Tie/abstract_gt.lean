import JL.Generated.Fns
import JL.Lemmas.TieAuto
import JL.Tie.to_number
/-! tie: `abstract_gt`, as translated from the crate's current source, is the model's function - for every input -/
namespace JL.Tie
open JL

/- The four relational helpers may be written in terms of one another (`a > b` as `b < a`, …): their generated definitions are all
unfolded (none is recursive; `?`: those that exist), the conversions they call are replaced by the model's through the callee ties, the model's
conversions are unfolded down to `toPrimitiveNumber` / `strToNumber`, whose values are then case-split wherever they occur. -/
theorem abstract_gt (a b : Json) : Gen.abstract_gt a b = JsOp.abstractGt a b := by
  tie_close [Gen.abstract_gt, ?Gen.abstract_lt, ?Gen.abstract_lte, ?Gen.abstract_gte,
      JsOp.abstractLt, JsOp.abstractGt, JsOp.abstractLte, JsOp.abstractGte, JsOp.toNumber, JsOp.toPrimitive,
      to_number, to_primitive, to_primitive_number, to_string, str_to_number]
    splitting JsOp.toPrimitiveNumber JsOp.strToNumber

end JL.Tie
