import JL.Generated.Fns
import JL.Tie.to_primitive
import JL.Tie.str_to_number
/-! tie: `abstract_gt`, as translated from the crate's current source, is the model's function - for every input -/
namespace JL.Tie
open JL

theorem abstract_gt (a b : Json) : Gen.abstract_gt a b = JsOp.abstractGt a b := by
  unfold Gen.abstract_gt JsOp.abstractGt
  rw [to_primitive, to_primitive]
  cases JsOp.toPrimitive a <;> cases JsOp.toPrimitive b <;> simp [str_to_number, rs, F64.gt]
  all_goals (first | (rename_i s f; cases JsOp.strToNumber s <;> simp) | (rename_i f s; cases JsOp.strToNumber s <;> simp))

end JL.Tie
