import JL.Generated.Fns
import JL.Lemmas.TieAuto
import JL.Tie.strict_eq
/-! tie: `strict_ne`, as translated from the crate's current source, is the model's function - for every input -/
namespace JL.Tie
open JL

theorem strict_ne (a b : Json) : Gen.strict_ne a b = JsOp.strictNe a b := by
  tie_close [Gen.strict_ne, JsOp.strictNe, strict_eq]

end JL.Tie
