import JL.Generated.Fns
import JL.Tie.num_compare
import JL.Tie.abstract_gt
/-! tie: `num_gt`, as translated from the crate's current source, is the model's function - for every input -/
namespace JL.Tie
open JL

theorem num_gt (items : List Json) (h : 2 ≤ items.length) : Rs.ok_or (Gen.num_gt items) = JL.compare JsOp.abstractGt items := by
  have hf : Gen.abstract_gt = JsOp.abstractGt := by
    funext a b; exact abstract_gt a b
  unfold Gen.num_gt
  rw [hf]
  exact num_compare _ items h

end JL.Tie
