import JL.Generated.Fns
import JL.Lemmas.Monad
/-! tie: `op_log`, as translated from the crate's current source, is the model's function - for every input -/
namespace JL.Tie
open JL

theorem op_log (items : List Json) (h : 1 ≤ items.length) : Gen.op_log items = execEager "log".toList items := by
  match items, h with
  | a :: rest, _ =>
    unfold execEager
    simp [Gen.op_log, rs, M.bind_def]

end JL.Tie
