import JL.Generated.Fns
import JL.Lemmas.TieB
import JL.Lemmas.TieTactics
/-! tie: `number_eq`, as translated from the crate's current source, is the model's function - for every input -/
namespace JL.Tie
open JL JL.Lemmas.TieB
set_option linter.unusedSimpArgs false  -- which of the listed facts are used depends on how the source is spelled

/-- the case analysis of the model's `asInt` on one operand, as the facts the final `simp` needs: for a float, whether it is
an integer of moderate size, and then that `as i128` (behind the name `g`) is exact on it -/
syntax "number_eq_fin" : tactic
macro_rules
  | `(tactic| number_eq_fin) => `(tactic|
      simp [rs, Num.asU64, Num.asI64, Num.toF64, ArrOp.asInt, Option.filter_some, *])

/- The helper `as_int` (nested in `number_eq`, or hoisted to the top level under another name, or written with early
`return`s instead of `or_else` chains) is unfolded in place by `unfold_gen_aux`, which finds it without being told its name.
Then: the literal `1e30` and the test `fract() == 0.0` are folded to the model's terms BEFORE the library calls are unfolded,
`as i128` is hidden behind a name, and the model's own case analysis is made on both operands (spelling of the number; for a
float, whether `asInt` accepts it); every case is closed by the same `simp`. -/
theorem number_eq (a b : Num) : Gen.number_eq a b = ArrOp.numberEq a b := by
  unfold Gen.number_eq ArrOp.numberEq
  try unfold_gen_aux
  try simp only [lit1e30, fract_eq_zero]
  generalize h128 : Rs.to_i128 = g
  have hg := i128_exact g h128
  clear h128
  cases a with
  | pos x =>
      cases b with
      | pos y => number_eq_fin
      | neg y => number_eq_fin
      | flt y =>
          by_cases cy : (y.fractIsZero && F64.lt y.abs ArrOp.F1e30) = true
          · have gy := hg y cy; number_eq_fin
          · number_eq_fin
  | neg x =>
      cases b with
      | pos y => number_eq_fin
      | neg y => number_eq_fin
      | flt y =>
          by_cases cy : (y.fractIsZero && F64.lt y.abs ArrOp.F1e30) = true
          · have gy := hg y cy; number_eq_fin
          · number_eq_fin
  | flt x =>
      by_cases cx : (x.fractIsZero && F64.lt x.abs ArrOp.F1e30) = true
      · have gx := hg x cx
        cases b with
        | pos y => number_eq_fin
        | neg y => number_eq_fin
        | flt y =>
            by_cases cy : (y.fractIsZero && F64.lt y.abs ArrOp.F1e30) = true
            · have gy := hg y cy; number_eq_fin
            · number_eq_fin
      · cases b with
        | pos y => number_eq_fin
        | neg y => number_eq_fin
        | flt y =>
            by_cases cy : (y.fractIsZero && F64.lt y.abs ArrOp.F1e30) = true
            · have gy := hg y cy; number_eq_fin
            · number_eq_fin

end JL.Tie
