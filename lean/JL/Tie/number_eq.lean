import JL.Generated.Fns
import JL.Lemmas.TieB
/-! tie: `number_eq`, as translated from the crate's current source, is the model's function - for every input -/
namespace JL.Tie
open JL JL.Lemmas.TieB

/-- the nested helper `as_int` -/
theorem number_eq_as_int (n : Num) : Gen.number_eq.as_int n = ArrOp.asInt n := by
  unfold Gen.number_eq.as_int ArrOp.asInt
  cases n with
  | pos n => simp [rs, Num.asU64]
  | neg m => simp [rs, Num.asU64, Num.asI64]
  | flt f =>
    simp only [lit1e30, fract_eq_zero]
    generalize h128 : Rs.to_i128 = g
    simp only [rs, Num.asU64, Num.asI64, Num.toF64]
    rcases Bool.eq_false_or_eq_true (f.fractIsZero && F64.lt f.abs ArrOp.F1e30) with c | c
    · have c' := c
      simp only [Bool.and_eq_true] at c'
      simp only [Option.filter_some, c]
      simp [← h128, to_i128_eq_trunc f c'.2]
    · simp only [Option.filter_some, c]
      simp

theorem number_eq (a b : Num) : Gen.number_eq a b = ArrOp.numberEq a b := by
  unfold Gen.number_eq ArrOp.numberEq
  rw [number_eq_as_int, number_eq_as_int]
  cases ArrOp.asInt a <;> cases ArrOp.asInt b <;> simp [rs]

end JL.Tie
