import JL.Generated.Fns
import JL.Lemmas.TieB
/-! tie: `number_eq`, as translated from the crate's current source, is the model's function - for every input -/
namespace JL.Tie
open JL JL.Lemmas.TieB

theorem number_eq (a b : Num) : Gen.number_eq a b = ArrOp.numberEq a b := by
  unfold Gen.number_eq ArrOp.numberEq
  rw [number_eq_as_int, number_eq_as_int]
  cases ArrOp.asInt a <;> cases ArrOp.asInt b <;> simp [rs]

end JL.Tie
