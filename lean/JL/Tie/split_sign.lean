import JL.Generated.Fns
/-! tie: `split_sign`, as translated from the crate's current source, is the model's function - for every input -/
namespace JL.Tie
open JL

theorem split_sign (s : Str) : Gen.split_sign s = JsOp.splitSign s := by
  unfold Gen.split_sign JsOp.splitSign
  rcases s with _ | ⟨c, rest⟩
  · simp [rs]
  · by_cases h1 : c = '-'
    · subst h1; simp [rs]
    · by_cases h2 : c = '+'
      · subst h2; simp [rs]
      · simp [rs, h1, h2]

end JL.Tie
