import JL.Generated.Fns
import JL.Lemmas.TieAuto
/-! tie: `split_sign`, as translated from the crate's current source, is the model's function - for every input -/
namespace JL.Tie
open JL

theorem split_sign (s : Str) : Gen.split_sign s = JsOp.splitSign s := by
  -- the cases of the model: empty, a leading `-`, a leading `+`, any other first character
  rcases s with _ | ⟨c, rest⟩
  · tie_close [Gen.split_sign, JsOp.splitSign]
  · by_cases h1 : c = '-'
    · subst h1; tie_close [Gen.split_sign, JsOp.splitSign]
    · by_cases h2 : c = '+'
      · subst h2; tie_close [Gen.split_sign, JsOp.splitSign]
      · unfold JsOp.splitSign; tie_close [Gen.split_sign, h1, h2]

end JL.Tie
