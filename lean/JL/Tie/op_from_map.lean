import JL.Generated.Fns
import JL.Tie.check_len
/-! tie: `op_from_map`, as translated from the crate's current source, is how the model's `check` recognises an operation and validates
the shape and count of its operands - for every input -/
namespace JL.Tie
open JL

/-- What `op_from_map(table, value)` must compute, written from the model's `check`: `none` = `Err` (the value is rejected),
`some none` = not an operation of this table (a literal as far as this table is concerned), `some (some (ar, operands))` = an
operation of this table with its operand list (a non-array operand is a one-element list, when the arity admits that). -/
def opFromMapSpec {τ : Type} (ar : τ → Arity) (lk : Str → Option τ) : Json → Option (Option (τ × List Json))
  | .obj [(k, val)] =>
      match lk k with
      | none => some none
      | some op =>
          match val with
          | .arr xs => if (ar op).isValidLen xs.length then some (some (op, xs)) else none
          | x => if (ar op).canAcceptUnary then (if (ar op).isValidLen 1 then some (some (op, [x])) else none) else none
  | _ => some none

/-- (an operator is the reference of a table entry, `Rs.OpRef`: its key and its arity) -/
theorem op_from_map (lk : Str → Option Rs.OpRef) (v : Json) : Gen.op_from_map lk v = opFromMapSpec Rs.OpRef.arity lk v := by
  cases v with
  | obj kvs =>
    match kvs with
    | [] => simp [Gen.op_from_map, opFromMapSpec, rs]
    | _ :: _ :: _ => simp [Gen.op_from_map, opFromMapSpec, rs]
    | [(k, val)] =>
      cases hl : lk k with
      | none => simp [Gen.op_from_map, opFromMapSpec, rs, Json.lookup, hl]
      | some op =>
        cases val with
        | arr xs =>
          cases hv : op.arity.isValidLen xs.length <;>
            simp [Gen.op_from_map, opFromMapSpec, rs, Json.lookup, hl, check_len, hv]
        | _ =>
          cases hu : op.arity.canAcceptUnary <;> cases h1 : op.arity.isValidLen 1 <;>
            simp [Gen.op_from_map, opFromMapSpec, rs, Json.lookup, hl, check_len, hu, h1]
  | _ => simp [Gen.op_from_map, opFromMapSpec]

/-- the model's parse phase is exactly this recognition, over the three tables in the order eager, lazy, data, followed by the
recursive parse of the operands of eager and data operations -/
theorem check_via_spec (k : Str) (val : Json) :
    check (.obj [(k, val)]) =
      match opFromMapSpec id (fun k => (lookupOp k).map Prod.snd) (.obj [(k, val)]) with
      | none => false
      | some none => true
      | some (some (_, xs)) => ((lookupOp k).map Prod.fst == some Kind.lazy) || checkList xs := by
  unfold check
  cases hl : lookupOp k with
  | none => simp [opFromMapSpec, hl]
  | some p =>
    obtain ⟨kind, ar⟩ := p
    cases val with
    | arr xs => cases hv : ar.isValidLen xs.length <;> simp [opFromMapSpec, hl, hv]
    | _ =>
      cases hu : ar.canAcceptUnary <;> cases h1 : ar.isValidLen 1 <;>
        simp [opFromMapSpec, hl, hu, h1, checkList]

end JL.Tie
