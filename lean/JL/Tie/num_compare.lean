import JL.Generated.Fns
import JL.Lemmas.Monad
/-! tie: `num_compare`, as translated from the crate's current source, is the model's function - for every input -/
namespace JL.Tie
open JL

theorem num_compare (f : Json → Json → Bool) (items : List Json) (h : 2 ≤ items.length) : Rs.ok_or (Gen.num_compare f items) = JL.compare f items := by
  match items, h with
  | [a, b], _ => simp [Gen.num_compare, JL.compare, rs]
  | a :: b :: c :: rest, _ => simp [Gen.num_compare, JL.compare, rs]

end JL.Tie
