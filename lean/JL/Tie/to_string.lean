import JL.Generated.Fns
/-! tie: `to_string`, as translated from the crate's current source, is the model's function - for every input -/
namespace JL.Tie
open JL

/-! equations of the model's `toString` (a mutual structural definition: `simp [JsOp.toString]` is not usable) -/
theorem toString_obj (kvs) : JsOp.toString (.obj kvs) = "[object Object]".toList := by unfold JsOp.toString; rfl
theorem toString_true : JsOp.toString (.bool true) = "true".toList := by unfold JsOp.toString; rfl
theorem toString_false : JsOp.toString (.bool false) = "false".toList := by unfold JsOp.toString; rfl
theorem toString_null : JsOp.toString .null = "null".toList := by unfold JsOp.toString; rfl
theorem toString_num (n) : JsOp.toString (.num n) = n.toStr := by unfold JsOp.toString; rfl
theorem toString_str (s) : JsOp.toString (.str s) = s := by unfold JsOp.toString; rfl
theorem toString_arr (xs) : JsOp.toString (.arr xs) = joinWith [','] (JsOp.toStringElems xs) := by
  unfold JsOp.toString; rfl

/-- `Iterator::map` on a vector (rendered with the `Functor` instance of lists) -/
theorem list_fmap {α β : Type} (f : α → β) (xs : List α) : f <$> xs = List.map f xs := rfl

/-- the mapped closure of the array arm -/
private theorem to_string_elems (f : Json → Str) (hnull : f Json.null = []) :
    ∀ xs : List Json, (∀ x ∈ xs, x ≠ Json.null → f x = JsOp.toString x) → xs.map f = JsOp.toStringElems xs
  | [], _ => by simp [JsOp.toStringElems]
  | x :: rest, hf => by
      have ih := to_string_elems f hnull rest (fun y hy => hf y (List.mem_cons_of_mem _ hy))
      have hx := hf x List.mem_cons_self
      cases x <;> simp_all [JsOp.toStringElems]

private theorem depth_le_of_mem : ∀ (xs : List Json) (x : Json), x ∈ xs → Json.depth x ≤ Json.depthList xs
  | [], _, h => by simp at h
  | y :: rest, x, h => by
      simp only [Json.depthList]
      rcases List.mem_cons.mp h with h | h
      · subst h; omega
      · have := depth_le_of_mem rest x h; omega

theorem to_string_go : ∀ (fuel : Nat) (v : Json), Json.depth v < fuel → Gen.to_string.go fuel v = JsOp.toString v
  | 0, _, h => absurd h (Nat.not_lt_zero _)
  | fuel + 1, v, h => by
      cases v with
      | arr xs =>
          simp only [Json.depth] at h
          rw [toString_arr]
          simp only [Gen.to_string.go, rs, list_fmap]
          congr 1
          apply to_string_elems
          · rfl
          · intro x hx hne
            have hd := depth_le_of_mem xs x hx
            have := to_string_go fuel x (by omega)
            cases x <;> simp_all
      | bool b => cases b <;> simp [Gen.to_string.go, toString_true, toString_false, rs]
      | _ => simp [Gen.to_string.go, toString_obj, toString_null, toString_num, toString_str, rs]

theorem to_string (v : Json) : Gen.to_string v = JsOp.toString v :=
  to_string_go _ v (Nat.lt_succ_self _)

end JL.Tie
