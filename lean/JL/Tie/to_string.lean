import JL.Generated.Fns
import JL.Lemmas.TieAuto
/-! tie: `to_string`, as translated from the crate's current source, is the model's function - for every input -/
namespace JL.Tie
open JL
set_option linter.unusedSimpArgs false

/-! equations of the model's `toString` (a mutual structural definition: `simp [JsOp.toString]` is not usable) -/
theorem toString_obj (kvs) : JsOp.toString (.obj kvs) = "[object Object]".toList := by unfold JsOp.toString; rfl
theorem toString_true : JsOp.toString (.bool true) = "true".toList := by unfold JsOp.toString; rfl
theorem toString_false : JsOp.toString (.bool false) = "false".toList := by unfold JsOp.toString; rfl
theorem toString_null : JsOp.toString .null = "null".toList := by unfold JsOp.toString; rfl
theorem toString_num (n) : JsOp.toString (.num n) = n.toStr := by unfold JsOp.toString; rfl
theorem toString_str (s) : JsOp.toString (.str s) = s := by unfold JsOp.toString; rfl
theorem toString_arr (xs) : JsOp.toString (.arr xs) = joinWith [','] (JsOp.toStringElems xs) := by
  unfold JsOp.toString; rfl

/-- the string an array element contributes: nothing for `null` -/
def elemStr : Json → Str
  | .null => []
  | x => JsOp.toString x

theorem toStringElems_eq_map : ∀ xs : List Json, JsOp.toStringElems xs = xs.map elemStr
  | [] => by simp [JsOp.toStringElems]
  | x :: rest => by
      have ih := toStringElems_eq_map rest
      cases x <;> simp [JsOp.toStringElems, elemStr, ih]

theorem toString_arr' (xs) : JsOp.toString (.arr xs) = joinWith [','] (xs.map elemStr) := by
  rw [toString_arr, toStringElems_eq_map]

private theorem depth_le_of_mem : ∀ (xs : List Json) (x : Json), x ∈ xs → Json.depth x ≤ Json.depthList xs
  | [], _, h => by simp at h
  | y :: rest, x, h => by
      simp only [Json.depthList]
      rcases List.mem_cons.mp h with h | h
      · subst h; omega
      · have := depth_le_of_mem rest x h; omega

/-- `Iterator::map` on a vector (rendered with the `Functor` instance of lists) -/
theorem list_fmap {α β : Type} (f : α → β) (xs : List α) : f <$> xs = List.map f xs := rfl

/- The array arm: however the code goes over the elements (`iter().map(..)`, a `for` loop pushing into a vector, …), the simp set
`tie` turns it into `List.map f xs` for the code's per-element function `f`; on the elements of `xs` that function is the model's
`elemStr` (by the induction hypothesis - the code recurses only on elements), so the two maps agree (`List.map_congr_left`). -/
theorem to_string_go : ∀ (fuel : Nat) (v : Json), Json.depth v < fuel → Gen.to_string.go fuel v = JsOp.toString v
  | 0, _, h => absurd h (Nat.not_lt_zero _)
  | fuel + 1, v, h => by
      cases v with
      | arr xs =>
          have ih : ∀ x ∈ xs, Gen.to_string.go fuel x = JsOp.toString x := fun x hx =>
            to_string_go fuel x (by have := depth_le_of_mem xs x hx; simp only [Json.depth] at h; omega)
          simp only [Gen.to_string.go, rs, tie, List.nil_append, List.append_nil]
          rw [List.map_congr_left (g := elemStr)]
          · tie_close [toString_arr']
          · intro x hx
            have := ih x hx
            cases x <;> tie_close [elemStr]
      | bool b => cases b <;> tie_close [Gen.to_string.go, toString_true, toString_false]
      | _ => tie_close [Gen.to_string.go, toString_obj, toString_null, toString_num, toString_str]

theorem to_string (v : Json) : Gen.to_string v = JsOp.toString v :=
  to_string_go _ v (Nat.lt_succ_self _)

end JL.Tie
