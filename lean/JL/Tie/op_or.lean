import JL.Generated.Fns
import JL.Tie.truthy_from_evaluated
import JL.Lemmas.TieD
import JL.Lemmas.C05
/-! tie: `op_or`, as translated from the crate's current source, is the model's function - for every input -/
namespace JL.Tie
open JL JL.Lemmas.TieD

/-- the translated enum `OrResult` as the model's fold state -/
def orSt : Gen.op_or.OrResult → OrState
  | .Uninitialized => .uninit
  | .Truthy v => .decided v
  | .Current v => .current v

/-- one step of the translated fold of `or`, on an unwrapped state -/
def orStep (d : Json) (s : Gen.op_or.OrResult) (x : Json) : M Gen.op_or.OrResult :=
  match s with
  | .Truthy _ => pure s
  | _ => (if check x then pure (⟨x⟩ : Rs.Parsed) else M.err) >>= fun p => run p.rule d >>= fun e =>
      if JL.truthy e then pure (.Truthy e) else pure (.Current e)

theorem or_fold (d : Json) : ∀ (xs : List Json) (s : Gen.op_or.OrResult),
    (foldBind (orStep d) xs s >>= fun r => (pure (orSt r) : M OrState)) = runOrAnd true xs (orSt s) d
  | [], s => by simp [runOrAnd]
  | x :: xs, s => by
      have ih := or_fold d xs
      rw [foldBind_cons, M.bind_assoc]
      cases s with
      | Truthy v => simpa [orStep, orSt, runOrAnd] using ih (.Truthy v)
      | Uninitialized =>
          unfold runOrAnd
          simp only [orStep, orSt]
          by_cases hc : check x = true
          · simp only [hc, if_true, M.pure_bind, M.bind_assoc]
            congr 1; funext e
            cases ht : JL.truthy e <;> simpa [orSt] using ih _
          · simp [hc]
      | Current v =>
          unfold runOrAnd
          simp only [orStep, orSt]
          by_cases hc : check x = true
          · simp only [hc, if_true, M.pure_bind, M.bind_assoc]
            congr 1; funext e
            cases ht : JL.truthy e <;> simpa [orSt] using ih _
          · simp [hc]

theorem op_or (d : Json) (xs : List Json) : Gen.op_or d xs = run (.obj [("or".toList, .arr xs)]) d := by
  unfold run
  simp only [Lemmas.C05.lookup_or]
  rw [if_neg (by decide)]
  simp only [↓reduceIte]
  have h : (foldBind (orStep d) xs .Uninitialized >>= fun r => (pure (orSt r) : M OrState)) = runOrAnd true xs .uninit d :=
    or_fold d xs .Uninitialized
  rw [← h, M.bind_assoc]
  unfold Gen.op_or
  rw [foldM_bind' _ (orStep d)]
  · simp only [rs, bind_eq, M.pure_bind]
    congr 1; funext r
    cases r <;> simp [orSt]
  · intro a x
    simp only [rs, truthy_from_evaluated]
    first
      | rfl
      | (congr 1; funext s; cases s <;> simp [orStep, bind_eq])

end JL.Tie
