import JL.Generated.Fns
import JL.Tie.truthy_from_evaluated
import JL.Lemmas.TieE
/-! tie: `op_filter`, as translated from the crate's current source, is the model's function - for every input -/
namespace JL.Tie
open JL JL.Lemmas.C13 JL.Lemmas.TieE

theorem op_filter (d : Json) (xs : List Json) (h : 2 ≤ xs.length) : Gen.op_filter d xs = run (.obj [("filter".toList, .arr xs)]) d := by
  obtain ⟨c, e, rest, rfl⟩ := two_le xs h
  rw [run_filter]
  unfold Gen.op_filter ev parsed
  simp only [index0, index1, try_parsed]
  simp only [Rs.evaluate, try_M, map_M, strict_plain, foldM_bind]
  cases hc : check c
  · simp
  · simp only [if_true]
    congr 1; funext cv
    cases he : check e
    · cases cv <;> simp [collOf, Rs.err]
    · cases cv with
      | arr vals =>
        simp only [Rs.ok, Rs.new_, M.pure_bind]
        rw [filter_foldlM (fun x => run e x)]
        · simp [collOf]
        · intro acc x
          congr 1; funext p
          rw [truthy_from_evaluated]
          cases JL.truthy p <;> rfl
      | _ => simp [collOf, Rs.err, Rs.ok, Rs.new_, filterData_nil]

end JL.Tie
