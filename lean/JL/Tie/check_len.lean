import JL.Generated.Fns
/-! tie: `check_len`, as translated from the crate's current source, is the model's function - for every input -/
namespace JL.Tie
open JL

theorem check_len (a : Arity) (n : Nat) : Gen.check_len a n = if a.isValidLen n then some n else none := by
  cases h : a.isValidLen n <;> simp [Gen.check_len, rs, h]

end JL.Tie
