import JL.Generated.Fns
import JL.Tie.num_compare
import JL.Tie.abstract_gte
/-! tie: `num_gte`, as translated from the crate's current source, is the model's function - for every input -/
namespace JL.Tie
open JL

theorem num_gte (items : List Json) (h : 2 ≤ items.length) : Rs.ok_or (Gen.num_gte items) = JL.compare JsOp.abstractGte items := by
  have hf : Gen.abstract_gte = JsOp.abstractGte := by
    funext a b; exact abstract_gte a b
  unfold Gen.num_gte
  rw [hf]
  exact num_compare _ items h

end JL.Tie
