import JL.Generated.Fns
import JL.Lemmas.TieLoops
import JL.Tie.to_number
/-! tie: `abstract_max`, as translated from the crate's current source, is the model's function - for every input -/
namespace JL.Tie
open JL JL.Lemmas.TieLoops
set_option linter.unusedSimpArgs false  -- which of the listed facts are used depends on how the source is spelled

/- The accumulation may be spelled `iter.map(..).fold(Ok(init), ..)`, `iter.fold(Ok(init), ..)` or as a `for` loop with `?`:
`rs_loop_opt` (`TieLoops`) brings each spelling to the model's `List.foldlM maxStep`; what is left is the step equation, proved
the same way whatever the spelling: split on what the model's step looks at, then `simp [rs]`. -/
theorem abstract_max (items : List Json) : Gen.abstract_max items = JsOp.abstractMax items := by
  unfold Gen.abstract_max
  rw [abstractMax_eq]
  rs_loop_opt maxStep
  intro a v
  simp only [to_number, maxStep]
  cases JsOp.toNumber v with
  | none => simp [rs]
  | some n => cases h : F64.lt a n <;> simp [rs, F64.gt, h]

end JL.Tie
