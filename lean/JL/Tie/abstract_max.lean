import JL.Generated.Fns
import JL.Lemmas.TieAuto
import JL.Lemmas.TieB
import JL.Tie.to_number
/-! tie: `abstract_max`, as translated from the crate's current source, is the model's function - for every input -/
namespace JL.Tie
open JL

/-- one step of the model's fold -/
def maxStep (acc : F64) (v : Json) : Option F64 :=
  match JsOp.toNumber v with
  | some n => some (if F64.gt n acc then n else acc)
  | none => none

theorem abstractMax_eq (items : List Json) : JsOp.abstractMax items = items.foldlM maxStep (F64.inf true) := rfl

/- Two ways of going over the operands are recognised: a `fold` over the converted operands whose accumulator is a `Result`
(`TieB.fold_opt_tie`), and a `for` loop that returns at the first failing conversion (`TieAuto.for_opt`). Either way the body
is arbitrary: that it performs one step of the model's fold is closed by `tie_close`. -/
theorem abstract_max (items : List Json) : Gen.abstract_max items = JsOp.abstractMax items := by
  rw [abstractMax_eq]
  simp only [Gen.abstract_max]
  first
    | (refine Lemmas.TieB.fold_opt_tie _ _ maxStep ?_ ?_ _ _ <;> intros <;>
        tie_close [maxStep, to_number] splitting JsOp.toNumber)
    | (rw [Lemmas.TieAuto.for_opt maxStep] <;> intros <;>
        tie_close [maxStep, to_number] splitting JsOp.toNumber List.foldlM)

end JL.Tie
