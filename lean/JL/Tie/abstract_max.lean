import JL.Generated.Fns
import JL.Lemmas.TieB
import JL.Tie.to_number
/-! tie: `abstract_max`, as translated from the crate's current source, is the model's function - for every input -/
namespace JL.Tie
open JL

theorem abstract_max (items : List Json) : Gen.abstract_max items = JsOp.abstractMax items := by
  unfold Gen.abstract_max JsOp.abstractMax
  refine Lemmas.TieB.fold_opt_tie _ _ _ (fun _ => rfl) ?_ _ _
  intro a v
  simp only [to_number]
  cases JsOp.toNumber v with
  | none => simp [rs]
  | some n => cases h : F64.lt a n <;> simp [rs, F64.gt, h]

end JL.Tie
