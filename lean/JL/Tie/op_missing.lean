import JL.Generated.Fns
import JL.Tie.get_key
import JL.Lemmas.TieG
/-! tie: `op_missing`, as translated from the crate's current source, is the model's function - for every input -/
namespace JL.Tie
open JL JL.Lemmas.TieG

theorem op_missing (d : Json) (xs : List Json) : Gen.op_missing d xs = JL.missing d xs := by
  unfold Gen.op_missing
  extract_lets missing_keys inner_vec k
  -- the fold (and the `?` on its outcome) from any list of keys and any vector of keys found missing so far
  have key : ∀ ks acc iv, k (ks, acc, iv) = (missingFold d ks acc >>= fun r => pure (Json.arr r)) := by
    intro ks acc iv
    simp only [k]
    refine foldMS_model_cases _ (fun ks (_ : Unit) acc => missingFold d ks acc >>= fun r => pure (Json.arr r))
      (fun _ acc => pure (Json.arr acc)) ?_ ?_ ?_ ks () acc
    · intro b s; rfl
    · intro s x; rfl
    · intro x xs b s
      simp only [try_into_key]
      cases hk : Data.keyOf x with
      | none => simp [missingFold, hk, tryS_ok, tryS_none]
      | some key =>
          cases hg : Data.getKey d key <;> cases key <;>
            simp [missingFold, hk, hg, get_key, rs]
  unfold JL.missing
  simp only [key, missing_keys, inner_vec]
  cases xs with
  | nil => rfl
  | cons a rest => cases a <;> rfl

end JL.Tie
