import JL.Generated.Fns
import JL.Tie.get_str_key
/-! tie: `get_key`, as translated from the crate's current source, is the model's function - for every input -/
namespace JL.Tie
open JL
set_option linter.unusedSimpArgs false  -- which of the listed facts are used depends on how the source is spelled

/- by cases on the key and on the kind of `data` (the model's own case analysis), each case closed by unfolding the library
calls and rewriting with the ties of the callees; where the model maps over the result of `Data.get`, that result is split too -/
theorem get_key (data : Json) (k : Data.Key) : Gen.get_key data k = Data.getKey data k := by
  unfold Gen.get_key Data.getKey
  cases k with
  | null => first | rfl | simp [rs]
  | string s => first | exact get_str_key data s | simp [rs, get_str_key]
  | number i =>
      cases data with
      | null => first | rfl | simp [rs]
      | bool b => first | rfl | simp [rs]
      | num n => first | rfl | simp [rs]
      | obj kvs => first | exact get_str_key _ _ | simp [rs, get_str_key]
      | arr xs => first | exact get xs i | (cases hg : Data.get xs i <;> simp [rs, get, hg])
      | str s => cases hg : Data.get s i <;> simp [rs, get, hg]

end JL.Tie
