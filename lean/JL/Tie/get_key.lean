import JL.Generated.Fns
import JL.Tie.get_str_key
/-! tie: `get_key`, as translated from the crate's current source, is the model's function - for every input -/
namespace JL.Tie
open JL

theorem get_key (data : Json) (k : Data.Key) : Gen.get_key data k = Data.getKey data k := by
  unfold Gen.get_key Data.getKey
  cases k with
  | null => rfl
  | string s => exact get_str_key data s
  | number i =>
      cases data <;> simp only [get_str_key, get] <;> first
        | rfl
        | (simp only [rs]; rename_i s; cases Data.get s i <;> simp)

end JL.Tie
