import JL.Generated.Fns
import JL.Lemmas.TieAuto
/-! tie: `strict_eq`, as translated from the crate's current source, is the model's function - for every input -/
namespace JL.Tie
open JL

theorem strict_eq (a b : Json) : Gen.strict_eq a b = JsOp.strictEq a b := by
  cases a <;> cases b <;> tie_close [Gen.strict_eq, JsOp.strictEq]

end JL.Tie
