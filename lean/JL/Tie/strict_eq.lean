import JL.Generated.Fns
/-! tie: `strict_eq`, as translated from the crate's current source, is the model's function - for every input -/
namespace JL.Tie
open JL

theorem strict_eq (a b : Json) : Gen.strict_eq a b = JsOp.strictEq a b := by
  cases a <;> cases b <;> simp [Gen.strict_eq, JsOp.strictEq, rs]

end JL.Tie
