import JL.Generated.Fns
import JL.Lemmas.TieB
import JL.Tie.parse_float
/-! tie: `parse_float_mul`, as translated from the crate's current source, is the model's function - for every input -/
namespace JL.Tie
open JL

theorem parse_float_mul (vals : List Json) : Gen.parse_float_mul vals = JsOp.parseFloatMul vals := by
  unfold Gen.parse_float_mul JsOp.parseFloatMul
  refine Lemmas.TieB.fold_opt_tie _ _ _ (fun _ => rfl) ?_ _ _
  intro a v
  simp only [parse_float]
  cases JsOp.parseFloat v with
  | none => simp [rs]
  | some n => simp [rs]

end JL.Tie
