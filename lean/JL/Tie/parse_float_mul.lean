import JL.Generated.Fns
import JL.Lemmas.TieLoops
import JL.Tie.parse_float
/-! tie: `parse_float_mul`, as translated from the crate's current source, is the model's function - for every input -/
namespace JL.Tie
open JL JL.Lemmas.TieLoops
set_option linter.unusedSimpArgs false  -- which of the listed facts are used depends on how the source is spelled

/- see `abstract_max`: whichever way the accumulation is spelled, `rs_loop_opt` brings it to `List.foldlM mulStep` -/
theorem parse_float_mul (vals : List Json) : Gen.parse_float_mul vals = JsOp.parseFloatMul vals := by
  unfold Gen.parse_float_mul
  rw [parseFloatMul_eq]
  rs_loop_opt mulStep
  intro a v
  simp only [parse_float, mulStep]
  cases JsOp.parseFloat v <;> simp [rs]

end JL.Tie
