import JL.Generated.Fns
import JL.Lemmas.TieE
/-! tie: `op_reduce`, as translated from the crate's current source, is the model's function - for every input -/
namespace JL.Tie
open JL JL.Lemmas.C13 JL.Lemmas.TieE
set_option linter.unusedSimpArgs false

theorem op_reduce (d : Json) (xs : List Json) (h : 3 ≤ xs.length) : Gen.op_reduce d xs = run (.obj [("reduce".toList, .arr xs)]) d := by
  obtain ⟨c, e, i, rest, rfl⟩ := three_le xs h
  rw [run_reduce]
  unfold Gen.op_reduce ev parsed
  simp only [index0, index1, index2, try_parsed]
  simp only [Rs.evaluate, try_M, map_M, strict_plain, foldM_bind, insert_ctx, reduceData_eq_foldlM]
  cases hc : check c
  · simp
  · simp only [if_true]
    congr 1; funext cv
    cases hi : check i
    · simp
    · simp only [if_true]
      congr 1; funext iv
      cases cv <;> cases he : check e <;> simp [collOf, Rs.err, Rs.ok, Rs.id_]

end JL.Tie
