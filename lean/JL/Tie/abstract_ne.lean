import JL.Generated.Fns
import JL.Lemmas.TieAuto
import JL.Tie.abstract_eq
/-! tie: `abstract_ne`, as translated from the crate's current source, is the model's function - for every input -/
namespace JL.Tie
open JL

theorem abstract_ne (a b : Json) : Gen.abstract_ne a b = JsOp.abstractNe a b := by
  tie_close [Gen.abstract_ne, JsOp.abstractNe, abstract_eq]

end JL.Tie
