import JL.Generated.Fns
import JL.Lemmas.TieB
import JL.Tie.parse_float
/-! tie: `parse_float_add`, as translated from the crate's current source, is the model's function - for every input -/
namespace JL.Tie
open JL

theorem parse_float_add (vals : List Json) : Gen.parse_float_add vals = JsOp.parseFloatAdd vals := by
  unfold Gen.parse_float_add JsOp.parseFloatAdd
  refine Lemmas.TieB.fold_opt_tie _ _ _ (fun _ => rfl) ?_ _ _
  intro a v
  simp only [parse_float]
  cases JsOp.parseFloat v with
  | none => simp [rs]
  | some n => simp [rs]

end JL.Tie
