import JL.Generated.Fns
import JL.Lemmas.TieAuto
import JL.Lemmas.TieB
import JL.Tie.parse_float
/-! tie: `parse_float_add`, as translated from the crate's current source, is the model's function - for every input -/
namespace JL.Tie
open JL

/-- one step of the model's fold -/
def addStep (acc : F64) (v : Json) : Option F64 :=
  match JsOp.parseFloat v with
  | some n => some (F64.add acc n)
  | none => none

theorem parseFloatAdd_eq (items : List Json) : JsOp.parseFloatAdd items = items.foldlM addStep (F64.zero) := rfl

/- Two ways of going over the operands are recognised: a `fold` over the converted operands whose accumulator is a `Result`
(`TieB.fold_opt_tie`), and a `for` loop that returns at the first failing conversion (`TieAuto.for_opt`). Either way the body
is arbitrary: that it performs one step of the model's fold is closed by `tie_close`. -/
theorem parse_float_add (items : List Json) : Gen.parse_float_add items = JsOp.parseFloatAdd items := by
  rw [parseFloatAdd_eq]
  simp only [Gen.parse_float_add]
  first
    | (refine Lemmas.TieB.fold_opt_tie _ _ addStep ?_ ?_ _ _ <;> intros <;>
        tie_close [addStep, parse_float] splitting JsOp.parseFloat)
    | (rw [Lemmas.TieAuto.for_opt addStep] <;> intros <;>
        tie_close [addStep, parse_float] splitting JsOp.parseFloat List.foldlM)

end JL.Tie
