import JL.Generated.Fns
import JL.Tie.get_key
/-! tie: `op_var`, as translated from the crate's current source, is the model's function - for every input -/
namespace JL.Tie
open JL

theorem op_var (d : Json) (xs : List Json) : Gen.op_var d xs = JL.var d xs := by
  unfold Gen.op_var JL.var
  cases xs with
  | nil => simp [rs]
  | cons k rest =>
      simp only [rs, get_key, List.length_cons]
      cases hk : Data.keyOf k with
      | none => simp [hk]
      | some key =>
          cases hv : Data.getKey d key with
          | some v => simp [hk, hv]
          | none =>
              cases rest with
              | nil => simp [hk, hv]
              | cons dflt tl =>
                  have h2 : ¬ (tl.length + 1 + 1 < 2) := by omega
                  simp [hk, hv, h2]

end JL.Tie
