import JL.Generated.Fns
import JL.Tie.to_string
import JL.Tie.str_to_number
/-! tie: `abstract_eq`, as translated from the crate's current source, is the model's function - for every input -/
namespace JL.Tie
open JL

/-- `Number::from_f64(1 as f64)` -/
theorem ofF64_one : Num.ofF64? (Rs.to_f64 (1 : Nat)) = some (.flt F64.one) := by decide +kernel
/-- `Number::from_f64(0 as f64)` -/
theorem ofF64_zero : Num.ofF64? (Rs.to_f64 (0 : Nat)) = some (.flt F64.zero) := by decide +kernel

/-- neither a boolean nor a container -/
def isPrim : Json → Bool
  | .null | .num _ | .str _ => true
  | _ => false

/-- not a boolean -/
def notBool : Json → Bool
  | .bool _ => false
  | _ => true

/-- arms 1-6: null / number / string against each other -/
theorem abstract_eq_prim (a b : Json) (ha : isPrim a = true) (hb : isPrim b = true) :
    Gen.abstract_eq a b = JsOp.eqPrim a b := by
  cases a <;> cases b <;> simp only [isPrim, Bool.false_eq_true] at ha hb <;> unfold Gen.abstract_eq
    <;> simp [rs, JsOp.eqPrim, str_to_number]
  all_goals (rename_i x y; first | (cases JsOp.strToNumber y <;> simp) | (cases JsOp.strToNumber x <;> simp))

/-- the container arms: a container meets a string or a number through `to_string` -/
theorem abstract_eq_noBool (a b : Json) (ha : notBool a = true) (hb : notBool b = true) :
    Gen.abstract_eq a b = JsOp.eqNoBool a b := by
  cases a <;> cases b <;> simp only [notBool, Bool.false_eq_true] at ha hb
  all_goals first
    | (rw [abstract_eq_prim _ _ rfl rfl]; simp [JsOp.eqNoBool]; done)
    | (unfold Gen.abstract_eq
       try simp only [to_string]
       first
         | (rw [abstract_eq_prim _ _ rfl rfl]; simp [JsOp.eqNoBool]; done)
         | (simp [JsOp.eqNoBool, JsOp.eqPrim]; done))

theorem abstract_eq_bool_left (x : Bool) (b : Json) (hb : notBool b = true) :
    Gen.abstract_eq (.bool x) b = JsOp.eqNoBool (JsOp.boolNum x) b := by
  cases x <;> cases b <;> simp only [notBool, Bool.false_eq_true] at hb <;> unfold Gen.abstract_eq
    <;> simp only [ofF64_one, ofF64_zero] <;> simp [rs, JsOp.boolNum] <;> rw [abstract_eq_noBool _ _ rfl rfl]

theorem abstract_eq_bool_right (a : Json) (y : Bool) (ha : notBool a = true) :
    Gen.abstract_eq a (.bool y) = JsOp.eqNoBool a (JsOp.boolNum y) := by
  cases y <;> cases a <;> simp only [notBool, Bool.false_eq_true] at ha <;> unfold Gen.abstract_eq
    <;> simp only [ofF64_one, ofF64_zero] <;> simp [rs, JsOp.boolNum] <;> rw [abstract_eq_noBool _ _ rfl rfl]

theorem abstract_eq (a b : Json) : Gen.abstract_eq a b = JsOp.abstractEq a b := by
  cases a <;> cases b
  all_goals first
    | (rw [abstract_eq_noBool _ _ rfl rfl]; simp [JsOp.abstractEq]; done)
    | (rw [abstract_eq_bool_left _ _ rfl]; simp [JsOp.abstractEq]; done)
    | (rw [abstract_eq_bool_right _ _ rfl]; simp [JsOp.abstractEq]; done)
    | (rename_i x y; cases x <;> cases y <;> unfold Gen.abstract_eq <;> simp [rs, JsOp.abstractEq]; done)

end JL.Tie
