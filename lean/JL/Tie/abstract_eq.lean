import JL.Generated.Fns
import JL.Lemmas.TieAuto
import JL.Tie.to_string
import JL.Tie.str_to_number
/-! tie: `abstract_eq`, as translated from the crate's current source, is the model's function - for every input -/
namespace JL.Tie
open JL

/-- `Number::from_f64(1 as f64)` -/
theorem ofF64_one : Num.ofF64? (Rs.to_f64 (1 : Nat)) = some (.flt F64.one) := by decide +kernel
/-- `Number::from_f64(0 as f64)` -/
theorem ofF64_zero : Num.ofF64? (Rs.to_f64 (0 : Nat)) = some (.flt F64.zero) := by decide +kernel

/-- neither a boolean nor a container -/
@[reducible] def isPrim : Json → Bool
  | .null | .num _ | .str _ => true
  | _ => false

/-- not a boolean -/
@[reducible] def notBool : Json → Bool
  | .bool _ => false
  | _ => true

/-- arms 1-6: null / number / string against each other (no recursive call is reached, whichever way the arms are written) -/
theorem abstract_eq_prim (a b : Json) (ha : isPrim a = true) (hb : isPrim b = true) :
    Gen.abstract_eq a b = JsOp.eqPrim a b := by
  cases a <;> cases b <;> simp only [isPrim, Bool.false_eq_true] at ha hb <;> unfold Gen.abstract_eq
    <;> tie_close [JsOp.eqPrim, str_to_number, to_string] splitting JsOp.strToNumber

/-- the container arms: a container meets a string or a number through `to_string`; the recursive call is on primitives -/
theorem abstract_eq_noBool (a b : Json) (ha : notBool a = true) (hb : notBool b = true) :
    Gen.abstract_eq a b = JsOp.eqNoBool a b := by
  cases a <;> cases b <;> simp only [notBool, Bool.false_eq_true] at ha hb
  all_goals first
    | (rw [abstract_eq_prim _ _ rfl rfl]; tie_close [JsOp.eqNoBool]; done)
    | (unfold Gen.abstract_eq
       tie_close [to_string, str_to_number, abstract_eq_prim, isPrim, JsOp.eqNoBool, JsOp.eqPrim])

/-- `Number::from_f64(1.0)`, `Number::from_f64(0.0)` -/
theorem ofF64_one' : Num.ofF64? F64.one = some (.flt F64.one) := by decide +kernel
theorem ofF64_zero' : Num.ofF64? F64.zero = some (.flt F64.zero) := by decide +kernel

/-- a boolean on the left becomes a number; the recursive call is on non-booleans -/
theorem abstract_eq_bool_left (x : Bool) (b : Json) (hb : notBool b = true) :
    Gen.abstract_eq (.bool x) b = JsOp.eqNoBool (JsOp.boolNum x) b := by
  cases x <;> cases b <;> simp only [notBool, Bool.false_eq_true] at hb <;> unfold Gen.abstract_eq
    <;> tie_close [↓ofF64_one, ↓ofF64_zero, ofF64_one', ofF64_zero', JsOp.boolNum, abstract_eq_noBool, notBool]

theorem abstract_eq_bool_right (a : Json) (y : Bool) (ha : notBool a = true) :
    Gen.abstract_eq a (.bool y) = JsOp.eqNoBool a (JsOp.boolNum y) := by
  cases y <;> cases a <;> simp only [notBool, Bool.false_eq_true] at ha <;> unfold Gen.abstract_eq
    <;> tie_close [↓ofF64_one, ↓ofF64_zero, ofF64_one', ofF64_zero', JsOp.boolNum, abstract_eq_noBool, notBool]

theorem abstract_eq_bool_bool (x y : Bool) : Gen.abstract_eq (.bool x) (.bool y) = JsOp.abstractEq (.bool x) (.bool y) := by
  cases x <;> cases y <;> unfold Gen.abstract_eq
    <;> tie_close [↓ofF64_one, ↓ofF64_zero, ofF64_one', ofF64_zero', JsOp.abstractEq, JsOp.boolNum, abstract_eq_bool_left,
      abstract_eq_bool_right, abstract_eq_noBool, notBool, JsOp.eqNoBool, JsOp.eqPrim]

theorem abstract_eq (a b : Json) : Gen.abstract_eq a b = JsOp.abstractEq a b := by
  cases a <;> cases b
  all_goals first
    | exact abstract_eq_bool_bool _ _
    | (rw [abstract_eq_noBool _ _ rfl rfl]; tie_close [JsOp.abstractEq]; done)
    | (rw [abstract_eq_bool_left _ _ rfl]; tie_close [JsOp.abstractEq]; done)
    | (rw [abstract_eq_bool_right _ _ rfl]; tie_close [JsOp.abstractEq]; done)

end JL.Tie
