import JL.Generated.Fns
import JL.Lemmas.TieE
/-! tie: `op_map`, as translated from the crate's current source, is the model's function - for every input -/
namespace JL.Tie
open JL JL.Lemmas.C13 JL.Lemmas.TieE

/-- the operator table admits `map` with two operands only (`C03`); shorter lists would index out of range -/
theorem op_map (d : Json) (xs : List Json) (h : 2 ≤ xs.length) : Gen.op_map d xs = run (.obj [("map".toList, .arr xs)]) d := by
  obtain ⟨c, e, rest, rfl⟩ := two_le xs h
  rw [run_map]
  unfold Gen.op_map ev parsed
  simp only [index0, index1, try_parsed]
  simp only [Rs.evaluate, try_M, collect_map_data, map_M]
  cases hc : check c
  · simp
  · simp only [if_true]
    congr 1; funext cv
    cases cv <;> cases he : check e <;> simp [collOf, Rs.err]

end JL.Tie
