import JL.Generated.Fns
import JL.Lemmas.TieAuto
import JL.Tie.to_primitive
import JL.Tie.str_to_number
/-! tie: `to_number`, as translated from the crate's current source, is the model's function - for every input -/
namespace JL.Tie
open JL

theorem to_number (v : Json) : Gen.to_number v = JsOp.toNumber v := by
  tie_close [Gen.to_number, JsOp.toNumber, JsOp.toPrimitive, to_primitive, to_primitive_number, to_string, str_to_number]
    splitting JsOp.toPrimitiveNumber

end JL.Tie
