import JL.Generated.Fns
import JL.Tie.to_primitive
import JL.Tie.str_to_number
/-! tie: `to_number`, as translated from the crate's current source, is the model's function - for every input -/
namespace JL.Tie
open JL

theorem to_number (v : Json) : Gen.to_number v = JsOp.toNumber v := by
  unfold Gen.to_number JsOp.toNumber
  rw [to_primitive]
  cases JsOp.toPrimitive v <;> simp [str_to_number]

end JL.Tie
