import JL.Generated.Fns
import JL.Tie.abstract_eq
import JL.Tie.abstract_ne
import JL.Tie.strict_eq
import JL.Tie.strict_ne
import JL.Tie.truthy
import JL.Tie.parse_float_add
import JL.Tie.parse_float_mul
import JL.Tie.abstract_div
import JL.Tie.abstract_mod
import JL.Tie.abstract_max
import JL.Tie.abstract_min
import JL.Tie.to_number_value
import JL.Tie.num_minus
import JL.Tie.num_lt
import JL.Tie.num_lte
import JL.Tie.num_gt
import JL.Tie.num_gte
import JL.Tie.in_
import JL.Tie.merge
import JL.Tie.substr
import JL.Tie.op_log
import JL.Tie.op_if
import JL.Tie.op_or
import JL.Tie.op_and
import JL.Tie.op_map
import JL.Tie.op_filter
import JL.Tie.op_reduce
import JL.Tie.op_all
import JL.Tie.op_some
import JL.Tie.op_none
import JL.Tie.op_var
import JL.Lemmas.TieF
import JL.Lemmas.C05
/-! tie: `tables`, as translated from the crate's current source, is the model's function - for every input -/
namespace JL.Tie
open JL JL.Lemmas.TieF

/-- every operator the eager table binds to a translated function: applied to operands of an admitted count, that function is the
model's `execEager` for that operator -/
theorem eager_table (k : Str) (f : List Json → Option Json) (hk : (k, f) ∈ Gen.eagerTable) (ar : Arity) (hl : lookupOp k = some (.eager, ar))
    (items : List Json) (hn : ar.isValidLen items.length = true) : Rs.ok_or (f items) = execEager k items := by
  simp only [Gen.eagerTable, List.mem_cons, Prod.mk.injEq, List.not_mem_nil, or_false] at hk
  rcases hk with ⟨rfl, rfl⟩ | ⟨rfl, rfl⟩ | ⟨rfl, rfl⟩ | ⟨rfl, rfl⟩ | ⟨rfl, rfl⟩ | ⟨rfl, rfl⟩ | ⟨rfl, rfl⟩ | ⟨rfl, rfl⟩ | ⟨rfl, rfl⟩
    | ⟨rfl, rfl⟩ | ⟨rfl, rfl⟩ | ⟨rfl, rfl⟩ | ⟨rfl, rfl⟩ | ⟨rfl, rfl⟩ | ⟨rfl, rfl⟩ | ⟨rfl, rfl⟩ | ⟨rfl, rfl⟩ | ⟨rfl, rfl⟩ | ⟨rfl, rfl⟩ | ⟨rfl, rfl⟩
  · -- ==
    obtain rfl := arity_eq hl (a := .exactly 2) (by decide)
    obtain ⟨a, b, rfl⟩ := len2 items (by simpa [Arity.isValidLen] using hn)
    unfold execEager
    simp [rs, abstract_eq]
  · -- !=
    obtain rfl := arity_eq hl (a := .exactly 2) (by decide)
    obtain ⟨a, b, rfl⟩ := len2 items (by simpa [Arity.isValidLen] using hn)
    unfold execEager
    simp [rs, abstract_ne]
  · -- ===
    obtain rfl := arity_eq hl (a := .exactly 2) (by decide)
    obtain ⟨a, b, rfl⟩ := len2 items (by simpa [Arity.isValidLen] using hn)
    unfold execEager
    simp [rs, strict_eq]
  · -- !==
    obtain rfl := arity_eq hl (a := .exactly 2) (by decide)
    obtain ⟨a, b, rfl⟩ := len2 items (by simpa [Arity.isValidLen] using hn)
    unfold execEager
    simp [rs, strict_ne]
  · -- !
    obtain rfl := arity_eq hl (a := .unary) (by decide)
    obtain ⟨a, rfl⟩ := len1 items (by simpa [Arity.isValidLen] using hn)
    unfold execEager
    simp [rs, truthy]
  · -- !!
    obtain rfl := arity_eq hl (a := .unary) (by decide)
    obtain ⟨a, rfl⟩ := len1 items (by simpa [Arity.isValidLen] using hn)
    unfold execEager
    simp [rs, truthy]
  · -- <
    obtain rfl := arity_eq hl (a := .variadic 2 4) (by decide)
    simp only [Arity.isValidLen, Bool.and_eq_true, decide_eq_true_eq] at hn
    rw [num_lt items hn.1]; unfold execEager; simp
  · -- <=
    obtain rfl := arity_eq hl (a := .variadic 2 4) (by decide)
    simp only [Arity.isValidLen, Bool.and_eq_true, decide_eq_true_eq] at hn
    rw [num_lte items hn.1]; unfold execEager; simp
  · -- >
    obtain rfl := arity_eq hl (a := .variadic 2 4) (by decide)
    simp only [Arity.isValidLen, Bool.and_eq_true, decide_eq_true_eq] at hn
    rw [num_gt items hn.1]; unfold execEager; simp
  · -- >=
    obtain rfl := arity_eq hl (a := .variadic 2 4) (by decide)
    simp only [Arity.isValidLen, Bool.and_eq_true, decide_eq_true_eq] at hn
    rw [num_gte items hn.1]; unfold execEager; simp
  · -- +
    rw [numResult_tie, parse_float_add]; unfold execEager; simp
  · -- -
    obtain rfl := arity_eq hl (a := .variadic 1 3) (by decide)
    simp only [Arity.isValidLen, Bool.and_eq_true, decide_eq_true_eq] at hn
    exact num_minus items hn.1
  · -- *
    rw [numResult_tie, parse_float_mul]; unfold execEager; simp
  · -- /
    obtain rfl := arity_eq hl (a := .exactly 2) (by decide)
    obtain ⟨a, b, rfl⟩ := len2 items (by simpa [Arity.isValidLen] using hn)
    rw [numResult_tie]
    unfold execEager
    simp [rs, abstract_div]
  · -- %
    obtain rfl := arity_eq hl (a := .exactly 2) (by decide)
    obtain ⟨a, b, rfl⟩ := len2 items (by simpa [Arity.isValidLen] using hn)
    rw [numResult_tie]
    unfold execEager
    simp [rs, abstract_mod]
  · -- max
    rw [numResult_tie, abstract_max]; unfold execEager; simp
  · -- min
    rw [numResult_tie, abstract_min]; unfold execEager; simp
  · -- merge
    rw [merge]; unfold execEager; simp [rs]
  · -- in
    obtain rfl := arity_eq hl (a := .exactly 2) (by decide)
    obtain ⟨a, b, rfl⟩ := len2 items (by simpa [Arity.isValidLen] using hn)
    rw [in_]
    unfold execEager
    cases hi : ArrOp.in_ a b <;> simp [rs, hi]
  · -- substr
    obtain rfl := arity_eq hl (a := .variadic 2 4) (by decide)
    simp only [Arity.isValidLen, Bool.and_eq_true, decide_eq_true_eq] at hn
    rcases len23 items hn.1 hn.2 with ⟨a, b, rfl⟩ | ⟨a, b, c, rfl⟩
    · rw [substr2]; unfold execEager; simp [rs]
    · rw [substr3]; unfold execEager; simp [rs]

theorem eager_table_log (k : Str) (f : List Json → M Json) (hk : (k, f) ∈ Gen.eagerTableM) (ar : Arity) (hl : lookupOp k = some (.eager, ar))
    (items : List Json) (hn : ar.isValidLen items.length = true) : f items = execEager k items := by
  simp only [Gen.eagerTableM, List.mem_cons, Prod.mk.injEq, List.not_mem_nil, or_false] at hk
  obtain ⟨rfl, rfl⟩ := hk
  obtain rfl := arity_eq hl (a := .unary) (by decide)
  exact op_log items (by simp [Arity.isValidLen] at hn; omega)

/-- every lazy operator: the function the table binds to it is the model's `run` on a rule with that operator -/
theorem lazy_table (k : Str) (f : Json → List Json → M Json) (hk : (k, f) ∈ Gen.lazyTable) (ar : Arity) (hl : lookupOp k = some (.lazy, ar))
    (d : Json) (xs : List Json) (hn : ar.isValidLen xs.length = true) : f d xs = run (.obj [(k, .arr xs)]) d := by
  simp only [Gen.lazyTable, List.mem_cons, Prod.mk.injEq, List.not_mem_nil, or_false] at hk
  rcases hk with ⟨rfl, rfl⟩ | ⟨rfl, rfl⟩ | ⟨rfl, rfl⟩ | ⟨rfl, rfl⟩ | ⟨rfl, rfl⟩ | ⟨rfl, rfl⟩ | ⟨rfl, rfl⟩ | ⟨rfl, rfl⟩ | ⟨rfl, rfl⟩
    | ⟨rfl, rfl⟩
  · exact op_if d xs
  · rw [op_if, Lemmas.C05.run_if_arr _ (.inl rfl), Lemmas.C05.run_if_arr _ (.inr rfl)]
  · exact op_or d xs
  · exact op_and d xs
  · obtain rfl := arity_eq hl (a := .exactly 2) (by decide)
    exact op_map d xs (by simp [Arity.isValidLen] at hn; omega)
  · obtain rfl := arity_eq hl (a := .exactly 2) (by decide)
    exact op_filter d xs (by simp [Arity.isValidLen] at hn; omega)
  · obtain rfl := arity_eq hl (a := .exactly 3) (by decide)
    exact op_reduce d xs (by simp [Arity.isValidLen] at hn; omega)
  · obtain rfl := arity_eq hl (a := .exactly 2) (by decide)
    exact op_all d xs (by simp [Arity.isValidLen] at hn; omega)
  · obtain rfl := arity_eq hl (a := .exactly 2) (by decide)
    exact op_some d xs (by simp [Arity.isValidLen] at hn; omega)
  · obtain rfl := arity_eq hl (a := .exactly 2) (by decide)
    exact op_none d xs (by simp [Arity.isValidLen] at hn; omega)

theorem data_table (k : Str) (f : Json → List Json → M Json) (hk : (k, f) ∈ Gen.dataTable) (d : Json) (items : List Json) : f d items = execData k d items := by
  simp only [Gen.dataTable, List.mem_cons, Prod.mk.injEq, List.not_mem_nil, or_false] at hk
  obtain ⟨rfl, rfl⟩ := hk
  rw [op_var]; unfold execData; simp

/-- the translated tables name exactly these operators (the remaining ones - `cat`, `missing`, `missing_some` - are bound to
functions outside the translated subset and stay tied by the correspondence streams) -/
theorem table_keys : Gen.eagerTable.map Prod.fst = ["==", "!=", "===", "!==", "!", "!!", "<", "<=", ">", ">=", "+", "-", "*", "/", "%", "max", "min", "merge", "in", "substr"].map String.toList
    ∧ Gen.eagerTableM.map Prod.fst = ["log".toList]
    ∧ Gen.lazyTable.map Prod.fst = ["if", "?:", "or", "and", "map", "filter", "reduce", "all", "some", "none"].map String.toList
    ∧ Gen.dataTable.map Prod.fst = ["var".toList] := by
  refine ⟨rfl, rfl, rfl, rfl⟩

end JL.Tie
