import JL.Generated.Fns
import JL.Tie.abstract_eq
import JL.Tie.abstract_ne
import JL.Tie.strict_eq
import JL.Tie.strict_ne
import JL.Tie.truthy
import JL.Tie.parse_float_add
import JL.Tie.parse_float_mul
import JL.Tie.abstract_div
import JL.Tie.abstract_mod
import JL.Tie.abstract_max
import JL.Tie.abstract_min
import JL.Tie.to_number_value
import JL.Tie.num_minus
import JL.Tie.num_lt
import JL.Tie.num_lte
import JL.Tie.num_gt
import JL.Tie.num_gte
import JL.Tie.in_
import JL.Tie.merge
import JL.Tie.substr
import JL.Tie.op_log
import JL.Tie.op_if
import JL.Tie.op_or
import JL.Tie.op_and
import JL.Tie.op_map
import JL.Tie.op_filter
import JL.Tie.op_reduce
import JL.Tie.op_all
import JL.Tie.op_some
import JL.Tie.op_none
import JL.Tie.op_var
import JL.Tie.cat
import JL.Tie.merge
import JL.Tie.op_missing
import JL.Tie.op_missing_some
import JL.Lemmas.TieF
import JL.Lemmas.C05
/-! tie: `tables`, as translated from the crate's current source, is the model's function - for every input -/
namespace JL.Tie
open JL JL.Lemmas.TieF
set_option linter.unusedSimpArgs false  -- one tactic serves every row: which facts it uses depends on the row

/-! The three theorems about the rows of the operator tables do not depend on the order of the rows, on their number (a row
whose function is outside the translated subset is simply absent) or on the layout of the source: membership in the table is
turned into a disjunction, the disjunction is split whatever its length, and EVERY row is closed by the same tactic:

* `table_arity`: the arity descriptor of the (now concrete) key is computed from the regenerated `Tables` by evaluating
  `lookupOp` on it (`whnf`), whatever it is;
* `table_operands xs`: the operand list is taken apart as far as the arity bounds its length (`[]`, `[a]`, `[a, b]`, `[a, b, c]`,
  longer), the impossible lengths are discarded by the arity;
* the bound function is rewritten with the tie theorems of the functions it mentions (all of them are offered; side
  conditions `n ≤ length` are computed on the explicit list), the model's `execEager` is unfolded at the concrete key, and
  `simp [rs]` compares. -/

/-- the arity of a concrete key: `hl : lookupOp KEY = some (kind, ar)` is evaluated and `ar` replaced by its value -/
syntax "table_arity " ident : tactic
macro_rules
  | `(tactic| table_arity $hl) => `(tactic|
      ((conv at $hl:ident => lhs; whnf)
       (simp only [Option.some.injEq, Prod.mk.injEq, true_and, reduceCtorEq, false_and] at $hl:ident)
       (subst $hl:ident)))

/-- operand lists of the lengths the arity `hn : ar.isValidLen xs.length = true` admits, spelled out up to three items -/
syntax "table_operands " ident ident : tactic
macro_rules
  | `(tactic| table_operands $xs $hn) => `(tactic|
      (rcases $xs:ident with _ | ⟨a, _ | ⟨b, _ | ⟨c, _ | ⟨d, rest⟩⟩⟩⟩
       all_goals try (simp [Arity.isValidLen] at $hn:ident <;> omega)))

/-- the tie theorems of the functions the eager rows mention, as rewrite rules (those with a side condition on the number of
operands fire on explicit operand lists) -/
syntax "eager_row" : tactic
macro_rules
  | `(tactic| eager_row) => `(tactic|
      ((try simp only [numResult_tie])
       (try simp [num_lt, num_lte, num_gt, num_gte, num_minus, in_, substr2, substr3, merge, cat, parse_float_add, parse_float_mul,
          abstract_max, abstract_min, abstract_div, abstract_mod, abstract_eq, abstract_ne, strict_eq, strict_ne, truthy])
       all_goals (try (unfold execEager
                       simp [rs, numResult_tie, in_, substr2, substr3, merge, cat, parse_float_add, parse_float_mul,
                         abstract_max, abstract_min, abstract_div, abstract_mod, abstract_eq, abstract_ne, strict_eq, strict_ne,
                         truthy]))
       all_goals (try (split <;> simp_all [rs]))))

/-- every operator the eager table binds to a translated function: applied to operands of an admitted count, that function is the
model's `execEager` for that operator -/
theorem eager_table (k : Str) (f : List Json → Option Json) (hk : (k, f) ∈ Gen.eagerTable) (ar : Arity) (hl : lookupOp k = some (.eager, ar))
    (items : List Json) (hn : ar.isValidLen items.length = true) : Rs.ok_or (f items) = execEager k items := by
  simp only [Gen.eagerTable, List.mem_cons, Prod.mk.injEq, List.not_mem_nil] at hk
  -- `hk : (k = key₁ ∧ f = fn₁) ∨ … ∨ (k = keyₙ ∧ f = fnₙ) ∨ False`, whatever `n` and the order
  repeat' (rcases hk with ⟨rfl, rfl⟩ | hk)
  all_goals
    table_arity hl
    table_operands items hn
    all_goals eager_row

theorem eager_table_log (k : Str) (f : List Json → M Json) (hk : (k, f) ∈ Gen.eagerTableM) (ar : Arity) (hl : lookupOp k = some (.eager, ar))
    (items : List Json) (hn : ar.isValidLen items.length = true) : f items = execEager k items := by
  simp only [Gen.eagerTableM, List.mem_cons, Prod.mk.injEq, List.not_mem_nil] at hk
  -- `hk : (k = key₁ ∧ f = fn₁) ∨ … ∨ (k = keyₙ ∧ f = fnₙ) ∨ False`, whatever `n` and the order
  repeat' (rcases hk with ⟨rfl, rfl⟩ | hk)
  all_goals
    table_arity hl
    table_operands items hn
    all_goals first
      | exact op_log _ (by simp)
      | simp [op_log]

/-- every lazy operator: the function the table binds to it is the model's `run` on a rule with that operator -/
theorem lazy_table (k : Str) (f : Json → List Json → M Json) (hk : (k, f) ∈ Gen.lazyTable) (ar : Arity) (hl : lookupOp k = some (.lazy, ar))
    (d : Json) (xs : List Json) (hn : ar.isValidLen xs.length = true) : f d xs = run (.obj [(k, .arr xs)]) d := by
  simp only [Gen.lazyTable, List.mem_cons, Prod.mk.injEq, List.not_mem_nil] at hk
  -- `hk : (k = key₁ ∧ f = fn₁) ∨ … ∨ (k = keyₙ ∧ f = fnₙ) ∨ False`, whatever `n` and the order
  repeat' (rcases hk with ⟨rfl, rfl⟩ | hk)
  all_goals
    table_arity hl
    -- what the arity says about the number of operands, in the form the tie theorems ask for
    have hlen : ∀ n, (∀ m, Arity.isValidLen _ m = true → n ≤ m) → n ≤ xs.length := fun n h => h _ hn
    first
      | exact op_if d xs
      | exact op_or d xs
      | exact op_and d xs
      | exact op_map d xs (hlen 2 (by intro m; simp [Arity.isValidLen]; omega))
      | exact op_filter d xs (hlen 2 (by intro m; simp [Arity.isValidLen]; omega))
      | exact op_reduce d xs (hlen 3 (by intro m; simp [Arity.isValidLen]; omega))
      | exact op_all d xs (hlen 2 (by intro m; simp [Arity.isValidLen]; omega))
      | exact op_some d xs (hlen 2 (by intro m; simp [Arity.isValidLen]; omega))
      | exact op_none d xs (hlen 2 (by intro m; simp [Arity.isValidLen]; omega))
      | rw [op_if, Lemmas.C05.run_if_arr _ (.inl rfl), Lemmas.C05.run_if_arr _ (.inr rfl)]
      -- a row bound to a wrapper function of mod.rs (translated as an auxiliary, unfolded by `rs`)
      | (simp only [rs]; first
          | exact op_if d xs | exact op_or d xs | exact op_and d xs
          | exact op_map d xs (hlen 2 (by intro m; simp [Arity.isValidLen]; omega))
          | exact op_filter d xs (hlen 2 (by intro m; simp [Arity.isValidLen]; omega))
          | exact op_reduce d xs (hlen 3 (by intro m; simp [Arity.isValidLen]; omega))
          | exact op_all d xs (hlen 2 (by intro m; simp [Arity.isValidLen]; omega))
          | exact op_some d xs (hlen 2 (by intro m; simp [Arity.isValidLen]; omega))
          | exact op_none d xs (hlen 2 (by intro m; simp [Arity.isValidLen]; omega))
          | rw [op_if, Lemmas.C05.run_if_arr _ (.inl rfl), Lemmas.C05.run_if_arr _ (.inr rfl)])

theorem data_table (k : Str) (f : Json → List Json → M Json) (hk : (k, f) ∈ Gen.dataTable) (ar : Arity) (hl : lookupOp k = some (.data, ar))
    (d : Json) (items : List Json) (hn : ar.isValidLen items.length = true) : f d items = execData k d items := by
  simp only [Gen.dataTable, List.mem_cons, Prod.mk.injEq, List.not_mem_nil] at hk
  -- `hk : (k = key₁ ∧ f = fn₁) ∨ … ∨ (k = keyₙ ∧ f = fnₙ) ∨ False`, whatever `n` and the order
  repeat' (rcases hk with ⟨rfl, rfl⟩ | hk)
  all_goals
    table_arity hl
    have hlen : ∀ n, (∀ m, Arity.isValidLen _ m = true → n ≤ m) → n ≤ items.length := fun n h => h _ hn
    first
      | (rw [op_var]; unfold execData; simp)
      | (rw [op_missing]; unfold execData; simp)
      | (rw [op_missing_some d items (hlen 2 (by intro m; simp [Arity.isValidLen]; omega))]; unfold execData; simp)


/-- the order- and count-insensitive part of `table_keys`: every key of a translated table is one of the operators the model
knows for that table, and no key occurs twice. (Unlike `table_keys` - `JL/Tie/table_keys.lean` - this stays true when a row drops out of the
translated subset because its function is no longer one the translator reads.) -/
theorem table_keys_sub :
    ((Gen.eagerTable.map Prod.fst).all (fun k => (["==", "!=", "===", "!==", "!", "!!", "<", "<=", ">", ">=", "+", "-", "*", "/", "%", "max", "min", "merge", "in", "cat", "substr"].map String.toList).contains k) = true
      ∧ (Gen.eagerTable.map Prod.fst).Nodup)
    ∧ ((Gen.eagerTableM.map Prod.fst).all (fun k => ["log".toList].contains k) = true ∧ (Gen.eagerTableM.map Prod.fst).Nodup)
    ∧ ((Gen.lazyTable.map Prod.fst).all (fun k => (["if", "?:", "or", "and", "map", "filter", "reduce", "all", "some", "none"].map String.toList).contains k) = true
      ∧ (Gen.lazyTable.map Prod.fst).Nodup)
    ∧ ((Gen.dataTable.map Prod.fst).all (fun k => (["var", "missing", "missing_some"].map String.toList).contains k) = true ∧ (Gen.dataTable.map Prod.fst).Nodup) := by
  refine ⟨⟨?_, ?_⟩, ⟨?_, ?_⟩, ⟨?_, ?_⟩, ⟨?_, ?_⟩⟩ <;> decide

/- `table_keys` (the translated tables name exactly the expected operators, in any order) is in `JL/Tie/table_keys.lean`, on its
own: it is the one statement that a row dropping out of the translated subset must break, and it must not take the
statements about the rows down with it. -/

end JL.Tie
