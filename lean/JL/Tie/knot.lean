import JL.Generated.Fns
import JL.Tie.op_from_map
import JL.Tie.tables
import JL.Lemmas.C01
import JL.Lemmas.C03
/-! tie: the parse / evaluate layer (`Operation`, `LazyOperation`, `DataOperation`, `Raw`, `Parsed`, `apply`), as translated from the crate's
current source, is the model's `check` / `run` / `apply` - for every rule and every data

Plan of the file:
* `parseSpec` / `parseListSpec`: the parse tree, written from the model's `check` by structural recursion on the rule;
* the tables: the three tables of `JL/Generated/Tables.lean` have disjoint keys (`tables_disjoint`, so at most one of the four
  `from_value`s of `Parsed::from_value` answers `Some`, `ops_of_lookup`), and every key of theirs is bound in the translated tables
  (`tables_covered`);
* the parse phase: `go_spec` - with fuel `≥ 3 * depth + 3` the fuelled `Parsed_from_value.go` is `parseSpec` (strong induction on the fuel;
  one JSON level per three calls) - hence `Parsed_from_value`; `parseSpec_isSome` by the induction principle of `check`;
* the evaluation phase: `eval_go_spec` - with fuel `≥ 2 * depth of the tree` the fuelled `Parsed_evaluate.go` on the tree of `v` is `run v`
  (strong induction on the fuel; the operator call is the model's `execEager` / `run` / `execData` by the table ties, on operand lists
  of the admitted length, which `runList` preserves) - hence `Parsed_evaluate`, and `apply`. -/
namespace JL.Tie
open JL

/-- the node of the parse tree for an operation of table `kind`: eager and data operations carry the parse trees of their operands
(`parsed`; `none` when an operand is rejected), lazy operations carry their operands as written (`raw`) -/
def buildParsed (kind : Kind) (op : Rs.OpRef) (raw : List Json) (parsed : Option (List Rs.PParsed)) : Option Rs.PParsed :=
  match kind with
  | .eager => parsed.map (fun ps => .Operation (.mk op ps))
  | .lazy => some (.LazyOperation (.mk op raw))
  | .data => parsed.map (fun ps => .DataOperation (.mk op ps))

mutual
/-- The parse tree the crate builds for a rule, written from the model's `check` (structurally on the rule): an operation of the eager
or data table carries the parse trees of its operands, an operation of the lazy table carries its operands unparsed, anything else is
kept as it is. `none` = the rule is rejected (`Err`). -/
def parseSpec : Json → Option Rs.PParsed
  | .obj [(k, v)] =>
      match lookupOp k with
      | none => some (.Raw (.mk (.obj [(k, v)])))
      | some (kind, ar) =>
          match v with
          | .arr xs => if ar.isValidLen xs.length then buildParsed kind ⟨k, ar⟩ xs (parseListSpec xs) else none
          | x => if ar.canAcceptUnary && ar.isValidLen 1 then buildParsed kind ⟨k, ar⟩ [x] ((parseSpec x).map (fun p => [p])) else none
  | v => some (.Raw (.mk v))
termination_by structural v => v
/-- the parse trees of a list of operands, left to right: rejected as soon as one operand is -/
def parseListSpec : List Json → Option (List Rs.PParsed)
  | [] => some []
  | x :: xs => (parseSpec x).bind (fun p => (parseListSpec xs).bind (fun ps => some (p :: ps)))
termination_by structural xs => xs
end

/-! ### the tables -/
theorem tables_disjoint :
    (∀ k ∈ Tables.eager.map (·.key), findEntry k Tables.lazy = none ∧ findEntry k Tables.data = none)
    ∧ (∀ k ∈ Tables.lazy.map (·.key), findEntry k Tables.data = none) := by
  refine ⟨?_, ?_⟩ <;> decide

theorem findEntry_some {k : Str} {t : List Entry} {e : Entry} (h : findEntry k t = some e) : e.key = k ∧ k ∈ t.map (·.key) := by
  induction t with
  | nil => simp [findEntry] at h
  | cons a t ih =>
    unfold findEntry at h
    split at h
    · rename_i hk
      cases h
      exact ⟨hk, by simp [hk]⟩
    · exact ⟨(ih h).1, by simp [(ih h).2]⟩

theorem ops_of_lookup (k : Str) :
    match lookupOp k with
    | none => Rs.eagerOps k = none ∧ Rs.lazyOps k = none ∧ Rs.dataOps k = none
    | some (.eager, ar) => Rs.eagerOps k = some ⟨k, ar⟩ ∧ Rs.lazyOps k = none ∧ Rs.dataOps k = none
    | some (.lazy, ar) => Rs.eagerOps k = none ∧ Rs.lazyOps k = some ⟨k, ar⟩ ∧ Rs.dataOps k = none
    | some (.data, ar) => Rs.eagerOps k = none ∧ Rs.lazyOps k = none ∧ Rs.dataOps k = some ⟨k, ar⟩ := by
  unfold lookupOp Rs.eagerOps Rs.lazyOps Rs.dataOps Rs.opsOf
  cases he : findEntry k Tables.eager with
  | some e =>
    have := findEntry_some he
    have hd := tables_disjoint.1 k this.2
    simp [hd.1, hd.2, this.1]
  | none =>
    cases hl : findEntry k Tables.lazy with
    | some e =>
      have := findEntry_some hl
      have hd := tables_disjoint.2 k this.2
      simp [hd, this.1]
    | none =>
      cases hd : findEntry k Tables.data with
      | some e =>
        have := findEntry_some hd
        simp [this.1]
      | none => simp

theorem assoc_mem {β : Type} {k : Str} {t : List (Str × β)} {f : β} (h : Rs.assoc k t = some f) : (k, f) ∈ t := by
  induction t with
  | nil => simp [Rs.assoc] at h
  | cons a t ih =>
    obtain ⟨k', v⟩ := a
    unfold Rs.assoc at h
    split at h
    · rename_i hk; cases h; simp [hk]
    · simp [ih h]

theorem tables_covered :
    (∀ k ∈ Tables.eager.map (·.key), (Rs.assoc k Gen.eagerTable).isSome || (Rs.assoc k Gen.eagerTableM).isSome)
    ∧ (∀ k ∈ Tables.lazy.map (·.key), (Rs.assoc k Gen.lazyTable).isSome)
    ∧ (∀ k ∈ Tables.data.map (·.key), (Rs.assoc k Gen.dataTable).isSome) := by
  refine ⟨?_, ?_, ?_⟩ <;> decide

/-! ### the parse phase -/
/-- the operand list of an operation with arity `ar` written with operand `val` (`none`: rejected) -/
def operandsOf (ar : Arity) : Json → Option (List Json)
  | .arr xs => if ar.isValidLen xs.length then some xs else none
  | x => if ar.canAcceptUnary && ar.isValidLen 1 then some [x] else none

theorem parseSpec_op (k : Str) (val : Json) (kind : Kind) (ar : Arity) (h : lookupOp k = some (kind, ar)) :
    parseSpec (.obj [(k, val)]) = (operandsOf ar val).bind (fun xs => buildParsed kind ⟨k, ar⟩ xs (parseListSpec xs)) := by
  unfold parseSpec
  simp only [h]
  cases val <;> simp only [operandsOf] <;> split <;> simp [parseListSpec] <;> (cases parseSpec _ <;> rfl)

theorem parseSpec_lit (k : Str) (val : Json) (h : lookupOp k = none) :
    parseSpec (.obj [(k, val)]) = some (.Raw (.mk (.obj [(k, val)]))) := by
  unfold parseSpec
  simp only [h]

theorem parseSpec_nonop (v : Json) (h : ∀ k val, v ≠ .obj [(k, val)]) : parseSpec v = some (.Raw (.mk v)) := by
  unfold parseSpec
  split
  · exact absurd rfl (h _ _)
  · rfl

theorem opFromMapSpec_op (lk : Str → Option Rs.OpRef) (k : Str) (val : Json) (op : Rs.OpRef) (h : lk k = some op) :
    opFromMapSpec Rs.OpRef.arity lk (.obj [(k, val)]) = (operandsOf op.arity val).map (fun xs => some (op, xs)) := by
  simp only [opFromMapSpec, h]
  cases val <;> simp only [operandsOf] <;> split <;> simp_all

theorem opFromMapSpec_none (lk : Str → Option Rs.OpRef) (k : Str) (val : Json) (h : lk k = none) :
    opFromMapSpec Rs.OpRef.arity lk (.obj [(k, val)]) = some none := by
  simp only [opFromMapSpec, h]

theorem opFromMapSpec_nonop (lk : Str → Option Rs.OpRef) (v : Json) (h : ∀ k val, v ≠ .obj [(k, val)]) :
    opFromMapSpec Rs.OpRef.arity lk v = some none := by
  unfold opFromMapSpec
  split
  · exact absurd rfl (h _ _)
  · rfl

/-- the common shape of the three `from_value`s -/
def fromValueSpec {τ : Type} (lk : Str → Option Rs.OpRef) (mk : Rs.OpRef → List Json → Option τ) (v : Json) : Option (Option τ) :=
  (opFromMapSpec Rs.OpRef.arity lk v).bind (fun opt => Rs.transpose (opt.map (fun op => mk op.1 op.2)))

theorem Operation_go_succ (f : Nat) (v : Json) :
    Gen.Operation_from_value.go (f + 1) v
      = fromValueSpec Rs.eagerOps (fun op xs => (Gen.Parsed_from_values.go f xs).map (Rs.POperation.mk op)) v := by
  unfold Gen.Operation_from_value.go
  rw [op_from_map]
  simp only [rs, fromValueSpec]
  congr 1; funext opt; congr 2; funext op
  cases Gen.Parsed_from_values.go f op.2 <;> rfl

theorem DataOperation_go_succ (f : Nat) (v : Json) :
    Gen.DataOperation_from_value.go (f + 1) v
      = fromValueSpec Rs.dataOps (fun op xs => (Gen.Parsed_from_values.go f xs).map (Rs.PData.mk op)) v := by
  unfold Gen.DataOperation_from_value.go
  rw [op_from_map]
  simp only [rs, fromValueSpec]
  congr 1; funext opt; congr 2; funext op
  cases Gen.Parsed_from_values.go f op.2 <;> rfl

theorem LazyOperation_fv (v : Json) :
    Gen.LazyOperation_from_value v = fromValueSpec Rs.lazyOps (fun op xs => some (Rs.PLazy.mk op xs)) v := by
  unfold Gen.LazyOperation_from_value
  rw [op_from_map]
  simp only [rs, fromValueSpec]
  rfl

theorem Parsed_values_go_succ (f : Nat) (xs : List Json) :
    Gen.Parsed_from_values.go (f + 1) xs = Rs.collectO (xs.map (Gen.Parsed_from_value.go f)) := by
  unfold Gen.Parsed_from_values.go
  simp only [rs]
  rfl

theorem Parsed_go_succ (f : Nat) (v : Json) :
    Gen.Parsed_from_value.go (f + 1) v =
      match Gen.Operation_from_value.go f v, Gen.LazyOperation_from_value v, Gen.DataOperation_from_value.go f v with
      | some q1, some q2, some q3 =>
          (((q1.map Rs.PParsed.Operation).or (q2.map Rs.PParsed.LazyOperation)).or (q3.map Rs.PParsed.DataOperation)).or (some (.Raw (.mk v)))
      | _, _, _ => none := by
  unfold Gen.Parsed_from_value.go
  cases Gen.Operation_from_value.go f v <;> cases Gen.LazyOperation_from_value v <;> cases Gen.DataOperation_from_value.go f v <;>
    simp [rs, Gen.Raw_from_value]
  rename_i a b c; cases a <;> cases b <;> cases c <;> rfl

theorem opFromMapSpec_obj (lk : Str → Option Rs.OpRef) (k : Str) (val : Json) :
    opFromMapSpec Rs.OpRef.arity lk (.obj [(k, val)]) =
      match lk k with
      | none => some none
      | some op => (operandsOf op.arity val).map (fun xs => some (op, xs)) := by
  cases h : lk k with
  | none => exact opFromMapSpec_none lk k val h
  | some op => exact opFromMapSpec_op lk k val op h

theorem depth_mem {x : Json} : ∀ {xs : List Json}, x ∈ xs → x.depth ≤ Json.depthList xs
  | [], h => by cases h
  | y :: ys, h => by
    rw [Json.depthList]
    rcases List.mem_cons.1 h with rfl | h
    · omega
    · have := depth_mem h; omega

theorem operandsOf_depth {ar : Arity} {k : Str} {val : Json} {xs : List Json} (h : operandsOf ar val = some xs) :
    ∀ x ∈ xs, x.depth + 1 ≤ (Json.obj [(k, val)]).depth := by
  intro x hx
  have hd : (Json.obj [(k, val)]).depth = val.depth + 1 := by simp [Json.depth, Json.depthKvs]
  rw [hd]
  cases val <;> simp only [operandsOf] at h <;> split at h <;> cases h
  all_goals try (simp at hx; subst hx; omega)
  have := depth_mem hx
  simp only [Json.depth]; omega

theorem collect_go (m : Nat) : ∀ (xs : List Json), (∀ x ∈ xs, Gen.Parsed_from_value.go m x = parseSpec x) →
    Rs.collectO (xs.map (Gen.Parsed_from_value.go m)) = parseListSpec xs
  | [], _ => by simp [Rs.collectO, parseListSpec]
  | x :: xs, h => by
    simp only [List.map_cons, Rs.collectO, parseListSpec]
    rw [h x (by simp), collect_go m xs (fun y hy => h y (by simp [hy]))]

theorem go_spec : ∀ (n : Nat) (v : Json), 3 * v.depth + 3 ≤ n → Gen.Parsed_from_value.go n v = parseSpec v := by
  intro n
  induction n using Nat.strongRecOn with
  | _ n ih =>
    intro v hn
    obtain ⟨f, rfl⟩ : ∃ f, n = f + 3 := ⟨n - 3, by omega⟩
    rw [Parsed_go_succ, Operation_go_succ, DataOperation_go_succ, LazyOperation_fv]
    by_cases hv : ∃ k val, v = .obj [(k, val)]
    · obtain ⟨k, val, rfl⟩ := hv
      have hops := ops_of_lookup k
      cases hl : lookupOp k with
      | none =>
        rw [hl] at hops; simp only at hops
        simp only [fromValueSpec, opFromMapSpec_none _ _ _ hops.1, opFromMapSpec_none _ _ _ hops.2.1, opFromMapSpec_none _ _ _ hops.2.2]
        rw [parseSpec_lit _ _ hl]; rfl
      | some p =>
        obtain ⟨kind, ar⟩ := p
        rw [parseSpec_op k val kind ar hl]
        have hvals : ∀ xs, operandsOf ar val = some xs → Gen.Parsed_from_values.go (f + 1) xs = parseListSpec xs := by
          intro xs ho
          rw [Parsed_values_go_succ]
          apply collect_go
          intro x hx
          apply ih f (by omega)
          have := operandsOf_depth (k := k) ho x hx
          omega
        rw [hl] at hops
        cases kind <;> simp only at hops <;>
          simp only [fromValueSpec, opFromMapSpec_obj, hops.1, hops.2.1, hops.2.2] <;>
          (cases ho : operandsOf ar val with
           | none => simp
           | some xs => simp [hvals xs ho, buildParsed, Rs.transpose] <;> (cases parseListSpec xs <;> rfl))
    · have hv' : ∀ k val, v ≠ .obj [(k, val)] := fun k val h => hv ⟨k, val, h⟩
      simp only [fromValueSpec, opFromMapSpec_nonop _ _ hv', parseSpec_nonop _ hv']
      rfl

/-- `Parsed::from_value` builds exactly that tree -/
theorem Parsed_from_value (v : Json) : Gen.Parsed_from_value v = parseSpec v := by
  unfold Gen.Parsed_from_value
  apply go_spec
  show 3 * v.depth + 3 ≤ 4 * v.depth + 4
  omega

theorem check_op (k : Str) (val : Json) (kind : Kind) (ar : Arity) (h : lookupOp k = some (kind, ar)) :
    check (.obj [(k, val)]) = match operandsOf ar val with
      | none => false
      | some xs => kind == .lazy || checkList xs := by
  unfold check
  simp only [h]
  cases val with
  | arr xs => by_cases hv : ar.isValidLen xs.length = true <;> simp [operandsOf, hv]
  | _ =>
    by_cases hu : (ar.canAcceptUnary && ar.isValidLen 1) = true <;> simp only [operandsOf, hu, ↓reduceIte] <;>
      simp [checkList]

theorem isSome_op (k : Str) (val : Json) (kind : Kind) (ar : Arity) (hl : lookupOp k = some (kind, ar))
    (H : ∀ xs, operandsOf ar val = some xs → (parseListSpec xs).isSome = checkList xs) :
    (parseSpec (.obj [(k, val)])).isSome = check (.obj [(k, val)]) := by
  rw [parseSpec_op k val kind ar hl, check_op k val kind ar hl]
  cases ho : operandsOf ar val with
  | none => rfl
  | some xs =>
    have := H xs ho
    cases kind <;> simp [buildParsed, this]

theorem parseSpec_isSome_both : (∀ v, (parseSpec v).isSome = check v) ∧ (∀ xs, (parseListSpec xs).isSome = checkList xs) := by
  apply check.mutual_induct
  · intro k v hl
    rw [parseSpec_lit k v hl]; unfold check; simp [hl]
  · intro k kind ar hl keys ih
    apply isSome_op k _ kind ar hl
    intro xs ho
    simp only [operandsOf] at ho
    split at ho <;> cases ho
    exact ih
  · intro k v kind ar hl hv ih
    apply isSome_op k _ kind ar hl
    intro xs ho
    have : xs = [v] := by
      cases v <;> simp only [operandsOf] at ho <;> split at ho <;> cases ho <;> first | rfl | exact absurd rfl (hv _)
    subst this
    simp only [parseListSpec, checkList, Bool.and_true]
    rw [← ih]
    cases parseSpec v <;> rfl
  · intro t ht
    rw [parseSpec_nonop t (fun k v h => ht k v h)]
    unfold check
    split
    · exact absurd rfl (fun h => ht _ _ h)
    · rfl
  · rfl
  · intro x xs ih1 ih2
    simp only [parseListSpec, checkList]
    rw [← ih1, ← ih2]
    cases parseSpec x <;> cases parseListSpec xs <;> rfl

/-- the rule is accepted exactly when the model's `check` accepts it -/
theorem parseSpec_isSome (v : Json) : (parseSpec v).isSome = check v := parseSpec_isSome_both.1 v

/-! ### the evaluation phase -/
theorem lookup_mem {k : Str} {kind : Kind} {ar : Arity} (h : lookupOp k = some (kind, ar)) :
    k ∈ (match kind with | .eager => Tables.eager | .lazy => Tables.lazy | .data => Tables.data).map Entry.key := by
  have hops := ops_of_lookup k
  rw [h] at hops
  cases kind <;> simp only at hops ⊢
  · have h1 := hops.1
    unfold Rs.eagerOps Rs.opsOf at h1
    cases he : findEntry k Tables.eager with
    | none => simp [he] at h1
    | some e => exact (findEntry_some he).2
  · have h1 := hops.2.1
    unfold Rs.lazyOps Rs.opsOf at h1
    cases he : findEntry k Tables.lazy with
    | none => simp [he] at h1
    | some e => exact (findEntry_some he).2
  · have h1 := hops.2.2
    unfold Rs.dataOps Rs.opsOf at h1
    cases he : findEntry k Tables.data with
    | none => simp [he] at h1
    | some e => exact (findEntry_some he).2

theorem eager_call_spec (k : Str) (ar : Arity) (hl : lookupOp k = some (.eager, ar)) (items : List Json)
    (hn : ar.isValidLen items.length = true) : Gen.eager_call ⟨k, ar⟩ items = execEager k items := by
  unfold Gen.eager_call
  have hc := tables_covered.1 k (lookup_mem hl)
  cases h1 : Rs.assoc k Gen.eagerTable with
  | some f => exact eager_table k f (assoc_mem h1) ar hl items hn
  | none =>
    cases h2 : Rs.assoc k Gen.eagerTableM with
    | some f => exact eager_table_log k f (assoc_mem h2) ar hl items hn
    | none => simp [h1, h2] at hc

theorem lazy_call_spec (k : Str) (ar : Arity) (hl : lookupOp k = some (.lazy, ar)) (d : Json) (xs : List Json)
    (hn : ar.isValidLen xs.length = true) : Gen.lazy_call ⟨k, ar⟩ d xs = run (.obj [(k, .arr xs)]) d := by
  unfold Gen.lazy_call
  have hc := tables_covered.2.1 k (lookup_mem hl)
  cases h1 : Rs.assoc k Gen.lazyTable with
  | some f => exact lazy_table k f (assoc_mem h1) ar hl d xs hn
  | none => simp [h1] at hc

theorem data_call_spec (k : Str) (ar : Arity) (hl : lookupOp k = some (.data, ar)) (d : Json) (items : List Json)
    (hn : ar.isValidLen items.length = true) : Gen.data_call ⟨k, ar⟩ d items = execData k d items := by
  unfold Gen.data_call
  have hc := tables_covered.2.2 k (lookup_mem hl)
  cases h1 : Rs.assoc k Gen.dataTable with
  | some f => exact data_table k f (assoc_mem h1) ar hl d items hn
  | none => simp [h1] at hc

theorem run_eager_arr (k : Str) (ar : Arity) (hl : lookupOp k = some (.eager, ar)) (xs : List Json) (d : Json) :
    run (.obj [(k, .arr xs)]) d = (runList xs d >>= execEager k) := by
  conv => lhs; unfold run
  simp only [hl]

theorem run_data_arr (k : Str) (ar : Arity) (hl : lookupOp k = some (.data, ar)) (xs : List Json) (d : Json) :
    run (.obj [(k, .arr xs)]) d = (runList xs d >>= execData k d) := by
  conv => lhs; unfold run
  simp only [hl]

theorem run_lit (k : Str) (val : Json) (hl : lookupOp k = none) (d : Json) : run (.obj [(k, val)]) d = pure (.obj [(k, val)]) := by
  unfold run
  simp only [hl]

theorem run_nonop (v : Json) (h : ∀ k val, v ≠ .obj [(k, val)]) (d : Json) : run v d = pure v := by
  unfold run
  split
  · exact absurd rfl (h _ _)
  · rfl

theorem operands_run (k : Str) (kind : Kind) (ar : Arity) (hl : lookupOp k = some (kind, ar)) (val : Json) (xs : List Json)
    (ho : operandsOf ar val = some xs) (d : Json) : run (.obj [(k, val)]) d = run (.obj [(k, .arr xs)]) d := by
  by_cases hv : ∃ ys, val = .arr ys
  · obtain ⟨ys, rfl⟩ := hv
    simp only [operandsOf] at ho
    split at ho <;> cases ho
    rfl
  · have hv' : ∀ ys, val ≠ .arr ys := fun ys h => hv ⟨ys, h⟩
    have : xs = [val] := by
      cases val <;> simp only [operandsOf] at ho <;> split at ho <;> cases ho <;> first | rfl | exact absurd rfl (hv' _)
    subst this
    exact Lemmas.C03.run_sugar k val d hv' (by simp [hl])

theorem operandsOf_len {ar : Arity} {val : Json} {xs : List Json} (ho : operandsOf ar val = some xs) : ar.isValidLen xs.length = true := by
  cases val <;> simp only [operandsOf] at ho <;> split at ho <;> cases ho <;> simp_all

theorem bind_congr {α β : Type} (x : M α) (f g : α → M β) (h : ∀ a, x.out = .ok a → f a = g a) : M.bind x f = M.bind x g := by
  cases x with | mk l o =>
  cases o with
  | ok a => simp [M.bind, h a rfl]
  | err => rfl
  | panic => rfl

theorem pdepth_mem {p : Rs.PParsed} : ∀ {ps : List Rs.PParsed}, p ∈ ps → p.depth ≤ Rs.PParsed.depthList ps
  | [], h => by cases h
  | q :: qs, h => by
    rw [Rs.PParsed.depthList]
    rcases List.mem_cons.1 h with rfl | h
    · omega
    · have := pdepth_mem h; omega

theorem eval_go_raw (f : Nat) (v d : Json) : Gen.Parsed_evaluate.go (f + 1) (.Raw (.mk v)) d = pure v := by
  unfold Gen.Parsed_evaluate.go
  simp [Gen.Raw_evaluate, rs]

theorem eval_go_lazy (f : Nat) (op : Rs.OpRef) (xs : List Json) (d : Json) :
    Gen.Parsed_evaluate.go (f + 1) (.LazyOperation (.mk op xs)) d = Gen.lazy_call op d xs := by
  unfold Gen.Parsed_evaluate.go
  simp [Gen.LazyOperation_evaluate, Gen.LazyOperator_execute, rs]

theorem eval_go_eager (f : Nat) (op : Rs.OpRef) (ps : List Rs.PParsed) (d : Json) :
    Gen.Parsed_evaluate.go (f + 2) (.Operation (.mk op ps)) d
      = M.bind (Rs.collectM (ps.map (fun p => Gen.Parsed_evaluate.go f p d))) (fun items => Gen.eager_call op items) := by
  conv => lhs; unfold Gen.Parsed_evaluate.go
  simp only
  conv => lhs; unfold Gen.Operation_evaluate.go
  simp only [Gen.Operator_execute, rs]
  rfl

theorem eval_go_data (f : Nat) (op : Rs.OpRef) (ps : List Rs.PParsed) (d : Json) :
    Gen.Parsed_evaluate.go (f + 2) (.DataOperation (.mk op ps)) d
      = M.bind (Rs.collectM (ps.map (fun p => Gen.Parsed_evaluate.go f p d))) (fun items => Gen.data_call op d items) := by
  conv => lhs; unfold Gen.Parsed_evaluate.go
  simp only
  conv => lhs; unfold Gen.DataOperation_evaluate.go
  simp only [Gen.DataOperator_execute, rs]
  rfl

theorem collect_eval (m : Nat) (d : Json)
    (ih : ∀ v p, parseSpec v = some p → 2 * p.depth ≤ m → Gen.Parsed_evaluate.go m p d = run v d) :
    ∀ (xs : List Json) (ps : List Rs.PParsed), parseListSpec xs = some ps → 2 * Rs.PParsed.depthList ps ≤ m →
      Rs.collectM (ps.map (fun p => Gen.Parsed_evaluate.go m p d)) = runList xs d
  | [], ps, h, _ => by
    simp only [parseListSpec, Option.some.injEq] at h
    subst h
    simp [Rs.collectM, runList]
  | x :: xs, ps, h, hm => by
    simp only [parseListSpec] at h
    cases hx : parseSpec x with
    | none => simp [hx] at h
    | some p =>
      cases hxs : parseListSpec xs with
      | none => simp [hx, hxs] at h
      | some qs =>
        simp [hx, hxs] at h
        subst h
        rw [Rs.PParsed.depthList] at hm
        simp only [List.map_cons, Rs.collectM, runList]
        rw [ih x p hx (by omega), collect_eval m d ih xs qs hxs (by omega)]
        rfl

theorem eval_go_spec (d : Json) : ∀ (n : Nat) (v : Json) (p : Rs.PParsed), parseSpec v = some p → 2 * p.depth ≤ n →
    Gen.Parsed_evaluate.go n p d = run v d := by
  intro n
  induction n using Nat.strongRecOn with
  | _ n ih =>
    intro v p hp hn
    by_cases hv : ∃ k val, v = .obj [(k, val)]
    · obtain ⟨k, val, rfl⟩ := hv
      cases hl : lookupOp k with
      | none =>
        rw [parseSpec_lit k val hl] at hp
        cases hp
        obtain ⟨f, rfl⟩ : ∃ f, n = f + 1 := ⟨n - 1, by simp only [Rs.PParsed.depth] at hn; omega⟩
        rw [eval_go_raw, run_lit k val hl]
      | some q =>
        obtain ⟨kind, ar⟩ := q
        rw [parseSpec_op k val kind ar hl] at hp
        cases ho : operandsOf ar val with
        | none => simp [ho] at hp
        | some xs =>
          rw [operands_run k kind ar hl val xs ho d]
          have hlen := operandsOf_len ho
          simp only [ho, Option.bind_some] at hp
          cases kind with
          | «lazy» =>
            simp only [buildParsed, Option.some.injEq] at hp
            subst hp
            obtain ⟨f, rfl⟩ : ∃ f, n = f + 1 := ⟨n - 1, by simp only [Rs.PParsed.depth] at hn; omega⟩
            rw [eval_go_lazy, lazy_call_spec k ar hl d xs hlen]
          | eager =>
            simp only [buildParsed] at hp
            cases hps : parseListSpec xs with
            | none => simp [hps] at hp
            | some ps =>
              simp only [hps, Option.map_some, Option.some.injEq] at hp
              subst hp
              simp only [Rs.PParsed.depth, Rs.POperation.depth] at hn
              obtain ⟨f, rfl⟩ : ∃ f, n = f + 2 := ⟨n - 2, by omega⟩
              rw [eval_go_eager, collect_eval f d (ih f (by omega)) xs ps hps (by omega), run_eager_arr k ar hl]
              apply bind_congr
              intro items hi
              apply eager_call_spec k ar hl
              rw [Lemmas.C01.runList_length xs d items hi]
              exact hlen
          | data =>
            simp only [buildParsed] at hp
            cases hps : parseListSpec xs with
            | none => simp [hps] at hp
            | some ps =>
              simp only [hps, Option.map_some, Option.some.injEq] at hp
              subst hp
              simp only [Rs.PParsed.depth, Rs.PData.depth] at hn
              obtain ⟨f, rfl⟩ : ∃ f, n = f + 2 := ⟨n - 2, by omega⟩
              rw [eval_go_data, collect_eval f d (ih f (by omega)) xs ps hps (by omega), run_data_arr k ar hl]
              apply bind_congr
              intro items hi
              apply data_call_spec k ar hl
              rw [Lemmas.C01.runList_length xs d items hi]
              exact hlen
    · have hv' : ∀ k val, v ≠ .obj [(k, val)] := fun k val h => hv ⟨k, val, h⟩
      rw [parseSpec_nonop v hv'] at hp
      cases hp
      obtain ⟨f, rfl⟩ : ∃ f, n = f + 1 := ⟨n - 1, by simp only [Rs.PParsed.depth] at hn; omega⟩
      rw [eval_go_raw, run_nonop v hv']

/-- evaluating the tree of an accepted rule is the model's `run` on the rule -/
theorem Parsed_evaluate (v : Json) (p : Rs.PParsed) (h : parseSpec v = some p) (d : Json) : Gen.Parsed_evaluate p d = run v d := by
  unfold Gen.Parsed_evaluate
  apply eval_go_spec d _ v p h
  show 2 * p.depth ≤ 4 * (p.depth + Rs.fuelOf d) + 4
  omega

/-- the hypothesis of `Parsed_evaluate` is met by a real rule (a lazy operation over an eager one over a data one) -/
example : ∃ p, parseSpec (.obj [("if".toList, .arr [.obj [("<".toList, .arr [.obj [("var".toList, .str "a".toList)], .num (.pos 2)])],
    .str "y".toList, .str "n".toList])]) = some p :=
  Option.isSome_iff_exists.1 (by decide +kernel)

/-- the crate's `apply`, as translated from the source function by function, is the model's `apply` -/
theorem apply (v d : Json) : Gen.apply v d = JL.apply v d := by
  unfold Gen.apply JL.apply
  rw [Parsed_from_value, ← parseSpec_isSome]
  cases h : parseSpec v with
  | none => simp [rs]
  | some p => simp [rs, Parsed_evaluate v p h]

end JL.Tie
