import JL.Generated.Fns
import JL.Lemmas.TieAuto
import JL.Tie.split_sign
import JL.Tie.radix_literal
import JL.Tie.decimal_literal_len
import JL.Lemmas.TieA
/-! tie: `str_to_number`, as translated from the crate's current source, is the model's function - for every input -/
namespace JL.Tie
open JL
set_option linter.unusedSimpArgs false

theorem trim_matches_ws (s : Str) : Rs.trim_matches s JsOp.isJsWhitespace = JsOp.trimBoth s := by
  simp [rs, JsOp.trimBoth, JsOp.trimEnd, JsOp.trimStart]

/-! the byte-length test of the code is the character-count test of the model (`TieA.literal_len_bytes`), in the spellings
`a == b`, `b == a`, before and after the unfolding of `==` and `len` -/
theorem lit_len_eq (u : Str) : Rs.eq (JsOp.decimalLiteralLen u) (Rs.len u) = (JsOp.decimalLiteralLen u == u.length) :=
  JL.Lemmas.TieA.literal_len_bytes_beq u
theorem lit_len_eq' (u : Str) : Rs.eq (Rs.len u) (JsOp.decimalLiteralLen u) = (JsOp.decimalLiteralLen u == u.length) := by
  rw [← lit_len_eq]; simp only [rs]; exact Bool.beq_comm
theorem lit_len_beq (u : Str) :
    (JsOp.decimalLiteralLen u == (u.map Rs.utf8Len).sum) = (JsOp.decimalLiteralLen u == u.length) := lit_len_eq u
theorem lit_len_beq' (u : Str) :
    ((u.map Rs.utf8Len).sum == JsOp.decimalLiteralLen u) = (JsOp.decimalLiteralLen u == u.length) := lit_len_eq' u

theorem str_to_number (s : Str) : Gen.str_to_number s = JsOp.strToNumber s := by
  tie_close [Gen.str_to_number, JsOp.strToNumber, split_sign, radix_literal, decimal_literal_len, ↓trim_matches_ws,
      ↓lit_len_eq, ↓lit_len_eq', lit_len_beq, lit_len_beq']
    splitting JsOp.radixLiteral JsOp.splitSign JsOp.rustParseF64

end JL.Tie
