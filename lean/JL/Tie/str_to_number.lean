import JL.Generated.Fns
import JL.Tie.split_sign
import JL.Tie.radix_literal
import JL.Lemmas.TieA
/-! tie: `str_to_number`, as translated from the crate's current source, is the model's function - for every input -/
namespace JL.Tie
open JL

theorem trim_matches_ws (s : Str) : Rs.trim_matches s JsOp.isJsWhitespace = JsOp.trimBoth s := by
  simp [rs, JsOp.trimBoth, JsOp.trimEnd, JsOp.trimStart]

theorem str_to_number (s : Str) : Gen.str_to_number s = JsOp.strToNumber s := by
  unfold Gen.str_to_number JsOp.strToNumber
  simp only [split_sign, trim_matches_ws, radix_literal]
  generalize JsOp.trimBoth s = t
  generalize JsOp.splitSign t = p
  obtain ⟨neg, u⟩ := p
  have hlen := JL.Lemmas.TieA.literal_len_bytes_beq u
  simp only [rs] at hlen ⊢
  simp only [hlen]
  cases hr : JsOp.radixLiteral t <;> cases ht : t.isEmpty <;> cases hi : (u == "Infinity".toList)
    <;> cases hc : (!u.isEmpty && JsOp.decimalLiteralLen u == u.length)
    <;> cases hp : JsOp.rustParseF64 u
    <;> simp_all

end JL.Tie
