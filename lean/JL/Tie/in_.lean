import JL.Generated.Fns
import JL.Tie.deep_eq
/-! tie: `in_`, as translated from the crate's current source, is the model's function - for every input -/
namespace JL.Tie
open JL

theorem in_ (needle haystack : Json) : Gen.in_ [needle, haystack] = (ArrOp.in_ needle haystack).map Json.bool := by
  unfold Gen.in_ ArrOp.in_
  have h0 : Rs.index [needle, haystack] 0 = needle := rfl
  have h1 : Rs.index [needle, haystack] 1 = haystack := rfl
  simp only [h0, h1]
  cases haystack <;> simp [rs, deep_eq]
  cases needle <;> simp

end JL.Tie
