import JL.Generated.Fns
import JL.Lemmas.TieLoops
import JL.Tie.deep_eq
/-! tie: `in_`, as translated from the crate's current source, is the model's function - for every input -/
namespace JL.Tie
open JL JL.Lemmas.TieLoops
set_option linter.unusedSimpArgs false  -- which of the listed facts are used depends on how the source is spelled

/- by the model's own case analysis (kind of the haystack, kind of the needle); the search through an array haystack may be
`iter().any(..)`, a `for` loop with a flag (with or without `break`) or a `for` loop that returns at the first hit: `rs_loop_any` brings each to the model's `List.any` -/
theorem in_ (needle haystack : Json) : Gen.in_ [needle, haystack] = (ArrOp.in_ needle haystack).map Json.bool := by
  unfold Gen.in_ ArrOp.in_
  have h0 : Rs.index [needle, haystack] 0 = needle := rfl
  have h1 : Rs.index [needle, haystack] 1 = haystack := rfl
  simp only [h0, h1]
  cases haystack with
  | null => first | rfl | simp [rs]
  | bool b => first | rfl | simp [rs]
  | num n => first | rfl | simp [rs]
  | obj kvs => first | rfl | simp [rs]
  | str h => cases needle <;> first | rfl | simp [rs]
  | arr possibles =>
      rs_loop_any_ret (fun p => ArrOp.deepEq p needle) (some (Json.bool true)) =>
        intro x; cases h : ArrOp.deepEq x needle <;> simp [rs, deep_eq, h]
      all_goals first
        | rfl
        | (simp [rs]; done)
        | (cases hany : List.any possibles (fun p => ArrOp.deepEq p needle) <;> simp [rs, hany])

end JL.Tie
