import JL.Generated.Fns
import JL.Lemmas.TieAuto
/-! tie: `truthy`, as translated from the crate's current source, is the model's function - for every input -/
namespace JL.Tie
open JL

theorem truthy (v : Json) : Gen.truthy v = JL.truthy v := by
  cases v <;> tie_close [Gen.truthy, JL.truthy]

end JL.Tie
