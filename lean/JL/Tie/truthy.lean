import JL.Generated.Fns
/-! tie: `truthy`, as translated from the crate's current source, is the model's function - for every input -/
namespace JL.Tie
open JL

theorem truthy (v : Json) : Gen.truthy v = JL.truthy v := by
  cases v <;> simp [Gen.truthy, JL.truthy, rs]
  · rename_i n; rcases Bool.eq_false_or_eq_true (n.toF64.eq F64.zero) with h | h <;> simp [h]
  · rename_i s; cases s <;> simp
  · rename_i xs; cases xs <;> simp

end JL.Tie
