import JL.Generated.Fns
import JL.Tie.truthy_from_evaluated
import JL.Lemmas.TieE
/-! tie: `op_some`, as translated from the crate's current source, is the model's function - for every input -/
namespace JL.Tie
open JL JL.Lemmas.C14 JL.Lemmas.TieE
set_option linter.unusedSimpArgs false

theorem op_some (d : Json) (xs : List Json) (h : 2 ≤ xs.length) : Gen.op_some d xs = run (.obj [("some".toList, .arr xs)]) d := by
  obtain ⟨c, p, rest, rfl⟩ := two_le xs h
  rw [run_some]
  unfold Gen.op_some quantBody
  simp only [index0, index1]
  cases c with
  | arr items =>
    simp only [try_parsed]
    simp only [Rs.evaluate, try_M, and_then_M, map_M, strict_plain, foldM_bind, Rs.ok, M.pure_bind, if_true]
    rw [quantLit_foldlM false (fun x => run p x) d]
    · cases items <;> cases check p <;> simp [rs]
    · intro res i
      cases res <;> simp [Rs.ok, truthy_from_evaluated]
  | obj kvs =>
    simp only [try_parsed]
    simp only [Rs.evaluate, try_M, and_then_M, map_M, strict_plain, foldM_bind, Rs.ok, M.pure_bind, if_true]
    cases hc : check (Json.obj kvs)
    · simp [isObj, hc]
    · simp only [isObj, if_true, Bool.not_true, Bool.false_eq_true, if_false]
      congr 1; funext cv
      cases cv with
      | arr items =>
        dsimp only
        rw [quant_foldlM false (fun x => run p x)]
        · cases items <;> cases check p <;> simp [quantValue, quantItems, rs]
        · intro res i
          cases res <;> simp [Rs.ok, truthy_from_evaluated]
      | str s =>
        dsimp only
        simp only [map_list]
        rw [quant_foldlM false (fun x => run p x)]
        · cases s <;> cases check p <;> simp [quantValue, quantItems, rs]
        · intro res i
          cases res <;> simp [Rs.ok, truthy_from_evaluated]
      | _ => simp [quantValue, quantItems, rs]
  | str s =>
    simp only [try_parsed]
    simp only [Rs.evaluate, try_M, and_then_M, map_M, strict_plain, foldM_bind, Rs.ok, M.pure_bind, if_true, isObj, map_list]
    rw [quant_foldlM false (fun x => run p x)]
    · cases s <;> cases check p <;> simp [quantValue, quantItems, rs]
    · intro res i
      cases res <;> simp [Rs.ok, truthy_from_evaluated]
  | _ => simp [quantValue, quantItems, rs, isObj]

end JL.Tie
