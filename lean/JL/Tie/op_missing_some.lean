import JL.Generated.Fns
import JL.Tie.get_key
import JL.Lemmas.TieG
/-! tie: `op_missing_some`, as translated from the crate's current source, is the model's function - for every input -/
namespace JL.Tie
open JL JL.Lemmas.TieG

/-- the operator table admits `missing_some` with exactly two operands -/
theorem op_missing_some (d : Json) (xs : List Json) (h : 2 ≤ xs.length) : Gen.op_missing_some d xs = JL.missingSome d xs := by
  match xs, h with
  | thr :: keysArg :: rest, _ =>
  unfold Gen.op_missing_some JL.missingSome
  simp only [Rs.index, List.getElem?_cons_zero, List.getElem?_cons_succ, Option.getD_some]
  cases thr with
  | num n =>
    simp only [Rs.as_u64]
    cases hn : n.asU64 with
    | none => rfl
    | some threshold =>
      cases keysArg with
      | arr keys =>
        simp only [ok_or_some, Rs.ok, try_M, M.pure_bind]
        -- the fold: its result is the model's (count, keys found missing), or both fail
        generalize hp : Rs.foldMS _ _ _ _ = p
        have hres := foldMS_pair_cases (Fm := fun ks c m => missingSomeFold d threshold ks (c, m))
          (by intro b s; rfl) (by intro s x; rfl)
          (by
            intro x xs b s
            simp only [try_into_key, tryS_ok, List.nil_append]
            by_cases hb : threshold ≤ b
            · simp [missingSomeFold, hb, rs]
            · cases hk : Data.keyOf x with
              | none => simp [missingSomeFold, hb, hk, rs]
              | some key =>
                  cases hg : Data.getKey d key <;> cases key <;> cases hc : Json.contains s x <;>
                    simp [missingSomeFold, hb, hk, hg, hc, get_key, rs]) hp
        rcases hres with ⟨c, m, rfl, hm⟩ | ⟨m, rfl, hm⟩
        · have hm' : missingSomeFold d threshold keys (0, []) = ⟨[], .ok (c, m)⟩ := hm
          rw [hm']
          by_cases hc : threshold ≤ c <;> simp [hc, rs]
        · have hm' : missingSomeFold d threshold keys (0, []) = ⟨[], .err⟩ := hm
          rw [hm']
          rfl
      | _ => rfl
  | _ => rfl

end JL.Tie
