import JL.Generated.Fns
import JL.Lemmas.TieI
/-! tie: `decimal_literal_len`, as translated from the crate's current source, is the model's function - for every input

The Rust code scans the UTF-8 bytes of the string, the model scans its characters. `JL/Lemmas/TieI.lean` has the
byte-level scan `scanB` (mantissa scan `mantB`, exponent scan `expB`) and proves `scanB (encode s) = decimalLiteralLen s`;
here the translated body is shown to be `scanB` of the bytes. -/
namespace JL.Tie
open JL JL.Lemmas.TieI

theorem decimal_literal_len (s : Str) : Gen.decimal_literal_len s = JsOp.decimalLiteralLen s := by
  rw [← scanB_encode]
  unfold Gen.decimal_literal_len
  extract_lets bytes digits_end int_end mant0 k_1 k_2 frac_end mant2 end2
  have hb : JL.Spec.Utf8.encode s = bytes := rfl
  rw [hb]
  have hde : ∀ f, digits_end f = f + dlB (bytes.drop f) := fun f => rfl
  -- the exponent continuation
  have hk1 : ∀ m e, k_1 ((), m, e) = e + expB (bytes.drop e) := by
    intro m e
    simp only [k_1, hde, rs, expB, List.getElem?_drop, List.drop_drop, Nat.add_zero]
    generalize bytes[e]? = a
    generalize bytes[e + 1]? = b
    generalize dlB (List.drop (e + 1) bytes) = n1
    generalize dlB (List.drop (e + 2) bytes) = n2
    split
    · split <;> simp_all <;> split <;> omega
    · split <;> simp_all <;> split <;> omega
    · simp_all
  have hk2 : ∀ m e, k_2 ((), m, e) = if m = 0 then 0 else e + expB (bytes.drop e) := by
    intro m e
    simp only [k_2, hk1, rs, beq_iff_eq]
  have h0 : int_end = dlB bytes := by
    simp only [int_end, hde]; simp
  clear_value k_1 k_2 digits_end
  -- the mantissa
  rw [eq_some_nat]
  simp only [hk2, scanB, mantB, rs, end2, mant2, frac_end, hde, mant0, h0, List.getElem?_drop, Nat.add_zero,
    decide_eq_true_eq]
  clear_value bytes
  generalize dlB (List.drop (dlB bytes + 1) bytes) = f
  generalize dlB bytes = i
  by_cases h : bytes[i]? = some 46
  · simp only [h, if_true]
    split <;> split <;> simp_all <;> omega
  · simp only [h, if_false]

end JL.Tie
