import JL.Generated.Fns
import JL.Tie.to_string
import JL.Tie.parse_float_string
/-! tie: `parse_float`, as translated from the crate's current source, is the model's function - for every input -/
namespace JL.Tie
open JL

theorem parse_float (v : Json) : Gen.parse_float v = JsOp.parseFloat v := by
  cases v <;> unfold Gen.parse_float <;> simp only [JsOp.parseFloat, rs, parse_float_string, to_string]
  all_goals (unfold Gen.parse_float; simp only [parse_float_string])

end JL.Tie
