import JL.Generated.Fns
import JL.Lemmas.TieAuto
import JL.Tie.to_string
import JL.Tie.parse_float_string
/-! tie: `parse_float`, as translated from the crate's current source, is the model's function - for every input -/
namespace JL.Tie
open JL

/-- on a string (where the function does not call itself, whichever way it is written) -/
theorem parse_float_str (s : Str) : Gen.parse_float (.str s) = JsOp.parseFloat (.str s) := by
  unfold Gen.parse_float; tie_close [JsOp.parseFloat, parse_float_string, to_string]

/-- on the other values it may call itself on the string form -/
theorem parse_float (v : Json) : Gen.parse_float v = JsOp.parseFloat v := by
  cases v <;> first
    | exact parse_float_str _
    | (unfold Gen.parse_float; tie_close [JsOp.parseFloat, parse_float_string, to_string, parse_float_str])

end JL.Tie
