import JL.Generated.Fns
import JL.Tie.op_some
/-! tie: `op_none`, as translated from the crate's current source, is the model's function - for every input -/
namespace JL.Tie
open JL JL.Lemmas.C14 JL.Lemmas.TieE

theorem op_none (d : Json) (xs : List Json) (h : 2 ≤ xs.length) : Gen.op_none d xs = run (.obj [("none".toList, .arr xs)]) d := by
  unfold Gen.op_none
  rw [op_some d xs h]
  obtain ⟨c, p, rest, rfl⟩ := two_le xs h
  rw [run_none, run_some, and_then_M]
  congr 1; funext rv
  cases rv <;> rfl

end JL.Tie
