import JL.Generated.Fns
import JL.Lemmas.TieAuto
import JL.Tie.to_number
/-! tie: `abstract_div`, as translated from the crate's current source, is the model's function - for every input -/
namespace JL.Tie
open JL

theorem abstract_div (a b : Json) : Gen.abstract_div a b = JsOp.abstractDiv a b := by
  tie_close [Gen.abstract_div, JsOp.abstractDiv, to_number] splitting JsOp.toNumber

end JL.Tie
