import JL.Generated.Fns
import JL.Tie.to_number
/-! tie: `abstract_div`, as translated from the crate's current source, is the model's function - for every input -/
namespace JL.Tie
open JL

theorem abstract_div (a b : Json) : Gen.abstract_div a b = JsOp.abstractDiv a b := by
  unfold Gen.abstract_div JsOp.abstractDiv
  rw [to_number, to_number]
  cases JsOp.toNumber a <;> cases JsOp.toNumber b <;> simp [rs]

end JL.Tie
