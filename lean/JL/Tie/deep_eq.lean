import JL.Generated.Fns
import JL.Lemmas.TieB
import JL.Lemmas.TieLoops
import JL.Tie.number_eq
/-! tie: `deep_eq`, as translated from the crate's current source, is the model's function - for every input -/
namespace JL.Tie
open JL JL.Lemmas.TieB JL.Lemmas.TieLoops
set_option linter.unusedSimpArgs false  -- which of the listed facts are used depends on how the source is spelled

/-- with enough fuel the translated recursion is the model's structural recursion.

By the model's own case analysis on the two values (named constructors: the order of the `match` arms in the source is
irrelevant). For two arrays / two objects the item-wise comparison - `all` over `zip`/over the entries, or a `for` loop with a
flag, or a `for` loop that returns `false` at the first difference - is brought to `List.all` of the model's test by
`rs_loop_all_mem` (`TieLoops`); its step equation is asked for the items that occur, where the induction hypothesis holds.
The rest is a fact about the model (`deepEqList_eq`, `deepEqKvs_eq`) and a comparison of booleans by cases. -/
theorem deep_eq_go : ∀ (fuel : Nat) (a b : Json), Json.depth a < fuel → Gen.deep_eq.go fuel a b = ArrOp.deepEq a b
  | 0, _, _, h => by omega
  | fuel + 1, a, b, h => by
    cases a with
    | null => cases b <;> simp [Gen.deep_eq.go, ArrOp.deepEq, number_eq, rs, Json.beq]
    | bool p => cases b <;> simp [Gen.deep_eq.go, ArrOp.deepEq, number_eq, rs, Json.beq]
    | num n => cases b <;> simp [Gen.deep_eq.go, ArrOp.deepEq, number_eq, rs, Json.beq]
    | str s => cases b <;> simp [Gen.deep_eq.go, ArrOp.deepEq, number_eq, rs, Json.beq]
    | arr x =>
        cases b with
        | arr y =>
            simp only [Json.depth] at h
            simp only [Gen.deep_eq.go, ArrOp.deepEq, deepEqList_eq]
            rs_loop_all_mem (fun p : Json × Json => ArrOp.deepEq p.1 p.2) false =>
              intro ab hab
              obtain ⟨a, b⟩ := ab
              have ha : a ∈ x := (List.of_mem_zip hab).1
              have := depth_le_depthList ha
              have ih := deep_eq_go fuel a b (by omega)
              cases hd : ArrOp.deepEq a b <;> simp [rs, ih, hd]
            all_goals
              cases h1 : (x.length == y.length) <;>
              cases h2 : List.all (List.zip x y) (fun p => ArrOp.deepEq p.1 p.2) <;>
              ((try simp only [rs]); (try simp only [h1, h2]); (try simp))
        | _ => simp [Gen.deep_eq.go, ArrOp.deepEq, number_eq, rs, Json.beq]
    | obj x =>
        cases b with
        | obj y =>
            simp only [Json.depth] at h
            simp only [Gen.deep_eq.go, ArrOp.deepEq, deepEqKvs_eq]
            rs_loop_all_mem (kvOk y) false =>
              intro p hp
              obtain ⟨k, a⟩ := p
              have := depth_le_depthKvs hp
              have ih := fun b => deep_eq_go fuel a b (by omega)
              cases hl : Json.lookup k y with
              | none => simp [rs, kvOk, hl]
              | some b => cases hd : ArrOp.deepEq a b <;> simp [rs, kvOk, hl, ih, hd]
            all_goals
              cases h1 : (x.length == y.length) <;>
              cases h2 : List.all x (kvOk y) <;>
              ((try simp only [rs]); (try simp only [h1, h2]); (try simp))
        | _ => simp [Gen.deep_eq.go, ArrOp.deepEq, number_eq, rs, Json.beq]

theorem deep_eq (a b : Json) : Gen.deep_eq a b = ArrOp.deepEq a b := by
  unfold Gen.deep_eq
  exact deep_eq_go _ a b (by omega)

end JL.Tie
