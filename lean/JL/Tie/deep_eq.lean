import JL.Generated.Fns
import JL.Lemmas.TieB
import JL.Tie.number_eq
/-! tie: `deep_eq`, as translated from the crate's current source, is the model's function - for every input -/
namespace JL.Tie
open JL JL.Lemmas.TieB

/-- with enough fuel the translated recursion is the model's structural recursion -/
theorem deep_eq_go : ∀ (fuel : Nat) (a b : Json), Json.depth a < fuel → Gen.deep_eq.go fuel a b = ArrOp.deepEq a b
  | 0, _, _, h => by omega
  | fuel + 1, a, b, h => by
    cases a <;> cases b <;> simp only [Gen.deep_eq.go, ArrOp.deepEq, number_eq]
    all_goals try (simp [rs, Json.beq]; done)
    · rename_i x y
      refine zip_all_tie _ x y (fun a ha b => ?_)
      have := depth_le_depthList ha
      simp only [Json.depth] at h
      exact deep_eq_go fuel a b (by omega)
    · rename_i x y
      have e : Rs.eq (Rs.len x) (Rs.len y) = (x.length == y.length) := by simp [rs]
      rw [e]; congr 1
      refine kvs_all_tie _ y x (fun k a hk => ?_)
      have := depth_le_depthKvs hk
      simp only [Json.depth] at h
      have ih := fun b => deep_eq_go fuel a b (by omega)
      simp only [ih]

theorem deep_eq (a b : Json) : Gen.deep_eq a b = ArrOp.deepEq a b := by
  unfold Gen.deep_eq
  exact deep_eq_go _ a b (by omega)

end JL.Tie
