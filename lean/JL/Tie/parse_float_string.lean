import JL.Generated.Fns
import JL.Tie.split_sign
/-! tie: `parse_float_string`, as translated from the crate's current source, is the model's function - for every input -/
namespace JL.Tie
open JL

theorem parse_float_string (s : Str) : Gen.parse_float_string s = JsOp.parseFloatString s := by
  unfold Gen.parse_float_string JsOp.parseFloatString
  -- the literal is made opaque first: unifying terms that contain `"…".toList` is very slow
  generalize "Infinity".toList = inf
  simp only [split_sign, rs, JsOp.trimStart]
  split
  · simp [*]
    try rfl
  · simp [*]
    generalize JsOp.rustParseF64 _ = r
    cases r <;> rfl

end JL.Tie
