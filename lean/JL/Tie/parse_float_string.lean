import JL.Generated.Fns
import JL.Lemmas.TieAuto
import JL.Tie.split_sign
import JL.Tie.decimal_literal_len
/-! tie: `parse_float_string`, as translated from the crate's current source, is the model's function - for every input -/
namespace JL.Tie
open JL

theorem parse_float_string (s : Str) : Gen.parse_float_string s = JsOp.parseFloatString s := by
  tie_close [Gen.parse_float_string, JsOp.parseFloatString, split_sign, decimal_literal_len, JsOp.trimStart]
    splitting JsOp.splitSign JsOp.rustParseF64

end JL.Tie
