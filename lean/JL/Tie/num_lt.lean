import JL.Generated.Fns
import JL.Tie.num_compare
import JL.Tie.abstract_lt
/-! tie: `num_lt`, as translated from the crate's current source, is the model's function - for every input -/
namespace JL.Tie
open JL

theorem num_lt (items : List Json) (h : 2 ≤ items.length) : Rs.ok_or (Gen.num_lt items) = JL.compare JsOp.abstractLt items := by
  have hf : Gen.abstract_lt = JsOp.abstractLt := by
    funext a b; exact abstract_lt a b
  unfold Gen.num_lt
  rw [hf]
  exact num_compare _ items h

end JL.Tie
