import JL.Generated.Fns
import JL.Tie.truthy
/-! tie: `truthy_from_evaluated`, as translated from the crate's current source, is the model's function - for every input -/
namespace JL.Tie
open JL

theorem truthy_from_evaluated (v : Json) : Gen.truthy_from_evaluated v = JL.truthy v := by
  unfold Gen.truthy_from_evaluated
  exact truthy v

end JL.Tie
