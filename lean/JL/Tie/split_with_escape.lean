import JL.Generated.Fns
import JL.Lemmas.TieC
/-! tie: `split_with_escape`, as translated from the crate's current source, is the model's function - for every input -/
namespace JL.Tie
open JL JL.Lemmas.TieC
set_option linter.unusedSimpArgs false  -- which of the listed facts are used depends on how the source is spelled

/- the loop is the model's `splitLoop` (`for_splitLoop`: ANY body that performs one step of it; the body is found by
unification, its step equation is the side goal `hf`), then the final push. The step equation is proved by the model's own
case analysis (escape flag up? backslash? delimiter?) made BEFORE the library calls are unfolded, so that it does not matter
how the source nests its tests or whether it clears the slice by `clear()` or `mem::take`. -/
theorem split_with_escape (input : Str) (delim : Char) : Gen.split_with_escape input delim = Data.splitWithEscape input delim := by
  unfold Gen.split_with_escape Data.splitWithEscape
  simp only [Rs.new_, Rs.mem_take]
  rw [for_splitLoop delim]
  case hf =>
    intro r s e c
    cases e with
    | true => simp [rs]
    | false =>
        by_cases h1 : c = '\\'
        · subst h1; simp [rs, backslash]
        · by_cases h2 : c = delim
          · subst h2; simp [rs, backslash, h1]
          · simp [rs, backslash, h1, h2]
  all_goals simp [rs]

end JL.Tie
