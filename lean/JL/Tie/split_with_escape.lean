import JL.Generated.Fns
import JL.Lemmas.TieC
/-! tie: `split_with_escape`, as translated from the crate's current source, is the model's function - for every input -/
namespace JL.Tie
open JL JL.Lemmas.TieC

theorem split_with_escape (input : Str) (delim : Char) : Gen.split_with_escape input delim = Data.splitWithEscape input delim := by
  unfold Gen.split_with_escape Data.splitWithEscape
  simp only [Rs.new_]
  -- the loop is `splitLoop` (`for_splitLoop`: any body that performs one step of it), then the final push
  rw [for_splitLoop delim]
  · simp [rs]
  · intro r s e c
    cases e <;> simp [rs] <;> (repeat' split) <;> simp_all

end JL.Tie
