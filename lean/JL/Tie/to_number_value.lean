import JL.Generated.Fns
import JL.Lemmas.TieAuto
import JL.Lemmas.TieB
/-! tie: `to_number_value`, as translated from the crate's current source, is the model's function - for every input -/
namespace JL.Tie
open JL JL.Lemmas.TieB

set_option exponentiation.threshold 3000 in
/-- the literal 2^63, as `simp` leaves it -/
theorem lim63' : F64.fin false (2 ^ 1137) = I64_LIMIT := by rw [← lim63, Nat.one_mul]
set_option exponentiation.threshold 3000 in
/-- the literal 2^64, as `simp` leaves it -/
theorem lim64' : F64.fin false (2 ^ 1138) = U64_LIMIT := by rw [← lim64, Nat.one_mul]
/-- `x.fract() == 0.0` after the unfolding of `==` -/
theorem fract_eq_zero' (x : F64) : F64.eq (Rs.fract x) F64.zero = x.fractIsZero := fract_eq_zero x

theorem to_number_value (x : F64) : Gen.to_number_value x = JL.toNumberValue x := by
  -- the cases of the model; in each, what the saturating cast of the code computes there
  rcases Bool.eq_false_or_eq_true (x.fractIsZero && F64.ge x (F64.negate I64_LIMIT) && F64.lt x I64_LIMIT) with c1 | c1
  · have c := c1
    simp only [Bool.and_eq_true] at c
    have hi := to_i64_eq_trunc x c.1.2 c.2
    tie_close [Gen.to_number_value, JL.toNumberValue, ↓lim63, ↓lim64, ↓lim63', ↓lim64', ↓fract_eq_zero, ↓fract_eq_zero']
  · rcases Bool.eq_false_or_eq_true (x.fractIsZero && F64.ge x I64_LIMIT && F64.lt x U64_LIMIT) with c2 | c2
    · have c := c2
      simp only [Bool.and_eq_true] at c
      have hu := to_u64_eq_trunc x c.1.2 c.2
      tie_close [Gen.to_number_value, JL.toNumberValue, ↓lim63, ↓lim64, ↓lim63', ↓lim64', ↓fract_eq_zero, ↓fract_eq_zero']
    · tie_close [Gen.to_number_value, JL.toNumberValue, ↓lim63, ↓lim64, ↓lim63', ↓lim64', ↓fract_eq_zero, ↓fract_eq_zero']
        splitting Num.ofF64?

end JL.Tie
