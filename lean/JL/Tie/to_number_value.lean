import JL.Generated.Fns
import JL.Lemmas.TieB
/-! tie: `to_number_value`, as translated from the crate's current source, is the model's function - for every input -/
namespace JL.Tie
open JL JL.Lemmas.TieB

theorem to_number_value (x : F64) : Gen.to_number_value x = JL.toNumberValue x := by
  unfold Gen.to_number_value JL.toNumberValue
  simp only [lim63, lim64, fract_eq_zero, Rs.ge_f64]
  generalize hi : Rs.to_i64 x = ti
  generalize hu : Rs.to_u64 x = tu
  simp only [rs]
  rcases Bool.eq_false_or_eq_true (x.fractIsZero && F64.ge x (F64.negate I64_LIMIT) && F64.lt x I64_LIMIT) with c1 | c1
  · simp only [c1]
    simp only [Bool.and_eq_true] at c1
    simp [← hi, to_i64_eq_trunc x c1.1.2 c1.2]
  · simp only [c1]
    rcases Bool.eq_false_or_eq_true (x.fractIsZero && F64.ge x I64_LIMIT && F64.lt x U64_LIMIT) with c2 | c2
    · simp only [c2]
      simp only [Bool.and_eq_true] at c2
      simp [← hu, to_u64_eq_trunc x c2.1.2 c2.2]
    · simp only [c2]
      cases h : Num.ofF64? x <;> simp

end JL.Tie
