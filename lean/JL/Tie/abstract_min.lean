import JL.Generated.Fns
import JL.Lemmas.TieLoops
import JL.Tie.to_number
/-! tie: `abstract_min`, as translated from the crate's current source, is the model's function - for every input -/
namespace JL.Tie
open JL JL.Lemmas.TieLoops
set_option linter.unusedSimpArgs false  -- which of the listed facts are used depends on how the source is spelled

/- see `abstract_max`: whichever way the accumulation is spelled, `rs_loop_opt` brings it to `List.foldlM minStep` -/
theorem abstract_min (items : List Json) : Gen.abstract_min items = JsOp.abstractMin items := by
  unfold Gen.abstract_min
  rw [abstractMin_eq]
  rs_loop_opt minStep
  intro a v
  simp only [to_number, minStep]
  cases JsOp.toNumber v with
  | none => simp [rs]
  | some n => cases h : F64.lt n a <;> simp [rs, F64.gt, h]

end JL.Tie
