import JL.Generated.Fns
import JL.Tie.to_number
/-! tie: `abstract_minus`, as translated from the crate's current source, is the model's function - for every input -/
namespace JL.Tie
open JL

theorem abstract_minus (a b : Json) : Gen.abstract_minus a b = JsOp.abstractMinus a b := by
  unfold Gen.abstract_minus JsOp.abstractMinus
  rw [to_number, to_number]
  cases JsOp.toNumber a <;> cases JsOp.toNumber b <;> simp [rs]

end JL.Tie
