import JL.Generated.Fns
import JL.Lemmas.TieAuto
import JL.Tie.to_number
/-! tie: `abstract_minus`, as translated from the crate's current source, is the model's function - for every input -/
namespace JL.Tie
open JL

theorem abstract_minus (a b : Json) : Gen.abstract_minus a b = JsOp.abstractMinus a b := by
  tie_close [Gen.abstract_minus, JsOp.abstractMinus, to_number] splitting JsOp.toNumber

end JL.Tie
