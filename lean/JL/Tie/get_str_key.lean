import JL.Generated.Fns
import JL.Tie.get
import JL.Tie.split_with_escape
/-! tie: `get_str_key`, as translated from the crate's current source, is the model's function - for every input -/
namespace JL.Tie
open JL

/-- a left fold over path segments with an `Option` accumulator whose step is `Data.step` on a present value is `Data.walk` -/
theorem fold_walk (f : Option Json → Str → Option Json) (hn : ∀ seg, f none seg = none)
    (hs : ∀ acc seg, f (some acc) seg = Data.step acc seg) :
    ∀ (segs : List Str) (acc : Json), segs.foldl f (some acc) = Data.walk segs acc
  | [], acc => rfl
  | seg :: rest, acc => by
      rw [List.foldl_cons, hs, Data.walk]
      cases h : Data.step acc seg with
      | some v => exact fold_walk f hn hs rest v
      | none =>
          simp only
          induction rest with
          | nil => rfl
          | cons s r ih => rw [List.foldl_cons, hn]; exact ih

theorem get_str_key (data : Json) (k : Str) : Gen.get_str_key data k = Data.getStrKey data k := by
  unfold Gen.get_str_key Data.getStrKey
  cases k with
  | nil => simp [rs]
  | cons c cs =>
      have hk : Rs.eq (c :: cs) ([] : Str) = false := by simp [rs]
      simp only [hk, Bool.false_eq_true, if_false, List.isEmpty_cons]
      -- the step of the translated fold is `Data.step` on a present value, and keeps `none`
      have hw : ∀ (f : Option Json → Str → Option Json) (acc : Json), (∀ seg, f none seg = none) →
          (∀ a seg, f (some a) seg = Data.step a seg) →
          Rs.fold (Gen.split_with_escape (c :: cs) '.') (some acc) f = Data.walk (Data.splitWithEscape (c :: cs) '.') acc := by
        intro f acc hn hs
        rw [split_with_escape]
        exact fold_walk f hn hs _ acc
      cases data <;> first
        | rfl
        | (refine hw _ _ (fun seg => rfl) (fun a seg => ?_)
           cases a <;> simp only [Data.step] <;> first
             | rfl
             | (simp only [rs, get]
                cases Data.parseI64 seg <;> simp
                try (rename_i s i; cases Data.get s i <;> simp)))

end JL.Tie
