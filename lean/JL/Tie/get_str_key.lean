import JL.Generated.Fns
import JL.Lemmas.TieLoops
import JL.Tie.get
import JL.Tie.split_with_escape
/-! tie: `get_str_key`, as translated from the crate's current source, is the model's function - for every input -/
namespace JL.Tie
set_option linter.unusedSimpArgs false  -- which of the listed facts are used depends on how the source is spelled
open JL JL.Lemmas.TieLoops

/- The walk along the path segments may be a `fold` with an `Option` accumulator or a `for` loop over `let mut current` with
`?`; `rs_loop_opt` brings either to `List.foldlM Data.step`, which is the model's `Data.walk` (`walk_eq_foldlM`). Before that,
the emptiness test on the key (however it is spelled) and the `match` on the kind of `data` are decided by case analysis, so
that the loop stands in the goal without bound variables. The step equation is proved by splitting on everything `Data.step`
looks at and `simp [rs, …]` with the facts so obtained. -/
theorem get_str_key (data : Json) (k : Str) : Gen.get_str_key data k = Data.getStrKey data k := by
  unfold Gen.get_str_key Data.getStrKey
  simp only [walk_eq_foldlM, split_with_escape]
  cases k with
  | nil => simp [rs]
  | cons c cs =>
      -- the key is not empty, whichever way the code asks
      have e1 : Rs.is_empty (c :: cs) = false := rfl
      have e2 : Rs.eq (c :: cs) ([] : Str) = false := rfl
      have e3 : Rs.eq ([] : Str) (c :: cs) = false := rfl
      have e4 : (c :: cs : Str).isEmpty = false := rfl
      simp only [e1, e2, e3, e4, Bool.false_eq_true, if_false, Bool.not_false, if_true]
      cases data
      all_goals try dsimp only
      all_goals
        rs_loop_opt Data.step
        intro a seg
        cases a with
        | obj kvs => cases hl : Json.lookup seg kvs <;> simp [rs, Data.step, hl]
        | arr xs =>
            cases hp : Data.parseI64 seg with
            | none => simp [rs, Data.step, hp]
            | some i => cases hg : Data.get xs i <;> simp [rs, Data.step, get, hp, hg]
        | str s =>
            cases hp : Data.parseI64 seg with
            | none => simp [rs, Data.step, hp]
            | some i => cases hg : Data.get s i <;> simp [rs, Data.step, get, hp, hg]
        | null => simp [rs, Data.step]
        | bool b => simp [rs, Data.step]
        | num n => simp [rs, Data.step]

end JL.Tie
