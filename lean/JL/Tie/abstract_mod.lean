import JL.Generated.Fns
import JL.Tie.to_number
/-! tie: `abstract_mod`, as translated from the crate's current source, is the model's function - for every input -/
namespace JL.Tie
open JL

theorem abstract_mod (a b : Json) : Gen.abstract_mod a b = JsOp.abstractMod a b := by
  unfold Gen.abstract_mod JsOp.abstractMod
  rw [to_number, to_number]
  cases JsOp.toNumber a <;> cases JsOp.toNumber b <;> simp [rs]

end JL.Tie
