import JL.Generated.Fns
import JL.Lemmas.TieAuto
import JL.Tie.to_number
/-! tie: `abstract_mod`, as translated from the crate's current source, is the model's function - for every input -/
namespace JL.Tie
open JL

theorem abstract_mod (a b : Json) : Gen.abstract_mod a b = JsOp.abstractMod a b := by
  tie_close [Gen.abstract_mod, JsOp.abstractMod, to_number] splitting JsOp.toNumber

end JL.Tie
