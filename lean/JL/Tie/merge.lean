import JL.Generated.Fns
import JL.Lemmas.TieLoops
/-! tie: `merge`, as translated from the crate's current source, is the model's function - for every input -/
namespace JL.Tie
open JL JL.Lemmas.TieLoops
set_option linter.unusedSimpArgs false  -- which of the listed facts are used depends on how the source is spelled

/- The accumulation over the operands (a `fold` or a `for` loop) is brought to `List.foldl mergeStep` by `rs_loop_foldl`; the
model side is `foldl_mergeStep`. In the step equation, an array operand is spliced in by an inner loop (or by `extend`): that
loop is brought to `List.foldl (· ++ [·])` the same way (`foldl_push`). -/
theorem merge (items : List Json) : Gen.merge items = some (.arr (ArrOp.merge items)) := by
  unfold Gen.merge
  simp only [Rs.new_]
  rs_loop_foldl mergeStep
  case hb =>
    intro a i
    cases i with
    | arr xs =>
        first
          | (rs_loop_foldl (fun (a : List Json) (x : Json) => a ++ [x])
             case hb => intro a x; first | rfl | simp [rs]
             all_goals (simp only [foldl_push]; simp [rs, mergeStep]))
          | simp [rs, mergeStep]
    | null => first | rfl | simp [rs, mergeStep]
    | bool b => first | rfl | simp [rs, mergeStep]
    | num n => first | rfl | simp [rs, mergeStep]
    | str s => first | rfl | simp [rs, mergeStep]
    | obj kvs => first | rfl | simp [rs, mergeStep]
  all_goals simp [rs, foldl_mergeStep]

end JL.Tie
