import JL.Generated.Fns
/-! tie: `merge`, as translated from the crate's current source, is the model's function - for every input -/
namespace JL.Tie
open JL

/-- a loop that only appends each item to its state -/
theorem for_push {α ρ : Type} (xs : List α) (acc : List α) (body : List α → α → Rs.Flow (List α) ρ)
    (hb : ∀ a x, body a x = Rs.Flow.next (a ++ [x])) : Rs.for_ xs acc body = Rs.LoopOut.done (acc ++ xs) := by
  induction xs generalizing acc with
  | nil => simp [Rs.for_]
  | cons x xs ih => simp [Rs.for_, hb, ih]

theorem foldl_merge (items : List Json) (acc : List Json) (step : List Json → Json → List Json)
    (hs : ∀ a i, step a i = a ++ (match i with | .arr xs => xs | v => [v])) :
    items.foldl step acc = acc ++ ArrOp.merge items := by
  induction items generalizing acc with
  | nil => simp [ArrOp.merge]
  | cons i is ih =>
      rw [List.foldl_cons, ih, hs]
      cases i <;> simp [ArrOp.merge, List.append_assoc]

theorem merge (items : List Json) : Gen.merge items = some (.arr (ArrOp.merge items)) := by
  unfold Gen.merge
  simp only [rs]
  rw [foldl_merge items [] _ (by
    intro a i
    cases i <;> simp [rs]
    rename_i xs
    rw [for_push xs a _ (by intro a x; rfl)])]
  simp

end JL.Tie
