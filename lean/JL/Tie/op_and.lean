import JL.Generated.Fns
import JL.Tie.truthy_from_evaluated
import JL.Lemmas.TieD
import JL.Lemmas.C05
/-! tie: `op_and`, as translated from the crate's current source, is the model's function - for every input -/
namespace JL.Tie
open JL JL.Lemmas.TieD

/-- the translated enum `AndResult` as the model's fold state -/
def andSt : Gen.op_and.AndResult → OrState
  | .Uninitialized => .uninit
  | .Falsey v => .decided v
  | .Current v => .current v

/-- one step of the translated fold of `and`, on an unwrapped state -/
def andStep (d : Json) (s : Gen.op_and.AndResult) (x : Json) : M Gen.op_and.AndResult :=
  match s with
  | .Falsey _ => pure s
  | _ => (if check x then pure (⟨x⟩ : Rs.Parsed) else M.err) >>= fun p => run p.rule d >>= fun e =>
      if !JL.truthy e then pure (.Falsey e) else pure (.Current e)

theorem and_fold (d : Json) : ∀ (xs : List Json) (s : Gen.op_and.AndResult),
    (foldBind (andStep d) xs s >>= fun r => (pure (andSt r) : M OrState)) = runOrAnd false xs (andSt s) d
  | [], s => by simp [runOrAnd]
  | x :: xs, s => by
      have ih := and_fold d xs
      rw [foldBind_cons, M.bind_assoc]
      cases s with
      | Falsey v => simpa [andStep, andSt, runOrAnd] using ih (.Falsey v)
      | Uninitialized =>
          unfold runOrAnd
          simp only [andStep, andSt]
          by_cases hc : check x = true
          · simp only [hc, if_true, M.pure_bind, M.bind_assoc]
            congr 1; funext e
            cases ht : JL.truthy e <;> simpa [andSt] using ih _
          · simp [hc]
      | Current v =>
          unfold runOrAnd
          simp only [andStep, andSt]
          by_cases hc : check x = true
          · simp only [hc, if_true, M.pure_bind, M.bind_assoc]
            congr 1; funext e
            cases ht : JL.truthy e <;> simpa [andSt] using ih _
          · simp [hc]

theorem op_and (d : Json) (xs : List Json) : Gen.op_and d xs = run (.obj [("and".toList, .arr xs)]) d := by
  unfold run
  simp only [Lemmas.C05.lookup_and]
  rw [if_neg (by decide), if_neg (by decide)]
  simp only [↓reduceIte]
  have h : (foldBind (andStep d) xs .Uninitialized >>= fun r => (pure (andSt r) : M OrState)) = runOrAnd false xs .uninit d :=
    and_fold d xs .Uninitialized
  rw [← h, M.bind_assoc]
  unfold Gen.op_and
  rw [foldM_bind' _ (andStep d)]
  · simp only [rs, bind_eq, M.pure_bind]
    congr 1; funext r
    cases r <;> simp [andSt]
  · intro a x
    simp only [rs, truthy_from_evaluated]
    first
      | rfl
      | (congr 1; funext s; cases s <;> simp [andStep, bind_eq])

end JL.Tie
