import JL.Generated.Fns
import JL.Lemmas.TieC
/-! tie: `substr`, as translated from the crate's current source, is the model's function - for every input -/
namespace JL.Tie
open JL JL.Lemmas.TieC
set_option linter.unusedSimpArgs false  -- which of the listed facts are used depends on how the source is spelled

/- Both proofs: first rewrite the `usize` arithmetic on the `Rs` calls themselves (`TieC`: `checked_sub(..).unwrap_or(0)` and
`saturating_sub` are truncated subtraction, …), then make the model's own case analysis (kinds of the operands, whether
`as_i64` succeeds, signs of index and limit) with named constructors, and close every case with the same `simp` that unfolds
the remaining library calls and uses the facts of the case. -/

/-- the `usize` arithmetic of `substr`, to be rewritten before anything is unfolded -/
syntax "substr_arith" : tactic
macro_rules
  | `(tactic| substr_arith) => `(tactic|
      simp only [unwrap_checked_sub, saturating_sub_eq, unwrap_checked_add, min_nat, count_eq, lt_int, ge_int, gt_int, le_int, try_into_eq,
        unsigned_abs_eq])

theorem substr2 (s i : Json) : Gen.substr [s, i] = StrOp.substr s i none := by
  unfold Gen.substr StrOp.substr
  substr_arith
  cases s with
  | str str =>
      cases i with
      | num n =>
          cases hn : n.asI64 with
          | none => simp [rs, StrOp.intArg, hn]
          | some idx =>
              rcases sign_cases idx with ⟨h, h0⟩ | ⟨h, h0⟩ <;> simp [rs, StrOp.intArg, substrBounds_eq, hn, h, h0]
      | _ => simp [rs, StrOp.intArg]
  | _ => simp [rs, StrOp.intArg]

theorem substr3 (s i l : Json) : Gen.substr [s, i, l] = StrOp.substr s i (some l) := by
  unfold Gen.substr StrOp.substr
  substr_arith
  cases s with
  | str str =>
      cases i with
      | num n =>
          cases hn : n.asI64 with
          | none => simp [rs, StrOp.intArg, hn]
          | some idx =>
              cases l with
              | num m =>
                  cases hm : m.asI64 with
                  | none => simp [rs, StrOp.intArg, hn, hm]
                  | some lim =>
                      rcases sign_cases idx with ⟨h, h0⟩ | ⟨h, h0⟩ <;> rcases sign_cases lim with ⟨h', h0'⟩ | ⟨h', h0'⟩ <;>
                        simp [rs, StrOp.intArg, substrBounds_eq, hn, hm, h, h0, h', h0'] <;>
                        -- (`checked_add` taken apart by a `match` instead of `unwrap_or`: split on whether it overflows)
                        (try (split <;> simp_all <;> (try split) <;> omega))
              | _ => simp [rs, StrOp.intArg, hn]
      | _ => simp [rs, StrOp.intArg]
  | _ => simp [rs, StrOp.intArg]

end JL.Tie
