import JL.Generated.Fns
import JL.Lemmas.TieC
/-! tie: `substr`, as translated from the crate's current source, is the model's function - for every input -/
namespace JL.Tie
open JL JL.Lemmas.TieC

/- Both proofs: first rewrite the `usize` arithmetic on the `Rs` calls themselves (`TieC`: `checked_sub(..).unwrap_or(0)` is
truncated subtraction, …), then unfold the rest with `simp [rs]`, split on the shapes of the operands and on the signs. -/

theorem substr2 (s i : Json) : Gen.substr [s, i] = StrOp.substr s i none := by
  unfold Gen.substr StrOp.substr
  simp only [unwrap_checked_sub, unwrap_checked_add, min_nat, count_eq, lt_int, try_into_eq, unsigned_abs_eq]
  cases s <;> simp [rs, StrOp.intArg]
  cases i <;> simp
  rename_i str n
  cases n.asI64 <;> simp [StrOp.substrBounds, sub_ite]
  rename_i idx
  by_cases h : idx < 0 <;> simp [h]

theorem substr3 (s i l : Json) : Gen.substr [s, i, l] = StrOp.substr s i (some l) := by
  unfold Gen.substr StrOp.substr
  simp only [unwrap_checked_sub, unwrap_checked_add, min_nat, count_eq, lt_int, try_into_eq, unsigned_abs_eq]
  cases s <;> simp [rs, StrOp.intArg]
  cases i <;> simp
  rename_i str n
  cases n.asI64 <;> simp
  rename_i idx
  cases l <;> simp
  rename_i m
  cases m.asI64 <;> simp [StrOp.substrBounds, sub_ite]
  rename_i lim
  by_cases h : idx < 0 <;> by_cases h' : lim < 0 <;> simp [h, h']

end JL.Tie
