import JL.Generated.Fns
/-! tie: the translated operator tables name exactly the operators the model implements for them - in any order -/
namespace JL.Tie
open JL

/-- the translated tables name exactly these operators, each once, in whatever order the source lists them (that is: every operator of the crate). Reordering the rows of a table does not affect this theorem; a row that drops out of the translated
subset (its function is no longer one the translator reads) makes it fail, as it should: that key is then no longer covered by
translation. The statements about the rows themselves (`eager_table`, `lazy_table`, `data_table` in `JL/Tie/tables.lean`) do not
depend on this module. -/
theorem table_keys :
    (Gen.eagerTable.map Prod.fst).Perm (["==", "!=", "===", "!==", "!", "!!", "<", "<=", ">", ">=", "+", "-", "*", "/", "%", "max", "min", "merge", "in", "cat", "substr"].map String.toList)
    ∧ (Gen.eagerTableM.map Prod.fst).Perm ["log".toList]
    ∧ (Gen.lazyTable.map Prod.fst).Perm (["if", "?:", "or", "and", "map", "filter", "reduce", "all", "some", "none"].map String.toList)
    ∧ (Gen.dataTable.map Prod.fst).Perm (["var", "missing", "missing_some"].map String.toList) := by
  refine ⟨?_, ?_, ?_, ?_⟩ <;> decide

end JL.Tie
