import JL.Generated.Fns
import JL.Lemmas.TieAuto
import JL.Lemmas.TieC
/-! tie: `radix_literal`, as translated from the crate's current source, is the model's function - for every input -/
namespace JL.Tie
open JL JL.Lemmas.TieC
set_option linter.unusedSimpArgs false

/-- one prefix letter. The code is normalised first (the casts and float operations by the abstracted rules of `TieC`, never
unfolding `F64.ofNat`); its digit loop is then `radixLoop radix bits` by `for_radixLoop`, whatever the body looks like, provided
the body performs one step of `radixLoop` - which is checked by cases on the digit (`digit < 2^bits` gives `<< |` = `* +`);
what follows the loop is closed by cases on the loop's result. -/
local macro "radix_case" radix:num bits:num : tactic => `(tactic| (
  simp only [↓powi_two, ↓powi_two', ↓to_f64_nat, ↓mul_f64, ↓gt_nat, ↓to_u64_bool, rs, tie, JsOp.radixLiteral]
  rw [for_radixLoop $radix $bits (some none)]
  · tie_close [or_sticky] splitting JsOp.radixLoop
  · intro acc shift sticky c
    cases h : JsOp.toDigit $radix c with
    | none => tie_close [h]
    | some d =>
      have := shl_or (bits := $bits) (toDigit_lt h) acc
      tie_close [h, shr_eq_zero, this, -Nat.reducePow]))

theorem radix_literal (s : Str) : Gen.radix_literal s = JsOp.radixLiteral s := by
  unfold Gen.radix_literal
  -- the cases of the model: fewer than two characters, no leading `0`, each prefix letter, any other second character
  match s with
  | [] => tie_close [JsOp.radixLiteral]
  | [a] => tie_close [JsOp.radixLiteral]
  | a :: p :: digits =>
    by_cases ha : a = '0'
    · subst ha
      by_cases hx : p = 'x'
      · subst hx; radix_case 16 4
      by_cases hX : p = 'X'
      · subst hX; radix_case 16 4
      by_cases ho : p = 'o'
      · subst ho; radix_case 8 3
      by_cases hO : p = 'O'
      · subst hO; radix_case 8 3
      by_cases hb : p = 'b'
      · subst hb; radix_case 2 1
      by_cases hB : p = 'B'
      · subst hB; radix_case 2 1
      · tie_close [JsOp.radixLiteral, hx, hX, ho, hO, hb, hB]
    · tie_close [JsOp.radixLiteral, ha]

end JL.Tie
