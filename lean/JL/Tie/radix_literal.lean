import JL.Generated.Fns
import JL.Lemmas.TieC
/-! tie: `radix_literal`, as translated from the crate's current source, is the model's function - for every input -/
namespace JL.Tie
open JL JL.Lemmas.TieC

/-- one prefix letter: the translated digit loop is `radixLoop radix bits` (`for_radixLoop`; the body's step equation uses
`digit < 2^bits`), then the float arithmetic is rewritten with the abstracted rules of `TieC` (never unfolding `F64.ofNat`) -/
local macro "radix_case" radix:num bits:num : tactic => `(tactic| (
  simp only [JsOp.radixLiteral]
  rw [for_radixLoop $radix $bits (some none)]
  · simp only [powi_two, powi_two', to_f64_nat, mul_f64, gt_nat, to_u64_bool, Rs.bitor, or_sticky]
    cases h : JsOp.radixLoop $radix $bits _ (0, 0, false) <;> simp [rs, h, or_sticky]
  · intro acc shift sticky c
    cases h : JsOp.toDigit $radix c with
    | none => simp [rs, h]
    | some d =>
      have := shl_or (bits := $bits) (toDigit_lt h) acc
      simp [rs, h, shr_eq_zero, this, -Nat.reducePow]
      rfl))

theorem radix_literal (s : Str) : Gen.radix_literal s = JsOp.radixLiteral s := by
  unfold Gen.radix_literal
  match s with
  | [] => simp [rs, JsOp.radixLiteral]
  | [a] => simp [rs, JsOp.radixLiteral]
  | a :: p :: digits =>
    simp only [Rs.next]
    by_cases ha : a = '0'
    · subst ha
      by_cases hx : p = 'x'
      · subst hx; radix_case 16 4
      by_cases hX : p = 'X'
      · subst hX; radix_case 16 4
      by_cases ho : p = 'o'
      · subst ho; radix_case 8 3
      by_cases hO : p = 'O'
      · subst hO; radix_case 8 3
      by_cases hb : p = 'b'
      · subst hb; radix_case 2 1
      by_cases hB : p = 'B'
      · subst hB; radix_case 2 1
      · simp [rs, JsOp.radixLiteral, hx, hX, ho, hO, hb, hB]
    · simp [rs, JsOp.radixLiteral, ha]

end JL.Tie
