import JL.Generated.Fns
import JL.Tie.to_primitive
import JL.Tie.str_to_number
/-! tie: `abstract_lte`, as translated from the crate's current source, is the model's function - for every input -/
namespace JL.Tie
open JL

theorem abstract_lte (a b : Json) : Gen.abstract_lte a b = JsOp.abstractLte a b := by
  unfold Gen.abstract_lte JsOp.abstractLte
  rw [to_primitive, to_primitive]
  cases JsOp.toPrimitive a <;> cases JsOp.toPrimitive b <;> simp [str_to_number, rs]
  all_goals (first | (rename_i s f; cases JsOp.strToNumber s <;> simp) | (rename_i f s; cases JsOp.strToNumber s <;> simp))

end JL.Tie
