import JL.Generated.Fns
import JL.Tie.to_number
/-! tie: `to_negative`, as translated from the crate's current source, is the model's function - for every input -/
namespace JL.Tie
open JL

theorem to_negative (v : Json) : Gen.to_negative v = JsOp.toNegative v := by
  unfold Gen.to_negative JsOp.toNegative
  rw [to_number]
  cases JsOp.toNumber v <;> simp [rs, F64.one, F64.negate]

end JL.Tie
