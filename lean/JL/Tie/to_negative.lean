import JL.Generated.Fns
import JL.Lemmas.TieAuto
import JL.Tie.to_number
/-! tie: `to_negative`, as translated from the crate's current source, is the model's function - for every input -/
namespace JL.Tie
open JL

theorem to_negative (v : Json) : Gen.to_negative v = JsOp.toNegative v := by
  tie_close [Gen.to_negative, JsOp.toNegative, to_number, F64.one, F64.negate] splitting JsOp.toNumber

end JL.Tie
