import JL.Json
/-!
# Arity descriptors (`NumParams` of `src/op/mod.rs`), as the code is written
-/
namespace JL

inductive Arity where
  | none
  | any
  | unary
  | exactly (n : Nat)
  | atLeast (n : Nat)
  | variadic (lo hi : Nat)      -- `lo..hi`: inclusive, exclusive
  deriving DecidableEq, Repr

namespace Arity

/-- `NumParams::is_valid_len` -/
def isValidLen : Arity → Nat → Bool
  | none, len => len == 0
  | any, _ => true
  | unary, len => len == 1
  | atLeast n, len => n ≤ len
  | exactly n, len => len == n
  | variadic lo hi, len => lo ≤ len && len < hi

/-- `NumParams::can_accept_unary` -/
def canAcceptUnary : Arity → Bool
  | none => false
  | any => true
  | unary => true
  | atLeast n => 1 ≤ n
  | exactly n => n == 1
  | variadic lo hi => lo ≤ 1 && 1 < hi

end Arity

/-- which of the three operator tables a key lives in -/
inductive Kind where
  | eager | lazy | data
  deriving DecidableEq, Repr

/-- one table entry as extracted from the source: key, `symbol:` field, arity (which Rust expression the key is
bound to is deliberately not part of the entry: rebinding through a wrapper is a harmless rewrite, and behaviour per key
is what the correspondence check compares) -/
structure Entry where
  key : Str
  symbol : Str
  arity : Arity
  deriving DecidableEq

def findEntry (k : Str) : List Entry → Option Entry
  | [] => Option.none
  | e :: es => if e.key = k then some e else findEntry k es

end JL
