import JL.Eval
/-!
# Wire format of the correspondence check (driver side; not part of any theorem)

A JSON value is a token sequence (tokens separated by single spaces) that keeps the number *variant*
and the float *bits*:
`n` `t` `f` · `u<dec>` PosInt · `i<dec>` NegInt of that magnitude · `d<16 hex>` Float bits ·
`s<cp>,<cp>,…` string by code points (`s` alone = empty) · `[ … ]` · `{ <s-token> <value> … }`.
-/
namespace JL.Wire
open JL Json

def hexVal (c : Char) : Nat :=
  if '0' ≤ c ∧ c ≤ '9' then c.toNat - '0'.toNat
  else if 'a' ≤ c ∧ c ≤ 'f' then c.toNat - 'a'.toNat + 10
  else if 'A' ≤ c ∧ c ≤ 'F' then c.toNat - 'A'.toNat + 10 else 0
def parseHex (s : String) : Nat := s.foldl (fun acc c => acc * 16 + hexVal c) 0
def hexDigit (n : Nat) : Char := if n < 10 then Char.ofNat ('0'.toNat + n) else Char.ofNat ('a'.toNat + n - 10)
def toHex16 (n : Nat) : String := String.ofList ((List.range 16).reverse.map (fun i => hexDigit (n / 16^i % 16)))

def decodeStr (body : String) : Str :=
  if body.isEmpty then [] else (body.splitOn ",").map (fun t => Char.ofNat t.toNat!)

partial def parseValue : List String → Option (Json × List String)
  | [] => none
  | tok :: rest =>
    if tok == "n" then some (.null, rest)
    else if tok == "t" then some (.bool true, rest)
    else if tok == "f" then some (.bool false, rest)
    else if tok == "[" then parseElems rest []
    else if tok == "{" then parseMembers rest []
    else
      let body := (tok.drop 1).toString
      match tok.front with
      | 'u' => some (.num (.pos body.toNat!), rest)
      | 'i' => some (.num (.neg body.toNat!), rest)
      | 'd' => some (.num (.flt (F64.ofBits (parseHex body))), rest)
      | 's' => some (.str (decodeStr body), rest)
      | _ => none
where
  parseElems : List String → List Json → Option (Json × List String)
    | "]" :: rest, acc => some (.arr acc.reverse, rest)
    | toks, acc => match parseValue toks with
        | some (v, rest) => parseElems rest (v :: acc)
        | none => none
  parseMembers : List String → List (Str × Json) → Option (Json × List String)
    | "}" :: rest, acc => some (.obj acc.reverse, rest)
    | ktok :: toks, acc =>
        match parseValue toks with
        | some (v, rest) => parseMembers rest ((decodeStr (ktok.drop 1).toString, v) :: acc)
        | none => none
    | [], _ => none

def encStr (s : Str) : String := "s" ++ ",".intercalate (s.map (fun c => toString c.toNat))

partial def encode : Json → String
  | .null => "n"
  | .bool true => "t"
  | .bool false => "f"
  | .num (.pos n) => "u" ++ toString n
  | .num (.neg m) => "i" ++ toString m
  | .num (.flt x) => "d" ++ toHex16 (F64.toBits x)
  | .str s => encStr s
  | .arr xs => " ".intercalate (["["] ++ xs.map encode ++ ["]"])
  | .obj kvs => " ".intercalate (["{"] ++ kvs.map (fun (k, v) => encStr k ++ " " ++ encode v) ++ ["}"])

/-- parse `n` values from a token list -/
partial def parseMany : Nat → List String → Option (List Json)
  | 0, [] => some []
  | 0, _ => none
  | n + 1, toks => match parseValue toks with
      | some (v, rest) => (parseMany n rest).map (v :: ·)
      | none => none

def encF (x : Option F64) : String :=
  match x with
  | none => "none"
  | some f => "d" ++ toHex16 (F64.toBits f)

def encB (b : Bool) : String := if b then "t" else "f"

def encM (m : M Json) : String :=
  let head := match m.out with
    | .ok v => "ok " ++ encode v
    | .err => "err"
    | .panic => "panic"
  "\t".intercalate (head :: m.logs.map (fun l => String.ofList (Json.ser l)))

end JL.Wire
