import JL.Basic
/-!
# IEEE-754 binary64 on scaled naturals

Every finite binary64 value is an integer multiple of 2^-1074, so a finite double is modelled
as `± k · 2^-1074` with `k : Nat` (`fin neg k`). All arithmetic is *defined* as "compute the exact
rational result, then round to nearest, ties to even" (`roundUnits`), which is what IEEE-754
specifies; the correspondence check compares bit patterns with the native `f64` operations.
-/
namespace JL

inductive F64 where
  | nan
  | inf (neg : Bool)
  | fin (neg : Bool) (k : Nat)
  deriving Repr, DecidableEq, Inhabited

namespace F64

def S : Nat := 2 ^ 1074
def OVF : Nat := 2 ^ 2098   -- first magnitude (in units) that overflows to infinity


def bitLen (n : Nat) : Nat := if n = 0 then 0 else Nat.log2 n + 1

/-- round the exact non-negative rational `num/den` (in units of 2^-1074) to the binary64 grid, ties to even -/
def roundUnits (neg : Bool) (num den : Nat) : F64 :=
  let q := num / den
  let r := num % den
  let L := bitLen q
  let k :=
    if L ≤ 53 then
      let up := (2 * r > den) || (2 * r == den && q % 2 == 1)
      if up then q + 1 else q
    else
      let sh := L - 53
      let m := q >>> sh
      let rem := q % (2 ^ sh)
      let half := 2 ^ (sh - 1)
      let up := (rem > half) || (rem == half && (r != 0 || m % 2 == 1))
      (if up then m + 1 else m) <<< sh
  if k ≥ OVF then inf neg else fin neg k

def zero : F64 := fin false 0
def one : F64 := fin false S

def toInt? : F64 → Option Int
  | fin n k => some (if n then -(k : Int) else k)
  | _ => none

def isZero : F64 → Bool
  | fin _ 0 => true
  | _ => false

def add : F64 → F64 → F64
  | nan, _ | _, nan => nan
  | inf a, inf b => if a == b then inf a else nan
  | inf a, fin _ _ => inf a
  | fin _ _, inf b => inf b
  | fin a x, fin b y =>
      if a == b then roundUnits a (x + y) 1
      else if x == y then fin false 0           -- exact cancellation gives +0 (round-to-nearest)
      else if x > y then roundUnits a (x - y) 1
      else roundUnits b (y - x) 1

def negate : F64 → F64
  | nan => nan
  | inf a => inf (!a)
  | fin a k => fin (!a) k

def sub (x y : F64) : F64 := add x (negate y)

def mul : F64 → F64 → F64
  | nan, _ | _, nan => nan
  | inf a, inf b => inf (a != b)
  | inf a, fin b k => if k == 0 then nan else inf (a != b)
  | fin a k, inf b => if k == 0 then nan else inf (a != b)
  | fin a x, fin b y => roundUnits (a != b) (x * y) S

def div : F64 → F64 → F64
  | nan, _ | _, nan => nan
  | inf _, inf _ => nan
  | inf a, fin b _ => inf (a != b)
  | fin a _, inf b => fin (a != b) 0
  | fin a x, fin b y =>
      if y == 0 then (if x == 0 then nan else inf (a != b))
      else roundUnits (a != b) (x * S) y

/-- Rust `%` on f64 = C fmod: exact, sign of the dividend -/
def rem : F64 → F64 → F64
  | nan, _ | _, nan => nan
  | inf _, _ => nan
  | fin a x, inf _ => fin a x
  | fin a x, fin _ y => if y == 0 then nan else fin a (x % y)

def lt : F64 → F64 → Bool
  | nan, _ | _, nan => false
  | inf a, inf b => a && !b
  | inf a, fin _ _ => a
  | fin _ _, inf b => !b
  | fin a x, fin b y =>
      let ix : Int := if a then -(x : Int) else x
      let iy : Int := if b then -(y : Int) else y
      ix < iy

def eq : F64 → F64 → Bool
  | nan, _ | _, nan => false
  | inf a, inf b => a == b
  | fin a x, fin b y => (x == 0 && y == 0) || (a == b && x == y)
  | _, _ => false

def le : F64 → F64 → Bool
  | nan, _ | _, nan => false
  | inf a, inf b => a || !b
  | inf a, fin _ _ => a
  | fin _ _, inf b => !b
  | fin a x, fin b y =>
      let ix : Int := if a then -(x : Int) else x
      let iy : Int := if b then -(y : Int) else y
      ix ≤ iy

def gt (x y : F64) : Bool := lt y x
def ge (x y : F64) : Bool := le y x

def abs : F64 → F64
  | nan => nan
  | inf _ => inf false
  | fin _ k => fin false k

def isFinite : F64 → Bool
  | fin _ _ => true
  | _ => false

def isNaN : F64 → Bool
  | nan => true
  | _ => false

def ofNat (n : Nat) : F64 := roundUnits false (n * S) 1
def ofInt (i : Int) : F64 := roundUnits (i < 0) (i.natAbs * S) 1

/-- `x.fract() == 0.0` -/
def fractIsZero : F64 → Bool
  | fin _ k => k % S == 0
  | _ => false

/-- Rust `x as i64` (saturating, NaN ↦ 0) -/
def toI64Sat : F64 → Int
  | nan => 0
  | inf n => if n then -(2^63 : Int) else 2^63 - 1
  | fin n k =>
      let t : Int := (k / S : Nat)
      let v := if n then -t else t
      if v < -(2^63 : Int) then -(2^63 : Int) else if v > 2^63 - 1 then 2^63 - 1 else v

/-- truncation toward zero of a finite double, as an integer (used for in-range `as i64`/`as u64`/`as i128`) -/
def truncInt : F64 → Int
  | fin n k => let t : Int := (k / S : Nat); if n then -t else t
  | _ => 0

/-- `k` lies on the binary64 grid: below the overflow threshold and a multiple of its ulp -/
def OnGrid (k : Nat) : Prop := k < OVF ∧ (bitLen k ≤ 53 ∨ 2 ^ (bitLen k - 53) ∣ k)

instance (k : Nat) : Decidable (OnGrid k) := by unfold OnGrid; exact inferInstance

/-- a model value that denotes an actual binary64 -/
def WF : F64 → Prop
  | fin _ k => OnGrid k
  | _ => True

instance : (x : F64) → Decidable (WF x)
  | nan => isTrue trivial
  | inf _ => isTrue trivial
  | fin _ k => inferInstanceAs (Decidable (OnGrid k))

/-! bits -/
def ofBits (b : Nat) : F64 :=
  let sign := b / 2^63 % 2 == 1
  let e := b / 2^52 % 2048
  let m := b % 2^52
  if e == 2047 then (if m == 0 then inf sign else nan)
  else if e == 0 then fin sign m
  else fin sign ((2^52 + m) * 2^(e - 1))

def toBits : F64 → Nat
  | nan => 0x7ff8000000000000
  | inf n => (if n then 2^63 else 0) + 0x7ff0000000000000
  | fin n k =>
      let s := if n then 2^63 else 0
      if k < 2^52 then s + k
      else
        let L := bitLen k
        let e := L - 53 + 1
        let m := k >>> (L - 53)
        s + e * 2^52 + (m - 2^52)

end F64
end JL
