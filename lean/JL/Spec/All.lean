import JL.Wire
import JL.Spec.ES
import JL.Spec.ESNum
/-! Driver entry for `spec.*` commands: the reference semantics (ECMA-262 layer), so that the SPECIFICATION itself can be
validated against an independent ECMAScript engine (V8, `tools/es_truth.js`) — not part of any theorem. -/
namespace JL.Spec
open JL JL.Wire

def step (cmd : String) (args : List Json) : String :=
  match cmd, args with
  | "spec.loosely_equal", [a, b] => encB (ES.looselyEqual ES.stringToNumber a b)
  | "spec.strictly_equal", [a, b] => encB (ES.strictlyEqual (ES.ofJson a) (ES.ofJson b))
  | "spec.less_than", [a, b] => encB (ES.lessThan ES.stringToNumber a b)
  | "spec.less_eq", [a, b] => encB (ES.lessEq ES.stringToNumber a b)
  | "spec.greater_than", [a, b] => encB (ES.greaterThan ES.stringToNumber a b)
  | "spec.greater_eq", [a, b] => encB (ES.greaterEq ES.stringToNumber a b)
  | "spec.string_to_number", [.str s] => encF (ES.stringToNumber s)
  | "spec.parse_float", [.str s] => encF (ES.parseFloat s)
  | "spec.to_number", [v] => encF (ES.toNumber ES.stringToNumber v)
  | _, _ => "bad-op"

end JL.Spec
