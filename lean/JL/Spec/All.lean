import JL.Wire
/-! Driver entry for `spec.*` commands (the reference semantics); filled in as the spec layer grows. -/
namespace JL.Spec
open JL JL.Wire

def step (cmd : String) (args : List Json) : String :=
  match cmd, args with
  | _, _ => "bad-op"

end JL.Spec
