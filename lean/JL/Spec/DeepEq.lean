import JL.Json
/-!
# Specification of the equality `in` uses on array haystacks (C15)

"Deep structural equality; numbers are compared by numeric value whatever their spelling; the order of
object keys is irrelevant."  Written from that sentence, not from the code:

* a number denotes a real number; every `u64`, `i64` and finite binary64 is an integer multiple of `2^-1074`,
  so its exact value is given as an INTEGER count of such units (`Num.value`); two numbers are equal iff
  these integers are (`1`, `1.0`, `1e0` ↦ `2^1074`; `0`, `-0`, `-0.0` ↦ `0`);
* arrays: same length, equal position by position;
* objects: finite maps — the same set of keys, and equal values under each key.  Order plays no role;
  on well-formed objects (keys strictly sorted, `Json.wf`) this is position-by-position equality of the
  sorted association lists (`JL.Lemmas.C15.specEq_obj_sorted`);
* `null`, booleans, strings: identical; values of different JSON types are never equal.
-/
namespace JL.Spec
open JL

/-- exact value of a JSON number in units of `2^-1074` (`F64.S = 2^1074` units make 1) -/
def numValue : Num → Int
  | .pos n => (n : Int) * (F64.S : Int)
  | .neg m => -((m : Int) * (F64.S : Int))
  | .flt (.fin false k) => (k : Int)
  | .flt (.fin true k) => -(k : Int)
  | .flt _ => 0            -- NaN / ±∞ are not JSON numbers (`Num.WF` excludes them)

/-- deep equality by value -/
inductive SpecEq : Json → Json → Prop
  | null : SpecEq .null .null
  | bool (b : Bool) : SpecEq (.bool b) (.bool b)
  | str (s : Str) : SpecEq (.str s) (.str s)
  | num {a b : Num} : numValue a = numValue b → SpecEq (.num a) (.num b)
  | arr {xs ys : List Json} : xs.length = ys.length →
      (∀ (i : Nat) (h₁ : i < xs.length) (h₂ : i < ys.length), SpecEq xs[i] ys[i]) → SpecEq (.arr xs) (.arr ys)
  | obj {x y : List (Str × Json)} :
      (∀ k, (∃ a, (k, a) ∈ x) ↔ (∃ b, (k, b) ∈ y)) →                 -- the same keys
      (∀ k a b, (k, a) ∈ x → (k, b) ∈ y → SpecEq a b) →              -- equal values under each key
      SpecEq (.obj x) (.obj y)

/-- the specification as a `Prop`-valued function -/
abbrev specEq (a b : Json) : Prop := SpecEq a b

end JL.Spec
