import JL.Basic
/-!
# Specification of `substr` (C16), written from the property text, in CHARACTERS

`len` is the number of characters of the string.

* start `i ≥ 0`: skip `min i len` characters; start `i < 0`: count from the end, i.e. skip `len − min |i| len`;
* no length: everything after the start;
* length `l ≥ 0`: take `l` characters (or what is left of the string);
* length `l < 0`: stop `|l|` characters before the end of the string (nothing if that is before the start).

Only `List.drop` / `List.take` on the list of characters; no index arithmetic on `usize`.
-/
namespace JL.Spec

/-- how many characters a start index skips on a string of `len` characters -/
def substrStart (len : Nat) (i : Int) : Nat :=
  if 0 ≤ i then min i.toNat len else len - min i.natAbs len

/-- `substr(s, i)` (`l = none`) and `substr(s, i, l)` -/
def substrSpec (s : Str) (i : Int) (l : Option Int) : Str :=
  let start := substrStart s.length i
  match l with
  | none => s.drop start
  | some l =>
      if 0 ≤ l then (s.drop start).take l.toNat
      else (s.take (s.length - l.natAbs)).drop start

end JL.Spec
