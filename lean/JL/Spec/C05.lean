import JL.Eval
/-!
# C05 — specification of `if` / `?:` / `and` / `or`, written from the property text

Plain recursion on the operand list, no flags, no indices. `ev` is the lazy parse-then-evaluate of ONE
operand; an operand that the recursion never reaches is neither parsed (`check`) nor evaluated (`run`).
(The definitions live in namespace `JL.Props.C05`, next to the theorems that use them.)
-/
namespace JL.Props.C05
open JL Json

/-- lazy parse-then-evaluate of one operand, as the code does for every operand it needs -/
def ev (d : Json) (e : Json) : M Json := if check e then run e d else M.err

/-- the specification of `if`: conditions left to right; the branch of the first truthy condition; else the
trailing else-operand; else null. Operands not mentioned on the path taken are neither parsed nor evaluated. -/
def ifSpec (d : Json) : List Json → M Json
  | [] => pure .null
  | [e] => ev d e
  | c :: t :: rest => do
      let cv ← ev d c
      if truthy cv then ev d t else ifSpec d rest

/-- the specification of `or`: the VALUE of the first truthy operand, else the value of the last operand;
no operand at all is an error. Nothing after the deciding operand is parsed or evaluated. -/
def orSpec (d : Json) : List Json → M Json
  | [] => M.err
  | [x] => ev d x
  | x :: y :: rest => do
      let v ← ev d x
      if truthy v then pure v else orSpec d (y :: rest)

/-- the specification of `and`: the VALUE of the first falsy operand, else the value of the last operand -/
def andSpec (d : Json) : List Json → M Json
  | [] => M.err
  | [x] => ev d x
  | x :: y :: rest => do
      let v ← ev d x
      if truthy v then andSpec d (y :: rest) else pure v

end JL.Props.C05
