import JL.Eval
/-!
# C14 — specification of `all` / `some` / `none`, written from the property text

Bounded quantifiers with first-decider semantics in the monad `M` (value / error / panic + log lines):
the predicate is run on the elements left to right and the first element that decides ends the run.
(The definitions live in namespace `JL.Props.C14`, next to the theorems that use them.)
-/
namespace JL.Props.C14
open JL Json

/-- `∀ x ∈ xs, truthy (p x)`, left to right, stopping at the first falsy answer (or failure) -/
def allSpec (p : Json → M Json) : List Json → M Bool
  | [] => pure true
  | x :: xs => do
      let r ← p x
      if truthy r then allSpec p xs else pure false

/-- `∃ x ∈ xs, truthy (p x)`, left to right, stopping at the first truthy answer (or failure) -/
def someSpec (p : Json → M Json) : List Json → M Bool
  | [] => pure false
  | x :: xs => do
      let r ← p x
      if truthy r then pure true else someSpec p xs

/-- the predicate negated (what `{"!": [p]}` computes from what `p` computes) -/
def notP (p : Json → M Json) : Json → M Json := fun x => do
  let r ← p x
  pure (.bool (!truthy r))

/-- lazy parse-then-evaluate of one element expression of a literal array against the OUTER data -/
def evElem (d : Json) (e : Json) : M Json := if check e then run e d else M.err

/-- the normalised collection: an array is its elements, a string its characters as one-character strings,
`null` is empty; anything else is not a collection -/
def items : Json → Option (List Json)
  | .arr xs => some xs
  | .str s => some (s.map fun c => .str [c])
  | .null => some []
  | .bool _ => none
  | .num _ => none
  | .obj _ => none

/-- a quantifier (`q = allSpec` or `someSpec`) over a collection that is a VALUE: the elements are data and
are only ever handed to the predicate; empty ⇒ `false` before the predicate is even parsed -/
def overValue (q : (Json → M Json) → List Json → M Bool) (coll p : Json) : M Json :=
  match items coll with
  | none => M.err
  | some [] => pure (.bool false)
  | some (x :: xs) =>
      if check p then do
        let b ← q (fun e => run p e) (x :: xs)
        pure (.bool b)
      else M.err

/-- `{"all"/"some": [c, p]}`: a literal array `c` holds element EXPRESSIONS (each parsed and evaluated against the
outer data `d` only when the quantifier reaches it, then handed to `p`); an object `c` is a rule whose result is
the collection (data); any other literal is the collection -/
def quantSem (q : (Json → M Json) → List Json → M Bool) (c p d : Json) : M Json :=
  match c with
  | .arr [] => pure (.bool false)
  | .arr (x :: xs) =>
      if check p then do
        let b ← q (fun e => do let v ← evElem d e; run p v) (x :: xs)
        pure (.bool b)
      else M.err
  | .obj kvs => do
      let cv ← evElem d (.obj kvs)
      overValue q cv p
  | lit => overValue q lit p

/-- the collection of `{"all"/"some"/"none": [c, p]}` under data `d` turns out empty -/
def CollEmpty (c d : Json) : Prop :=
  match c with
  | .arr xs => xs = []
  | .obj kvs => ∃ l cv, evElem d (.obj kvs) = ⟨l, .ok cv⟩ ∧ items cv = some []
  | lit => items lit = some []

/-- how `array::none` reads the result of `array::some`: a boolean is negated, anything else would be an error
(theorem `some_is_bool`: there never is anything else) -/
def negate (rv : Json) : M Json :=
  match rv with
  | .bool b => pure (.bool (!b))
  | _ => M.err

/-- the rule `{"!": [p]}` -/
def notRule (p : Json) : Json := .obj [("!".toList, .arr [p])]

end JL.Props.C14
