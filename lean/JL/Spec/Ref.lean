import JL.Eval
/-!
# Single-pass big-step reference semantics of JsonLogic rules (`Spec.Ref.eval`)

Written from the documentation of the operators, in a style deliberately different from the model of the crate
(`JL/Eval.lean`):

* ONE pass: there is no parse phase. A rule is visited exactly when it is evaluated; the arity of an operation is
  looked at when the operation is visited. (The model — like the crate — first parses the whole rule, eagerly
  through eager/data operators and lazily through lazy ones, and then evaluates.)
* results are big-step judgements `rule ⇓ (value, trace)`: `R α = Option (α × trace)`, no error/panic distinction;
* the lazy operators are the textbook recursive definitions (`if` = cascade of conditions, `or`/`and` = first
  deciding operand else the last, `all`/`some` = bounded quantifier that stops at the first decider), not
  flag-carrying folds; `map`/`filter`/`reduce` are `mapR`/`filterR`/`foldR` over the collection's items with the
  element expression closed over *the element as data*.

The only place where a rule is parsed without being evaluated is the element expression of `map`/`filter`/`reduce`
over an EMPTY collection (the crate rejects a malformed expression there); for that one case the parse predicate
`JL.check` is used. The functions of the operators on values (`execEager`, `execData`) are shared with the model:
this file is about *what gets evaluated, when, on which data*, not about the operators.

`JL/Props/C04.lean` proves `ref_equiv : apply r d = ⟨l, .ok v⟩ ↔ eval r d = R.val v l` (`R.val v l` = `some (v, l)`).
-/
namespace JL.Spec.Ref
open JL Json

/-- big-step result: a value with the trace of `log` lines written on the way, or no result -/
def R (α : Type) : Type := Option (α × List Json)

instance {α : Type} [DecidableEq α] : DecidableEq (R α) := inferInstanceAs (DecidableEq (Option (α × List Json)))

namespace R
/-- the judgement "value `a`, trace `l`" -/
def val {α : Type} (a : α) (l : List Json) : R α := some (a, l)
def ret {α : Type} (a : α) : R α := some (a, [])
def fail {α : Type} : R α := none
/-- sequencing: both succeed, traces concatenate -/
def andThen {α β : Type} (x : R α) (f : α → R β) : R β :=
  match x with
  | none => none
  | some (a, l) =>
      match f a with
      | none => none
      | some (b, l') => some (b, l ++ l')
instance : Monad R where
  pure := ret
  bind := andThen
/-- the successful outcomes of the model's monad -/
def ofM {α : Type} (m : M α) : R α :=
  match m.out with
  | .ok a => some (a, m.logs)
  | _ => none
end R
open R

/-- the operators' functions on already evaluated operands -/
def opEager (k : Str) (vs : List Json) : R Json := ofM (execEager k vs)
def opData (k : Str) (d : Json) (vs : List Json) : R Json := ofM (execData k d vs)

/-- a collection value: an array's elements, `null` ↦ none -/
def coll : Json → R (List Json)
  | .arr xs => ret xs
  | .null => ret []
  | _ => fail

def mapR (f : Json → R Json) : List Json → R (List Json)
  | [] => ret []
  | x :: xs => do
      let y ← f x
      let ys ← mapR f xs
      ret (y :: ys)

def filterR (f : Json → R Json) : List Json → R (List Json)
  | [] => ret []
  | x :: xs => do
      let p ← f x
      let ys ← filterR f xs
      ret (if truthy p then x :: ys else ys)

def foldR (f : Json → Json → R Json) : List Json → Json → R Json
  | [], a => ret a
  | x :: xs, a => do
      let a' ← f a x
      foldR f xs a'

/-- bounded quantifier over data items, first decider wins: `isAll` ⇒ "all truthy", else "some truthy" -/
def quantR (isAll : Bool) (p : Json → R Json) : List Json → R Bool
  | [] => ret isAll
  | x :: xs => do
      let r ← p x
      if truthy r == isAll then quantR isAll p xs else ret (!isAll)

mutual
/-- `eval rule data` -/
def eval : Json → Json → R Json
  | .obj [(k, v)], d =>
      match lookupOp k with
      | none => ret (.obj [(k, v)])
      | some (.eager, ar) =>
          (match v with
           | .arr xs =>
               if ar.isValidLen xs.length then do
                 let vs ← evalList xs d
                 opEager k vs
               else fail
           | x =>
               if ar.canAcceptUnary && ar.isValidLen 1 then do
                 let r ← eval x d
                 opEager k [r]
               else fail)
      | some (.data, ar) =>
          (match v with
           | .arr xs =>
               if ar.isValidLen xs.length then do
                 let vs ← evalList xs d
                 opData k d vs
               else fail
           | x =>
               if ar.canAcceptUnary && ar.isValidLen 1 then do
                 let r ← eval x d
                 opData k d [r]
               else fail)
      | some (.lazy, ar) =>
          (match v with
           | .arr xs =>
               if !ar.isValidLen xs.length then fail
               else if k = "if".toList || k = "?:".toList then evalIf xs d
               else if k = "or".toList then evalOrAnd true xs d
               else if k = "and".toList then evalOrAnd false xs d
               else if k = "map".toList then
                 (match xs with
                  | [c, e] => do
                      let cv ← eval c d
                      let items ← coll cv
                      if items.isEmpty then (if check e then ret (.arr []) else fail)
                      else do
                        let rs ← mapR (fun x => eval e x) items
                        ret (.arr rs)
                  | _ => fail)
               else if k = "filter".toList then
                 (match xs with
                  | [c, e] => do
                      let cv ← eval c d
                      let items ← coll cv
                      if items.isEmpty then (if check e then ret (.arr []) else fail)
                      else do
                        let rs ← filterR (fun x => eval e x) items
                        ret (.arr rs)
                  | _ => fail)
               else if k = "reduce".toList then
                 (match xs with
                  | [c, e, i] => do
                      let cv ← eval c d
                      let iv ← eval i d
                      let items ← coll cv
                      if items.isEmpty then (if check e then ret iv else fail)
                      else foldR (fun acc x => eval e (reduceCtx acc x)) items iv
                  | _ => fail)
               else if k = "all".toList || k = "some".toList || k = "none".toList then
                 (match xs with
                  | [c, p] => do
                      let isAll : Bool := k = "all".toList
                      let b ← (match c with
                        | .arr elems =>
                            if elems.isEmpty then ret false
                            else evalQuantLit isAll elems (fun x => eval p x) d
                        | other => do
                            let cv ← (if isObj other then eval other d else ret other)
                            match quantItems cv with
                            | none => fail
                            | some items =>
                                if items.isEmpty then ret false
                                else quantR isAll (fun x => eval p x) items)
                      ret (.bool (if k = "none".toList then !b else b))
                  | _ => fail)
               else fail
           | x =>
               if ar.canAcceptUnary && ar.isValidLen 1 &&
                   (k = "if".toList || k = "?:".toList || k = "or".toList || k = "and".toList) then eval x d
               else fail)
  | r, _ => ret r
termination_by structural r => r

/-- operands of an eager/data operation: all of them, left to right -/
def evalList : List Json → Json → R (List Json)
  | [], _ => ret []
  | x :: xs, d => do
      let v ← eval x d
      let vs ← evalList xs d
      ret (v :: vs)
termination_by structural xs => xs

/-- `if c₁ t₁ c₂ t₂ … [else]` -/
def evalIf : List Json → Json → R Json
  | [], _ => ret .null
  | [e], d => eval e d
  | c :: t :: rest, d => do
      let cv ← eval c d
      if truthy cv then eval t d else evalIf rest d
termination_by structural xs => xs

/-- `or` (`isOr`) / `and`: the first operand whose truthiness decides, else the last operand -/
def evalOrAnd (isOr : Bool) : List Json → Json → R Json
  | [], _ => fail
  | e :: rest, d => do
      let v ← eval e d
      if truthy v == isOr || rest.isEmpty then ret v else evalOrAnd isOr rest d
termination_by structural xs => xs

/-- `all`/`some` over the element expressions of an array literal: each evaluated on the outer data when reached -/
def evalQuantLit (isAll : Bool) : List Json → (Json → R Json) → Json → R Bool
  | [], _, _ => ret isAll
  | i :: is, p, d => do
      let iv ← eval i d
      let r ← p iv
      if truthy r == isAll then evalQuantLit isAll is p d else ret (!isAll)
termination_by structural xs => xs
end

end JL.Spec.Ref
