import JL.Dec
/-!
# ECMA-262 `StringToNumber` (7.1.4.1.1) and `parseFloat` (19.2.4), read off the grammar

Written from the standard, as a recursive-descent reading of

```
StringNumericLiteral ::: StrWhiteSpace? | StrWhiteSpace? StrNumericLiteral StrWhiteSpace?
StrWhiteSpaceChar    ::: WhiteSpace | LineTerminator
StrNumericLiteral    ::: StrDecimalLiteral | NonDecimalIntegerLiteral
StrDecimalLiteral    ::: StrUnsignedDecimalLiteral | + StrUnsignedDecimalLiteral | - StrUnsignedDecimalLiteral
StrUnsignedDecimalLiteral :::
    Infinity
  | DecimalDigits . DecimalDigits? ExponentPart?
  | . DecimalDigits ExponentPart?
  | DecimalDigits ExponentPart?
ExponentPart   ::: (e | E) (+ | -)? DecimalDigits
NonDecimalIntegerLiteral ::: 0 (b|B) BinaryDigits | 0 (o|O) OctalDigits | 0 (x|X) HexDigits
```

`none` stands for NaN. The mathematical value (MV) of a literal is computed exactly (natural
numbers and a decimal exponent) and rounded once to binary64, ties to even
(`F64.roundUnits` / `F64.ofDecimal`). Nothing here refers to the model of the Rust code.
-/
namespace JL.Spec.ES
open JL

/-! ## StrWhiteSpaceChar -/

/-- WhiteSpace (Table 35: TAB VT FF ZWNBSP and every code point of category Zs) and
LineTerminator (Table 36: LF CR LS PS), written out. -/
def strWhiteSpaceCodePoints : List Nat :=
  [ 0x0009, 0x000A, 0x000B, 0x000C, 0x000D,      -- TAB LF VT FF CR
    0x0020, 0x00A0, 0x1680,                      -- SP NBSP OGHAM SPACE MARK
    0x2000, 0x2001, 0x2002, 0x2003, 0x2004, 0x2005, 0x2006, 0x2007, 0x2008, 0x2009, 0x200A,
    0x2028, 0x2029,                              -- LS PS
    0x202F, 0x205F, 0x3000,                      -- NNBSP MMSP IDEOGRAPHIC SPACE
    0xFEFF ]                                     -- ZWNBSP

def isStrWhiteSpaceChar (c : Char) : Bool := strWhiteSpaceCodePoints.contains c.toNat

/-- consume `StrWhiteSpace?` -/
def skipWhiteSpace : Str → Str
  | [] => []
  | c :: cs => if isStrWhiteSpaceChar c then skipWhiteSpace cs else c :: cs

/-- remove `StrWhiteSpace?` at both ends (`TrimString(s, start+end)`) -/
def strip (s : Str) : Str := (skipWhiteSpace (skipWhiteSpace s).reverse).reverse

/-! ## digits -/

/-- DecimalDigit ::: one of 0 1 2 3 4 5 6 7 8 9, with its MV -/
def decimalDigit? : Char → Option Nat
  | '0' => some 0 | '1' => some 1 | '2' => some 2 | '3' => some 3 | '4' => some 4
  | '5' => some 5 | '6' => some 6 | '7' => some 7 | '8' => some 8 | '9' => some 9
  | _ => none

/-- BinaryDigit ::: one of 0 1 -/
def binaryDigit? : Char → Option Nat
  | '0' => some 0 | '1' => some 1
  | _ => none

/-- OctalDigit ::: one of 0 1 2 3 4 5 6 7 -/
def octalDigit? : Char → Option Nat
  | '0' => some 0 | '1' => some 1 | '2' => some 2 | '3' => some 3
  | '4' => some 4 | '5' => some 5 | '6' => some 6 | '7' => some 7
  | _ => none

/-- HexDigit ::: one of 0 1 2 3 4 5 6 7 8 9 a b c d e f A B C D E F -/
def hexDigit? : Char → Option Nat
  | '0' => some 0 | '1' => some 1 | '2' => some 2 | '3' => some 3 | '4' => some 4
  | '5' => some 5 | '6' => some 6 | '7' => some 7 | '8' => some 8 | '9' => some 9
  | 'a' => some 10 | 'b' => some 11 | 'c' => some 12 | 'd' => some 13 | 'e' => some 14 | 'f' => some 15
  | 'A' => some 10 | 'B' => some 11 | 'C' => some 12 | 'D' => some 13 | 'E' => some 14 | 'F' => some 15
  | _ => none

/-- MV of a digit sequence: MV(Digits Digit) = MV(Digits) × radix + MV(Digit) -/
def mv (radix : Nat) (ds : List Nat) : Nat := ds.foldl (fun a d => a * radix + d) 0

/-- DecimalDigits: the maximal run of decimal digits at the front (their MVs) and the rest -/
def decimalDigits : Str → List Nat × Str
  | [] => ([], [])
  | c :: cs =>
      match decimalDigit? c with
      | some d => let r := decimalDigits cs; (d :: r.1, r.2)
      | none => ([], c :: cs)

/-- the whole input is a (possibly empty) sequence of digits of the given kind -/
def digitsOnly (digit? : Char → Option Nat) : Str → Option (List Nat)
  | [] => some []
  | c :: cs =>
      match digit? c, digitsOnly digit? cs with
      | some d, some ds => some (d :: ds)
      | _, _ => none

/-! ## NonDecimalIntegerLiteral -/

/-- `some n` iff the whole input is a NonDecimalIntegerLiteral with MV `n` -/
def nonDecimalIntegerLiteral : Str → Option Nat
  | '0' :: p :: ds =>
      if ds = [] then none
      else if p = 'x' ∨ p = 'X' then (digitsOnly hexDigit? ds).map (mv 16)
      else if p = 'o' ∨ p = 'O' then (digitsOnly octalDigit? ds).map (mv 8)
      else if p = 'b' ∨ p = 'B' then (digitsOnly binaryDigit? ds).map (mv 2)
      else none
  | _ => none

/-! ## StrUnsignedDecimalLiteral (without `Infinity`) -/

/-- the part before the exponent: `DecimalDigits . DecimalDigits?` | `. DecimalDigits` | `DecimalDigits`.
Result: MV of all the digits read as one integer, the number of fraction digits, the rest. -/
def decimalMantissa (s : Str) : Option (Nat × Nat × Str) :=
  match decimalDigits s with
  | ([], '.' :: t) =>
      match decimalDigits t with
      | ([], _) => none
      | (fs, rest) => some (mv 10 fs, fs.length, rest)
  | ([], _) => none
  | (is, '.' :: t) =>
      match decimalDigits t with
      | (fs, rest) => some (mv 10 (is ++ fs), fs.length, rest)
  | (is, rest) => some (mv 10 is, 0, rest)

/-- an optional sign (`+` | `-`), as in StrDecimalLiteral and in SignedInteger: is it `-`, and the rest -/
def sign : Str → Bool × Str
  | '+' :: r => (false, r)
  | '-' :: r => (true, r)
  | r => (false, r)

/-- ExponentPart ::: (e|E) SignedInteger at the front of the input: its value and the rest;
`none` if the input does not start with a complete exponent part (at least one digit is required). -/
def exponentPart : Str → Option (Int × Str)
  | [] => none
  | c :: r =>
      if c = 'e' ∨ c = 'E' then
        match decimalDigits (sign r).2 with
        | ([], _) => none
        | (ds, rest) => some (if (sign r).1 then -(mv 10 ds : Int) else (mv 10 ds : Int), rest)
      else none

/-- longest prefix that is a StrUnsignedDecimalLiteral other than `Infinity`:
`(m, e, rest)` with MV = `m · 10^e`; `none` if no prefix is one -/
def unsignedDecimalLiteral (s : Str) : Option (Nat × Int × Str) :=
  match decimalMantissa s with
  | none => none
  | some (m, nf, r) =>
      match exponentPart r with
      | some (e, rest) => some (m, e - (nf : Int), rest)
      | none => some (m, -(nf : Int), r)

def infinityWord : Str := ['I', 'n', 'f', 'i', 'n', 'i', 't', 'y']

/-! ## StringToNumber -/

/-- `StringToNumber(s)`; `none` = NaN -/
def stringToNumber (s : Str) : Option F64 :=
  let t := strip s
  if t = [] then some (F64.fin false 0)               -- StringNumericLiteral ::: StrWhiteSpace?  ↦ +0
  else
    match nonDecimalIntegerLiteral t with
    | some n => some (F64.roundUnits false (n * F64.S) 1)   -- the Number value for MV: one rounding
    | none =>
        let (neg, u) := sign t
        if u = infinityWord then some (F64.inf neg)
        else
          match unsignedDecimalLiteral u with
          | some (m, e, []) => some (F64.ofDecimal neg m e)   -- whole text consumed
          | _ => none

/-! ## parseFloat -/

/-- `parseFloat(s)`: trim leading white space, then the longest prefix that is a StrDecimalLiteral -/
def parseFloat (s : Str) : Option F64 :=
  let (neg, u) := sign (skipWhiteSpace s)
  if infinityWord.isPrefixOf u then some (F64.inf neg)
  else
    match unsignedDecimalLiteral u with
    | some (m, e, _) => some (F64.ofDecimal neg m e)
    | none => none

/-! ## corner cases of the standard -/
example : stringToNumber [] = some (F64.fin false 0) := by decide +kernel
example : stringToNumber " \t\n ﻿".toList = some (F64.fin false 0) := by decide +kernel
example : stringToNumber " 12 ".toList = some (F64.ofNat 12) := by decide +kernel
example : stringToNumber "-0".toList = some (F64.fin true 0) := by decide +kernel
example : stringToNumber "-Infinity".toList = some (F64.inf true) := by decide +kernel
example : stringToNumber "+Infinity".toList = some (F64.inf false) := by decide +kernel
example : stringToNumber "infinity".toList = none := by decide +kernel
example : stringToNumber "0x1F".toList = some (F64.ofNat 31) := by decide +kernel
example : stringToNumber "0o17".toList = some (F64.ofNat 15) := by decide +kernel
example : stringToNumber "0B101".toList = some (F64.ofNat 5) := by decide +kernel
example : stringToNumber "0x".toList = none := by decide +kernel
example : stringToNumber "0b2".toList = none := by decide +kernel
example : stringToNumber "+0x10".toList = none := by decide +kernel
example : stringToNumber "5.".toList = some (F64.ofNat 5) := by decide +kernel
example : stringToNumber ".5".toList = some (F64.ofDecimal false 5 (-1)) := by decide +kernel
example : stringToNumber ".".toList = none := by decide +kernel
example : stringToNumber "1e".toList = none := by decide +kernel
example : stringToNumber "1e+".toList = none := by decide +kernel
example : stringToNumber "1.5e-3".toList = some (F64.ofDecimal false 15 (-4)) := by decide +kernel
example : stringToNumber "1_0".toList = none := by decide +kernel
example : stringToNumber "+-1".toList = none := by decide +kernel
example : stringToNumber "1 2".toList = none := by decide +kernel
example : stringToNumber "1e1000".toList = some (F64.inf false) := by decide +kernel
example : parseFloat "  3.25abc".toList = some (F64.ofDecimal false 325 (-2)) := by decide +kernel
example : parseFloat "1e".toList = some (F64.ofNat 1) := by decide +kernel
example : parseFloat "1e+".toList = some (F64.ofNat 1) := by decide +kernel
example : parseFloat "1e+2x".toList = some (F64.ofNat 100) := by decide +kernel
example : parseFloat ".5".toList = some (F64.ofDecimal false 5 (-1)) := by decide +kernel
example : parseFloat "5.".toList = some (F64.ofNat 5) := by decide +kernel
example : parseFloat ".".toList = none := by decide +kernel
example : parseFloat "-.e1".toList = none := by decide +kernel
example : parseFloat "Infinityx".toList = some (F64.inf false) := by decide +kernel
example : parseFloat "-Infinity".toList = some (F64.inf true) := by decide +kernel
example : parseFloat "Infinit".toList = none := by decide +kernel
example : parseFloat "0x10".toList = some (F64.fin false 0) := by decide +kernel
example : parseFloat "".toList = none := by decide +kernel

end JL.Spec.ES
