import JL.JsOp
/-!
# ECMA-262 semantics on the JSON image of JavaScript values

Written from the text of ECMA-262 (section numbers of the 2024 edition), NOT from the Rust source.
The numbered comments are the steps of the standard's algorithms; steps about `undefined`,
`Symbol`, `BigInt` and `[[IsHTMLDDA]]` have no JSON counterpart and are marked "n/a".

Stipulations of the properties (C07, C09), which deviate from a real engine:
* a Number's string form is its JSON text (only matters inside arrays, through `JsOp.toString`);
* strings are ordered by code point (ECMA-262 orders by UTF-16 code unit);
* every array and object is a distinct instance (so `object == object` is always false).

Everything is parameterised by `s2n : Str → Option F64`, the StringToNumber function
(7.1.4.1.1) with `none` standing for NaN. That grammar is formalised separately and `JsOp.strToNumber`
is proved equal to it; theorems about the model instantiate `s2n := JsOp.strToNumber`.
-/
namespace JL.Spec.ES
open JL

/-! ## language values and types (6.1) -/

/-- the ECMAScript language values a JSON document denotes, plus every Number (NaN, ±∞ included)
since conversions can produce them. `object j` is an Array or plain Object with contents `j`;
its identity is not recorded: any two occurrences are different instances. -/
inductive Val where
  | null
  | boolean (b : Bool)
  | number (x : F64)
  | string (s : Str)
  | object (j : Json)

inductive Ty where
  | Null | Boolean | Number | String | Object
  deriving DecidableEq, Repr

/-- `Type(x)` -/
def Val.type : Val → Ty
  | .null => .Null
  | .boolean _ => .Boolean
  | .number _ => .Number
  | .string _ => .String
  | .object _ => .Object

/-- the JavaScript value of a JSON value (`JSON.parse`) -/
def ofJson : Json → Val
  | .null => .null
  | .bool b => .boolean b
  | .num n => .number n.toF64
  | .str s => .string s
  | .arr xs => .object (.arr xs)
  | .obj kvs => .object (.obj kvs)

/-! ## 7.1 type conversion -/

/-- 7.1.1 ToPrimitive. For an Array or a plain Object there is no `@@toPrimitive`; OrdinaryToPrimitive
with hint number (and default) tries `valueOf` first, which returns the object itself (not a
primitive), then `toString`: `Array.prototype.toString` = `join(",")` with `null` elements as `""`,
`Object.prototype.toString` = `"[object Object]"`. That string form is `JsOp.toString`
(re-derived from ECMA-262 as `toStr` below, theorem `JL.Props.C07.toString_es`). -/
def Val.toPrimitive : Val → Val
  | .object j => .string (JsOp.toString j)
  | v => v

/-- `none` (= NaN in the interface of `s2n`) as a Number -/
def optNumber : Option F64 → F64
  | some x => x
  | none => .nan

/-- a relation on Numbers lifted to the `Option` interface: false as soon as one side is NaN (`none`) -/
def optRel (r : F64 → F64 → Bool) : Option F64 → Option F64 → Bool
  | some x, some y => r x y
  | _, _ => false

section
variable (s2n : Str → Option F64)

/-- 7.1.4 ToNumber -/
def Val.toNumber : Val → F64
  | .null => F64.zero                                 -- Null: +0
  | .boolean true => F64.one                          -- Boolean: 1 / +0
  | .boolean false => F64.zero
  | .number x => x                                    -- Number: itself
  | .string s => optNumber (s2n s)                    -- String: StringToNumber
  | .object j => optNumber (s2n (JsOp.toString j))    -- Object: ToNumber(ToPrimitive(argument, number))

/-- ToPrimitive on a JSON value -/
def toPrimitive (v : Json) : Val := (ofJson v).toPrimitive

/-- ToNumber on a JSON value, in the `Option` interface (`none` = NaN):
null ↦ +0, false ↦ +0, true ↦ 1, number ↦ itself, string ↦ StringToNumber, array/object ↦
StringToNumber of the string form -/
def toNumber : Json → Option F64
  | .null => some F64.zero
  | .bool false => some F64.zero
  | .bool true => some F64.one
  | .num n => some n.toF64
  | .str s => s2n s
  | .arr xs => s2n (JsOp.toString (.arr xs))
  | .obj kvs => s2n (JsOp.toString (.obj kvs))

/-- the two presentations of ToNumber agree -/
theorem toNumber_ofJson (v : Json) : (ofJson v).toNumber s2n = optNumber (toNumber s2n v) := by
  cases v with
  | bool b => cases b <;> rfl
  | _ => rfl

end

/-! ## 6.1.6.1 the Number type -/

/-- ℝ(x) for finite `x`, in units of 2^-1074 -/
def mathValue (neg : Bool) (k : Nat) : Int := if neg then -(k : Int) else k

/-- 6.1.6.1.13 Number::equal -/
def numberEqual (x y : F64) : Bool :=
  if x.isNaN then false                   -- 1
  else if y.isNaN then false              -- 2
  else if x = y then true                 -- 3  x is y
  else if x.isZero && y.isZero then true  -- 4, 5  +0 / -0
  else false                              -- 6

/-- 6.1.6.1.12 Number::lessThan; `none` = undefined -/
def numberLessThan (x y : F64) : Option Bool :=
  if x.isNaN then none                                   -- 1
  else if y.isNaN then none                              -- 2
  else if x = y then some false                          -- 3
  else if x.isZero && y.isZero then some false           -- 4, 5
  else if x = .inf false then some false                 -- 6  x is +∞
  else if y = .inf false then some true                  -- 7  y is +∞
  else if y = .inf true then some false                  -- 8  y is -∞
  else if x = .inf true then some true                   -- 9  x is -∞
  else
    match x, y with                                      -- 10, 11  ℝ(x) < ℝ(y)
    | .fin a j, .fin b k => some (decide (mathValue a j < mathValue b k))
    | _, _ => none   -- unreachable: both are finite here

/-! ## 7.2 comparison -/

/-- 7.2.15 IsStrictlyEqual, every object a distinct instance -/
def strictlyEqual (x y : Val) : Bool :=
  if x.type ≠ y.type then false                       -- 1
  else
    match x, y with
    | .number a, .number b => numberEqual a b         -- 2
    -- 3  SameValueNonNumber
    | .null, .null => true
    | .string s, .string t => decide (s = t)
    | .boolean a, .boolean b => decide (a = b)
    | .object _, .object _ => false                   -- "x is y": never the same instance
    | _, _ => false

section
variable (s2n : Str → Option F64)

/-- 7.2.14 IsLooselyEqual, the recursion of the standard with an explicit depth budget
(`looseFuel_stable`: a budget of 4 is never exhausted) -/
def looseFuel : Nat → Val → Val → Bool
  | 0, _, _ => false
  | n + 1, x, y =>
    if x.type = y.type then strictlyEqual x y                                   -- 1
    -- 2, 3: null / undefined — n/a (null vs null is step 1).  4: [[IsHTMLDDA]] n/a
    else if x.type = .Number ∧ y.type = .String then
      looseFuel n x (.number (y.toNumber s2n))                                   -- 5
    else if x.type = .String ∧ y.type = .Number then
      looseFuel n (.number (x.toNumber s2n)) y                                   -- 6
    -- 7, 8: BigInt n/a
    else if x.type = .Boolean then looseFuel n (.number (x.toNumber s2n)) y      -- 9
    else if y.type = .Boolean then looseFuel n x (.number (y.toNumber s2n))      -- 10
    else if (x.type = .String ∨ x.type = .Number) ∧ y.type = .Object then
      looseFuel n x y.toPrimitive                                                -- 11
    else if x.type = .Object ∧ (y.type = .String ∨ y.type = .Number) then
      looseFuel n x.toPrimitive y                                                -- 12
    -- 13: BigInt n/a
    else false                                                                   -- 14

/-- `x == y` on JavaScript values (longest chain: Boolean vs Object → Number vs Object →
Number vs String → Number vs Number) -/
def Val.looselyEqual (x y : Val) : Bool := looseFuel s2n 4 x y

/-- `a == b` on JSON values -/
def looselyEqual (a b : Json) : Bool := (ofJson a).looselyEqual s2n (ofJson b)

/-- 7.2.13 IsLessThan(x, y); `none` = undefined. (`LeftFirst` only orders side effects of
ToPrimitive, of which there are none here.) -/
def Val.isLessThan (x y : Val) : Option Bool :=
  match x.toPrimitive, y.toPrimitive with                       -- 1, 2
  | .string px, .string py => some (strLt px py)                -- 3  lexicographic (by code point: C09)
  | px, py =>                                                   -- 4  (a, b: BigInt n/a)
      numberLessThan (px.toNumber s2n) (py.toNumber s2n)        --    c, d: ToNumeric; e, f: Number::lessThan

def isLessThan (a b : Json) : Option Bool := (ofJson a).isLessThan s2n (ofJson b)

/-! ## 13.10.1 relational operators: evaluation -/

/-- "if r is undefined, return false; otherwise return r" -/
def undefinedIsFalse : Option Bool → Bool
  | some r => r
  | none => false

/-- "if r is true or undefined, return false; otherwise return true" -/
def falseIsTrue : Option Bool → Bool
  | some true => false
  | none => false
  | some false => true

/-- `a < b`: r = IsLessThan(a, b) -/
def lessThan (a b : Json) : Bool := undefinedIsFalse (isLessThan s2n a b)

/-- `a > b`: r = IsLessThan(b, a, false) -/
def greaterThan (a b : Json) : Bool := undefinedIsFalse (isLessThan s2n b a)

/-- `a <= b`: r = IsLessThan(b, a, false) -/
def lessEq (a b : Json) : Bool := falseIsTrue (isLessThan s2n b a)

/-- `a >= b`: r = IsLessThan(a, b) -/
def greaterEq (a b : Json) : Bool := falseIsTrue (isLessThan s2n a b)

/-! ## "the converted operands are ≤", declaratively -/

/-- `x ≤ y` on Numbers as extended reals: neither is NaN, and `x = -∞`, or `y = +∞`, or both are
finite with ℝ(x) ≤ ℝ(y) (so `-0 ≤ +0` and `+0 ≤ -0`) -/
inductive NumLe : F64 → F64 → Prop
  | negInf_fin (b k) : NumLe (.inf true) (.fin b k)
  | negInf_inf (b) : NumLe (.inf true) (.inf b)
  | fin_posInf (a j) : NumLe (.fin a j) (.inf false)
  | posInf_posInf : NumLe (.inf false) (.inf false)
  | fin_fin (a j b k) : mathValue a j ≤ mathValue b k → NumLe (.fin a j) (.fin b k)

/-- lexicographic `≤` on code points -/
def StrLe (s t : Str) : Prop := strLt s t = true ∨ s = t

/-- the operands of a relational operator after conversion (ToPrimitive with hint number, then
ToNumber unless both are strings) are in the relation ≤ -/
inductive ConvLe : Json → Json → Prop
  | strings {a b s t} : toPrimitive a = .string s → toPrimitive b = .string t → StrLe s t → ConvLe a b
  | numbers {a b x y} : (¬ ∃ s t, toPrimitive a = .string s ∧ toPrimitive b = .string t) →
      toNumber s2n a = some x → toNumber s2n b = some y → NumLe x y → ConvLe a b

end

/-! ## ToString (7.1.17) re-derived, for the record

`JsOp.toString` is used above; this is the same function read off the standard:
`Array.prototype.join` (23.1.3.18) builds `R` left to right, putting the separator before every
element but the first, and the empty string for `undefined`/`null` elements. -/
mutual
def toStr : Json → Str
  | .null => "null".toList
  | .bool b => if b then "true".toList else "false".toList
  | .num n => n.toStr                   -- stipulated: the JSON text
  | .str s => s
  | .obj _ => "[object Object]".toList
  | .arr xs => joinFrom true xs
/-- the loop of `join(",")`; `first` = "k is 0"; a `null` element contributes the empty string -/
def joinFrom : Bool → List Json → Str
  | _, [] => []
  | first, .null :: rest => (if first then [] else [',']) ++ joinFrom false rest
  | first, x :: rest => (if first then [] else [',']) ++ toStr x ++ joinFrom false rest
end

/-! ## corner cases of the standard's algorithms (StringToNumber instantiated with a toy table where one is needed) -/
section examples
private def toy : Str → Option F64 := fun s =>
  if s = [] then some F64.zero else if s = ['1'] then some F64.one else if s = ['I'] then some (.inf false) else none
private def pz : F64 := .fin false 0
private def nz : F64 := .fin true 0

-- Number::equal / Number::lessThan: NaN, signed zeros, infinities
example : numberEqual .nan .nan = false ∧ numberEqual pz nz = true ∧ numberEqual nz pz = true ∧
    numberEqual (.inf false) (.inf false) = true ∧ numberEqual (.inf false) (.inf true) = false ∧
    numberEqual (.fin false 3) (.fin true 3) = false := by decide
example : numberLessThan .nan pz = none ∧ numberLessThan pz .nan = none ∧ numberLessThan nz pz = some false ∧
    numberLessThan pz nz = some false ∧ numberLessThan (.inf false) (.inf false) = some false ∧
    numberLessThan (.fin false 5) (.inf false) = some true ∧ numberLessThan (.fin false 5) (.inf true) = some false ∧
    numberLessThan (.inf true) (.fin true 5) = some true ∧ numberLessThan (.fin true 5) (.fin false 2) = some true ∧
    numberLessThan (.fin true 2) (.fin true 5) = some false := by decide
-- null == null only; null is not 0, "" or false
example : looselyEqual toy .null .null = true ∧ looselyEqual toy .null (.bool false) = false ∧
    looselyEqual toy .null (.str []) = false ∧ looselyEqual toy (.arr []) .null = false := by decide +kernel
-- "" == false, [] == false, [] == "", "1" == true, {} != true; [] != [], {} != {}
example : looselyEqual toy (.str []) (.bool false) = true ∧ looselyEqual toy (.arr []) (.bool false) = true ∧
    looselyEqual toy (.arr []) (.str []) = true ∧ looselyEqual toy (.str ['1']) (.bool true) = true ∧
    looselyEqual toy (.obj []) (.bool true) = false ∧ looselyEqual toy (.arr []) (.arr []) = false ∧
    looselyEqual toy (.obj []) (.obj []) = false := by decide +kernel
-- a NaN conversion equals nothing; `"x" == "x"` is still true (no conversion between strings)
example : looselyEqual toy (.str ['x']) (.bool false) = false ∧ looselyEqual toy (.str ['x']) (.str ['x']) = true := by decide +kernel
-- relational: undefined ↦ false for all four operators; null <= false; [] <= [] and {} >= {}
example : lessThan toy (.str ['x']) (.bool true) = false ∧ lessEq toy (.str ['x']) (.bool true) = false ∧
    greaterThan toy (.str ['x']) (.bool true) = false ∧ greaterEq toy (.str ['x']) (.bool true) = false := by decide +kernel
example : lessEq toy .null (.bool false) = true ∧ greaterEq toy .null (.bool false) = true ∧ lessThan toy .null (.bool false) = false ∧
    lessEq toy (.arr []) (.arr []) = true ∧ greaterEq toy (.obj []) (.obj []) = true ∧ lessThan toy (.bool true) (.str ['I']) = true := by
  decide +kernel
end examples

end JL.Spec.ES
