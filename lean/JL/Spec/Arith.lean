import JL.Eval
/-!
# Specification of the arithmetic operators (property C10)

Written from the property text, not from the code:

* the exact value of a double / of a JSON number as an integer number of units `2^-1074`
  (`F64.units`, `Num.units`): two numbers are *numerically equal* iff their units are equal;
* the narrowing of a double to a JSON number (`Spec.Arith.narrow`): error iff not finite; the JSON
  integer `i` iff the value is the integer `i` and `-2^63 ≤ i < 2^64`; the double itself otherwise;
* the operators as "convert every operand (`Option`-monadic `mapM`), then fold": `plus`, `times`,
  `neg`, `binary`, `maxOf`, `minOf`.

The conversion functions `JsOp.parseFloat` (parseFloat-style prefix) and `JsOp.toNumber` (Number-style)
are taken as given here; their agreement with ECMA-262 is the subject of `JL/Props/C10Num.lean`.
-/
namespace JL

namespace F64

/-- exact value of a finite double, in units of `2^-1074` (`S` units = 1.0); `none` for NaN, ±∞ -/
def units : F64 → Option Int
  | fin false k => some (k : Int)
  | fin true k => some (-(k : Int))
  | _ => none

/-- the double denotes an integer -/
def IsIntegral (x : F64) : Prop := ∃ u : Int, x.units = some u ∧ (S : Int) ∣ u

end F64

namespace Num

/-- exact value of a JSON number, in units of `2^-1074`; an integer `n` is `n · S` units -/
def units : Num → Int
  | pos n => (n : Int) * (F64.S : Int)
  | neg m => -((m : Int) * (F64.S : Int))
  | flt f => (F64.units f).getD 0

end Num

namespace Spec.Arith

/-- the JSON spelling of an integer: `PosInt` for `i ≥ 0`, `NegInt` for `i < 0` -/
def intNum (i : Int) : Num :=
  match i with
  | .ofNat n => .pos n
  | .negSucc n => .neg (n + 1)

/-- the integer (not in units) `i` fits 64 bits: it is an `i64` or a `u64` -/
def Fits64 (i : Int) : Prop := -(2 ^ 63 : Int) ≤ i ∧ i < (2 ^ 64 : Int)

instance (i : Int) : Decidable (Fits64 i) := by unfold Fits64; exact inferInstance

/-- narrowing of an arithmetic result to a JSON number: `none` = error.
A finite value of `u` units is the integer `u / S` iff `S ∣ u`. -/
def narrow (x : F64) : Option Num :=
  match x.units with
  | none => none
  | some u =>
      if (F64.S : Int) ∣ u ∧ Fits64 (u / (F64.S : Int)) then some (intNum (u / (F64.S : Int)))
      else some (.flt x)

/-- operator result: error on a conversion failure or a non-finite double, else the narrowed number -/
def result (r : Option F64) : M Json :=
  match r with
  | none => M.err
  | some x =>
      match narrow x with
      | none => M.err
      | some n => pure (.num n)

/-- `+`: every operand by `parseFloat`, summed left to right from `+0` -/
def plus (items : List Json) : Option F64 :=
  (items.mapM JsOp.parseFloat).map (List.foldl F64.add F64.zero)

/-- `*`: every operand by `parseFloat`, multiplied left to right from `1` -/
def times (items : List Json) : Option F64 :=
  (items.mapM JsOp.parseFloat).map (List.foldl F64.mul F64.one)

/-- one-operand `-`: negation of the `Number`-style conversion -/
def neg (a : Json) : Option F64 := (JsOp.toNumber a).map F64.negate

/-- `-`, `/`, `%` on two operands: both by `Number`-style conversion -/
def binary (op : F64 → F64 → F64) (a b : Json) : Option F64 := do
  let x ← JsOp.toNumber a
  let y ← JsOp.toNumber b
  pure (op x y)

/-- the larger of two doubles, the accumulator `m` winning ties and NaNs -/
def fmax (m n : F64) : F64 := if F64.lt m n then n else m
/-- the smaller of two doubles, the accumulator `m` winning ties and NaNs -/
def fmin (m n : F64) : F64 := if F64.lt n m then n else m

/-- `max`: every operand by `Number`-style conversion, maximum from −∞ -/
def maxOf (items : List Json) : Option F64 :=
  (items.mapM JsOp.toNumber).map (List.foldl fmax (F64.inf true))

/-- `min`: every operand by `Number`-style conversion, minimum from +∞ -/
def minOf (items : List Json) : Option F64 :=
  (items.mapM JsOp.toNumber).map (List.foldl fmin (F64.inf false))

/-- the double (or conversion failure) each arithmetic operator computes from its evaluated operands, for operand
counts its arity admits (`-`: 1 or 2, `/` `%`: 2, `*` `max` `min`: ≥ 1, `+`: any) -/
def arith (k : String) (items : List Json) : Option F64 :=
  if k = "+" then plus items
  else if k = "*" then times items
  else if k = "max" then maxOf items
  else if k = "min" then minOf items
  else
    match items with
    | [a] => if k = "-" then neg a else none
    | a :: b :: _ =>
        if k = "-" then binary F64.sub a b
        else if k = "/" then binary F64.div a b
        else if k = "%" then binary F64.rem a b
        else none
    | [] => none

/-- `m` is a maximum of `ns`: no element is greater, and `m` is an element (or −∞ when there is none to take) -/
def IsMax (m : F64) (ns : List F64) : Prop :=
  (∀ n ∈ ns, F64.lt m n = false) ∧ (m ∈ ns ∨ m = F64.inf true)

/-- `m` is a minimum of `ns` -/
def IsMin (m : F64) (ns : List F64) : Prop :=
  (∀ n ∈ ns, F64.lt n m = false) ∧ (m ∈ ns ∨ m = F64.inf false)

end Spec.Arith
end JL
