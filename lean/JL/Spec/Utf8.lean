import JL.Basic
/-!
# UTF-8 (RFC 3629), written from the RFC's bit-layout table

Rust's `String` is a UTF-8 byte buffer; `String: Ord` compares the byte slices and `str::contains(&str)` searches the
needle's bytes in the haystack's bytes. The model (`JL/Basic.lean`) works on `List Char`. This file defines the encoding
and the two byte-level operations independently of Lean's `String` internals, so that `JL/Props/C09Utf8.lean` and
`JL/Props/C15Utf8.lean` can prove that the model's code-point-level `strLt` / `isInfix` agree with them.

RFC 3629 §3:

```
Char. number range  |        UTF-8 octet sequence
   (hexadecimal)    |              (binary)
--------------------+---------------------------------------------
0000 0000-0000 007F | 0xxxxxxx
0000 0080-0000 07FF | 110xxxxx 10xxxxxx
0000 0800-0000 FFFF | 1110xxxx 10xxxxxx 10xxxxxx
0001 0000-0010 FFFF | 11110xxx 10xxxxxx 10xxxxxx 10xxxxxx
```

Bytes are `Nat`s (all values produced are `< 256`, see `JL.Lemmas.Utf8.encodeNat_byte`).
-/
namespace JL.Spec.Utf8
open JL

/-- the RFC 3629 table on a scalar value given as a natural number: the `x` bits are filled from the binary
expansion of `n`, most significant first, six bits per continuation byte -/
def encodeNat (n : Nat) : List Nat :=
  if n < 0x80 then [n]
  else if n < 0x800 then [0xC0 + n / 0x40, 0x80 + n % 0x40]
  else if n < 0x10000 then [0xE0 + n / 0x1000, 0x80 + n / 0x40 % 0x40, 0x80 + n % 0x40]
  else [0xF0 + n / 0x40000, 0x80 + n / 0x1000 % 0x40, 0x80 + n / 0x40 % 0x40, 0x80 + n % 0x40]

/-- UTF-8 encoding of one Unicode scalar value -/
def encodeChar (c : Char) : List Nat := encodeNat c.val.toNat

/-- UTF-8 encoding of a string: what a Rust `String` holds -/
def encode (s : Str) : List Nat := s.flatMap encodeChar

/-- lexicographic `<` on byte sequences, a proper prefix being smaller: `<[u8] as Ord>::cmp(..) == Less`,
which is `String`'s ordering -/
def bytesLt : List Nat → List Nat → Bool
  | _, [] => false
  | [], _ :: _ => true
  | a :: as, b :: bs => decide (a < b) || (a == b && bytesLt as bs)

/-- the needle occurs as a contiguous run of bytes of the haystack: `haystack.contains(needle)` -/
def bytesInfix (needle hay : List Nat) : Prop := ∃ pre suf, hay = pre ++ needle ++ suf

/-- a continuation byte `10xxxxxx` -/
def isCont (b : Nat) : Prop := 0x80 ≤ b ∧ b < 0xC0

instance (b : Nat) : Decidable (isCont b) := by unfold isCont; infer_instance

/-! ## Sanity: known encodings, and agreement with core's encoder -/

example : encodeChar 'a' = [0x61] := by decide
example : encodeChar 'é' = [0xC3, 0xA9] := by decide
example : encodeChar '€' = [0xE2, 0x82, 0xAC] := by decide
example : encodeChar '😀' = [0xF0, 0x9F, 0x98, 0x80] := by decide
example : encodeChar (Char.ofNat 0x7F) = [0x7F] := by decide
example : encodeChar (Char.ofNat 0x80) = [0xC2, 0x80] := by decide
example : encodeChar (Char.ofNat 0x7FF) = [0xDF, 0xBF] := by decide
example : encodeChar (Char.ofNat 0x800) = [0xE0, 0xA0, 0x80] := by decide
example : encodeChar (Char.ofNat 0xFFFF) = [0xEF, 0xBF, 0xBF] := by decide
example : encodeChar (Char.ofNat 0x10000) = [0xF0, 0x90, 0x80, 0x80] := by decide
example : encodeChar (Char.ofNat 0x10FFFF) = [0xF4, 0x8F, 0xBF, 0xBF] := by decide
example : encode "aé€😀".toList = [0x61, 0xC3, 0xA9, 0xE2, 0x82, 0xAC, 0xF0, 0x9F, 0x98, 0x80] := by decide
example : encode "aé€😀".toList = "aé€😀".toUTF8.toList.map (·.toNat) := by decide +kernel

/-- the definition above is core Lean's UTF-8 encoder (which is what `String.toUTF8` is specified by) -/
theorem encodeChar_eq_core (c : Char) : encodeChar c = (String.utf8EncodeChar c).map (·.toNat) := by
  have hv := c.valid
  simp only [UInt32.isValidChar, Nat.isValidChar] at hv
  simp only [encodeChar, encodeNat, String.utf8EncodeChar]
  generalize c.val.toNat = n at hv ⊢
  by_cases h1 : n < 0x80
  · rw [if_pos h1, if_pos (show n ≤ 127 by omega)]
    simp only [List.map_cons, List.map_nil, UInt8.toNat_ofNat']
    congr 1; omega
  · rw [if_neg h1, if_neg (show ¬ n ≤ 127 by omega)]
    by_cases h2 : n < 0x800
    · rw [if_pos h2, if_pos (show n ≤ 2047 by omega)]
      simp only [List.map_cons, List.map_nil, UInt8.toNat_ofNat']
      congr 1
      · omega
      · congr 1; omega
    · rw [if_neg h2, if_neg (show ¬ n ≤ 2047 by omega)]
      by_cases h3 : n < 0x10000
      · rw [if_pos h3, if_pos (show n ≤ 65535 by omega)]
        simp only [List.map_cons, List.map_nil, UInt8.toNat_ofNat']
        congr 1
        · omega
        · congr 1
          · omega
          · congr 1; omega
      · rw [if_neg h3, if_neg (show ¬ n ≤ 65535 by omega)]
        simp only [List.map_cons, List.map_nil, UInt8.toNat_ofNat']
        congr 1
        · omega
        · congr 1
          · omega
          · congr 1
            · omega
            · congr 1; omega

end JL.Spec.Utf8
