import JL.Data
/-!
# Specification of `var` paths (property C11), written from the property text

A path is a string; a backslash makes the next character literal; segments are separated by
unescaped delimiters (dots); a trailing empty segment is dropped; a trailing lone backslash is dropped.
This file is deliberately written as direct (non-accumulating) recursion, unlike the loop in `JL.Data`.
-/
namespace JL.Spec.Path
open JL Json

/-- put a character in front of the first segment -/
def pushHead (c : Char) : List Str → List Str
  | [] => [[c]]
  | s :: rest => (c :: s) :: rest

/-- The raw segments of a path: always at least one segment (the last one may be empty).
`\` followed by a character `d` contributes the literal `d` to the current segment, whatever `d` is;
a `\` at the very end contributes nothing; an unescaped delimiter closes the current segment. -/
def rawSegs (delim : Char) : List Char → List Str
  | [] => [[]]
  | c :: cs =>
      if c = '\\' then
        match cs with
        | [] => [[]]
        | d :: ds => pushHead d (rawSegs delim ds)
      else if c = delim then [] :: rawSegs delim cs
      else pushHead c (rawSegs delim cs)

/-- drop the last segment when it is empty -/
def dropTrailingEmpty : List Str → List Str
  | [] => []
  | [s] => if s = [] then [] else [s]
  | s :: t :: rest => s :: dropTrailingEmpty (t :: rest)

/-- the segments of a path -/
def split (input : Str) (delim : Char) : List Str := dropTrailingEmpty (rawSegs delim input)

/-- the path ends in the middle of an escape (an unescaped `\` is its last character) -/
def endsEscaped : List Char → Bool
  | [] => false
  | c :: cs =>
      if c = '\\' then
        match cs with
        | [] => true
        | _ :: ds => endsEscaped ds
      else endsEscaped cs

/-- a segment that needs no escaping: it contains neither the delimiter `.` nor `\` -/
def Plain (s : Str) : Prop := ∀ c ∈ s, c ≠ '.' ∧ c ≠ '\\'

instance (s : Str) : Decidable (Plain s) := by unfold Plain; exact inferInstance

/-- containers that `var` can descend into -/
def Indexable : Json → Prop
  | .obj _ | .arr _ | .str _ => True
  | _ => False

instance : (d : Json) → Decidable (Indexable d)
  | .obj _ | .arr _ | .str _ => isTrue trivial
  | .null | .bool _ | .num _ => isFalse (fun h => h)

/-- **Frame relation.** `agreeOnPath segs d d'`: the two trees coincide along the segments — at each step
both are the same kind of container and hold, for that segment, children that again agree on the rest of
the path (or both hold nothing); at the end of the path the values are equal. Everything else
(other keys, other elements, other characters) may differ arbitrarily. -/
def agreeOnPath : List Str → Json → Json → Prop
  | [], d, d' => d = d'
  | seg :: rest, .obj a, .obj b =>
      match lookup seg a, lookup seg b with
      | some v, some v' => agreeOnPath rest v v'
      | none, none => True
      | _, _ => False
  | seg :: rest, .arr a, .arr b =>
      match Data.parseI64 seg with
      | none => True
      | some i =>
        match Data.get a i, Data.get b i with
        | some v, some v' => agreeOnPath rest v v'
        | none, none => True
        | _, _ => False
  | seg :: _, .str a, .str b =>
      match Data.parseI64 seg with
      | none => True
      | some i => Data.get a i = Data.get b i
  | _ :: _, d, d' => ¬ Indexable d ∧ ¬ Indexable d'

/-- keys that denote the whole data: `null` and the empty string -/
def wholeData : Data.Key → Bool
  | .null => true
  | .string [] => true
  | _ => false

/-- the segments a key denotes -/
def keyPath : Data.Key → List Str
  | .null => []
  | .string k => split k '.'
  | .number i => [intToStr i]

end JL.Spec.Path

/-!
# Specification vocabulary for `missing` / `missing_some` (property C12)
-/
namespace JL.Spec.Missing
open JL Json

/-- an operand that can be used as a key: null, a string, an integer representable as `i64` -/
def ValidKey (k : Json) : Prop := Data.keyOf k ≠ none

instance (k : Json) : Decidable (ValidKey k) := by unfold ValidKey; exact inferInstance

/-- the key is not the null key and its lookup — the lookup of `var` — finds nothing -/
def isAbsent (d k : Json) : Bool :=
  match Data.keyOf k with
  | some .null => false
  | some key => (Data.getKey d key).isNone
  | none => false

/-- the key is not the null key and its lookup finds something (possibly `null`) -/
def isPresent (d k : Json) : Bool :=
  match Data.keyOf k with
  | some .null => false
  | some key => (Data.getKey d key).isSome
  | none => false

/-- number of list positions whose key is found -/
def present (d : Json) (keys : List Json) : Nat := keys.countP (isPresent d)

/-- "first operand an array ⇒ it is the key list" -/
def adjust : List Json → List Json
  | .arr vals :: _ => vals
  | args => args

/-- the elements of `xs`, in order, that are not `Json.beq`-equal to an element of `seen` or to an element
already kept -/
def dedupFrom (seen : List Json) : List Json → List Json
  | [] => []
  | x :: xs => if Json.contains seen x then dedupFrom seen xs else x :: dedupFrom (seen ++ [x]) xs

/-- distinct elements in order of first occurrence (distinct by `Json.beq`, as `Vec::contains` sees them) -/
def dedup (xs : List Json) : List Json := dedupFrom [] xs

/-- an invalid key stands at a position reached before `n` present keys have been seen -/
def BadBefore (d : Json) (n : Nat) (keys : List Json) : Prop :=
  ∃ pre k post, keys = pre ++ k :: post ∧ Data.keyOf k = none ∧ present d pre < n

end JL.Spec.Missing
