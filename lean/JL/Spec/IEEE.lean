import JL.F64
/-!
# IEEE-754 binary64 round-to-nearest, ties-to-even — declarative specification

Written from IEEE 754-2019 §3.3 (sets of floating-point data), §4.3.1 (roundTiesToEven), §7.4 (overflow)
and §6.3 (sign of zero results), NOT from `F64.roundUnits`.

Magnitudes are natural numbers of *units* `2^-1074` (the smallest positive subnormal), exactly as in
`JL/F64.lean`; a non-negative rational is a pair `num/den` with `den > 0`, and comparisons of distances
`|num/den - g|` are made after multiplying by `den` (`err`), so nothing but `Nat` is needed.

* `GridU k`   — `k = m · 2^e` with a 53-bit significand `m < 2^53` and `e ≥ 0`: the binary64 magnitudes
  "as if the exponent range were unbounded above" (the lower bound `emin` of the exponent is the unit itself).
* `Grid k`    — the finite binary64 magnitudes: `F64.OnGrid k`, proved `↔ GridU k ∧ k < OVF` in the lemmas.
* `ulp k`, `sig k`, `sigEven k` — the unit in the last place of `k`'s binade, the integral significand
  `k / ulp k`, and "the least significant digit of the significand is even".
* `IsNearestEven num den k` — `k` is a `GridU` point nearest to `num/den`; if another grid point is equally
  near, `k` is the one with the even significand.
* `Rounds neg num den r` — the double `r` is what IEEE-754 prescribes for the exact result
  `(-1)^neg · num/den`: round with unbounded exponent; a rounded magnitude `≥ 2^1024` (`OVF` units) is `±∞`,
  otherwise the finite double with that magnitude; the sign is the sign of the exact result.
-/
namespace JL.Spec.IEEE
open JL F64

/-- `|a - b|` on naturals (one of the truncated differences is `0`) -/
def absDiff (a b : Nat) : Nat := (a - b) + (b - a)

/-- binary64 magnitudes with the exponent unbounded above: a significand below `2^53` times a power of two -/
def GridU (k : Nat) : Prop := ∃ m e : Nat, m < 2 ^ 53 ∧ k = m * 2 ^ e

/-- the finite binary64 magnitudes (in units) -/
def Grid (k : Nat) : Prop := F64.OnGrid k

instance (k : Nat) : Decidable (Grid k) := inferInstanceAs (Decidable (F64.OnGrid k))

/-- unit in the last place of the binade of `k`: `1` up to `2^53 - 1` (subnormals and the first normal
binades, whose spacing is one unit), then `2^(bitLen k - 53)` -/
def ulp (k : Nat) : Nat := if bitLen k ≤ 53 then 1 else 2 ^ (bitLen k - 53)

/-- the integral significand of a grid point -/
def sig (k : Nat) : Nat := k / ulp k

/-- the significand of `k` is even -/
def sigEven (k : Nat) : Prop := sig k % 2 = 0

instance (k : Nat) : Decidable (sigEven k) := by unfold sigEven; exact inferInstance

/-- `den · |num/den - g|` -/
def err (num den g : Nat) : Nat := absDiff num (g * den)

/-- `k` is the round-to-nearest, ties-to-even image of `num/den` on the unbounded-exponent grid -/
structure IsNearestEven (num den k : Nat) : Prop where
  /-- the result is representable (exponent unbounded above) -/
  grid : GridU k
  /-- no representable magnitude is nearer to `num/den` -/
  nearest : ∀ g, GridU g → err num den k ≤ err num den g
  /-- if some other representable magnitude is equally near, `k` has the even significand -/
  tieEven : ∀ g, GridU g → g ≠ k → err num den g = err num den k → sigEven k

/-- the double that IEEE-754 roundTiesToEven delivers for the exact result `(-1)^neg · num/den` units -/
def Rounds (neg : Bool) (num den : Nat) (r : F64) : Prop :=
  ∃ k, IsNearestEven num den k ∧ r = if OVF ≤ k then F64.inf neg else F64.fin neg k

/-- the signed value of a finite double, in units -/
def sval (neg : Bool) (k : Nat) : Int := if neg then -(k : Int) else (k : Int)

end JL.Spec.IEEE
