import JL.F64
/-!
# Decimal text ↔ binary64

* `ofDecimal neg d e10` – the correctly rounded double of `± d · 10^e10` (what Rust's `f64::from_str`
  computes for a decimal literal; its correct rounding is part of the trusted base and is exercised
  by the correspondence check on bit patterns).
* `shortest` / `format` – the text `serde_json` 1.0.151 (zmij 1.0.23) prints for a finite `f64`:
  shortest digit string that rounds back to the same double (closest to the exact value, ties to
  even digit), laid out in fixed notation for decimal exponents −5..15 and `d.ddde±N` otherwise.
-/
namespace JL
namespace F64

/-! decimal → double: value = d · 10^e10 -/
def ofDecimal (neg : Bool) (d : Nat) (e10 : Int) : F64 :=
  if d == 0 then fin neg 0
  else
    let nd := (natToStr d).length
    if e10 > 400 then inf neg
    else if e10 + nd < -400 then fin neg 0
    else if e10 ≥ 0 then roundUnits neg (d * 10 ^ e10.toNat * S) 1
    else roundUnits neg (d * S) (10 ^ (-e10).toNat)

/-! shortest round-trip digits -/
/-- neighbours' midpoints in half-units: returns (lo2, hi2, inclusive) meaning interval [lo2/2, hi2/2] in units -/
def interval (k : Nat) : Nat × Nat × Bool :=
  let L := bitLen k
  let ulp := if L ≤ 53 then 1 else 2 ^ (L - 53)
  -- spacing below is half as big exactly at a power of two above the subnormal range
  let ulpBelow := if L > 53 && k == 2 ^ (L - 1) then ulp / 2 else ulp
  let m := if L ≤ 53 then k else k >>> (L - 53)
  (2 * k - ulpBelow, 2 * k + ulp, m % 2 == 0)

/-- floor(log10 (k/S)) for k>0 -/
def floorLog10 (k : Nat) : Int := Id.run do
  -- estimate from bit length, then fix up
  let L : Int := bitLen k
  let est : Int := ((L - 1075) * 30103) / 100000
  let mut e := est - 1
  -- increase while 10^(e+1) ≤ k/S
  let le10 (e : Int) : Bool := if e ≥ 0 then 10 ^ e.toNat * S ≤ k else S ≤ k * 10 ^ (-e).toNat
  for _ in [0:4] do
    if le10 (e + 1) then e := e + 1
  return e

/-- shortest (digits, exponent of last digit) with digits·10^exp in the rounding interval, closest to the value -/
def shortest (k : Nat) : Nat × Int := Id.run do
  let (lo2, hi2, incl) := interval k
  let e := floorLog10 k
  for n in [1:18] do
    -- scale: candidate c has n digits, exponent p = e - n + 1; value c·10^p units: c·10^p·S
    let p : Int := e - (n : Int) + 1
    -- work with common denominator: compare c·A with lo2·B/2 etc.   value_units = c * A / B
    let (A, B) : Nat × Nat := if p ≥ 0 then (10 ^ p.toNat * S, 1) else (S, 10 ^ (-p).toNat)
    -- c_floor = floor(k * B / A)
    let cf := k * B / A
    let inside (c : Nat) : Bool :=
      let v2 := 2 * c * A      -- compare v2 / B with lo2, hi2
      if incl then lo2 * B ≤ v2 && v2 ≤ hi2 * B else lo2 * B < v2 && v2 < hi2 * B
    let dist (c : Nat) : Nat := let v := c * A; let t := k * B; if v ≥ t then v - t else t - v
    let c1 := cf
    let c2 := cf + 1
    let ok1 := inside c1 && c1 > 0
    let ok2 := inside c2
    if ok1 && ok2 then
      let c := if dist c1 < dist c2 then c1 else if dist c2 < dist c1 then c2 else (if c1 % 2 == 0 then c1 else c2)
      return (c, p)
    else if ok1 then return (c1, p)
    else if ok2 then return (c2, p)
  return (0, 0)


/-- serde_json 1.0.151 / zmij 1.0.23 layout of a finite f64 (non-finite never reaches a printer) -/
def format : F64 → Str
  | nan => "NaN".toList
  | inf n => if n then "-inf".toList else "inf".toList
  | fin n k =>
      let sgn : Str := if n then ['-'] else []
      if k == 0 then sgn ++ ['0', '.', '0'] else
      let (c0, p0) := shortest k
      -- strip trailing zeros of c
      let (c, p) := Id.run do
        let mut c := c0; let mut p := p0
        for _ in [0:20] do
          if c % 10 == 0 && c != 0 then c := c / 10; p := p + 1
        return (c, p)
      let ds := natToStr c
      let len := ds.length
      let decExp : Int := p + (len : Int) - 1
      if -5 ≤ decExp && decExp ≤ 15 then
        if (len : Int) - 1 ≤ decExp then
          sgn ++ ds ++ List.replicate (decExp.toNat + 1 - len) '0' ++ ['.', '0']
        else if 0 ≤ decExp then
          sgn ++ ds.take (decExp.toNat + 1) ++ ['.'] ++ ds.drop (decExp.toNat + 1)
        else
          sgn ++ ['0', '.'] ++ List.replicate ((-decExp).toNat - 1) '0' ++ ds
      else
        let mant : Str := if len == 1 then ds else ds.take 1 ++ ['.'] ++ ds.drop 1
        let es : Str := if decExp ≥ 0 then ['e', '+'] ++ natToStr decExp.toNat else ['e', '-'] ++ natToStr (-decExp).toNat
        sgn ++ mant ++ es

end F64
end JL
