import JL.Generated.Tables
import JL.Data
import JL.StrArr
/-!
# The interpreter: parse phase (`check`) and evaluation phase (`run`)

`M α` is a writer of `log` lines over a three-way outcome: a value, an error value, or a *panic*
(an out-of-bounds `items[i]`, an `unwrap` of `None`) — a first-class outcome so that "never panics"
is a statement about the model and not an artefact of totalisation.

Every function of the evaluator is structurally recursive **on the rule**: Lean's acceptance of
these definitions is the proof that interpretation terminates on every input and only ever consumes
rule text (collection elements handled by `map`/`filter`/`reduce`/computed `all`/`some` are data and
are passed to closures over a strict sub-term of the rule).
-/
namespace JL
open Json

inductive Out (α : Type) where
  | ok (a : α)
  | err
  | panic
  deriving Inhabited, DecidableEq

structure M (α : Type) where
  logs : List Json
  out : Out α
  deriving Inhabited, DecidableEq

namespace M
def pure {α : Type} (a : α) : M α := ⟨[], .ok a⟩
def err {α : Type} : M α := ⟨[], .err⟩
def panic {α : Type} : M α := ⟨[], .panic⟩
def bind {α β : Type} (x : M α) (f : α → M β) : M β :=
  match x.out with
  | .ok a => ⟨x.logs ++ (f a).logs, (f a).out⟩
  | .err => ⟨x.logs, .err⟩
  | .panic => ⟨x.logs, .panic⟩
instance : Monad M where
  pure := M.pure
  bind := M.bind
/-- `println!("{}", v)` -/
def log (v : Json) : M Unit := ⟨[v], .ok ()⟩
/-- `Option` ↦ `Result`: `None` is an ordinary error -/
def ofOption {α : Type} : Option α → M α
  | some a => pure a
  | none => err
end M

/-- `logic::truthy` -/
def truthy : Json → Bool
  | .null => false
  | .bool b => b
  | .num n => !(F64.eq n.toF64 F64.zero)
  | .str s => !s.isEmpty
  | .arr xs => !xs.isEmpty
  | .obj _ => true

/-- which table recognises key `k` (order of `Parsed::from_value`: eager, lazy, data) and its arity -/
def lookupOp (k : Str) : Option (Kind × Arity) :=
  match findEntry k Tables.eager with
  | some e => some (.eager, e.arity)
  | none =>
    match findEntry k Tables.lazy with
    | some e => some (.lazy, e.arity)
    | none =>
      match findEntry k Tables.data with
      | some e => some (.data, e.arity)
      | none => none

/-! ## eager operators: plain functions of the evaluated operands (`items[i]` = positional access) -/

/-- `numeric::compare` -/
def compare (f : Json → Json → Bool) : List Json → M Json
  | [a, b] => pure (.bool (f a b))
  | a :: b :: c :: _ => pure (.bool (f a b && f b c))
  | _ => M.panic

/-- result of an arithmetic helper through `to_number_value` -/
def numResult (r : Option F64) : M Json :=
  match r with
  | none => M.err
  | some x => M.ofOption (toNumberValue x)

def execEager (k : Str) (items : List Json) : M Json :=
  if k = "==".toList then
    match items with | a :: b :: _ => pure (.bool (JsOp.abstractEq a b)) | _ => M.panic
  else if k = "!=".toList then
    match items with | a :: b :: _ => pure (.bool (JsOp.abstractNe a b)) | _ => M.panic
  else if k = "===".toList then
    match items with | a :: b :: _ => pure (.bool (JsOp.strictEq a b)) | _ => M.panic
  else if k = "!==".toList then
    match items with | a :: b :: _ => pure (.bool (JsOp.strictNe a b)) | _ => M.panic
  else if k = "!".toList then
    match items with | a :: _ => pure (.bool (!truthy a)) | _ => M.panic
  else if k = "!!".toList then
    match items with | a :: _ => pure (.bool (truthy a)) | _ => M.panic
  else if k = "<".toList then compare JsOp.abstractLt items
  else if k = "<=".toList then compare JsOp.abstractLte items
  else if k = ">".toList then compare JsOp.abstractGt items
  else if k = ">=".toList then compare JsOp.abstractGte items
  else if k = "+".toList then numResult (JsOp.parseFloatAdd items)
  else if k = "*".toList then numResult (JsOp.parseFloatMul items)
  else if k = "-".toList then
    match items with
    | [a] => numResult (JsOp.toNegative a)
    | a :: b :: _ => numResult (JsOp.abstractMinus a b)
    | [] => M.panic
  else if k = "/".toList then
    match items with | a :: b :: _ => numResult (JsOp.abstractDiv a b) | _ => M.panic
  else if k = "%".toList then
    match items with | a :: b :: _ => numResult (JsOp.abstractMod a b) | _ => M.panic
  else if k = "max".toList then numResult (JsOp.abstractMax items)
  else if k = "min".toList then numResult (JsOp.abstractMin items)
  else if k = "merge".toList then pure (.arr (ArrOp.merge items))
  else if k = "in".toList then
    match items with
    | a :: b :: _ => (match ArrOp.in_ a b with | some r => pure (.bool r) | none => M.err)
    | _ => M.panic
  else if k = "cat".toList then pure (.str (StrOp.cat items))
  else if k = "substr".toList then
    match items with
    | [s, i] => M.ofOption (StrOp.substr s i none)
    | s :: i :: l :: _ => M.ofOption (StrOp.substr s i (some l))
    | _ => M.panic
  else if k = "log".toList then
    match items with
    | a :: _ => do M.log a; pure a
    | _ => M.panic
  else M.err   -- a key of the eager table the model does not know: no implementation to mirror

/-! ## data operators -/

/-- `data::var` -/
def var (data : Json) : List Json → M Json
  | [] => pure data
  | k :: rest =>
      match Data.keyOf k with
      | none => M.err
      | some key =>
          match Data.getKey data key with
          | some v => pure v
          | none => pure (match rest with | [] => .null | dflt :: _ => dflt)

/-- the fold of `data::missing` over the adjusted key list -/
def missingFold (data : Json) : List Json → List Json → M (List Json)
  | [], acc => pure acc
  | arg :: rest, acc =>
      match Data.keyOf arg with
      | none => M.err
      | some .null => missingFold data rest acc
      | some key =>
          match Data.getKey data key with
          | none => missingFold data rest (acc ++ [arg])
          | some _ => missingFold data rest acc

/-- `data::missing` -/
def missing (data : Json) (args : List Json) : M Json := do
  let adjusted := match args with
    | .arr vals :: _ => vals
    | _ => args
  let ks ← missingFold data adjusted []
  pure (.arr ks)

/-- the fold of `data::missing_some`: state = (present count, missing keys) -/
def missingSomeFold (data : Json) (threshold : Nat) : List Json → Nat × List Json → M (Nat × List Json)
  | [], st => pure st
  | key :: rest, (count, miss) =>
      if count ≥ threshold then missingSomeFold data threshold rest (count, miss)
      else
        match Data.keyOf key with
        | none => M.err
        | some .null => missingSomeFold data threshold rest (count, miss)
        | some pk =>
            match Data.getKey data pk with
            | none => missingSomeFold data threshold rest (count, if Json.contains miss key then miss else miss ++ [key])
            | some _ => missingSomeFold data threshold rest (count + 1, miss)

/-- `data::missing_some` -/
def missingSome (data : Json) : List Json → M Json
  | thr :: keysArg :: _ =>
      match (match thr with | .num n => n.asU64 | _ => none) with
      | none => M.err
      | some threshold =>
          match keysArg with
          | .arr keys => do
              let (count, miss) ← missingSomeFold data threshold keys (0, [])
              pure (.arr (if count ≥ threshold then [] else miss))
          | _ => M.err
  | _ => M.panic

def execData (k : Str) (data : Json) (items : List Json) : M Json :=
  if k = "var".toList then var data items
  else if k = "missing".toList then missing data items
  else if k = "missing_some".toList then missingSome data items
  else M.err

/-! ## loops of the lazy operators over *data* items (the expression is a closure) -/

/-- `values.iter().map(|v| expr.evaluate(v)).collect::<Result<Vec<_>,_>>()` -/
def mapData (f : Json → M Json) : List Json → M (List Json)
  | [] => pure []
  | x :: xs => do
      let y ← f x
      let ys ← mapData f xs
      pure (y :: ys)

/-- the fold of `array::filter` -/
def filterData (f : Json → M Json) : List Json → M (List Json)
  | [] => pure []
  | x :: xs => do
      let p ← f x
      let ys ← filterData f xs
      pure (if truthy p then x :: ys else ys)

/-- the context object `{"accumulator": acc, "current": cur}` (a sorted map) -/
def reduceCtx (acc cur : Json) : Json :=
  .obj [("accumulator".toList, acc), ("current".toList, cur)]

/-- the fold of `array::reduce` -/
def reduceData (f : Json → M Json) : List Json → Json → M Json
  | [], acc => pure acc
  | x :: xs, acc => do
      let acc' ← f (reduceCtx acc x)
      reduceData f xs acc'

/-- the fold of `all` (`isAll = true`, initial state `true`) / `some` (`false`, `false`) over items that
are data; once the state differs from the initial one nothing more is evaluated -/
def quantData (isAll : Bool) (p : Json → M Json) : List Json → Bool → M Bool
  | [], res => pure res
  | i :: is, res =>
      if res != isAll then quantData isAll p is res
      else do
        let r ← p i
        quantData isAll p is (truthy r)

/-- collection of `all`/`some` once it is a value: array, string by characters, null ↦ empty -/
def quantItems : Json → Option (List Json)
  | .arr xs => some xs
  | .str s => some (s.map (fun c => .str [c]))
  | .null => some []
  | _ => none

/-- `all`/`some` on a collection that is already a value (computed, or a non-array literal) -/
def quantValue (isAll : Bool) (coll : Json) (predOk : Bool) (p : Json → M Json) : M Json :=
  match quantItems coll with
  | none => M.err
  | some items =>
      if items.isEmpty then pure (.bool false)
      else if !predOk then M.err
      else do
        let r ← quantData isAll p items isAll
        pure (.bool r)

def isObj : Json → Bool
  | .obj _ => true
  | _ => false

inductive OrState where
  | uninit
  | decided (v : Json)     -- `Truthy(v)` of `or`, `Falsey(v)` of `and`
  | current (v : Json)

/-! ## the two phases -/

mutual
/-- `Parsed::from_value`, success or failure: operator recognised ⇒ operand shape and count validated;
eager and data operators parse their operands recursively, lazy operators keep them raw -/
def check : Json → Bool
  | .obj [(k, v)] =>
      match lookupOp k with
      | none => true
      | some (kind, ar) =>
          match v with
          | .arr xs => ar.isValidLen xs.length && (kind == .lazy || checkList xs)
          | x => ar.canAcceptUnary && ar.isValidLen 1 && (kind == .lazy || check x)
  | _ => true
termination_by structural v => v
def checkList : List Json → Bool
  | [] => true
  | x :: xs => check x && checkList xs
termination_by structural xs => xs
end

mutual
/-- `Parsed::evaluate` on a value that parsed (`check`) -/
def run : Json → Json → M Json
  | .obj [(k, v)], d =>
      match lookupOp k with
      | none => pure (.obj [(k, v)])
      | some (.eager, _) => do
          let items ← (match v with
            | .arr xs => runList xs d
            | x => do let r ← run x d; pure [r])
          execEager k items
      | some (.data, _) => do
          let items ← (match v with
            | .arr xs => runList xs d
            | x => do let r ← run x d; pure [r])
          execData k d items
      | some (.lazy, _) =>
          if k = "if".toList || k = "?:".toList then
            (match v with
             | .arr [] => pure .null
             | .arr [x] => if check x then run x d else M.err
             | .arr xs => runIf xs 0 (.null, false, false) d
             | x => if check x then run x d else M.err)
          else if k = "or".toList then
            (match v with
             | .arr xs => do
                 let st ← runOrAnd true xs .uninit d
                 match st with
                 | .decided r => pure r
                 | .current r => pure r
                 | .uninit => M.err
             | x => if check x then run x d else M.err)
          else if k = "and".toList then
            (match v with
             | .arr xs => do
                 let st ← runOrAnd false xs .uninit d
                 match st with
                 | .decided r => pure r
                 | .current r => pure r
                 | .uninit => M.err
             | x => if check x then run x d else M.err)
          else if k = "map".toList then
            (match v with
             | .arr (c :: e :: _) =>
                 if !check c then M.err else do
                 let cv ← run c d
                 match (match cv with | .arr items => some items | .null => some [] | _ => none) with
                 | none => M.err
                 | some items =>
                     if !check e then M.err else do
                     let rs ← mapData (fun x => run e x) items
                     pure (.arr rs)
             | .arr _ => M.panic
             | _ => M.panic)
          else if k = "filter".toList then
            (match v with
             | .arr (c :: e :: _) =>
                 if !check c then M.err else do
                 let cv ← run c d
                 match (match cv with | .arr items => some items | .null => some [] | _ => none) with
                 | none => M.err
                 | some items =>
                     if !check e then M.err else do
                     let rs ← filterData (fun x => run e x) items
                     pure (.arr rs)
             | .arr _ => M.panic
             | _ => M.panic)
          else if k = "reduce".toList then
            (match v with
             | .arr (c :: e :: i :: _) =>
                 if !check c then M.err else do
                 let cv ← run c d
                 if !check i then M.err else do
                 let iv ← run i d
                 match (match cv with | .arr items => some items | .null => some [] | _ => none) with
                 | none => M.err
                 | some items =>
                     if !check e then M.err else
                     reduceData (fun x => run e x) items iv
             | .arr _ => M.panic
             | _ => M.panic)
          else if k = "all".toList || k = "some".toList || k = "none".toList then
            -- `array::all` / `array::some` (`none` = `some` negated): the first operand decides what the
            -- elements are. A literal array's elements are rule text (evaluated lazily against the outer
            -- data, one by one); an object is evaluated and what it yields is data; anything else is
            -- used as the value it is.
            (match v with
             | .arr (c :: p :: _) =>
                 let isAll : Bool := k = "all".toList
                 let r : M Json :=
                   match c with
                   | .arr xs =>
                       if xs.isEmpty then pure (.bool false)
                       else if !check p then M.err
                       else do
                         let b ← runQuantLit isAll xs (fun x => run p x) d isAll
                         pure (.bool b)
                   | other =>
                       if isObj other then
                         if !check other then M.err else do
                         let cv ← run other d
                         quantValue isAll cv (check p) (fun x => run p x)
                       else quantValue isAll other (check p) (fun x => run p x)
                 if k = "none".toList then do
                   let rv ← r
                   match rv with
                   | .bool b => pure (.bool (!b))
                   | _ => M.err
                 else r
             | .arr _ => M.panic
             | _ => M.panic)
          else M.err
  | r, _ => pure r
termination_by structural r => r

/-- evaluation of the operands of an eager/data operation, left to right -/
def runList : List Json → Json → M (List Json)
  | [], _ => pure []
  | x :: xs, d => do
      let v ← run x d
      let vs ← runList xs d
      pure (v :: vs)
termination_by structural xs => xs

/-- the fold of `logic::if_` for two or more operands: index, (last value, was truthy, should return) -/
def runIf : List Json → Nat → Json × Bool × Bool → Json → M Json
  | [], _, st, _ => pure st.1
  | v :: vs, i, (last, wasTruthy, shouldReturn), d =>
      if shouldReturn then runIf vs (i + 1) (last, wasTruthy, shouldReturn) d
      else if i % 2 == 0 then
        if check v then do
          let e ← run v d
          runIf vs (i + 1) (e, truthy e, false) d
        else M.err
      else if wasTruthy then
        if check v then do
          let t ← run v d
          runIf vs (i + 1) (t, true, true) d
        else M.err
      else runIf vs (i + 1) (.null, wasTruthy, shouldReturn) d
termination_by structural xs => xs

/-- the folds of `logic::or` (`isOr = true`) and `logic::and` (`false`) -/
def runOrAnd (isOr : Bool) : List Json → OrState → Json → M OrState
  | [], st, _ => pure st
  | x :: xs, st, d =>
      match st with
      | .decided r => runOrAnd isOr xs (.decided r) d
      | _ =>
          if check x then do
            let e ← run x d
            runOrAnd isOr xs (if truthy e == isOr then .decided e else .current e) d
          else M.err
termination_by structural xs => xs

/-- the fold of `all`/`some` over the element expressions of a literal array -/
def runQuantLit (isAll : Bool) : List Json → (Json → M Json) → Json → Bool → M Bool
  | [], _, _, res => pure res
  | i :: is, p, d, res =>
      if res != isAll then runQuantLit isAll is p d res
      else if !check i then M.err
      else do
        let iv ← run i d
        let r ← p iv
        runQuantLit isAll is p d (truthy r)
termination_by structural xs => xs
end

/-- `jsonlogic_rs::apply` -/
def apply (rule data : Json) : M Json :=
  if check rule then run rule data else M.err

end JL
