import JL.Dec
/-!
# JSON values as `serde_json` 1.0.151 represents them (no `preserve_order`, no `arbitrary_precision`)

* numbers are `PosInt(u64) | NegInt(i64 < 0) | Float(f64 finite)`;
* objects are `BTreeMap<String, Value>`: keys unique and sorted (by bytes = by code points), which the
  model keeps as a key-sorted association list.
-/
namespace JL

inductive Num where
  | pos (n : Nat)        -- PosInt(n), n < 2^64
  | neg (m : Nat)        -- NegInt(-m), 1 ≤ m ≤ 2^63
  | flt (f : F64)        -- Float(f), f finite
  deriving DecidableEq, Inhabited

inductive Json where
  | null
  | bool (b : Bool)
  | num (n : Num)
  | str (s : Str)
  | arr (xs : List Json)
  | obj (kvs : List (Str × Json))
  deriving Inhabited

namespace Num

/-- `Number::as_f64` -/
def toF64 : Num → F64
  | pos n => F64.ofNat n
  | neg m => F64.ofInt (-(m : Int))
  | flt f => f

/-- `Number::as_i64` -/
def asI64 : Num → Option Int
  | pos n => if n < 2^63 then some n else none
  | neg m => some (-(m : Int))
  | flt _ => none

/-- `Number::as_u64` -/
def asU64 : Num → Option Nat
  | pos n => some n
  | _ => none

/-- `Number::from(i64)` -/
def ofI64 (i : Int) : Num := if i < 0 then neg i.natAbs else pos i.toNat

/-- `Number::from_f64` -/
def ofF64? (f : F64) : Option Num := if f.isFinite then some (flt f) else none

/-- `serde_json::Number: PartialEq` (variant-sensitive; floats by `f64 ==`) -/
def beq : Num → Num → Bool
  | pos a, pos b => a == b
  | neg a, neg b => a == b
  | flt a, flt b => F64.eq a b
  | _, _ => false

/-- `Display for Number` = its JSON text -/
def toStr : Num → Str
  | pos n => natToStr n
  | neg m => '-' :: natToStr m
  | flt f => F64.format f

def WF : Num → Prop
  | pos n => n < 2^64
  | neg m => 1 ≤ m ∧ m ≤ 2^63
  | flt f => f.isFinite = true ∧ F64.WF f

instance : (n : Num) → Decidable (WF n)
  | pos n => inferInstanceAs (Decidable (n < 2^64))
  | neg m => inferInstanceAs (Decidable (1 ≤ m ∧ m ≤ 2^63))
  | flt f => inferInstanceAs (Decidable (f.isFinite = true ∧ F64.WF f))

end Num

namespace Json

/-! ## `serde_json::Value: PartialEq` -/
mutual
def beq : Json → Json → Bool
  | null, null => true
  | bool a, bool b => a == b
  | num a, num b => Num.beq a b
  | str a, str b => a == b
  | arr a, arr b => beqList a b
  | obj a, obj b => beqKvs a b
  | _, _ => false
def beqList : List Json → List Json → Bool
  | [], [] => true
  | a :: as, b :: bs => beq a b && beqList as bs
  | _, _ => false
def beqKvs : List (Str × Json) → List (Str × Json) → Bool
  | [], [] => true
  | (k, a) :: as, (l, b) :: bs => k == l && beq a b && beqKvs as bs
  | _, _ => false
end

/-- `Vec<Value>::contains` -/
def contains (xs : List Json) (x : Json) : Bool := xs.any (fun y => beq y x)

/-- `Map::get` on the sorted association list -/
def lookup (k : Str) : List (Str × Json) → Option Json
  | [] => none
  | (k', v) :: rest => if k' = k then some v else lookup k rest

/-! ## well-formedness: what the text interfaces (and every operator) can deliver -/
def keysSorted : List (Str × Json) → Bool
  | [] => true
  | [_] => true
  | (k₁, _) :: (k₂, v₂) :: rest => strLt k₁ k₂ && keysSorted ((k₂, v₂) :: rest)

mutual
def wf : Json → Bool
  | num n => decide (Num.WF n)
  | arr xs => wfList xs
  | obj kvs => wfKvs kvs && keysSorted kvs
  | _ => true
def wfList : List Json → Bool
  | [] => true
  | x :: xs => wf x && wfList xs
def wfKvs : List (Str × Json) → Bool
  | [] => true
  | (_, v) :: rest => wf v && wfKvs rest
end

/-! ## size and depth -/
mutual
def depth : Json → Nat
  | arr xs => depthList xs + 1
  | obj kvs => depthKvs kvs + 1
  | _ => 0
def depthList : List Json → Nat
  | [] => 0
  | x :: xs => max (depth x) (depthList xs)
def depthKvs : List (Str × Json) → Nat
  | [] => 0
  | (_, v) :: rest => max (depth v) (depthKvs rest)
end

/-! ## JSON text as `serde_json::to_string` writes it (compact, keys in map order) -/
def hexDigitLower (n : Nat) : Char :=
  if n < 10 then Char.ofNat ('0'.toNat + n) else Char.ofNat ('a'.toNat + (n - 10))

def escapeChar (c : Char) : Str :=
  if c = '"' then ['\\', '"']
  else if c = '\\' then ['\\', '\\']
  else if c.toNat = 8 then ['\\', 'b']
  else if c.toNat = 12 then ['\\', 'f']
  else if c = '\n' then ['\\', 'n']
  else if c = '\r' then ['\\', 'r']
  else if c = '\t' then ['\\', 't']
  else if c.toNat < 32 then ['\\', 'u', '0', '0', hexDigitLower (c.toNat / 16), hexDigitLower (c.toNat % 16)]
  else [c]

def serStr (s : Str) : Str := '"' :: (s.flatMap escapeChar) ++ ['"']

mutual
def ser : Json → Str
  | null => "null".toList
  | bool true => "true".toList
  | bool false => "false".toList
  | num n => n.toStr
  | str s => serStr s
  | arr xs => '[' :: serList xs ++ [']']
  | obj kvs => '{' :: serKvs kvs ++ ['}']
def serList : List Json → Str
  | [] => []
  | [x] => ser x
  | x :: y :: rest => ser x ++ ',' :: serList (y :: rest)
def serKvs : List (Str × Json) → Str
  | [] => []
  | [(k, v)] => serStr k ++ ':' :: ser v
  | (k, v) :: kv :: rest => serStr k ++ ':' :: ser v ++ ',' :: serKvs (kv :: rest)
end

end Json
end JL

namespace JL
namespace Json

/-! ## decidable (structural) equality, written by hand: `deriving DecidableEq` does not apply to the nested inductive -/
mutual
def eqb : Json → Json → Bool
  | null, null => true
  | bool a, bool b => a == b
  | num a, num b => decide (a = b)
  | str a, str b => decide (a = b)
  | arr a, arr b => eqbList a b
  | obj a, obj b => eqbKvs a b
  | _, _ => false
def eqbList : List Json → List Json → Bool
  | [], [] => true
  | a :: as, b :: bs => eqb a b && eqbList as bs
  | _, _ => false
def eqbKvs : List (Str × Json) → List (Str × Json) → Bool
  | [], [] => true
  | (k, a) :: as, (l, b) :: bs => decide (k = l) && eqb a b && eqbKvs as bs
  | _, _ => false
end

mutual
theorem eqb_iff : ∀ a b : Json, eqb a b = true ↔ a = b
  | null, b => by cases b <;> simp [eqb]
  | bool x, b => by cases b <;> simp [eqb]
  | num x, b => by cases b <;> simp [eqb]
  | str x, b => by cases b <;> simp [eqb]
  | arr xs, b => by
      cases b <;> simp [eqb]
      exact eqbList_iff xs _
  | obj xs, b => by
      cases b <;> simp [eqb]
      exact eqbKvs_iff xs _
theorem eqbList_iff : ∀ a b : List Json, eqbList a b = true ↔ a = b
  | [], [] => by simp [eqbList]
  | [], _ :: _ => by simp [eqbList]
  | _ :: _, [] => by simp [eqbList]
  | a :: as, b :: bs => by simp [eqbList, eqb_iff a b, eqbList_iff as bs]
theorem eqbKvs_iff : ∀ a b : List (Str × Json), eqbKvs a b = true ↔ a = b
  | [], [] => by simp [eqbKvs]
  | [], _ :: _ => by simp [eqbKvs]
  | _ :: _, [] => by simp [eqbKvs]
  | (k, a) :: as, (l, b) :: bs => by simp [eqbKvs, eqb_iff a b, eqbKvs_iff as bs, and_assoc]
end

instance : DecidableEq Json := fun a b => decidable_of_iff _ (eqb_iff a b)

end Json
end JL
