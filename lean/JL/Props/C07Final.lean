import JL.Props.C07
import JL.Props.C07Num
/-!
# C07 — the two halves joined: `==` is ECMAScript IsLooselyEqual with ECMAScript StringToNumber
-/
namespace JL.Props.C07
open JL Json JsOp JL.Spec

/-- **`==` implements ECMAScript abstract equality on JSON values**: for every pair of JSON values the model of
`abstract_eq` returns what ECMA-262 7.2.14 IsLooselyEqual returns, with strings converted by ECMA-262 StringToNumber
(`ES.stringToNumber`, written from the grammar) — no hypothesis on the operands. -/
theorem abstract_eq_ecmascript (a b : Json) : abstractEq a b = ES.looselyEqual ES.stringToNumber a b :=
  abstract_eq_es_of ES.stringToNumber str_to_number_es a b

/-- `!=` is the exact negation -/
theorem abstract_ne_ecmascript (a b : Json) : abstractNe a b = !ES.looselyEqual ES.stringToNumber a b := by
  rw [ne_not_eq, abstract_eq_ecmascript]

/-- operator level: `{"==":[a,b]}` on evaluated operands -/
theorem op_eq_ecmascript (a b : Json) :
    execEager "==".toList [a, b] = ⟨[], .ok (.bool (ES.looselyEqual ES.stringToNumber a b))⟩ := by
  rw [op_eq, abstract_eq_ecmascript]

end JL.Props.C07
