import JL.Tie.knot
import JL.Props.C01
import JL.Props.C02
import JL.Props.C05
import JL.Props.C14
import JL.Props.C17
/-!
# The headline property theorems, restated about the crate's `apply` as translated from the current source

`JL.Tie.apply : Gen.apply v d = JL.apply v d` (JL/Tie/knot.lean) carries every theorem about the model's `apply` over to
`Gen.apply`, the Lean rendering of `jsonlogic_rs::apply` that `tools/rs2lean.py` regenerates from `/repo` on every run. This file
spells that out for the theorems that are stated directly about `apply`; the remaining property theorems (about `run`, the operator
specifications, the coercion helpers) transfer the same way through the per-function ties of `JL/Tie/`.
-/
namespace JL.Props.Translated
open JL JL.M JL.Props JL.Lemmas.C05 JL.Lemmas.C14

/-- C01: the translated `apply` never panics (no `items[i]` out of bounds, no `unwrap` of `None`) -/
theorem apply_total (r d : Json) : NoPanic (Gen.apply r d) := by
  rw [Tie.apply]; exact C01.apply_total r d

/-- C01: it yields a value or an error value -/
theorem apply_outcome (r d : Json) : (∃ v, (Gen.apply r d).out = .ok v) ∨ (Gen.apply r d).out = .err := by
  rw [Tie.apply]; exact C01.apply_outcome r d

/-- C02: anything that is not an operation is returned unchanged, silently -/
theorem literal_id (v d : Json) (h : C02.isOperation v = false) : Gen.apply v d = ⟨[], .ok v⟩ := by
  rw [Tie.apply]; exact C02.literal_id v d h

/-- C02: an array is never evaluated -/
theorem array_literal_inert (xs : List Json) (d : Json) : Gen.apply (.arr xs) d = ⟨[], .ok (.arr xs)⟩ := by
  rw [Tie.apply]; exact C02.array_literal_inert xs d

/-- C05: `?:` is `if` -/
theorem alias (a d : Json) : Gen.apply (.obj [("?:".toList, a)]) d = Gen.apply (.obj [("if".toList, a)]) d := by
  rw [Tie.apply, Tie.apply]; exact C05.alias a d

/-- C05: `if` / `or` / `and` are their specifications (lazy, left to right, first deciding operand wins) -/
theorem if_apply (xs : List Json) (d : Json) : Gen.apply (.obj [("if".toList, .arr xs)]) d = C05.ifSpec d xs := by
  rw [Tie.apply]; exact C05.if_apply xs d
theorem or_apply (xs : List Json) (d : Json) : Gen.apply (.obj [("or".toList, .arr xs)]) d = C05.orSpec d xs := by
  rw [Tie.apply]; exact C05.or_apply xs d
theorem and_apply (xs : List Json) (d : Json) : Gen.apply (.obj [("and".toList, .arr xs)]) d = C05.andSpec d xs := by
  rw [Tie.apply]; exact C05.and_apply xs d

/-- C14: `all` / `some` are their specifications -/
theorem all_apply (c p d : Json) : Gen.apply (.obj [("all".toList, .arr [c, p])]) d = C14.quantSem C14.allSpec c p d := by
  rw [Tie.apply]; exact C14.all_apply c p d
theorem some_apply (c p d : Json) : Gen.apply (.obj [("some".toList, .arr [c, p])]) d = C14.quantSem C14.someSpec c p d := by
  rw [Tie.apply]; exact C14.some_apply c p d

/-- C17: a literal rule writes nothing -/
theorem literal_silent (r d : Json) (hr : ∀ k v, r ≠ .obj [(k, v)]) : (Gen.apply r d).logs = [] := by
  rw [Tie.apply]; exact C17.literal_silent r d hr

end JL.Props.Translated
