import JL.Lemmas.Monad
import JL.Lemmas.C10
/-!
# C10 — arithmetic yields the exact IEEE-754 double or an error, never a wrong number

Layout of the statement (specification side in `JL/Spec/Arith.lean`):

* **narrowing** (`toNumberValue`, the only way an arithmetic double becomes a JSON value):
  `narrow_spec`, `narrow_exact`, `narrow_integer_spelling`, `narrow_int`, `narrow_flt`, `narrow_wf`,
  `narrow_range`, `narrow_err_iff`;
* **operators** = convert every operand, fold, narrow: `plus_spec`, `times_spec`, `neg_spec`, `minus_spec`,
  `div_spec`, `mod_spec`, `max_spec`, `min_spec`, with `*_none_iff` (error iff an operand is non-numeric),
  `result_err_iff` / `result_ok_iff` (error iff that or a non-finite double; a value is always a number equal
  to the double), `maxOf_isMax`, `minOf_isMin`;
* **conversion tables** `toNumber_*`, `parseFloat_*`; `%` is the truncated remainder (`rem_spec`, `rem_units`);
* "the double is exactly the IEEE-754 result" is definitional in the model (`F64.add` … are *defined* as the
  correctly rounded exact result) and is carried to the code by the bit-level correspondence stream.
-/
namespace JL.Props.C10
open JL Json F64 Spec.Arith

/-! ## narrowing -/

/-- a non-finite result is never returned as a number: it is an error -/
theorem narrow_err (x : F64) (h : x.isFinite = false) : toNumberValue x = none := by
  cases x <;> simp_all [toNumberValue, F64.isFinite, F64.fractIsZero, Num.ofF64?]

/-- a finite result always yields a number -/
theorem narrow_ok (x : F64) (h : x.isFinite = true) : ∃ n, toNumberValue x = some (.num n) := by
  unfold toNumberValue
  split
  · exact ⟨_, rfl⟩
  · split
    · exact ⟨_, rfl⟩
    · simp [Num.ofF64?, h]

/-- an error exactly when the double is not finite -/
theorem narrow_err_iff (x : F64) : toNumberValue x = none ↔ x.isFinite = false := by
  constructor
  · intro h
    cases hf : x.isFinite with
    | false => rfl
    | true => obtain ⟨n, hn⟩ := narrow_ok x hf; rw [hn] at h; cases h
  · exact narrow_err x

/-- the code's narrowing is the specified one (`Spec.Arith.narrow`) -/
theorem narrow_spec (x : F64) : toNumberValue x = (narrow x).map Json.num := toNumberValue_eq_narrow x

/-- whatever is returned is a JSON number -/
theorem narrow_is_num (x : F64) (j : Json) (h : toNumberValue x = some j) : ∃ n, j = .num n := by
  rw [narrow_spec] at h
  cases hn : narrow x with
  | none => rw [hn] at h; cases h
  | some n => rw [hn] at h; cases h; exact ⟨n, rfl⟩

/-- the value (in units of 2^-1074) of the JSON integer `i` is `i · S` -/
theorem units_intNum (i : Int) : Num.units (intNum i) = i * (S : Int) := by
  cases i with
  | ofNat n => rfl
  | negSucc n => simp [Num.units, intNum, Int.negSucc_eq, Int.neg_mul]

theorem narrow_units (x : F64) (n : Num) (h : narrow x = some n) : some (Num.units n) = x.units := by
  unfold narrow at h
  cases hu : x.units with
  | none => rw [hu] at h; cases h
  | some u =>
    rw [hu] at h
    simp only [] at h
    split at h
    · rename_i hc
      cases h
      rw [units_intNum, Int.ediv_mul_cancel hc.1]
    · cases h
      simp [Num.units, hu]

/-- **the returned JSON number is numerically equal to the double**, for every finite double of any
magnitude (−0.0 becomes the integer 0, which is equal as a number) -/
theorem narrow_exact (x : F64) (n : Num) (h : toNumberValue x = some (.num n)) :
    x.isFinite = true ∧ some (Num.units n) = x.units := by
  refine ⟨?_, ?_⟩
  · cases hf : x.isFinite with
    | true => rfl
    | false => rw [narrow_err x hf] at h; cases h
  · rw [narrow_spec] at h
    cases hn : narrow x with
    | none => rw [hn] at h; cases h
    | some m =>
      rw [hn] at h
      have : m = n := by simpa using h
      subst this
      exact narrow_units x m hn

/-- **integer spelling.** A finite double of `u` units (value `u · 2^-1074`):
if it is integral (`S ∣ u`) and `−2^63 ≤ u/S < 2^64`, the result is the JSON integer `u/S` itself — `PosInt`
or `NegInt`, never clamped or wrapped; otherwise (fractional, or integral outside that range) it is the
double itself as a JSON float. -/
theorem narrow_integer_spelling (x : F64) (u : Int) (hx : x.units = some u) :
    ((S : Int) ∣ u ∧ Fits64 (u / (S : Int)) →
        toNumberValue x = some (.num (intNum (u / (S : Int)))) ∧ Num.units (intNum (u / (S : Int))) = u) ∧
    (¬ ((S : Int) ∣ u ∧ Fits64 (u / (S : Int))) → toNumberValue x = some (.num (.flt x))) := by
  rw [narrow_spec]
  unfold narrow
  rw [hx]
  constructor
  · intro hc
    refine ⟨by simp only []; rw [if_pos hc]; rfl, ?_⟩
    rw [units_intNum, Int.ediv_mul_cancel hc.1]
  · intro hc
    simp only []; rw [if_neg hc]; rfl

/-- the integer `i` with `−2^63 ≤ i < 2^64`, held by a double, comes back as the JSON integer `i` -/
theorem narrow_int (x : F64) (i : Int) (hx : x.units = some (i * (S : Int))) (hi : Fits64 i) :
    toNumberValue x = some (.num (intNum i)) := by
  have hS : (S : Int) ≠ 0 := Int.ne_of_gt S_posI
  have e : i * (S : Int) / (S : Int) = i := Int.mul_ediv_cancel _ hS
  have := (narrow_integer_spelling x _ hx).1 ⟨Int.dvd_mul_left _ _, by rw [e]; exact hi⟩
  rw [e] at this
  exact this.1

/-- a finite double that is not an integer of the 64-bit range comes back as itself -/
theorem narrow_flt (x : F64) (u : Int) (hx : x.units = some u)
    (h : ¬ ∃ i : Int, u = i * (S : Int) ∧ Fits64 i) : toNumberValue x = some (.num (.flt x)) := by
  apply (narrow_integer_spelling x u hx).2
  intro hc
  exact h ⟨u / (S : Int), (Int.ediv_mul_cancel hc.1).symm, hc.2⟩

/-- `PosInt` for `0 ≤ i`, `NegInt` for `i < 0`, holding exactly `i` -/
theorem intNum_nonneg (i : Int) (h : 0 ≤ i) : intNum i = .pos i.toNat := by
  cases i with
  | ofNat n => rfl
  | negSucc n => exact absurd h (by simp)

theorem intNum_neg (i : Int) (h : i < 0) : intNum i = .neg i.natAbs := by
  cases i with
  | ofNat n => exact absurd h (by simp)
  | negSucc n => rfl

theorem intNum_wf (i : Int) (h : Fits64 i) : Num.WF (intNum i) := by
  obtain ⟨h1, h2⟩ := h
  cases i with
  | ofNat n =>
    change (n : Int) < 2 ^ 64 at h2
    simp only [intNum, Num.WF]; omega
  | negSucc n => simp only [intNum, Num.WF]; rw [Int.negSucc_eq] at h1; omega

/-- range facts of the result: a `PosInt` is a `u64`, a `NegInt` is a negative `i64` (no hypothesis on `x`) -/
theorem narrow_range (x : F64) :
    (∀ n, toNumberValue x = some (.num (.pos n)) → n < 2 ^ 64) ∧
    (∀ m, toNumberValue x = some (.num (.neg m)) → 1 ≤ m ∧ m ≤ 2 ^ 63) ∧
    (∀ f, toNumberValue x = some (.num (.flt f)) → f = x ∧ x.isFinite = true) := by
  have key : ∀ n, toNumberValue x = some (.num n) →
      (∃ i, Fits64 i ∧ n = intNum i) ∨ (n = .flt x ∧ x.isFinite = true) := by
    intro n h
    have hfin := (narrow_exact x n h).1
    rw [narrow_spec] at h
    unfold narrow at h
    cases hu : x.units with
    | none => rw [hu] at h; cases h
    | some u =>
      rw [hu] at h
      simp only [] at h
      split at h
      · rename_i hc
        left; exact ⟨_, hc.2, by simpa using h.symm⟩
      · right; exact ⟨by simpa using h.symm, hfin⟩
  refine ⟨fun n h => ?_, fun m h => ?_, fun f h => ?_⟩
  · rcases key _ h with ⟨i, hi, e⟩ | ⟨e, _⟩
    · have := intNum_wf i hi; rw [← e] at this; exact this
    · cases e
  · rcases key _ h with ⟨i, hi, e⟩ | ⟨e, _⟩
    · have := intNum_wf i hi; rw [← e] at this; exact this
    · cases e
  · rcases key _ h with ⟨i, hi, e⟩ | ⟨e, hf⟩
    · cases i <;> cases e
    · cases e; exact ⟨rfl, hf⟩

/-- the result of narrowing an actual binary64 (`F64.WF`) is a well-formed `serde_json::Number` -/
theorem narrow_wf (x : F64) (hx : F64.WF x) (n : Num) (h : toNumberValue x = some (.num n)) : Num.WF n := by
  obtain ⟨hp, hn, hf⟩ := narrow_range x
  cases n with
  | pos n => exact hp n h
  | neg m => exact hn m h
  | flt f => obtain ⟨e, hfin⟩ := hf f h; subst e; exact ⟨hfin, hx⟩

/-! ## operators: convert, fold, narrow -/

/-- `numResult` (helper result through `to_number_value`) is the specified `result` -/
theorem numResult_eq_result (r : Option F64) : numResult r = result r := by
  unfold numResult result
  cases r with
  | none => rfl
  | some x =>
    simp only [narrow_spec]
    cases narrow x <;> rfl

/-- an arithmetic operator returns an error, never a number, exactly when the conversion failed or the double
is not finite -/
theorem result_err_iff (r : Option F64) :
    result r = M.err ↔ r = none ∨ ∃ x, r = some x ∧ x.isFinite = false := by
  cases r with
  | none => simp [result]
  | some x =>
    have h1 := narrow_err_iff x
    rw [narrow_spec] at h1
    cases hn : narrow x with
    | none =>
      have : x.isFinite = false := h1.mp (by rw [hn]; rfl)
      simp [result, hn, this]
    | some n =>
      have : ¬ x.isFinite = false := fun c => by have := h1.mpr c; rw [hn] at this; cases this
      simp [result, hn, this]

/-- an arithmetic operator returns a value exactly when all conversions succeeded and the double `x` is finite;
the value is then a JSON number numerically equal to `x`, spelled as `narrow` says; nothing is logged -/
theorem result_ok_iff (r : Option F64) (l : List Json) (j : Json) :
    result r = ⟨l, .ok j⟩ ↔ l = [] ∧ ∃ x n, r = some x ∧ narrow x = some n ∧ j = .num n := by
  cases r with
  | none => simp [result]
  | some x =>
    cases hn : narrow x with
    | none => simp [result, hn]
    | some n =>
      simp [result, hn]
      intro _; exact eq_comm

theorem result_ok_exact (r : Option F64) (l : List Json) (j : Json) (h : result r = ⟨l, .ok j⟩) :
    ∃ x n, r = some x ∧ j = .num n ∧ x.isFinite = true ∧ some (Num.units n) = x.units := by
  obtain ⟨_, x, n, hr, hn, hj⟩ := (result_ok_iff r l j).mp h
  have h2 : toNumberValue x = some (.num n) := by rw [narrow_spec, hn]; rfl
  exact ⟨x, n, hr, hj, narrow_exact x n h2⟩

/-- never a panic, never anything but `ok number` / `err` -/
theorem result_total (r : Option F64) : result r = M.err ∨ ∃ n, result r = Pure.pure (.num n) := by
  cases r with
  | none => left; rfl
  | some x =>
    cases hn : narrow x with
    | none => left; simp [result, hn]
    | some n => right; exact ⟨n, by simp [result, hn]⟩

/-- `+` folds from 0 and `*` from 1 (operator level) -/
theorem plus_empty : execEager "+".toList [] = ⟨[], .ok (.num (.pos 0))⟩ := by decide +kernel
theorem op_plus (items : List Json) : execEager "+".toList items = numResult (JsOp.parseFloatAdd items) := by simp [execEager]
theorem op_mul (items : List Json) : execEager "*".toList items = numResult (JsOp.parseFloatMul items) := by simp [execEager]
theorem op_neg (a : Json) : execEager "-".toList [a] = numResult (JsOp.toNegative a) := by simp [execEager]
theorem op_minus (a b : Json) : execEager "-".toList [a, b] = numResult (JsOp.abstractMinus a b) := by simp [execEager]

/-- `parse_float_add` is "convert all by `parseFloat`, then sum left to right from +0" -/
theorem parseFloatAdd_eq (items : List Json) : JsOp.parseFloatAdd items = plus items := by
  unfold JsOp.parseFloatAdd plus
  exact foldlM_conv JsOp.parseFloat F64.add _ (fun acc v => by cases JsOp.parseFloat v <;> rfl) items F64.zero

theorem parseFloatMul_eq (items : List Json) : JsOp.parseFloatMul items = times items := by
  unfold JsOp.parseFloatMul times
  exact foldlM_conv JsOp.parseFloat F64.mul _ (fun acc v => by cases JsOp.parseFloat v <;> rfl) items F64.one

/-- `{"+": items}` -/
theorem plus_spec (items : List Json) : execEager "+".toList items = result (plus items) := by
  rw [op_plus, numResult_eq_result, parseFloatAdd_eq]

/-- `{"*": items}` -/
theorem times_spec (items : List Json) : execEager "*".toList items = result (times items) := by
  rw [op_mul, numResult_eq_result, parseFloatMul_eq]

theorem plus_none_iff (items : List Json) : plus items = none ↔ ∃ v ∈ items, JsOp.parseFloat v = none := by
  unfold plus; rw [Option.map_eq_none_iff]; exact mapM_eq_none_iff _ _

theorem times_none_iff (items : List Json) : times items = none ↔ ∃ v ∈ items, JsOp.parseFloat v = none := by
  unfold times; rw [Option.map_eq_none_iff]; exact mapM_eq_none_iff _ _

theorem plus_some (items : List Json) (ns : List F64) (h : items.map JsOp.parseFloat = ns.map some) :
    plus items = some (ns.foldl F64.add F64.zero) := by
  unfold plus; rw [(mapM_eq_some_iff _ _ _).mpr h]; rfl

theorem times_some (items : List Json) (ns : List F64) (h : items.map JsOp.parseFloat = ns.map some) :
    times items = some (ns.foldl F64.mul F64.one) := by
  unfold times; rw [(mapM_eq_some_iff _ _ _).mpr h]; rfl

/-- `{"+": items}` is an error exactly when an operand has no numeric prefix or the sum is not finite -/
theorem plus_err_iff (items : List Json) :
    execEager "+".toList items = M.err ↔
      (∃ v ∈ items, JsOp.parseFloat v = none) ∨
      (∃ ns : List F64, items.map JsOp.parseFloat = ns.map some ∧ (ns.foldl F64.add F64.zero).isFinite = false) := by
  rw [plus_spec, result_err_iff, plus_none_iff]
  constructor
  · rintro (h | ⟨x, hx, hf⟩)
    · exact Or.inl h
    · right
      unfold plus at hx
      cases hm : items.mapM JsOp.parseFloat with
      | none => rw [hm] at hx; cases hx
      | some ns =>
        rw [hm] at hx; cases hx
        exact ⟨ns, (mapM_eq_some_iff _ _ _).mp hm, hf⟩
  · rintro (h | ⟨ns, hns, hf⟩)
    · exact Or.inl h
    · exact Or.inr ⟨_, plus_some items ns hns, hf⟩

theorem times_err_iff (items : List Json) :
    execEager "*".toList items = M.err ↔
      (∃ v ∈ items, JsOp.parseFloat v = none) ∨
      (∃ ns : List F64, items.map JsOp.parseFloat = ns.map some ∧ (ns.foldl F64.mul F64.one).isFinite = false) := by
  rw [times_spec, result_err_iff, times_none_iff]
  constructor
  · rintro (h | ⟨x, hx, hf⟩)
    · exact Or.inl h
    · right
      unfold times at hx
      cases hm : items.mapM JsOp.parseFloat with
      | none => rw [hm] at hx; cases hx
      | some ns =>
        rw [hm] at hx; cases hx
        exact ⟨ns, (mapM_eq_some_iff _ _ _).mp hm, hf⟩
  · rintro (h | ⟨ns, hns, hf⟩)
    · exact Or.inl h
    · exact Or.inr ⟨_, times_some items ns hns, hf⟩

/-! ### one-operand `-` -/

/-- `-1.0 * x` is the sign flip of `x` for every binary64 `x`, NaN, ±∞ and ±0 included -/
theorem neg_one_mul_eq_negate (x : F64) (hx : F64.WF x) : F64.mul (F64.fin true S) x = F64.negate x :=
  F64.neg_one_mul x hx

/-- every JSON value the interfaces can deliver converts to an actual binary64 -/
theorem toNumber_wf (v : Json) (hv : v.wf = true) (x : F64) (h : JsOp.toNumber v = some x) : F64.WF x :=
  JsOp.toNumber_WF v hv x h

theorem parseFloat_wf (v : Json) (hv : v.wf = true) (x : F64) (h : JsOp.parseFloat v = some x) : F64.WF x :=
  JsOp.parseFloat_WF v hv x h

theorem toNegative_eq (a : Json) (ha : a.wf = true) : JsOp.toNegative a = neg a := by
  unfold JsOp.toNegative neg
  cases h : JsOp.toNumber a with
  | none => rfl
  | some x => simp [F64.neg_one_mul x (JsOp.toNumber_WF a ha x h)]

/-- `{"-": [a]}` is the negation of `Number(a)` -/
theorem neg_spec (a : Json) (ha : a.wf = true) : execEager "-".toList [a] = result (neg a) := by
  rw [op_neg, numResult_eq_result, toNegative_eq a ha]

theorem neg_none_iff (a : Json) : neg a = none ↔ JsOp.toNumber a = none := by
  unfold neg; exact Option.map_eq_none_iff

/-! ### `-`, `/`, `%` on two operands -/

theorem abstractMinus_eq (a b : Json) : JsOp.abstractMinus a b = binary F64.sub a b := by
  unfold JsOp.abstractMinus binary
  cases JsOp.toNumber a <;> cases JsOp.toNumber b <;> rfl

theorem abstractDiv_eq (a b : Json) : JsOp.abstractDiv a b = binary F64.div a b := by
  unfold JsOp.abstractDiv binary
  cases JsOp.toNumber a <;> cases JsOp.toNumber b <;> rfl

theorem abstractMod_eq (a b : Json) : JsOp.abstractMod a b = binary F64.rem a b := by
  unfold JsOp.abstractMod binary
  cases JsOp.toNumber a <;> cases JsOp.toNumber b <;> rfl

/-- `{"-": [a, b]}` (a third operand cannot pass the arity check `1..3`) -/
theorem minus_spec (a b : Json) (rest : List Json) :
    execEager "-".toList (a :: b :: rest) = result (binary F64.sub a b) := by
  have : execEager "-".toList (a :: b :: rest) = numResult (JsOp.abstractMinus a b) := by simp [execEager]
  rw [this, numResult_eq_result, abstractMinus_eq]

/-- `{"/": [a, b]}` -/
theorem div_spec (a b : Json) (rest : List Json) :
    execEager "/".toList (a :: b :: rest) = result (binary F64.div a b) := by
  have : execEager "/".toList (a :: b :: rest) = numResult (JsOp.abstractDiv a b) := by simp [execEager]
  rw [this, numResult_eq_result, abstractDiv_eq]

/-- `{"%": [a, b]}` -/
theorem mod_spec (a b : Json) (rest : List Json) :
    execEager "%".toList (a :: b :: rest) = result (binary F64.rem a b) := by
  have : execEager "%".toList (a :: b :: rest) = numResult (JsOp.abstractMod a b) := by simp [execEager]
  rw [this, numResult_eq_result, abstractMod_eq]

/-- a binary operator fails to convert exactly when one of the two operands is non-numeric -/
theorem binary_none_iff (op : F64 → F64 → F64) (a b : Json) :
    binary op a b = none ↔ JsOp.toNumber a = none ∨ JsOp.toNumber b = none := by
  unfold binary
  cases JsOp.toNumber a <;> cases JsOp.toNumber b <;> simp

theorem binary_some (op : F64 → F64 → F64) (a b : Json) (x y : F64)
    (ha : JsOp.toNumber a = some x) (hb : JsOp.toNumber b = some y) : binary op a b = some (op x y) := by
  unfold binary; rw [ha, hb]; rfl

/-- `%` is the truncated remainder (C `fmod`): exact, sign of the dividend -/
theorem rem_spec (a b : Bool) (x y : Nat) (hy : y ≠ 0) :
    F64.rem (F64.fin a x) (F64.fin b y) = F64.fin a (x % y) := F64.rem_fin a b x y hy

/-- … in exact values: the remainder of the division truncated toward zero (`Int.tmod`), no rounding -/
theorem rem_units (X Y : F64) (ux uy : Int) (hx : X.units = some ux) (hy : Y.units = some uy) (h0 : uy ≠ 0) :
    (F64.rem X Y).units = some (ux.tmod uy) := by
  cases X with
  | nan => cases hx
  | inf a => cases hx
  | fin a x =>
    cases Y with
    | nan => cases hy
    | inf b => cases hy
    | fin b y =>
      have hy0 : y ≠ 0 := by
        intro e; subst e
        cases b <;> simp [F64.units] at hy <;> exact h0 hy.symm
      rw [F64.rem_fin a b x y hy0]
      cases a <;> cases b <;> simp only [F64.units, Option.some.injEq] at hx hy ⊢ <;> subst hx <;> subst hy <;>
        simp only [Int.neg_tmod, Int.tmod_neg, Int.ofNat_tmod]

/-! ### `max` / `min` -/

theorem abstractMax_eq (items : List Json) : JsOp.abstractMax items = maxOf items := by
  unfold JsOp.abstractMax maxOf
  exact foldlM_conv JsOp.toNumber fmax _ (fun acc v => by cases JsOp.toNumber v <;> rfl) items (F64.inf true)

theorem abstractMin_eq (items : List Json) : JsOp.abstractMin items = minOf items := by
  unfold JsOp.abstractMin minOf
  exact foldlM_conv JsOp.toNumber fmin _ (fun acc v => by cases JsOp.toNumber v <;> rfl) items (F64.inf false)

/-- `{"max": items}` -/
theorem max_spec (items : List Json) : execEager "max".toList items = result (maxOf items) := by
  have : execEager "max".toList items = numResult (JsOp.abstractMax items) := by simp [execEager]
  rw [this, numResult_eq_result, abstractMax_eq]

/-- `{"min": items}` -/
theorem min_spec (items : List Json) : execEager "min".toList items = result (minOf items) := by
  have : execEager "min".toList items = numResult (JsOp.abstractMin items) := by simp [execEager]
  rw [this, numResult_eq_result, abstractMin_eq]

theorem maxOf_none_iff (items : List Json) : maxOf items = none ↔ ∃ v ∈ items, JsOp.toNumber v = none := by
  unfold maxOf; rw [Option.map_eq_none_iff]; exact mapM_eq_none_iff _ _

theorem minOf_none_iff (items : List Json) : minOf items = none ↔ ∃ v ∈ items, JsOp.toNumber v = none := by
  unfold minOf; rw [Option.map_eq_none_iff]; exact mapM_eq_none_iff _ _

/-- the double computed by `max` is a maximum of the converted operands: no operand is greater and it is one of
them (−∞ only if there is nothing to take) -/
theorem maxOf_isMax (items : List Json) (m : F64) (h : maxOf items = some m) :
    ∃ ns, items.map JsOp.toNumber = ns.map some ∧ IsMax m ns := by
  unfold maxOf at h
  cases hm : items.mapM JsOp.toNumber with
  | none => rw [hm] at h; cases h
  | some ns =>
    rw [hm] at h; cases h
    exact ⟨ns, (mapM_eq_some_iff _ _ _).mp hm, isMax_foldl ns⟩

theorem minOf_isMin (items : List Json) (m : F64) (h : minOf items = some m) :
    ∃ ns, items.map JsOp.toNumber = ns.map some ∧ IsMin m ns := by
  unfold minOf at h
  cases hm : items.mapM JsOp.toNumber with
  | none => rw [hm] at h; cases h
  | some ns =>
    rw [hm] at h; cases h
    exact ⟨ns, (mapM_eq_some_iff _ _ _).mp hm, isMin_foldl ns⟩

/-- with at least one operand (the arity of `max`) and no NaN among the converted operands, the maximum is one of
them and `≥` each -/
theorem maxOf_attained (items : List Json) (m : F64) (h : maxOf items = some m) (hne : items ≠ [])
    (hnan : ∀ v ∈ items, ∀ x, JsOp.toNumber v = some x → x.isNaN = false) :
    (∃ v ∈ items, JsOp.toNumber v = some m) ∧ ∀ v ∈ items, ∃ x, JsOp.toNumber v = some x ∧ F64.le x m = true := by
  obtain ⟨ns, hns, hmax⟩ := maxOf_isMax items m h
  have hmem : ∀ n, n ∈ ns ↔ ∃ v ∈ items, JsOp.toNumber v = some n := by
    intro n
    have : some n ∈ ns.map some ↔ n ∈ ns := by simp
    rw [← this, ← hns]; simp
  have hne' : ns ≠ [] := by
    intro e; subst e; cases items with
    | nil => exact hne rfl
    | cons _ _ => simp at hns
  have hnan' : ∀ n ∈ ns, n.isNaN = false := by
    intro n hn; obtain ⟨v, hv, e⟩ := (hmem n).mp hn; exact hnan v hv n e
  obtain ⟨h1, h2⟩ := isMax_strong hmax hne' hnan'
  refine ⟨(hmem m).mp h1, fun v hv => ?_⟩
  have : JsOp.toNumber v ∈ ns.map some := by rw [← hns]; exact List.mem_map_of_mem hv
  obtain ⟨x, hx, e⟩ := List.mem_map.mp this
  exact ⟨x, e.symm, h2 x hx⟩

theorem minOf_attained (items : List Json) (m : F64) (h : minOf items = some m) (hne : items ≠ [])
    (hnan : ∀ v ∈ items, ∀ x, JsOp.toNumber v = some x → x.isNaN = false) :
    (∃ v ∈ items, JsOp.toNumber v = some m) ∧ ∀ v ∈ items, ∃ x, JsOp.toNumber v = some x ∧ F64.le m x = true := by
  obtain ⟨ns, hns, hmin⟩ := minOf_isMin items m h
  have hmem : ∀ n, n ∈ ns ↔ ∃ v ∈ items, JsOp.toNumber v = some n := by
    intro n
    have : some n ∈ ns.map some ↔ n ∈ ns := by simp
    rw [← this, ← hns]; simp
  have hne' : ns ≠ [] := by
    intro e; subst e; cases items with
    | nil => exact hne rfl
    | cons _ _ => simp at hns
  have hnan' : ∀ n ∈ ns, n.isNaN = false := by
    intro n hn; obtain ⟨v, hv, e⟩ := (hmem n).mp hn; exact hnan v hv n e
  obtain ⟨h1, h2⟩ := isMin_strong hmin hne' hnan'
  refine ⟨(hmem m).mp h1, fun v hv => ?_⟩
  have : JsOp.toNumber v ∈ ns.map some := by rw [← hns]; exact List.mem_map_of_mem hv
  obtain ⟨x, hx, e⟩ := List.mem_map.mp this
  exact ⟨x, e.symm, h2 x hx⟩

/-- error iff an operand is non-numeric or the double is not finite, for the two-operand operators -/
theorem binary_err_iff (op : F64 → F64 → F64) (a b : Json) :
    result (binary op a b) = M.err ↔
      JsOp.toNumber a = none ∨ JsOp.toNumber b = none ∨
      ∃ x y, JsOp.toNumber a = some x ∧ JsOp.toNumber b = some y ∧ (op x y).isFinite = false := by
  rw [result_err_iff, binary_none_iff]
  constructor
  · rintro ((h | h) | ⟨z, hz, hf⟩)
    · exact Or.inl h
    · exact Or.inr (Or.inl h)
    · cases ha : JsOp.toNumber a with
      | none => exact Or.inl rfl
      | some x =>
        cases hb : JsOp.toNumber b with
        | none => exact Or.inr (Or.inl rfl)
        | some y =>
          rw [binary_some op a b x y ha hb] at hz
          cases hz
          exact Or.inr (Or.inr ⟨x, y, rfl, rfl, hf⟩)
  · rintro (h | h | ⟨x, y, ha, hb, hf⟩)
    · exact Or.inl (Or.inl h)
    · exact Or.inl (Or.inr h)
    · exact Or.inr ⟨_, binary_some op a b x y ha hb, hf⟩

/-- `max` is an error iff an operand is non-numeric (the maximum of finite numbers is finite; `"Infinity"`
converts to +∞ and then makes the result an error too) -/
theorem max_err_iff (items : List Json) :
    execEager "max".toList items = M.err ↔
      (∃ v ∈ items, JsOp.toNumber v = none) ∨ ∃ m, maxOf items = some m ∧ m.isFinite = false := by
  rw [max_spec, result_err_iff, maxOf_none_iff]

theorem min_err_iff (items : List Json) :
    execEager "min".toList items = M.err ↔
      (∃ v ∈ items, JsOp.toNumber v = none) ∨ ∃ m, minOf items = some m ∧ m.isFinite = false := by
  rw [min_spec, result_err_iff, minOf_none_iff]

/-! ## all seven operators in one statement -/

/-- **C10, operator level.** For each of `+ - * / % min max`, on every operand list its arity admits (operands
being values the interfaces can deliver), the operator returns `result (arith k items)`: the specified double
(conversion by `parseFloat` / `Number`, IEEE fold) narrowed to a JSON number, or an error. -/
theorem arith_spec (k : String) (hk : k ∈ ["+", "-", "*", "/", "%", "min", "max"]) (items : List Json)
    (hwf : ∀ v ∈ items, v.wf = true)
    (harity : ∃ e, findEntry k.toList Tables.eager = some e ∧ e.arity.isValidLen items.length = true) :
    execEager k.toList items = result (arith k items) := by
  obtain ⟨e, he, hl⟩ := harity
  simp only [List.mem_cons, List.not_mem_nil, or_false] at hk
  rcases hk with rfl | rfl | rfl | rfl | rfl | rfl | rfl
  · rw [plus_spec]; rfl
  · have : findEntry "-".toList Tables.eager = some ⟨"-".toList, "-".toList, .variadic 1 3⟩ := by
      decide +kernel
    rw [this] at he; cases he
    rcases items with _ | ⟨a, _ | ⟨b, rest⟩⟩
    · simp [Arity.isValidLen] at hl
    · rw [neg_spec a (hwf a List.mem_cons_self)]; rfl
    · rw [minus_spec]; rfl
  · rw [times_spec]; rfl
  · have : findEntry "/".toList Tables.eager = some ⟨"/".toList, "/".toList, .exactly 2⟩ := by
      decide +kernel
    rw [this] at he; cases he
    rcases items with _ | ⟨a, _ | ⟨b, rest⟩⟩
    · simp [Arity.isValidLen] at hl
    · simp [Arity.isValidLen] at hl
    · rw [div_spec]; rfl
  · have : findEntry "%".toList Tables.eager = some ⟨"%".toList, "%".toList, .exactly 2⟩ := by
      decide +kernel
    rw [this] at he; cases he
    rcases items with _ | ⟨a, _ | ⟨b, rest⟩⟩
    · simp [Arity.isValidLen] at hl
    · simp [Arity.isValidLen] at hl
    · rw [mod_spec]; rfl
  · rw [min_spec]; rfl
  · rw [max_spec]; rfl

/-- … hence: never a panic; an error exactly when a conversion fails or the double is not finite; otherwise a JSON
number numerically equal to the double, an integer variant iff the double is an integer of the 64-bit range -/
theorem arith_outcome (k : String) (hk : k ∈ ["+", "-", "*", "/", "%", "min", "max"]) (items : List Json)
    (hwf : ∀ v ∈ items, v.wf = true)
    (harity : ∃ e, findEntry k.toList Tables.eager = some e ∧ e.arity.isValidLen items.length = true) :
    (execEager k.toList items = M.err ∧
        (arith k items = none ∨ ∃ x, arith k items = some x ∧ x.isFinite = false)) ∨
    (∃ x n, arith k items = some x ∧ x.isFinite = true ∧ narrow x = some n ∧
        execEager k.toList items = Pure.pure (.num n) ∧ some (Num.units n) = x.units) := by
  rw [arith_spec k hk items hwf harity]
  cases hr : arith k items with
  | none => left; exact ⟨rfl, Or.inl rfl⟩
  | some x =>
    cases hn : narrow x with
    | none =>
      left
      have : result (some x) = M.err := by simp [result, hn]
      refine ⟨this, Or.inr ⟨x, rfl, ?_⟩⟩
      rcases (result_err_iff (some x)).mp this with h | ⟨y, hy, hf⟩
      · cases h
      · cases hy; exact hf
    | some n =>
      right
      have h2 : toNumberValue x = some (.num n) := by rw [narrow_spec, hn]; rfl
      exact ⟨x, n, rfl, (narrow_exact x n h2).1, hn, by simp [result, hn], (narrow_exact x n h2).2⟩

/-! ## conversion tables -/

/-- Number-style: `""`, `null`, `false`, `[]` are +0 and `true` is 1 -/
theorem toNumber_empty_string : JsOp.toNumber (.str []) = some F64.zero := by decide +kernel
theorem toNumber_null : JsOp.toNumber .null = some F64.zero := rfl
theorem toNumber_false : JsOp.toNumber (.bool false) = some F64.zero := rfl
theorem toNumber_true : JsOp.toNumber (.bool true) = some F64.one := rfl
theorem toNumber_empty_array : JsOp.toNumber (.arr []) = some F64.zero := by decide +kernel
/-- a JSON number is its own double (`as_f64`) -/
theorem toNumber_num (n : Num) : JsOp.toNumber (.num n) = some n.toF64 := rfl
/-- a string is read by `str_to_number` (JS `Number(string)`) -/
theorem toNumber_str (s : Str) : JsOp.toNumber (.str s) = JsOp.strToNumber s := rfl
/-- arrays and objects go through their string form -/
theorem toNumber_arr (xs : List Json) : JsOp.toNumber (.arr xs) = JsOp.strToNumber (JsOp.toString (.arr xs)) := rfl
theorem toString_obj (kvs : List (Str × Json)) : JsOp.toString (.obj kvs) = "[object Object]".toList := by
  unfold JsOp.toString; rfl
/-- the string form of a one-element array is the string form of the element (`""` for `[null]`) -/
theorem toString_singleton (x : Json) (hx : x ≠ .null) : JsOp.toString (.arr [x]) = JsOp.toString x := by
  cases x with
  | null => exact absurd rfl hx
  | bool b => rfl
  | num n => rfl
  | str s => rfl
  | arr ys => rfl
  | obj kvs => rfl
theorem toNumber_obj (kvs : List (Str × Json)) : JsOp.toNumber (.obj kvs) = none := by
  show JsOp.strToNumber (JsOp.toString (.obj kvs)) = none
  rw [toString_obj]
  decide +kernel

/-- `[x]` is `x`: the one-element array converts as the string form of its element (`[null]` as `""`) -/
theorem toNumber_singleton_null : JsOp.toNumber (.arr [.null]) = some F64.zero := by decide +kernel
theorem toNumber_singleton (x : Json) (hx : x ≠ .null) :
    JsOp.toNumber (.arr [x]) = JsOp.strToNumber (JsOp.toString x) := by
  rw [toNumber_arr, toString_singleton x hx]
theorem toNumber_singleton_str (s : Str) : JsOp.toNumber (.arr [.str s]) = JsOp.toNumber (.str s) := by
  rw [toNumber_singleton _ (by simp)]; rfl
theorem toNumber_singleton_arr (ys : List Json) : JsOp.toNumber (.arr [.arr ys]) = JsOp.toNumber (.arr ys) := by
  rw [toNumber_singleton _ (by simp)]; rfl
theorem toNumber_singleton_num (n : Num) : JsOp.toNumber (.arr [.num n]) = JsOp.strToNumber n.toStr := by
  rw [toNumber_singleton _ (by simp)]; rfl
/-- `[true]`, `[false]`, `[{…}]` are non-numeric (`Number("true")` is NaN) -/
theorem toNumber_singleton_bool (b : Bool) : JsOp.toNumber (.arr [.bool b]) = none := by
  cases b <;> decide +kernel
theorem toNumber_singleton_obj (kvs : List (Str × Json)) : JsOp.toNumber (.arr [.obj kvs]) = none := by
  rw [toNumber_singleton _ (by simp), toString_obj]; decide +kernel

/-- parseFloat-style: a JSON number is its own double, anything else is scanned as its string form -/
theorem parseFloat_num (n : Num) : JsOp.parseFloat (.num n) = some n.toF64 := rfl
theorem parseFloat_str (s : Str) : JsOp.parseFloat (.str s) = JsOp.parseFloatString s := rfl
theorem parseFloat_other (v : Json) (h1 : ∀ n, v ≠ .num n) (h2 : ∀ s, v ≠ .str s) :
    JsOp.parseFloat v = JsOp.parseFloatString (JsOp.toString v) := by
  cases v with
  | num n => exact absurd rfl (h1 n)
  | str s => exact absurd rfl (h2 s)
  | null => rfl
  | bool b => rfl
  | arr xs => rfl
  | obj kvs => rfl
theorem parseFloat_singleton (x : Json) (hx : x ≠ .null) :
    JsOp.parseFloat (.arr [x]) = JsOp.parseFloatString (JsOp.toString x) := by
  show JsOp.parseFloatString (JsOp.toString (.arr [x])) = _
  rw [toString_singleton x hx]
theorem parseFloat_singleton_str (s : Str) : JsOp.parseFloat (.arr [.str s]) = JsOp.parseFloat (.str s) := by
  rw [parseFloat_singleton _ (by simp)]; rfl
/-- `null`, booleans, `[]`, `""` and objects have no numeric prefix: `+` and `*` reject them -/
theorem parseFloat_null : JsOp.parseFloat .null = none := by decide +kernel
theorem parseFloat_bool (b : Bool) : JsOp.parseFloat (.bool b) = none := by cases b <;> decide +kernel
theorem parseFloat_empty_array : JsOp.parseFloat (.arr []) = none := by decide +kernel
theorem parseFloat_empty_string : JsOp.parseFloat (.str []) = none := by decide +kernel
theorem parseFloat_obj (kvs : List (Str × Json)) : JsOp.parseFloat (.obj kvs) = none := by
  show JsOp.parseFloatString (JsOp.toString (.obj kvs)) = none
  rw [toString_obj]; decide +kernel

/-! ## IEEE facts used above, restated -/

theorem add_comm (x y : F64) : F64.add x y = F64.add y x := F64.add_comm x y
theorem mul_comm (x y : F64) : F64.mul x y = F64.mul y x := F64.mul_comm x y
/-- every arithmetic operation returns an actual binary64 -/
theorem ops_wf (x y : F64) :
    F64.WF (F64.add x y) ∧ F64.WF (F64.sub x y) ∧ F64.WF (F64.mul x y) ∧ F64.WF (F64.div x y) ∧
    (F64.WF x → F64.WF y → F64.WF (F64.rem x y)) :=
  ⟨F64.add_WF x y, F64.sub_WF x y, F64.mul_WF x y, F64.div_WF x y, F64.rem_WF x y⟩

/-- one operand: `{"+":[v]}` is the numeric cast of `v` (0 + x = x; −0 becomes +0, the same JSON integer 0) -/
theorem plus_single (v : Json) (hv : v.wf = true) :
    execEager "+".toList [v] = result (JsOp.parseFloat v) := by
  rw [plus_spec]
  unfold plus
  cases h : JsOp.parseFloat v with
  | none => simp [h]
  | some x =>
    have hx := JsOp.parseFloat_WF v hv x h
    simp only [List.mapM_cons, List.mapM_nil, h]
    by_cases hz : x = F64.fin true 0
    · subst hz; decide +kernel
    · show result (some (F64.add F64.zero x)) = _
      rw [F64.zero_add x hx hz]

/-- one operand: `{"*":[v]}` likewise (1 · x = x) -/
theorem times_single (v : Json) (hv : v.wf = true) :
    execEager "*".toList [v] = result (JsOp.parseFloat v) := by
  rw [times_spec]
  unfold times
  cases h : JsOp.parseFloat v with
  | none => simp [h]
  | some x =>
    have hx := JsOp.parseFloat_WF v hv x h
    simp only [List.mapM_cons, List.mapM_nil, h]
    show result (some (F64.mul F64.one x)) = _
    rw [F64.one_mul x hx]

/-! ## non-vacuity: concrete inputs (closed terms evaluated by the kernel) -/

section Examples
def opRule (k : String) (args : List Json) : Json := .obj [(k.toList, .arr args)]
def f1e19 : F64 := F64.ofDecimal false 1 19
def two63 : Nat := 9223372036854775808
def two64 : Nat := 18446744073709551616

-- narrowing: 1e19 (beyond i64, inside u64) is spelled 10000000000000000000, not clamped to i64::MAX
example : toNumberValue f1e19 = some (.num (.pos 10000000000000000000)) := by decide +kernel
example : apply (opRule "+" [.num (.flt f1e19)]) .null = ⟨[], .ok (.num (.pos 10000000000000000000))⟩ := by
  decide +kernel
-- 2^63 − 1 is not a double: u64::MAX and i64::MAX convert to 2^64 and 2^63
example : toNumberValue (F64.ofNat (2^64 - 1)) = some (.num (.flt (F64.ofNat (2^64)))) := by decide +kernel
-- the 2^63 boundary: 2^63 itself is a `PosInt`, −2^63 is `NegInt(i64::MIN)`, the next double below is a float
example : apply (opRule "+" [.num (.pos (two63 - 1)), .num (.pos 1)]) .null = ⟨[], .ok (.num (.pos two63))⟩ := by
  decide +kernel
example : apply (opRule "-" [.num (.pos two63)]) .null = ⟨[], .ok (.num (.neg two63))⟩ := by decide +kernel
example : apply (opRule "*" [.num (.neg two63), .num (.pos 2)]) .null =
    ⟨[], .ok (.num (.flt (F64.fin true (two64 * S))))⟩ := by decide +kernel
example : apply (opRule "-" [.num (.neg two63), .num (.pos 2048)]) .null =
    ⟨[], .ok (.num (.flt (F64.fin true ((two63 + 2048) * S))))⟩ := by decide +kernel
-- the 2^64 boundary: the largest double below 2^64 is a `PosInt`, 2^64 itself stays a float
example : apply (opRule "-" [.num (.pos (two64 - 1)), .num (.pos 2048)]) .null =
    ⟨[], .ok (.num (.pos (two64 - 2048)))⟩ := by decide +kernel
example : apply (opRule "*" [.num (.pos 4294967296), .num (.pos 4294967296)]) .null =
    ⟨[], .ok (.num (.flt (F64.fin false (two64 * S))))⟩ := by decide +kernel
-- 1e300 is integral but far outside: itself
example : toNumberValue (F64.ofDecimal false 1 300) = some (.num (.flt (F64.ofDecimal false 1 300))) := by
  decide +kernel
-- −0.0 is the integer 0
example : toNumberValue (F64.fin true 0) = some (.num (.pos 0)) := by decide +kernel
example : apply (opRule "-" [.num (.pos 0)]) .null = ⟨[], .ok (.num (.pos 0))⟩ := by decide +kernel
example : apply (opRule "*" [.num (.neg 1), .num (.pos 0)]) .null = ⟨[], .ok (.num (.pos 0))⟩ := by decide +kernel
-- a fraction stays a float: 0.1 + 0.2 is the double 0.30000000000000004
example : apply (opRule "+" [.num (.flt (F64.ofDecimal false 1 (-1))), .num (.flt (F64.ofDecimal false 2 (-1)))]) .null =
    ⟨[], .ok (.num (.flt (F64.ofDecimal false 30000000000000004 (-17))))⟩ := by decide +kernel
-- non-finite results are errors, never numbers
example : apply (opRule "/" [.num (.pos 1), .num (.pos 0)]) .null = ⟨[], .err⟩ := by decide +kernel
example : apply (opRule "/" [.num (.pos 0), .num (.pos 0)]) .null = ⟨[], .err⟩ := by decide +kernel
example : apply (opRule "%" [.num (.pos 1), .num (.pos 0)]) .null = ⟨[], .err⟩ := by decide +kernel
example : apply (opRule "*" [.num (.flt (F64.ofDecimal false 1 200)), .num (.flt (F64.ofDecimal false 1 200))]) .null =
    ⟨[], .err⟩ := by decide +kernel
example : toNumberValue F64.nan = none ∧ toNumberValue (F64.inf true) = none := by decide +kernel
-- non-numeric operands are errors
example : apply (opRule "-" [.str "a".toList, .num (.pos 1)]) .null = ⟨[], .err⟩ := by decide +kernel
example : apply (opRule "+" [.num (.pos 1), .null]) .null = ⟨[], .err⟩ := by decide +kernel
example : apply (opRule "max" [.num (.pos 1), .obj []]) .null = ⟨[], .err⟩ := by decide +kernel
-- conversions: "12px" is 12 for `+`, [3] is 3, "" / null / false / [] are 0 and true is 1 for `-`
example : apply (opRule "+" [.str "12px".toList, .arr [.num (.pos 3)]]) .null = ⟨[], .ok (.num (.pos 15))⟩ := by
  decide +kernel
example : apply (opRule "-" [.arr [.num (.pos 3)], .bool true]) .null = ⟨[], .ok (.num (.pos 2))⟩ := by decide +kernel
example : apply (opRule "-" [.str [], .null]) .null = ⟨[], .ok (.num (.pos 0))⟩ := by decide +kernel
example : apply (opRule "-" [.str "12px".toList, .num (.pos 1)]) .null = ⟨[], .err⟩ := by decide +kernel
-- `%` has the sign of the dividend
example : apply (opRule "%" [.num (.neg 7), .num (.pos 2)]) .null = ⟨[], .ok (.num (.neg 1))⟩ := by decide +kernel
example : apply (opRule "%" [.num (.pos 7), .num (.neg 2)]) .null = ⟨[], .ok (.num (.pos 1))⟩ := by decide +kernel
example : apply (opRule "%" [.num (.flt (F64.ofDecimal false 55 (-1))), .num (.pos 2)]) .null =
    ⟨[], .ok (.num (.flt (F64.ofDecimal false 15 (-1))))⟩ := by decide +kernel
-- `max` / `min`
example : apply (opRule "max" [.num (.pos 1), .str "3".toList, .num (.pos 2)]) .null = ⟨[], .ok (.num (.pos 3))⟩ := by
  decide +kernel
example : apply (opRule "min" [.num (.pos 1), .str "-3".toList, .num (.pos 2)]) .null = ⟨[], .ok (.num (.neg 3))⟩ := by
  decide +kernel

-- hypotheses of the theorems above are met by real inputs
example : f1e19.units = some ((10000000000000000000 : Int) * (S : Int)) ∧ Fits64 10000000000000000000 := by
  decide +kernel
example : F64.WF f1e19 ∧ F64.WF (F64.ofDecimal false 15 (-1)) ∧ F64.WF (F64.fin true 0) := by decide +kernel
example : (Json.arr [.num (.flt (F64.ofDecimal false 15 (-1))), .str "x".toList]).wf = true := by decide +kernel
example : F64.OnGrid (3 * S) ∧ F64.OnGrid (2 * S) ∧ 2 * S ≠ 0 := by decide +kernel
example : maxOf [.num (.pos 1), .str "3".toList] = some (F64.ofNat 3) := by decide +kernel
example : ∃ e, findEntry "-".toList Tables.eager = some e ∧ e.arity.isValidLen [Json.null].length = true :=
  ⟨⟨"-".toList, "-".toList, .variadic 1 3⟩, by decide +kernel, by decide +kernel⟩
-- `F64.WF` is needed for `-1.0 * x = -x`: a 61-bit "mantissa" is not a double and gets rounded
example : F64.mul (F64.fin true S) (F64.fin false (2^60 + 1)) ≠ F64.negate (F64.fin false (2^60 + 1)) := by
  decide +kernel
end Examples

end JL.Props.C10
