import JL.Lemmas.Monad
/-!
# C10 — arithmetic yields the exact IEEE-754 double or an error, never a wrong number
-/
namespace JL.Props.C10
open JL Json

/-- a non-finite result is never returned as a number: it is an error -/
theorem narrow_err (x : F64) (h : x.isFinite = false) : toNumberValue x = none := by
  cases x <;> simp_all [toNumberValue, F64.isFinite, F64.fractIsZero, Num.ofF64?]

/-- a finite result always yields a number -/
theorem narrow_ok (x : F64) (h : x.isFinite = true) : ∃ n, toNumberValue x = some (.num n) := by
  unfold toNumberValue
  split
  · exact ⟨_, rfl⟩
  · split
    · exact ⟨_, rfl⟩
    · simp [Num.ofF64?, h]

/-- `+` folds from 0 and `*` from 1 (operator level) -/
theorem plus_empty : execEager "+".toList [] = ⟨[], .ok (.num (.pos 0))⟩ := by decide +kernel
theorem op_plus (items : List Json) : execEager "+".toList items = numResult (JsOp.parseFloatAdd items) := by simp [execEager]
theorem op_mul (items : List Json) : execEager "*".toList items = numResult (JsOp.parseFloatMul items) := by simp [execEager]
theorem op_neg (a : Json) : execEager "-".toList [a] = numResult (JsOp.toNegative a) := by simp [execEager]
theorem op_minus (a b : Json) : execEager "-".toList [a, b] = numResult (JsOp.abstractMinus a b) := by simp [execEager]

example : toNumberValue (F64.ofDecimal false 1 19) = some (.num (.pos 10000000000000000000)) := by decide +kernel
example : toNumberValue (F64.ofNat (2^64 - 1)) = some (.num (.flt (F64.ofNat (2^64)))) := by decide +kernel

end JL.Props.C10
