import JL.Lemmas.Monad
import JL.Lemmas.C13
/-!
# C13 — `map`, `filter` and `reduce` have standard higher-order semantics and scoping

Vocabulary (defined in `JL/Lemmas/C13.lean`):
* `ev d e := if check e then run e d else M.err` — the lazy parse-then-evaluate of one operand `e` on data `d`
  (definitionally `apply e d`);
* `collOf : Json → Option (List Json)` — an array's elements; `null` ↦ `[]`; anything else is not a collection;
* `parsed e : M Unit` — the parse of the element expression (error if malformed, no trace);
* `mapData f`, `filterData f`, `reduceData f` — the loops of `src/op/array.rs` over *data* items (model, `JL/Eval.lean`).

The element expression reaches the loops as the closure `fun x => run e x`: the outer data `d` does not occur in it.
-/
namespace JL.Props.C13
open JL Json JL.Lemmas.C13

/-! ## 1. the three operators as equations in the monad `M` (trace × value/error/panic) -/

/-- **`map`, unfolded.** collection first (parsed lazily, evaluated once on the outer data); it must be an array
or `null` (⇒ empty); then the element expression is parsed (an error if malformed, even for an empty collection);
then it is evaluated once per element, in order, *with the element as the whole data*; the results form the array. -/
theorem map_spec (c e d : Json) (rest : List Json) :
    run (.obj [("map".toList, .arr (c :: e :: rest))]) d =
      (do let cv ← ev d c
          let items ← M.ofOption (collOf cv)
          parsed e
          let rs ← mapData (fun x => run e x) items
          pure (.arr rs)) := run_map c e d rest

/-- the same at the public entry point (`apply` = parse, then evaluate) for the only accepted arity -/
theorem map_spec_apply (c e d : Json) :
    apply (.obj [("map".toList, .arr [c, e])]) d =
      (do let cv ← apply c d
          let items ← M.ofOption (collOf cv)
          parsed e
          let rs ← mapData (fun x => run e x) items
          pure (.arr rs)) := by
  unfold apply; rw [check_map, if_pos rfl, run_map]; rfl

/-- **`filter`, unfolded.** as `map`, the loop keeping the elements whose predicate value is truthy -/
theorem filter_spec (c e d : Json) (rest : List Json) :
    run (.obj [("filter".toList, .arr (c :: e :: rest))]) d =
      (do let cv ← ev d c
          let items ← M.ofOption (collOf cv)
          parsed e
          let rs ← filterData (fun x => run e x) items
          pure (.arr rs)) := run_filter c e d rest

theorem filter_spec_apply (c e d : Json) :
    apply (.obj [("filter".toList, .arr [c, e])]) d =
      (do let cv ← apply c d
          let items ← M.ofOption (collOf cv)
          parsed e
          let rs ← filterData (fun x => run e x) items
          pure (.arr rs)) := by
  unfold apply; rw [check_filter, if_pos rfl, run_filter]; rfl

/-- **`reduce`, unfolded.** collection, then the initial value (each parsed lazily and evaluated once on the outer
data, in this order), then the collection must be an array or `null`, then the expression is parsed, then the fold. -/
theorem reduce_spec (c e i d : Json) (rest : List Json) :
    run (.obj [("reduce".toList, .arr (c :: e :: i :: rest))]) d =
      (do let cv ← ev d c
          let iv ← ev d i
          let items ← M.ofOption (collOf cv)
          parsed e
          reduceData (fun x => run e x) items iv) := run_reduce c e i d rest

theorem reduce_spec_apply (c e i d : Json) :
    apply (.obj [("reduce".toList, .arr [c, e, i])]) d =
      (do let cv ← apply c d
          let iv ← apply i d
          let items ← M.ofOption (collOf cv)
          parsed e
          reduceData (fun x => run e x) items iv) := by
  unfold apply; rw [check_reduce, if_pos rfl, run_reduce]; rfl

/-! ## 2. the loops are the standard higher-order functions -/

/-- the loop of `map` is the library's in-order monadic map -/
theorem map_loop_is_mapM (f : Json → M Json) (xs : List Json) : mapData f xs = xs.mapM f := mapData_eq_mapM f xs

/-- the loop of `reduce` is the library's monadic left fold, the step seeing exactly `{accumulator, current}` -/
theorem reduce_loop_is_foldlM (f : Json → M Json) (xs : List Json) (a : Json) :
    reduceData f xs a = xs.foldlM (fun acc x => f (reduceCtx acc x)) a := reduceData_eq_foldlM f xs a

/-- for an expression that is a total, trace-free function `g` of its data: `map` is `List.map g` -/
theorem map_pure (g : Json → Json) (xs : List Json) :
    mapData (fun x => pure (g x)) xs = pure (xs.map g) := mapData_pure g xs

/-- … `filter` is `List.filter (truthy ∘ g)` -/
theorem filter_pure (g : Json → Json) (xs : List Json) :
    filterData (fun x => pure (g x)) xs = pure (xs.filter (truthy ∘ g)) := filterData_pure g xs

/-- … `reduce` is `List.foldl` from the initial value over `{accumulator, current}` -/
theorem reduce_pure (g : Json → Json) (xs : List Json) (a : Json) :
    reduceData (fun c => pure (g c)) xs a = pure (xs.foldl (fun acc x => g (reduceCtx acc x)) a) :=
  reduceData_pure g xs a

/-- `map` keeps the length: one result per element, in order -/
theorem mapData_length (f : Json → M Json) (xs ys : List Json) (l : List Json) (h : mapData f xs = ⟨l, .ok ys⟩) :
    ys.length = xs.length := JL.mapData_length f xs ys l h

/-- success of the loop of `map`, completely: position by position the result holds the value of the expression
on the element at that position; the trace is the concatenation of the per-element traces, in order -/
theorem mapData_ok_iff (f : Json → M Json) (xs l ys : List Json) :
    mapData f xs = ⟨l, .ok ys⟩ ↔
      xs.map (fun x => (f x).out) = ys.map Out.ok ∧ l = xs.flatMap (fun x => (f x).logs) :=
  JL.mapData_ok_iff f xs l ys

/-- the first failing element decides the outcome of `map`'s loop: the elements before it were evaluated (their
traces kept), it was evaluated, nothing after it was -/
theorem mapData_first_err (f : Json → M Json) (pre post : List Json) (x : Json)
    (hpre : ∀ p ∈ pre, ∃ y, (f p).out = .ok y) (hx : (f x).out = .err) :
    mapData f (pre ++ x :: post) = ⟨(pre ++ [x]).flatMap (fun x => (f x).logs), .err⟩ :=
  JL.mapData_first_err f pre post x hpre hx

/-- success of the loop of `filter`, completely: the predicate succeeded on every element; the result is exactly
`List.filter` by "predicate value is truthy"; the trace is the concatenation of the per-element traces -/
theorem filterData_ok_iff (f : Json → M Json) (xs l ys : List Json) :
    filterData f xs = ⟨l, .ok ys⟩ ↔
      (∀ x ∈ xs, ∃ p, (f x).out = .ok p) ∧ ys = xs.filter (fun x => okTruthy (f x)) ∧
        l = xs.flatMap (fun x => (f x).logs) := JL.filterData_ok_iff f xs l ys

/-- `filter` yields a subsequence of the collection: the elements themselves, unchanged, in their order -/
theorem filterData_sublist (f : Json → M Json) (xs l ys : List Json) (h : filterData f xs = ⟨l, .ok ys⟩) :
    ys.Sublist xs := JL.filterData_sublist f xs l ys h

theorem filterData_first_err (f : Json → M Json) (pre post : List Json) (x : Json)
    (hpre : ∀ p ∈ pre, ∃ y, (f p).out = .ok y) (hx : (f x).out = .err) :
    filterData f (pre ++ x :: post) = ⟨(pre ++ [x]).flatMap (fun x => (f x).logs), .err⟩ :=
  JL.filterData_first_err f pre post x hpre hx

/-- inside `reduce` the data is exactly `{accumulator, current}` — a two-key object, nothing of the outer data -/
theorem reduce_scope (acc cur : Json) : reduceCtx acc cur = .obj [("accumulator".toList, acc), ("current".toList, cur)] := rfl

/-- `reduce` folds left to right from the initial value -/
theorem reduce_step (f : Json → M Json) (x : Json) (xs : List Json) (acc : Json) :
    reduceData f (x :: xs) acc = (f (reduceCtx acc x) >>= fun a => reduceData f xs a) := rfl
theorem reduce_nil (f : Json → M Json) (acc : Json) : reduceData f [] acc = ⟨[], .ok acc⟩ := rfl

/-- folding over a concatenation is folding over the first part, then over the second from where the first ended -/
theorem reduce_append (f : Json → M Json) (xs ys : List Json) (a : Json) :
    reduceData f (xs ++ ys) a = (reduceData f xs a >>= fun b => reduceData f ys b) := reduceData_append f xs ys a

/-- value of the fold when the expression succeeds on every context, with value `g ctx` -/
theorem reduce_value (f : Json → M Json) (g : Json → Json) (h : ∀ c, (f c).out = .ok (g c)) (xs : List Json) (a : Json) :
    (reduceData f xs a).out = .ok (xs.foldl (fun acc x => g (reduceCtx acc x)) a) :=
  reduceData_out_of_ok f g h xs a

/-! ## 3. success of the whole operation, completely (value *and* trace) -/

/-- **`map` succeeds iff** the collection operand parses and evaluates to an array or `null`, the expression parses
and succeeds on every element; then the value is the array of the per-element values (same length, same order) and
the trace is: collection's trace (once), then the per-element traces in order. -/
theorem map_ok_iff (c e d : Json) (rest l : List Json) (v : Json) :
    run (.obj [("map".toList, .arr (c :: e :: rest))]) d = ⟨l, .ok v⟩ ↔
      ∃ lc cv items ys, ev d c = ⟨lc, .ok cv⟩ ∧ collOf cv = some items ∧ check e = true ∧
        items.map (fun x => (run e x).out) = ys.map Out.ok ∧ v = .arr ys ∧
        l = lc ++ items.flatMap (fun x => (run e x).logs) := by
  rw [run_map, M.bind_eq_ok]
  constructor
  · rintro ⟨lc, cv, l₂, h1, h2, h3⟩
    obtain ⟨items, h4, h5, h6⟩ := (coll_bind_eq_ok cv e _ l₂ v).mp h2
    obtain ⟨l₃, ys, l₄, h7, h8, h9⟩ := M.bind_eq_ok.mp h6
    obtain ⟨h10, h11⟩ := (JL.mapData_ok_iff _ _ _ _).mp h7
    obtain ⟨h12, h13⟩ := M.pure_eq_ok.mp h8
    exact ⟨lc, cv, items, ys, h1, h4, h5, h10, h13.symm, by rw [h3, h9, h12, h11]; simp⟩
  · rintro ⟨lc, cv, items, ys, h1, h2, h3, h4, h5, h6⟩
    refine ⟨lc, cv, items.flatMap (fun x => (run e x).logs), h1, ?_, h6⟩
    rw [coll_bind_of_ok cv e items _ h2 h3, (JL.mapData_ok_iff _ _ _ ys).mpr ⟨h4, rfl⟩, h5]
    simp

/-- the result of a successful `map` is an array with exactly one entry per element of the collection -/
theorem map_length (c e d : Json) (rest l : List Json) (v : Json)
    (h : run (.obj [("map".toList, .arr (c :: e :: rest))]) d = ⟨l, .ok v⟩) :
    ∃ lc cv items ys, ev d c = ⟨lc, .ok cv⟩ ∧ collOf cv = some items ∧ v = .arr ys ∧ ys.length = items.length := by
  obtain ⟨lc, cv, items, ys, h1, h2, _, h4, h5, _⟩ := (map_ok_iff c e d rest l v).mp h
  refine ⟨lc, cv, items, ys, h1, h2, h5, ?_⟩
  simpa using (congrArg List.length h4).symm

/-- `map` computes `List.map`: if the collection evaluates to the items `xs` and the expression has value `g x`
on each of them, the result is `xs.map g` -/
theorem map_values (c e d : Json) (rest lc xs : List Json) (cv : Json) (g : Json → Json)
    (hc : ev d c = ⟨lc, .ok cv⟩) (hcv : collOf cv = some xs) (he : check e = true)
    (hg : ∀ x ∈ xs, (run e x).out = .ok (g x)) :
    run (.obj [("map".toList, .arr (c :: e :: rest))]) d =
      ⟨lc ++ xs.flatMap (fun x => (run e x).logs), .ok (.arr (xs.map g))⟩ := by
  rw [map_ok_iff]
  refine ⟨lc, cv, xs, xs.map g, hc, hcv, he, ?_, rfl, rfl⟩
  rw [List.map_map]
  exact List.map_congr_left (fun x hx => by simp [hg x hx])

/-- the first element on which the expression fails decides: the result is that error, the trace is the collection's
followed by those of the elements up to and including the failing one; later elements are not evaluated -/
theorem map_first_error (c e d : Json) (rest lc pre post : List Json) (cv x : Json)
    (hc : ev d c = ⟨lc, .ok cv⟩) (hcv : collOf cv = some (pre ++ x :: post)) (he : check e = true)
    (hpre : ∀ p ∈ pre, ∃ y, (run e p).out = .ok y) (hx : (run e x).out = .err) :
    run (.obj [("map".toList, .arr (c :: e :: rest))]) d =
      ⟨lc ++ (pre ++ [x]).flatMap (fun x => (run e x).logs), .err⟩ := by
  rw [run_map, hc, M.bind_ok, coll_bind_of_ok cv e _ _ hcv he, JL.mapData_first_err _ pre post x hpre hx]
  rfl

/-- **`filter` succeeds iff** …; then the value is exactly the sub-list of the collection's elements whose predicate
value is truthy — the elements themselves — and the trace is the collection's, then the per-element traces. -/
theorem filter_ok_iff (c e d : Json) (rest l : List Json) (v : Json) :
    run (.obj [("filter".toList, .arr (c :: e :: rest))]) d = ⟨l, .ok v⟩ ↔
      ∃ lc cv items, ev d c = ⟨lc, .ok cv⟩ ∧ collOf cv = some items ∧ check e = true ∧
        (∀ x ∈ items, ∃ p, (run e x).out = .ok p) ∧
        v = .arr (items.filter (fun x => okTruthy (run e x))) ∧
        l = lc ++ items.flatMap (fun x => (run e x).logs) := by
  rw [run_filter, M.bind_eq_ok]
  constructor
  · rintro ⟨lc, cv, l₂, h1, h2, h3⟩
    obtain ⟨items, h4, h5, h6⟩ := (coll_bind_eq_ok cv e _ l₂ v).mp h2
    obtain ⟨l₃, ys, l₄, h7, h8, h9⟩ := M.bind_eq_ok.mp h6
    obtain ⟨h10, h11, h14⟩ := (JL.filterData_ok_iff _ _ _ _).mp h7
    obtain ⟨h12, h13⟩ := M.pure_eq_ok.mp h8
    exact ⟨lc, cv, items, h1, h4, h5, h10, by rw [← h13, h11], by rw [h3, h9, h12, h14]; simp⟩
  · rintro ⟨lc, cv, items, h1, h2, h3, h4, h5, h6⟩
    refine ⟨lc, cv, items.flatMap (fun x => (run e x).logs), h1, ?_, h6⟩
    rw [coll_bind_of_ok cv e items _ h2 h3, (JL.filterData_ok_iff _ _ _ _).mpr ⟨h4, rfl, rfl⟩, h5]
    simp

/-- the result of a successful `filter` is a subsequence of the evaluated collection -/
theorem filter_sublist (c e d : Json) (rest l : List Json) (v : Json)
    (h : run (.obj [("filter".toList, .arr (c :: e :: rest))]) d = ⟨l, .ok v⟩) :
    ∃ lc cv items ys, ev d c = ⟨lc, .ok cv⟩ ∧ collOf cv = some items ∧ v = .arr ys ∧ ys.Sublist items := by
  obtain ⟨lc, cv, items, h1, h2, _, _, h5, _⟩ := (filter_ok_iff c e d rest l v).mp h
  exact ⟨lc, cv, items, _, h1, h2, h5, List.filter_sublist⟩

/-- `filter` computes `List.filter (truthy ∘ g)` when the predicate has value `g x` on each element `x` -/
theorem filter_values (c e d : Json) (rest lc xs : List Json) (cv : Json) (g : Json → Json)
    (hc : ev d c = ⟨lc, .ok cv⟩) (hcv : collOf cv = some xs) (he : check e = true)
    (hg : ∀ x ∈ xs, (run e x).out = .ok (g x)) :
    run (.obj [("filter".toList, .arr (c :: e :: rest))]) d =
      ⟨lc ++ xs.flatMap (fun x => (run e x).logs), .ok (.arr (xs.filter (fun x => truthy (g x))))⟩ := by
  rw [filter_ok_iff]
  refine ⟨lc, cv, xs, hc, hcv, he, fun x hx => ⟨_, hg x hx⟩, ?_, rfl⟩
  congr 1
  apply List.filter_congr
  intro x hx
  simp [okTruthy, hg x hx]

theorem filter_first_error (c e d : Json) (rest lc pre post : List Json) (cv x : Json)
    (hc : ev d c = ⟨lc, .ok cv⟩) (hcv : collOf cv = some (pre ++ x :: post)) (he : check e = true)
    (hpre : ∀ p ∈ pre, ∃ y, (run e p).out = .ok y) (hx : (run e x).out = .err) :
    run (.obj [("filter".toList, .arr (c :: e :: rest))]) d =
      ⟨lc ++ (pre ++ [x]).flatMap (fun x => (run e x).logs), .err⟩ := by
  rw [run_filter, hc, M.bind_ok, coll_bind_of_ok cv e _ _ hcv he, JL.filterData_first_err _ pre post x hpre hx]
  rfl

/-- **`reduce` succeeds iff** the collection and the initial value parse and evaluate (in this order, once each),
the collection is an array or `null`, the expression parses, and the left fold from the initial value succeeds;
the trace is: collection, initial value, fold. -/
theorem reduce_ok_iff (c e i d : Json) (rest l : List Json) (v : Json) :
    run (.obj [("reduce".toList, .arr (c :: e :: i :: rest))]) d = ⟨l, .ok v⟩ ↔
      ∃ lc cv li iv items lr, ev d c = ⟨lc, .ok cv⟩ ∧ ev d i = ⟨li, .ok iv⟩ ∧ collOf cv = some items ∧
        check e = true ∧ reduceData (fun x => run e x) items iv = ⟨lr, .ok v⟩ ∧ l = lc ++ li ++ lr := by
  rw [run_reduce, M.bind_eq_ok]
  constructor
  · rintro ⟨lc, cv, l₂, h1, h2, h3⟩
    obtain ⟨li, iv, l₃, h4, h5, h6⟩ := M.bind_eq_ok.mp h2
    obtain ⟨items, h7, h8, h9⟩ := (coll_bind_eq_ok cv e _ l₃ v).mp h5
    exact ⟨lc, cv, li, iv, items, l₃, h1, h4, h7, h8, h9, by rw [h3, h6, List.append_assoc]⟩
  · rintro ⟨lc, cv, li, iv, items, lr, h1, h2, h3, h4, h5, h6⟩
    refine ⟨lc, cv, li ++ lr, h1, ?_, by rw [h6, List.append_assoc]⟩
    rw [M.bind_eq_ok]
    exact ⟨li, iv, lr, h2, by rw [coll_bind_of_ok cv e items _ h3 h4, h5], rfl⟩

/-- `reduce` computes `List.foldl` from the evaluated initial value, the step being the expression's value on
`{accumulator: acc, current: x}` -/
theorem reduce_values (c e i d : Json) (rest lc li xs : List Json) (cv iv : Json) (g : Json → Json)
    (hc : ev d c = ⟨lc, .ok cv⟩) (hi : ev d i = ⟨li, .ok iv⟩) (hcv : collOf cv = some xs) (he : check e = true)
    (hg : ∀ ctx, (run e ctx).out = .ok (g ctx)) :
    (run (.obj [("reduce".toList, .arr (c :: e :: i :: rest))]) d).out =
      .ok (xs.foldl (fun acc x => g (reduceCtx acc x)) iv) := by
  rw [run_reduce, hc, M.bind_ok, hi]
  simp only [M.bind_ok]
  rw [coll_bind_of_ok cv e _ _ hcv he]
  exact reduceData_out_of_ok _ g hg xs iv

/-! ## 4. scoping -/

/-- **scope of `map`.** The outer data influences the result only through the evaluated collection: inside, the
data is the element (the closure `fun x => run e x` of `map_spec` does not mention `d`). -/
theorem scope_map (c e d d' : Json) (rest : List Json) (h : ev d c = ev d' c) :
    run (.obj [("map".toList, .arr (c :: e :: rest))]) d = run (.obj [("map".toList, .arr (c :: e :: rest))]) d' := by
  rw [run_map, run_map, h]

/-- **scope of `filter`.** -/
theorem scope_filter (c e d d' : Json) (rest : List Json) (h : ev d c = ev d' c) :
    run (.obj [("filter".toList, .arr (c :: e :: rest))]) d = run (.obj [("filter".toList, .arr (c :: e :: rest))]) d' := by
  rw [run_filter, run_filter, h]

/-- **scope of `reduce`.** The outer data influences the result only through the evaluated collection and the
evaluated initial value: inside, the data is `{accumulator, current}` (see `reduce_scope`). -/
theorem scope_reduce (c e i d d' : Json) (rest : List Json) (hc : ev d c = ev d' c) (hi : ev d i = ev d' i) :
    run (.obj [("reduce".toList, .arr (c :: e :: i :: rest))]) d =
      run (.obj [("reduce".toList, .arr (c :: e :: i :: rest))]) d' := by
  rw [run_reduce, run_reduce, hc, hi]

/-- in particular a literal collection (an array literal is not an operation: it evaluates to itself on any data)
makes `map` independent of the outer data altogether -/
theorem scope_map_literal (xs : List Json) (e d d' : Json) (rest : List Json) :
    run (.obj [("map".toList, .arr (.arr xs :: e :: rest))]) d =
      run (.obj [("map".toList, .arr (.arr xs :: e :: rest))]) d' :=
  scope_map _ _ _ _ _ rfl

/-- inside `map`, `{"var": ""}` is the element: mapping it returns the collection's items -/
theorem map_var_self (c d : Json) (rest lc xs : List Json) (cv : Json)
    (hc : ev d c = ⟨lc, .ok cv⟩) (hcv : collOf cv = some xs) :
    run (.obj [("map".toList, .arr (c :: .obj [("var".toList, .str [])] :: rest))]) d = ⟨lc, .ok (.arr xs)⟩ := by
  rw [map_values c _ d rest lc xs cv id hc hcv (by decide) (fun x _ => by rw [run_var_self]; rfl)]
  simp only [run_var_self]
  simp

/-- inside `filter`, `{"var": ""}` is the element: the truthy items are kept -/
theorem filter_var_self (c d : Json) (rest lc xs : List Json) (cv : Json)
    (hc : ev d c = ⟨lc, .ok cv⟩) (hcv : collOf cv = some xs) :
    run (.obj [("filter".toList, .arr (c :: .obj [("var".toList, .str [])] :: rest))]) d =
      ⟨lc, .ok (.arr (xs.filter truthy))⟩ := by
  rw [filter_values c _ d rest lc xs cv id hc hcv (by decide) (fun x _ => by rw [run_var_self]; rfl)]
  simp only [run_var_self]
  simp

/-! ## 5. `null` is empty; any other non-array is an error; malformed expression; failing collection -/

theorem null_empty_map (c e d : Json) (rest lc : List Json) (hc : ev d c = ⟨lc, .ok .null⟩) (he : check e = true) :
    run (.obj [("map".toList, .arr (c :: e :: rest))]) d = ⟨lc, .ok (.arr [])⟩ := by
  rw [run_map, hc, M.bind_ok, coll_bind_of_ok .null e [] _ rfl he]; simp [mapData]

theorem null_empty_filter (c e d : Json) (rest lc : List Json) (hc : ev d c = ⟨lc, .ok .null⟩) (he : check e = true) :
    run (.obj [("filter".toList, .arr (c :: e :: rest))]) d = ⟨lc, .ok (.arr [])⟩ := by
  rw [run_filter, hc, M.bind_ok, coll_bind_of_ok .null e [] _ rfl he]; simp [filterData]

/-- `reduce` over `null` (as over `[]`) is the initial value -/
theorem null_empty_reduce (c e i d : Json) (rest lc li : List Json) (iv : Json)
    (hc : ev d c = ⟨lc, .ok .null⟩) (hi : ev d i = ⟨li, .ok iv⟩) (he : check e = true) :
    run (.obj [("reduce".toList, .arr (c :: e :: i :: rest))]) d = ⟨lc ++ li, .ok iv⟩ := by
  rw [run_reduce, hc, M.bind_ok, hi]
  simp only [M.bind_ok]
  rw [coll_bind_of_ok .null e [] _ rfl he]; simp [reduceData]

/-- a collection value that is neither an array nor `null` is an error (not a panic); the expression is not even parsed -/
theorem non_array_err_map (c e d : Json) (rest lc : List Json) (cv : Json)
    (hc : ev d c = ⟨lc, .ok cv⟩) (hcv : collOf cv = none) :
    run (.obj [("map".toList, .arr (c :: e :: rest))]) d = ⟨lc, .err⟩ := by
  rw [run_map, hc, M.bind_ok, coll_bind_of_none cv e _ hcv]; simp

theorem non_array_err_filter (c e d : Json) (rest lc : List Json) (cv : Json)
    (hc : ev d c = ⟨lc, .ok cv⟩) (hcv : collOf cv = none) :
    run (.obj [("filter".toList, .arr (c :: e :: rest))]) d = ⟨lc, .err⟩ := by
  rw [run_filter, hc, M.bind_ok, coll_bind_of_none cv e _ hcv]; simp

/-- for `reduce` the initial value has been evaluated by then (its trace is present) -/
theorem non_array_err_reduce (c e i d : Json) (rest lc li : List Json) (cv iv : Json)
    (hc : ev d c = ⟨lc, .ok cv⟩) (hi : ev d i = ⟨li, .ok iv⟩) (hcv : collOf cv = none) :
    run (.obj [("reduce".toList, .arr (c :: e :: i :: rest))]) d = ⟨lc ++ li, .err⟩ := by
  rw [run_reduce, hc, M.bind_ok, hi]
  simp only [M.bind_ok]
  rw [coll_bind_of_none cv e _ hcv]; simp

/-- what is not a collection: exactly booleans, numbers, strings and objects -/
theorem collOf_none_iff (cv : Json) : collOf cv = none ↔ (cv ≠ .null ∧ ∀ xs, cv ≠ .arr xs) := by
  cases cv <;> simp [collOf]

/-- a malformed element expression is an error even when the collection is empty (it is parsed before the loop) -/
theorem malformed_expr_err_map (c e d : Json) (rest lc items : List Json) (cv : Json)
    (hc : ev d c = ⟨lc, .ok cv⟩) (hcv : collOf cv = some items) (he : check e = false) :
    run (.obj [("map".toList, .arr (c :: e :: rest))]) d = ⟨lc, .err⟩ := by
  rw [run_map, hc, M.bind_ok, coll_bind_of_malformed cv e items _ hcv he]; simp

theorem malformed_expr_err_filter (c e d : Json) (rest lc items : List Json) (cv : Json)
    (hc : ev d c = ⟨lc, .ok cv⟩) (hcv : collOf cv = some items) (he : check e = false) :
    run (.obj [("filter".toList, .arr (c :: e :: rest))]) d = ⟨lc, .err⟩ := by
  rw [run_filter, hc, M.bind_ok, coll_bind_of_malformed cv e items _ hcv he]; simp

theorem malformed_expr_err_reduce (c e i d : Json) (rest lc li items : List Json) (cv iv : Json)
    (hc : ev d c = ⟨lc, .ok cv⟩) (hi : ev d i = ⟨li, .ok iv⟩) (hcv : collOf cv = some items) (he : check e = false) :
    run (.obj [("reduce".toList, .arr (c :: e :: i :: rest))]) d = ⟨lc ++ li, .err⟩ := by
  rw [run_reduce, hc, M.bind_ok, hi]
  simp only [M.bind_ok]
  rw [coll_bind_of_malformed cv e items _ hcv he]; simp

/-- a failing collection operand is the result; nothing else is parsed or evaluated -/
theorem collection_err_map (c e d : Json) (rest lc : List Json) (hc : ev d c = ⟨lc, .err⟩) :
    run (.obj [("map".toList, .arr (c :: e :: rest))]) d = ⟨lc, .err⟩ := by
  rw [run_map, hc]; rfl
theorem collection_err_filter (c e d : Json) (rest lc : List Json) (hc : ev d c = ⟨lc, .err⟩) :
    run (.obj [("filter".toList, .arr (c :: e :: rest))]) d = ⟨lc, .err⟩ := by
  rw [run_filter, hc]; rfl
/-- for `reduce` the initial value is then not evaluated at all -/
theorem collection_err_reduce (c e i d : Json) (rest lc : List Json) (hc : ev d c = ⟨lc, .err⟩) :
    run (.obj [("reduce".toList, .arr (c :: e :: i :: rest))]) d = ⟨lc, .err⟩ := by
  rw [run_reduce, hc]; rfl
/-- a failing initial value: the trace is the collection's then its own; the fold does not start -/
theorem initial_err_reduce (c e i d : Json) (rest lc li : List Json) (cv : Json)
    (hc : ev d c = ⟨lc, .ok cv⟩) (hi : ev d i = ⟨li, .err⟩) :
    run (.obj [("reduce".toList, .arr (c :: e :: i :: rest))]) d = ⟨lc ++ li, .err⟩ := by
  rw [run_reduce, hc, M.bind_ok, hi]; rfl

/-! ## 6. evaluation order, exactly once (read off the trace) -/

/-- the trace of a successful `map`/`filter` is the collection operand's trace, once, followed by the element
expression's trace on each item, once each, in order — nothing else -/
theorem trace_map (c e d : Json) (rest l : List Json) (v : Json)
    (h : run (.obj [("map".toList, .arr (c :: e :: rest))]) d = ⟨l, .ok v⟩) :
    ∃ cv items, (ev d c).out = .ok cv ∧ collOf cv = some items ∧
      l = (ev d c).logs ++ items.flatMap (fun x => (run e x).logs) := by
  obtain ⟨lc, cv, items, ys, h1, h2, _, _, _, h6⟩ := (map_ok_iff c e d rest l v).mp h
  exact ⟨cv, items, by rw [h1], h2, by rw [h1]; exact h6⟩

theorem trace_filter (c e d : Json) (rest l : List Json) (v : Json)
    (h : run (.obj [("filter".toList, .arr (c :: e :: rest))]) d = ⟨l, .ok v⟩) :
    ∃ cv items, (ev d c).out = .ok cv ∧ collOf cv = some items ∧
      l = (ev d c).logs ++ items.flatMap (fun x => (run e x).logs) := by
  obtain ⟨lc, cv, items, h1, h2, _, _, _, h6⟩ := (filter_ok_iff c e d rest l v).mp h
  exact ⟨cv, items, by rw [h1], h2, by rw [h1]; exact h6⟩

/-- the trace of a successful `reduce`: collection (once), then initial value (once), then the fold -/
theorem trace_reduce (c e i d : Json) (rest l : List Json) (v : Json)
    (h : run (.obj [("reduce".toList, .arr (c :: e :: i :: rest))]) d = ⟨l, .ok v⟩) :
    ∃ cv iv items, (ev d c).out = .ok cv ∧ (ev d i).out = .ok iv ∧ collOf cv = some items ∧
      l = (ev d c).logs ++ (ev d i).logs ++ (reduceData (fun x => run e x) items iv).logs := by
  obtain ⟨lc, cv, li, iv, items, lr, h1, h2, h3, _, h5, h6⟩ := (reduce_ok_iff c e i d rest l v).mp h
  exact ⟨cv, iv, items, by rw [h1], by rw [h2], h3, by rw [h1, h2, h5]; exact h6⟩

/-! ## non-vacuity -/

-- outer data is invisible inside `map`
example : apply (.obj [("map".toList, .arr [.arr [.num (.pos 1), .num (.pos 2)], .obj [("var".toList, .str "outer".toList)]])])
    (.obj [("outer".toList, .num (.pos 9))]) = ⟨[], .ok (.arr [.null, .null])⟩ := by decide +kernel

-- a computed collection, a logging element expression: the trace is collection first, then per element in order
example : apply (.obj [("map".toList, .arr [.obj [("log".toList, .obj [("var".toList, .str "xs".toList)])],
      .obj [("log".toList, .obj [("var".toList, .str [])])]])])
    (.obj [("xs".toList, .arr [.num (.pos 1), .str "a".toList])]) =
    ⟨[.arr [.num (.pos 1), .str "a".toList], .num (.pos 1), .str "a".toList], .ok (.arr [.num (.pos 1), .str "a".toList])⟩ := by
  decide +kernel

-- `filter` keeps the elements themselves (here: by truthiness of the element)
example : apply (.obj [("filter".toList, .arr [.arr [.num (.pos 0), .str "a".toList, .null, .arr [], .obj []],
      .obj [("var".toList, .str [])]])]) .null = ⟨[], .ok (.arr [.str "a".toList, .obj []])⟩ := by decide +kernel

-- `reduce` with a non-commutative step (`cat`): left to right from the initial value
example : apply (.obj [("reduce".toList, .arr [.arr [.str "b".toList, .str "c".toList],
      .obj [("cat".toList, .arr [.obj [("var".toList, .str "accumulator".toList)], .obj [("var".toList, .str "current".toList)]])],
      .str "a".toList])]) .null = ⟨[], .ok (.str "abc".toList)⟩ := by decide +kernel

-- outer data with the keys `current`/`accumulator` is not what the step sees
example : apply (.obj [("reduce".toList, .arr [.arr [.num (.pos 5)], .obj [("var".toList, .str "current".toList)], .num (.pos 0)])])
    (.obj [("accumulator".toList, .num (.pos 7)), ("current".toList, .num (.pos 8))]) = ⟨[], .ok (.num (.pos 5))⟩ := by decide +kernel

-- null collection; non-array collection; malformed expression with an empty collection
example : apply (.obj [("map".toList, .arr [.null, .num (.pos 1)])]) .null = ⟨[], .ok (.arr [])⟩ := by decide +kernel
example : apply (.obj [("filter".toList, .arr [.str "ab".toList, .bool true])]) .null = ⟨[], .err⟩ := by decide +kernel
example : apply (.obj [("map".toList, .arr [.arr [], .obj [("==".toList, .arr [.num (.pos 1)])]])]) .null = ⟨[], .err⟩ := by decide +kernel

-- the hypotheses of `map_values` are met by a computed collection
example : ev (.obj [("xs".toList, .arr [.num (.pos 1)])]) (.obj [("var".toList, .str "xs".toList)]) = ⟨[], .ok (.arr [.num (.pos 1)])⟩ ∧
    collOf (.arr [.num (.pos 1)]) = some [.num (.pos 1)] ∧ check (.obj [("var".toList, .str [])]) = true := by decide +kernel

-- `scope_map`: two different outer data with the same evaluated collection
example : ev (.obj [("xs".toList, .arr [.null]), ("y".toList, .num (.pos 1))]) (.obj [("var".toList, .str "xs".toList)]) =
    ev (.obj [("xs".toList, .arr [.null]), ("y".toList, .num (.pos 2))]) (.obj [("var".toList, .str "xs".toList)]) := by decide +kernel

-- the hypothesis of `reduce_values`/`reduce_value` (the expression succeeds on every context) is met, e.g., by `{"var": ""}`
example : ∀ ctx, (run (.obj [("var".toList, .str [])]) ctx).out = .ok (id ctx) := fun ctx => by rw [run_var_self]; rfl

-- hypotheses of `map_first_error`: an element on which the expression is an error
example : (run (.obj [("+".toList, .arr [.obj [("var".toList, .str [])]])]) (.obj [])).out = .err ∧
    (∃ y, (run (.obj [("+".toList, .arr [.obj [("var".toList, .str [])]])]) (.num (.pos 1))).out = .ok y) :=
  ⟨by decide +kernel, ⟨.num (.pos 1), by decide +kernel⟩⟩

-- first failing element: the earlier element's log line is kept, the later element is not evaluated
example : apply (.obj [("map".toList, .arr [.arr [.num (.pos 1), .obj [], .num (.pos 3)],
      .obj [("log".toList, .obj [("+".toList, .arr [.obj [("var".toList, .str [])]])])]])]) .null =
    ⟨[.num (.pos 1)], .err⟩ := by decide +kernel

end JL.Props.C13
