import JL.Lemmas.Monad
/-!
# C13 — `map`, `filter` and `reduce` have standard higher-order semantics and scoping
-/
namespace JL.Props.C13
open JL Json

/-- `map` keeps the length: one result per element, in order -/
theorem mapData_length (f : Json → M Json) (xs ys : List Json) (l : List Json) (h : mapData f xs = ⟨l, .ok ys⟩) :
    ys.length = xs.length := by
  induction xs generalizing ys l with
  | nil => simp [mapData] at h; simp [h.2]
  | cons x xs ih =>
    simp only [mapData] at h
    cases hx : f x with | mk lx ox =>
    cases ox with
    | ok y =>
      simp only [hx, M.bind_ok] at h
      cases hr : mapData f xs with | mk lr or_ =>
      cases or_ with
      | ok rs =>
        simp only [hr, M.bind_ok, M.pure_logs, M.pure_out] at h
        have := ih rs lr hr
        injection h with _ h2
        injection h2 with h2
        subst h2; simp [this]
      | err => simp [hr] at h
      | panic => simp [hr] at h
    | err => simp [hx] at h
    | panic => simp [hx] at h

/-- inside `reduce` the data is exactly `{accumulator, current}` — a two-key object, nothing of the outer data -/
theorem reduce_scope (acc cur : Json) : reduceCtx acc cur = .obj [("accumulator".toList, acc), ("current".toList, cur)] := rfl

/-- `reduce` folds left to right from the initial value -/
theorem reduce_step (f : Json → M Json) (x : Json) (xs : List Json) (acc : Json) :
    reduceData f (x :: xs) acc = (f (reduceCtx acc x) >>= fun a => reduceData f xs a) := rfl
theorem reduce_nil (f : Json → M Json) (acc : Json) : reduceData f [] acc = ⟨[], .ok acc⟩ := rfl

example : apply (.obj [("map".toList, .arr [.arr [.num (.pos 1), .num (.pos 2)], .obj [("var".toList, .str "outer".toList)]])])
    (.obj [("outer".toList, .num (.pos 9))]) = ⟨[], .ok (.arr [.null, .null])⟩ := by decide +kernel

end JL.Props.C13
