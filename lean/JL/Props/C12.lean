import JL.Lemmas.Monad
/-!
# C12 — `missing` / `missing_some` report exactly the keys that `var` cannot find
-/
namespace JL.Props.C12
open JL Json Data

/-- the keys `missing` must report, in request order: non-null keys whose lookup finds nothing -/
def absentKeys (data : Json) : List Json → Option (List Json)
  | [] => some []
  | k :: rest =>
      match keyOf k with
      | none => none
      | some .null => absentKeys data rest
      | some key =>
          match absentKeys data rest with
          | none => none
          | some r => some (if (getKey data key).isNone then k :: r else r)

/-- the accumulator-passing fold of the code equals the direct recursive specification -/
theorem missingFold_spec (data : Json) (ks acc : List Json) :
    missingFold data ks acc = (match absentKeys data ks with
      | some r => ⟨[], .ok (acc ++ r)⟩
      | none => ⟨[], .err⟩) := by
  induction ks generalizing acc with
  | nil => simp [missingFold, absentKeys]
  | cons k rest ih =>
    unfold missingFold absentKeys
    cases hk : keyOf k with
    | none => simp
    | some key =>
      cases key with
      | null => simp [ih]
      | string s =>
        simp only
        cases hg : getKey data (.string s) <;> simp [ih] <;> cases absentKeys data rest <;> simp
      | number i =>
        simp only
        cases hg : getKey data (.number i) <;> simp [ih] <;> cases absentKeys data rest <;> simp

/-- a first operand that is an array supplies the whole key list -/
theorem first_array_is_list (data : Json) (vals rest : List Json) :
    missing data (.arr vals :: rest) = missing data vals ∨ ∃ x xs, vals = .arr x :: xs := by
  cases vals with
  | nil => left; simp [missing]
  | cons v vs =>
    cases v with
    | arr x => right; exact ⟨x, vs, rfl⟩
    | _ => left; simp [missing]

example : apply (.obj [("missing_some".toList, .arr [.num (.pos 2), .arr [.str "a".toList, .str "a".toList, .str "b".toList]])])
    (.obj [("b".toList, .num (.pos 1))]) = ⟨[], .ok (.arr [.str "a".toList])⟩ := by decide +kernel

end JL.Props.C12
