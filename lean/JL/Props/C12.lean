import JL.Lemmas.Monad
import JL.Lemmas.C12
/-!
# C12 — `missing` / `missing_some` report exactly the keys that `var` cannot find

Specification vocabulary (`ValidKey`, `isAbsent`, `isPresent`, `present`, `adjust`, `dedup`, `BadBefore`) is in
`JL/Spec/Path.lean` (namespace `JL.Spec.Missing`); helper lemmas in `JL/Lemmas/C12.lean`.
-/
namespace JL.Props.C12
open JL Json Data JL.Spec.Missing JL.Lemmas.C12

/-- the keys `missing` must report, in request order: non-null keys whose lookup finds nothing -/
def absentKeys (data : Json) : List Json → Option (List Json)
  | [] => some []
  | k :: rest =>
      match keyOf k with
      | none => none
      | some .null => absentKeys data rest
      | some key =>
          match absentKeys data rest with
          | none => none
          | some r => some (if (getKey data key).isNone then k :: r else r)

/-- the accumulator-passing fold of the code equals the direct recursive specification -/
theorem missingFold_spec (data : Json) (ks acc : List Json) :
    missingFold data ks acc = (match absentKeys data ks with
      | some r => ⟨[], .ok (acc ++ r)⟩
      | none => ⟨[], .err⟩) := by
  induction ks generalizing acc with
  | nil => simp [missingFold, absentKeys]
  | cons k rest ih =>
    unfold missingFold absentKeys
    cases hk : keyOf k with
    | none => simp
    | some key =>
      cases key with
      | null => simp [ih]
      | string s =>
        simp only
        cases hg : getKey data (.string s) <;> simp [ih] <;> cases absentKeys data rest <;> simp
      | number i =>
        simp only
        cases hg : getKey data (.number i) <;> simp [ih] <;> cases absentKeys data rest <;> simp

/-- a first operand that is an array supplies the whole key list -/
theorem first_array_is_list (data : Json) (vals rest : List Json) :
    missing data (.arr vals :: rest) = missing data vals ∨ ∃ x xs, vals = .arr x :: xs := by
  cases vals with
  | nil => left; simp [missing]
  | cons v vs =>
    cases v with
    | arr x => right; exact ⟨x, vs, rfl⟩
    | _ => left; simp [missing]

/-! ## `missing` -/

/-- `first_array_is_list`, sharp form: whatever follows, and whatever the array contains, a first operand that
is an array is the key list -/
theorem first_array_is_list_sharp (data : Json) (vals rest : List Json) :
    missing data (.arr vals :: rest) = missingFold data vals [] >>= fun ks => pure (.arr ks) := rfl

/-- otherwise all operands are the key list -/
theorem missing_adjust (data : Json) (args : List Json) :
    missing data args = missingFold data (adjust args) [] >>= fun ks => pure (.arr ks) :=
  missing_eq data args

/-- the recursive specification in filter form, when every listed operand is a valid key -/
theorem absentKeys_filter (data : Json) (ks : List Json) (hv : ∀ k ∈ ks, ValidKey k) :
    absentKeys data ks = some (ks.filter (isAbsent data)) := by
  have h1 := missingFold_spec data ks []
  rw [missingFold_filter data ks [] hv] at h1
  cases h : absentKeys data ks with
  | none => simp [h] at h1
  | some r => simpa [h] using h1.symm

/-- **`missing_spec`.** With valid keys, `missing` returns, in request order, exactly the listed non-null
keys whose lookup finds nothing. -/
theorem missing_spec (data : Json) (args : List Json) (hv : ∀ k ∈ adjust args, ValidKey k) :
    missing data args = ⟨[], .ok (.arr ((adjust args).filter (isAbsent data)))⟩ := by
  rw [missing_adjust, missingFold_filter data _ [] hv]; rfl

/-- an operand that is not a valid key anywhere in the list: error -/
theorem missing_err (data : Json) (args : List Json) (hv : ∃ k ∈ adjust args, ¬ ValidKey k) :
    missing data args = ⟨[], .err⟩ := by
  rw [missing_adjust, missingFold_err data _ [] hv]; rfl

theorem missing_ok_iff (data : Json) (args : List Json) :
    (∃ v, missing data args = ⟨[], .ok v⟩) ↔ ∀ k ∈ adjust args, ValidKey k := by
  constructor
  · rintro ⟨v, hv⟩
    apply Classical.byContradiction
    intro h
    have : ∃ k ∈ adjust args, ¬ ValidKey k := by simpa using h
    rw [missing_err data args this] at hv
    simp at hv
  · intro h; exact ⟨_, missing_spec data args h⟩

/-- order (and multiplicity) of the request is preserved: the result is a sub-list of the key list -/
theorem missing_order (data : Json) (args : List Json) :
    ((adjust args).filter (isAbsent data)).Sublist (adjust args) := List.filter_sublist

/-- "absent" for `missing` is "absent" for `var`: a key is reported iff it is not the null key and `var` with
a default returns that default **for every default** (`var` and `missing` call the same `get_key`). No validity
hypothesis: an invalid operand is an error for both. -/
theorem absent_iff_var (d k : Json) :
    isAbsent d k = true ↔ keyOf k ≠ some .null ∧ ∀ s, var d [k, s] = ⟨[], .ok s⟩ := by
  unfold isAbsent
  cases hk : keyOf k with
  | none => simp [var_bad d k _ hk]
  | some key =>
    simp only [var_of_key d k _ key hk]
    have hne : ∀ v : Json, ¬ ∀ s : Json, v = s := fun v h => by
      have h1 := h .null; have h2 := h (.bool true); rw [h1] at h2; cases h2
    cases key with
    | null => simp
    | string str => cases hg : getKey d (.string str) <;> simp [hne, hg]
    | number i => cases hg : getKey d (.number i) <;> simp [hne, hg]

/-- the same with one *fresh* sentinel: one that `var` without default does not return for this key -/
theorem absent_iff_var_fresh (d k s : Json) (hfresh : var d [k] ≠ ⟨[], .ok s⟩) :
    isAbsent d k = true ↔ keyOf k ≠ some .null ∧ var d [k, s] = ⟨[], .ok s⟩ := by
  unfold isAbsent
  cases hk : keyOf k with
  | none => simp [var_bad d k _ hk]
  | some key =>
    simp only [var_of_key d k _ key hk] at hfresh ⊢
    cases key with
    | null => simp
    | string str => cases hg : getKey d (.string str) <;> simp_all
    | number i => cases hg : getKey d (.number i) <;> simp_all

/-- **`missing_var`.** `k` is in the result of `missing` iff it is listed, is not the null key, and
`{"var": [k, s]}` on the same data returns the default `s`, for every `s`. -/
theorem missing_var (d : Json) (args : List Json) (hv : ∀ k ∈ adjust args, ValidKey k) :
    ∃ ks, missing d args = ⟨[], .ok (.arr ks)⟩ ∧
      ∀ k, k ∈ ks ↔ (k ∈ adjust args ∧ keyOf k ≠ some .null ∧ ∀ s, var d [k, s] = ⟨[], .ok s⟩) := by
  refine ⟨_, missing_spec d args hv, fun k => ?_⟩
  simp only [List.mem_filter, absent_iff_var]

/-- with a sentinel that occurs nowhere as a found value or as `null` -/
theorem missing_var_fresh (d : Json) (args : List Json) (hv : ∀ k ∈ adjust args, ValidKey k) (s : Json)
    (hfresh : ∀ k ∈ adjust args, var d [k] ≠ ⟨[], .ok s⟩) :
    ∃ ks, missing d args = ⟨[], .ok (.arr ks)⟩ ∧
      ∀ k, k ∈ ks ↔ (k ∈ adjust args ∧ keyOf k ≠ some .null ∧ var d [k, s] = ⟨[], .ok s⟩) := by
  refine ⟨_, missing_spec d args hv, fun k => ?_⟩
  simp only [List.mem_filter]
  constructor
  · rintro ⟨h1, h2⟩; exact ⟨h1, (absent_iff_var_fresh d k s (hfresh k h1)).1 h2⟩
  · rintro ⟨h1, h2⟩; exact ⟨h1, (absent_iff_var_fresh d k s (hfresh k h1)).2 h2⟩

/-- a key present with a null or empty value is not missing; null keys are ignored -/
example : missing (.obj [("a".toList, .null), ("b".toList, .str []), ("c".toList, .arr [])])
    [.str "a".toList, .null, .str "b".toList, .str "z".toList, .str "c".toList, .str "z".toList, .num (.pos 0)] =
    ⟨[], .ok (.arr [.str "z".toList, .str "z".toList, .num (.pos 0)])⟩ := by decide +kernel
example : ∀ k ∈ adjust [.str "a".toList, .null, .num (.pos 0), .num (.neg 3)], ValidKey k := by decide +kernel
example : missing .null [.bool true] = ⟨[], .err⟩ := by decide +kernel

/-- from the public entry point, literal operands -/
theorem apply_missing_literals (xs : List Json) (d : Json) (hl : ∀ x ∈ xs, JL.Lemmas.C11.Literal x) :
    apply (.obj [("missing".toList, .arr xs)]) d = missing d xs :=
  JL.Lemmas.C12.apply_missing_literals xs d hl

/-- from the public entry point, computed operands (`merge`, `var`, …): they are evaluated first -/
theorem apply_missing (xs : List Json) (d : Json) (hc : check (.obj [("missing".toList, .arr xs)]) = true) :
    apply (.obj [("missing".toList, .arr xs)]) d = runList xs d >>= missing d :=
  JL.Lemmas.C12.apply_missing xs d hc

/-! ## `missing_some` -/

/-- **`missing_some_spec`** (general form). If no invalid key stands before the position where the `n`-th present
key has been seen, the early-exit fold of the code gives the non-short-circuit answer: `[]` when at least `n`
list positions hold a key that is found, otherwise the distinct absent keys in order of first occurrence.
An absent key never counts, however often it is listed (`present` counts found positions only). -/
theorem missing_some_spec_general (d : Json) (thr : Num) (n : Nat) (hn : thr.asU64 = some n)
    (keys rest : List Json) (hv : ¬ BadBefore d n keys) :
    missingSome d (.num thr :: .arr keys :: rest) =
      ⟨[], .ok (.arr (if n ≤ present d keys then [] else dedup (keys.filter (isAbsent d))))⟩ :=
  missingSome_ok d thr n hn keys rest hv

/-- **`missing_some_spec`** under the guard "all keys valid" -/
theorem missing_some_spec (d : Json) (thr : Num) (n : Nat) (hn : thr.asU64 = some n)
    (keys rest : List Json) (hv : ∀ k ∈ keys, ValidKey k) :
    missingSome d (.num thr :: .arr keys :: rest) =
      ⟨[], .ok (.arr (if n ≤ present d keys then [] else dedup (keys.filter (isAbsent d))))⟩ :=
  missingSome_ok d thr n hn keys rest (not_badBefore_of_valid d n keys hv)

/-- error branch: an invalid key met before the threshold is reached -/
theorem missing_some_err (d : Json) (thr : Num) (n : Nat) (hn : thr.asU64 = some n)
    (keys rest : List Json) (hb : BadBefore d n keys) :
    missingSome d (.num thr :: .arr keys :: rest) = ⟨[], .err⟩ :=
  missingSome_err d thr n hn keys rest hb

/-- … and only then -/
theorem missing_some_err_iff (d : Json) (thr : Num) (n : Nat) (hn : thr.asU64 = some n) (keys rest : List Json) :
    missingSome d (.num thr :: .arr keys :: rest) = ⟨[], .err⟩ ↔ BadBefore d n keys := by
  constructor
  · intro h
    apply Classical.byContradiction
    intro hb
    rw [missing_some_spec_general d thr n hn keys rest hb] at h
    simp at h
  · exact missing_some_err d thr n hn keys rest

/-- the other operand shapes: a threshold that is not a `u64`, a key operand that is not an array -/
theorem missing_some_bad_threshold (d thr ks : Json) (rest : List Json)
    (h : ∀ n, thr = .num n → n.asU64 = none) : missingSome d (thr :: ks :: rest) = ⟨[], .err⟩ := by
  unfold missingSome
  cases thr <;> simp
  rename_i n; simp [h n rfl]

example : ∀ n, Json.str "2".toList = .num n → n.asU64 = none := by intro n h; cases h
example : missingSome .null [.num (.neg 1), .arr []] = ⟨[], .err⟩ ∧ missingSome .null [.num (.pos 1), .str []] = ⟨[], .err⟩ := by
  decide +kernel

theorem missing_some_not_array (d : Json) (thr : Num) (n : Nat) (hn : thr.asU64 = some n) (ks : Json) (rest : List Json)
    (h : ∀ xs, ks ≠ .arr xs) : missingSome d (.num thr :: ks :: rest) = ⟨[], .err⟩ := by
  unfold missingSome
  cases ks <;> simp [hn]
  exact absurd rfl (h _)

/-- threshold 0: always `[]` — nothing is examined, not even invalid keys -/
theorem missing_some_zero (d : Json) (thr : Num) (hn : thr.asU64 = some 0) (keys rest : List Json) :
    missingSome d (.num thr :: .arr keys :: rest) = ⟨[], .ok (.arr [])⟩ := by
  rw [missing_some_spec_general d thr 0 hn keys rest (by rintro ⟨_, _, _, _, _, h⟩; omega)]
  simp

/-- threshold above the number of present keys (in particular above the number of keys): all distinct absent keys -/
theorem missing_some_not_reached (d : Json) (thr : Num) (n : Nat) (hn : thr.asU64 = some n)
    (keys rest : List Json) (hv : ∀ k ∈ keys, ValidKey k) (hlt : present d keys < n) :
    missingSome d (.num thr :: .arr keys :: rest) = ⟨[], .ok (.arr (dedup (keys.filter (isAbsent d))))⟩ := by
  rw [missing_some_spec d thr n hn keys rest hv]
  have : ¬ n ≤ present d keys := by omega
  simp [this]

theorem missing_some_above_length (d : Json) (thr : Num) (n : Nat) (hn : thr.asU64 = some n)
    (keys rest : List Json) (hv : ∀ k ∈ keys, ValidKey k) (hlt : keys.length < n) :
    missingSome d (.num thr :: .arr keys :: rest) = ⟨[], .ok (.arr (dedup (keys.filter (isAbsent d))))⟩ :=
  missing_some_not_reached d thr n hn keys rest hv (Nat.lt_of_le_of_lt (present_le_length d keys) hlt)

/-- threshold reached: `[]` -/
theorem missing_some_reached (d : Json) (thr : Num) (n : Nat) (hn : thr.asU64 = some n)
    (keys rest : List Json) (hv : ∀ k ∈ keys, ValidKey k) (hle : n ≤ present d keys) :
    missingSome d (.num thr :: .arr keys :: rest) = ⟨[], .ok (.arr [])⟩ := by
  rw [missing_some_spec d thr n hn keys rest hv]; simp [hle]

/-- **an absent key is never counted as present, however many times it is listed**: if every listed key is absent,
then for every threshold `n ≥ 1` the result is the list of distinct keys -/
theorem missing_some_all_absent (d : Json) (thr : Num) (n : Nat) (hn : thr.asU64 = some n) (h1 : 1 ≤ n)
    (keys rest : List Json) (hv : ∀ k ∈ keys, ValidKey k) (ha : ∀ k ∈ keys, isAbsent d k = true) :
    missingSome d (.num thr :: .arr keys :: rest) = ⟨[], .ok (.arr (dedup keys))⟩ := by
  have hp : present d keys = 0 := by
    simp only [present, List.countP_eq_zero]
    intro k hk
    have := ha k hk
    unfold isAbsent at this
    unfold isPresent
    cases hkk : keyOf k with
    | none => simp
    | some key =>
      cases key <;> simp_all
  rw [missing_some_not_reached d thr n hn keys rest hv (by omega)]
  have : keys.filter (isAbsent d) = keys := List.filter_eq_self.2 ha
  rw [this]

/-- `present` counts exactly the positions whose key is found; absent, null and invalid operands add nothing -/
theorem present_cons (d k : Json) (rest : List Json) :
    present d (k :: rest) = (if isPresent d k then 1 else 0) + present d rest :=
  JL.Lemmas.C12.present_cons d k rest

theorem absent_not_present (d k : Json) (h : isAbsent d k = true) : isPresent d k = false := by
  unfold isAbsent at h; unfold isPresent
  cases hkk : keyOf k with
  | none => simp
  | some key => cases key <;> simp_all

/-! ### what `dedup` is -/

/-- a sub-list of its argument (order of first occurrence) … -/
theorem dedup_sublist (xs : List Json) : (dedup xs).Sublist xs := dedupFrom_sublist [] xs
/-- … whose elements are pairwise different for `Json.beq` (the `==` of `Vec::contains`) … -/
theorem dedup_pairwise (xs : List Json) : (dedup xs).Pairwise (fun a b => Json.beq a b = false) :=
  dedupFrom_pairwise [] xs
/-- … and every element of the argument is kept or is `beq`-equal to a kept one -/
theorem dedup_covers (xs : List Json) (x : Json) (hx : x ∈ xs) : x ∈ dedup xs ∨ Json.contains (dedup xs) x = true := by
  simpa [dedup] using dedupFrom_covers [] xs x hx
/-- on valid keys `Json.beq` is equality, so `dedup` has the same members and no duplicates -/
theorem beq_valid_key (a b : Json) (ha : ValidKey a) : Json.beq a b = true ↔ a = b := beq_valid a b ha
theorem mem_dedup (xs : List Json) (hv : ∀ k ∈ xs, ValidKey k) (k : Json) : k ∈ dedup xs ↔ k ∈ xs := by
  simpa [dedup] using mem_dedupFrom [] xs hv (by simp) k
theorem nodup_dedup (xs : List Json) (hv : ∀ k ∈ xs, ValidKey k) : (dedup xs).Nodup := nodup_dedupFrom [] xs hv

/-- from the public entry point, literal operands -/
theorem apply_missing_some_literals (a b d : Json) (ha : JL.Lemmas.C11.Literal a) (hb : JL.Lemmas.C11.Literal b) :
    apply (.obj [("missing_some".toList, .arr [a, b])]) d = missingSome d [a, b] :=
  JL.Lemmas.C12.apply_missing_some_literals a b d ha hb

theorem apply_missing_some (xs : List Json) (d : Json) (hc : check (.obj [("missing_some".toList, .arr xs)]) = true) :
    apply (.obj [("missing_some".toList, .arr xs)]) d = runList xs d >>= missingSome d :=
  JL.Lemmas.C12.apply_missing_some xs d hc

/-! ### non-vacuity -/

/-- the repaired defect: `{"missing_some":[2,["a","a","b"]]}` on `{"b":1}` gives `["a"]` -/
example : apply (.obj [("missing_some".toList, .arr [.num (.pos 2), .arr [.str "a".toList, .str "a".toList, .str "b".toList]])])
    (.obj [("b".toList, .num (.pos 1))]) = ⟨[], .ok (.arr [.str "a".toList])⟩ := by decide +kernel

/-- the hypotheses of `missing_some_spec` on that input, and both sides of its conclusion -/
example : let d := Json.obj [("b".toList, .num (.pos 1))]
    let keys := [Json.str "a".toList, .str "a".toList, .str "b".toList]
    (Num.pos 2).asU64 = some 2 ∧ (∀ k ∈ keys, ValidKey k) ∧ present d keys = 1 ∧
    dedup (keys.filter (isAbsent d)) = [.str "a".toList] ∧
    missingSome d [.num (.pos 2), .arr keys] = ⟨[], .ok (.arr [.str "a".toList])⟩ := by decide +kernel

/-- thresholds 0 … n+1 on that input -/
example : let d := Json.obj [("b".toList, .num (.pos 1))]
    let keys := Json.arr [.str "a".toList, .str "a".toList, .str "b".toList]
    missingSome d [.num (.pos 0), keys] = ⟨[], .ok (.arr [])⟩ ∧
    missingSome d [.num (.pos 1), keys] = ⟨[], .ok (.arr [])⟩ ∧
    missingSome d [.num (.pos 3), keys] = ⟨[], .ok (.arr [.str "a".toList])⟩ ∧
    missingSome d [.num (.pos 4), keys] = ⟨[], .ok (.arr [.str "a".toList])⟩ := by decide +kernel

/-- an invalid key after the threshold is reached is never looked at; before, it is an error -/
example : let d := Json.obj [("b".toList, .num (.pos 1))]
    missingSome d [.num (.pos 1), .arr [.str "b".toList, .bool true]] = ⟨[], .ok (.arr [])⟩ ∧
    missingSome d [.num (.pos 1), .arr [.bool true, .str "b".toList]] = ⟨[], .err⟩ ∧
    missingSome d [.num (.pos 2), .arr [.str "b".toList, .bool true]] = ⟨[], .err⟩ := by decide +kernel

example : BadBefore (.obj [("b".toList, .num (.pos 1))]) 2 [.str "b".toList, .bool true] :=
  ⟨[.str "b".toList], .bool true, [], rfl, by decide +kernel, by decide +kernel⟩

end JL.Props.C12
