import JL.Props.C09
import JL.Props.C07Num
/-!
# C09 — the relational operators are ECMAScript relational comparison with ECMAScript StringToNumber
-/
namespace JL.Props.C09
open JL Json JsOp JL.Spec

/-- all four relational helpers equal the ECMA-262 13.10.1 evaluation on top of 7.2.13 IsLessThan, strings converted by
ECMA-262 StringToNumber, string-like operands compared by code point — for every pair of JSON values -/
theorem relational_ecmascript (a b : Json) :
    abstractLt a b = ES.lessThan ES.stringToNumber a b ∧ abstractLte a b = ES.lessEq ES.stringToNumber a b ∧
    abstractGt a b = ES.greaterThan ES.stringToNumber a b ∧ abstractGte a b = ES.greaterEq ES.stringToNumber a b :=
  relational_es_of ES.stringToNumber JL.Props.C07.str_to_number_es a b

end JL.Props.C09
