import JL.Props.C03
/-!
# C01 — evaluation is total: a value or an error, never a panic, abort or hang

Termination needs no theorem: every function of the model is accepted by Lean as structurally recursive on
the rule (or on the data for `to_string`, equality, lookup), without fuel. What is proved here is that the
*panic* outcome — the model's image of `items[i]` out of bounds and of `unwrap` on `None` — is unreachable.
-/
namespace JL.Props.C01
open JL Json M

theorem numResult_noPanic (r : Option F64) : NoPanic (numResult r) := by
  unfold numResult
  cases r with
  | none => simp [NoPanic]
  | some x => cases h : toNumberValue x <;> simp [NoPanic, h]

theorem compare_noPanic (f : Json → Json → Bool) (items : List Json) (h : 2 ≤ items.length) : NoPanic (compare f items) := by
  rcases items with _ | ⟨a, _ | ⟨b, _ | ⟨c, rest⟩⟩⟩ <;> simp_all [compare, NoPanic]

/-- a rule that fails the parse phase is an error value, with no log line -/
theorem apply_parse_error (r d : Json) (h : check r = false) : apply r d = ⟨[], .err⟩ := by
  unfold apply; rw [h]; rfl

end JL.Props.C01
