import JL.Lemmas.C01
/-!
# C01 — evaluation is total: a value or an error, never a panic, abort or hang

Termination needs no theorem: every function of the model is accepted by Lean as structurally recursive on
the rule (or on the data for `to_string`, equality, lookup), without fuel. What is proved here is that the
*panic* outcome — the model's image of `items[i]` out of bounds and of `unwrap` on `None` — is unreachable:

* `index_safe_eager`, `index_safe_data`: over the tables REGENERATED from `src/op/mod.rs`, every operator's
  positional accesses are in bounds for every operand count its arity descriptor accepts (an arity edit in
  `mod.rs` that admits a shorter list makes these fail to check);
* `run_noPanic`: a rule that passed the parse phase never panics, on any data (all depths, all values);
* `apply_total`, `apply_outcome`: `apply` yields a value or an error, with no hypothesis at all;
* `toNumberValue_wf`, `numResult_wf`: the numbers built by `to_number_value` are well-formed JSON numbers.

The proofs are in `JL/Lemmas/C01.lean`.
-/
namespace JL.Props.C01
open JL Json M

theorem numResult_noPanic (r : Option F64) : NoPanic (numResult r) := by
  unfold numResult
  cases r with
  | none => simp [NoPanic]
  | some x => cases h : toNumberValue x <;> simp [NoPanic, h]

theorem compare_noPanic (f : Json → Json → Bool) (items : List Json) (h : 2 ≤ items.length) : NoPanic (compare f items) := by
  rcases items with _ | ⟨a, _ | ⟨b, _ | ⟨c, rest⟩⟩⟩ <;> simp_all [compare, NoPanic]

/-- a rule that fails the parse phase is an error value, with no log line -/
theorem apply_parse_error (r d : Json) (h : check r = false) : apply r d = ⟨[], .err⟩ := by
  unfold apply; rw [h]; rfl

/-! ## positional access is safe because (and only because) the arity was validated -/

/-- **Index safety, eager table.** For every entry of the regenerated eager table and every operand list
whose length the entry's descriptor accepts, the implementation's `items[i]` are all in bounds. -/
theorem index_safe_eager : ∀ e ∈ Tables.eager, ∀ items : List Json,
    e.arity.isValidLen items.length = true → NoPanic (execEager e.key items) :=
  Lemmas.C01.index_safe_eager

/-- **Index safety, data table** (`var`, `missing`, `missing_some`). -/
theorem index_safe_data : ∀ e ∈ Tables.data, ∀ (d : Json) (items : List Json),
    e.arity.isValidLen items.length = true → NoPanic (execData e.key d items) :=
  Lemmas.C01.index_safe_data

/-- **Index safety** (the name used by DESIGN.md and `audits/panic_sites.json`): both tables whose operators
index their evaluated operand vector. (Lazy operators index the raw operand list; their case is inside
`run_noPanic`, which derives the list shape from the lazy table's arities.) -/
theorem index_safe :
    (∀ e ∈ Tables.eager, ∀ items : List Json,
      e.arity.isValidLen items.length = true → NoPanic (execEager e.key items)) ∧
    (∀ e ∈ Tables.data, ∀ (d : Json) (items : List Json),
      e.arity.isValidLen items.length = true → NoPanic (execData e.key d items)) :=
  ⟨index_safe_eager, index_safe_data⟩

/-- the hypothesis of `index_safe_*` is needed: with one operand less than the table allows, the positional
access of the model does go out of bounds (so the theorems above are not vacuous about `panic`) -/
example : (execEager "==".toList [.null]).out = .panic := by decide +kernel
example : (execEager "substr".toList [.str "a".toList]).out = .panic := by decide +kernel
example : (execData "missing_some".toList .null [.null]).out = .panic := by decide +kernel
/-- and it is met by real operand lists -/
example : ∃ e ∈ Tables.eager, e.key = "substr".toList ∧ e.arity.isValidLen [Json.null, Json.null, Json.null].length = true :=
  by decide

/-! ## the data loops of the lazy operators: no panic of their own -/

theorem mapData_noPanic {f : Json → M Json} (hf : ∀ x, NoPanic (f x)) (xs : List Json) : NoPanic (mapData f xs) :=
  Lemmas.C01.mapData_noPanic hf xs
theorem filterData_noPanic {f : Json → M Json} (hf : ∀ x, NoPanic (f x)) (xs : List Json) : NoPanic (filterData f xs) :=
  Lemmas.C01.filterData_noPanic hf xs
theorem reduceData_noPanic {f : Json → M Json} (hf : ∀ x, NoPanic (f x)) (xs : List Json) (acc : Json) :
    NoPanic (reduceData f xs acc) :=
  Lemmas.C01.reduceData_noPanic hf xs acc
theorem quantData_noPanic (isAll : Bool) {p : Json → M Json} (hp : ∀ x, NoPanic (p x)) (xs : List Json) (res : Bool) :
    NoPanic (quantData isAll p xs res) :=
  Lemmas.C01.quantData_noPanic isAll hp xs res
theorem quantValue_noPanic (isAll : Bool) (coll : Json) (predOk : Bool) {p : Json → M Json}
    (hp : predOk = true → ∀ x, NoPanic (p x)) : NoPanic (quantValue isAll coll predOk p) :=
  Lemmas.C01.quantValue_noPanic isAll coll predOk hp

/-! ## the main theorem -/

/-- **No panic.** A rule accepted by the parse phase (`Parsed::from_value` succeeded) evaluates, on every
data value, to a value or an error value: no positional access out of bounds, no `unwrap` of `None`,
at any nesting depth and for any operand values. -/
theorem run_noPanic (r d : Json) (h : check r = true) : NoPanic (run r d) :=
  Lemmas.C01.run_noPanic r d h

/-- operands of an eager/data operation -/
theorem runList_noPanic (xs : List Json) (d : Json) (h : checkList xs = true) : NoPanic (runList xs d) :=
  Lemmas.C01.runList_noPanic xs (fun x _ hx d => run_noPanic x d hx) h d

/-- the folds of the lazy operators parse each operand just before evaluating it: no hypothesis needed -/
theorem runIf_noPanic (xs : List Json) (i : Nat) (st : Json × Bool × Bool) (d : Json) : NoPanic (runIf xs i st d) :=
  Lemmas.C01.runIf_noPanic xs (fun x _ hx d => run_noPanic x d hx) i st d

theorem runOrAnd_noPanic (isOr : Bool) (xs : List Json) (st : OrState) (d : Json) : NoPanic (runOrAnd isOr xs st d) :=
  Lemmas.C01.runOrAnd_noPanic isOr xs (fun x _ hx d => run_noPanic x d hx) st d

theorem runQuantLit_noPanic (isAll : Bool) {p : Json → M Json} (hp : ∀ x, NoPanic (p x)) (xs : List Json)
    (d : Json) (res : Bool) : NoPanic (runQuantLit isAll xs p d res) :=
  Lemmas.C01.runQuantLit_noPanic isAll hp xs (fun x _ hx d => run_noPanic x d hx) d res

/-- **Totality of `apply`**, for every rule and every data, without any hypothesis (`apply` parses first). -/
theorem apply_total (r d : Json) : NoPanic (apply r d) := by
  unfold apply
  split
  · rename_i h; exact run_noPanic r d h
  · exact noPanic_err

/-- **`apply` returns `Ok(v)` or `Err(e)`.** -/
theorem apply_outcome (r d : Json) : (∃ v, (apply r d).out = .ok v) ∨ (apply r d).out = .err := by
  have h := apply_total r d
  unfold NoPanic at h
  cases ho : (apply r d).out with
  | ok v => exact Or.inl ⟨v, rfl⟩
  | err => exact Or.inr rfl
  | panic => exact absurd ho h

/-! non-vacuity: concrete rules meet `check r = true`, with every kind of operator, and evaluate -/
example : check (.obj [("+".toList, .arr [.num (.pos 1), .obj [("var".toList, .str "a".toList)]])]) = true := by
  decide +kernel
example : check (.obj [("map".toList, .arr [.obj [("var".toList, .str "a".toList)],
    .obj [("substr".toList, .arr [.obj [("var".toList, .str "".toList)], .num (.neg 1)])]])]) = true := by
  decide +kernel
example : (apply (.obj [("map".toList, .arr [.obj [("var".toList, .str "a".toList)],
      .obj [("substr".toList, .arr [.obj [("var".toList, .str "".toList)], .num (.neg 1)])]])])
    (.obj [("a".toList, .arr [.str "xyz".toList])])).out = .ok (.arr [.str "z".toList]) := by
  decide +kernel
/-- both disjuncts of `apply_outcome` occur -/
example : (apply (.obj [("<".toList, .arr [.null])]) .null).out = .err := by decide +kernel
example : (apply (.obj [("/".toList, .arr [.num (.pos 1), .num (.pos 0)])]) .null).out = .err := by decide +kernel
/-- `check` is not trivially true -/
example : check (.obj [("reduce".toList, .arr [.null, .null])]) = false := by decide +kernel

/-! ## `result_wf` (stretch; partial): no ill-formed number is produced by the arithmetic operators

Full statement (NOT proved): `∀ r d v, r.wf → d.wf → (apply r d).out = .ok v → v.wf`.
Proved below: the part about `to_number_value` and the operators `+ * - /`. Missing for the full statement:
`F64.rem` stays on the grid (for `%`), `max`/`min`/`var` return (parts of) their operands and so need the
`wf` hypotheses threaded through `run`, the `reduce` context object has sorted keys, and the string
operators build no numbers — a `run`-level induction of the same shape as `run_noPanic`. -/

set_option exponentiation.threshold 2200 in
/-- every double the model's rounding produces is on the binary64 grid (or infinite) -/
theorem roundUnits_wf (neg : Bool) (num den : Nat) : F64.WF (F64.roundUnits neg num den) :=
  Lemmas.C01.roundUnits_wf neg num den

/-- `to_number_value` of a double on the grid is a well-formed JSON number: a `u64`, a negative `i64`, or a
finite float (non-finite results are `Err`, never an invalid number) -/
theorem toNumberValue_wf (x : F64) (hx : F64.WF x) (v : Json) (h : toNumberValue x = some v) : v.wf = true :=
  Lemmas.C01.toNumberValue_wf x hx v h

theorem numResult_wf (r : Option F64) (hr : ∀ x, r = some x → F64.WF x) (v : Json)
    (h : (numResult r).out = .ok v) : v.wf = true :=
  Lemmas.C01.numResult_wf r hr v h

/-- `+ * - /` on ANY operand values (no well-formedness needed of them: the result went through the rounding
function) and any operand count: a successful result is a well-formed value. -/
theorem result_wf_partial (k : Str) (hk : k = "+".toList ∨ k = "*".toList ∨ k = "-".toList ∨ k = "/".toList)
    (items : List Json) (v : Json) (h : (execEager k items).out = .ok v) : v.wf = true :=
  Lemmas.C01.arith_result_wf k hk items v h

/-! non-vacuity: the hypotheses are met, with an integral and a fractional result, and a non-finite one is `Err` -/
set_option exponentiation.threshold 2200 in
example : F64.WF (F64.fin false (3 * F64.S)) ∧ toNumberValue (F64.fin false (3 * F64.S)) = some (.num (.pos 3)) := by
  decide +kernel
example : (execEager "/".toList [.num (.pos 1), .num (.pos 4)]).out
    = .ok (.num (.flt (F64.fin false (F64.S / 4)))) := by decide +kernel
example : (execEager "/".toList [.num (.pos 1), .num (.pos 0)]).out = .err := by decide +kernel

end JL.Props.C01
