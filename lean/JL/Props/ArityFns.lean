import JL.Generated.ArityFns
/-!
# Tie theorems: the MEANING of the arity descriptors in the source is the meaning the model gives them

`JL/Generated/ArityFns.lean` is the arm-by-arm translation of `NumParams::is_valid_len` and `NumParams::can_accept_unary` as they
stand in `/repo/src/op/mod.rs` now. If the translator still parses them, they are — for every descriptor and every operand
count — the model's `Arity.isValidLen` / `Arity.canAcceptUnary`, on which `C03.arity_doc` and `C01.index_safe` rest.
-/
set_option linter.unusedSimpArgs false
namespace JL.Props.ArityFns
open JL

theorem is_valid_len_tie (f : Arity → Nat → Bool) (h : ArityFns.isValidLenSrc = some f) (a : Arity) (n : Nat) :
    f a n = a.isValidLen n := by
  simp only [ArityFns.isValidLenSrc, Option.some.injEq] at h
  subst h
  cases a <;> simp only [Arity.isValidLen] <;> rw [Bool.eq_iff_iff] <;>
    simp only [Bool.and_eq_true, Bool.or_eq_true, decide_eq_true_eq, beq_iff_eq, Bool.not_eq_true', decide_eq_false_iff_not] <;> omega

theorem can_accept_unary_tie (f : Arity → Bool) (h : ArityFns.canAcceptUnarySrc = some f) (a : Arity) :
    f a = a.canAcceptUnary := by
  simp only [ArityFns.canAcceptUnarySrc, Option.some.injEq] at h
  subst h
  cases a <;> simp only [Arity.canAcceptUnary] <;> (try rfl) <;> rw [Bool.eq_iff_iff] <;>
    simp only [Bool.and_eq_true, Bool.or_eq_true, decide_eq_true_eq, beq_iff_eq, Bool.not_eq_true', decide_eq_false_iff_not] <;> omega

end JL.Props.ArityFns
