import JL.Props.C01
import JL.Lemmas.C01Wf
/-!
# C01 (well-formedness half) — evaluation never produces an ill-formed JSON value

`Json.wf` is what `serde_json::Value` can hold and the text interfaces can deliver: numbers are a `u64`, a
negative `i64` or a *finite* binary64 on the grid (`Num.WF`), objects have strictly sorted (hence distinct) keys,
recursively. This file proves the FULL statement left open in `Props/C01.lean`:

* `result_wf`  : `r.wf → d.wf → (apply r d).out = .ok v → v.wf` — for every rule, every data, all operators
  (eager, data and lazy), all nesting depths; no `check` hypothesis, no size bound;
* `logs_wf`    : every line printed by `log` during `apply r d` is well-formed — whatever the outcome (value or
  error), i.e. also the lines printed before an error;
* `apply_wf`   : the two together;
* `run_result_wf`, `run_logs_wf` : the same for the evaluation phase `run` alone;
* value level  : `execEager_wf`, `execEager_logs_wf` (every eager operator maps well-formed operands to a
  well-formed result / log lines), `execData_wf` (`var`, `missing`, `missing_some` on well-formed data),
  `getKey_wf` (a `var` lookup returns a sub-value of the data or a one-character string), `reduceCtx_wf`
  (the `{"accumulator":…, "current":…}` context object of `reduce` is a well-formed object),
  `mod_result_wf`, `max_result_wf`, `min_result_wf` (the numeric operators `Props/C01.lean` left out).

The hypotheses are needed (a literal rule is returned as it is, `var ""` returns the data as it is): see the
examples at the end. The proofs are in `JL/Lemmas/C01Wf.lean` (`Sat`, `execEager_sat`, `execData_sat`, `run_sat`:
strong induction on `sizeOf r`, the shape of `run_noPanic`).
-/
namespace JL.Props.C01
open JL Json M
open JL.Lemmas.C01Wf (Sat WfV)

/-! ## value level: operators -/

/-- **Eager operators build well-formed values**: any key, any operand count, well-formed operands. -/
theorem execEager_wf (k : Str) (items : List Json) (hi : wfList items = true) (v : Json)
    (h : (execEager k items).out = .ok v) : v.wf = true :=
  (Lemmas.C01Wf.execEager_sat k items hi).1 v h

/-- what an eager operator prints (`log`: its operand) is well-formed -/
theorem execEager_logs_wf (k : Str) (items : List Json) (hi : wfList items = true) :
    ∀ l ∈ (execEager k items).logs, l.wf = true :=
  (Lemmas.C01Wf.execEager_sat k items hi).2

/-- **Data operators build well-formed values** from well-formed data and operands. -/
theorem execData_wf (k : Str) (d : Json) (hd : d.wf = true) (items : List Json) (hi : wfList items = true)
    (v : Json) (h : (execData k d items).out = .ok v) : v.wf = true :=
  (Lemmas.C01Wf.execData_sat k d hd items hi).1 v h

/-- data operators print nothing -/
theorem execData_logs_wf (k : Str) (d : Json) (hd : d.wf = true) (items : List Json) (hi : wfList items = true) :
    ∀ l ∈ (execData k d items).logs, l.wf = true :=
  (Lemmas.C01Wf.execData_sat k d hd items hi).2

/-- a `var` lookup in well-formed data yields a well-formed value (a sub-value, or a one-character string) -/
theorem getKey_wf (d : Json) (key : Data.Key) (v : Json) (hd : d.wf = true) (h : Data.getKey d key = some v) :
    v.wf = true :=
  Lemmas.C01Wf.getKey_wf d key v hd h

/-- the context object handed to the `reduce` expression is a well-formed object (keys sorted and distinct) -/
theorem reduceCtx_wf (acc cur : Json) (ha : acc.wf = true) (hc : cur.wf = true) : (reduceCtx acc cur).wf = true :=
  Lemmas.C01Wf.reduceCtx_wf acc cur ha hc

/-- `%`: the remainder of two doubles on the grid is on the grid, and the result is narrowed -/
theorem mod_result_wf (a b : Json) (ha : a.wf = true) (hb : b.wf = true) (v : Json)
    (h : (numResult (JsOp.abstractMod a b)).out = .ok v) : v.wf = true :=
  numResult_wf _ (fun x hx => Lemmas.C01Wf.abstractMod_WF a b ha hb x hx) v h

/-- `max`: one of the converted operands (the initial `-∞` is rejected by `to_number_value`) -/
theorem max_result_wf (items : List Json) (hi : wfList items = true) (v : Json)
    (h : (numResult (JsOp.abstractMax items)).out = .ok v) : v.wf = true :=
  numResult_wf _ (fun x hx => Lemmas.C01Wf.abstractMax_WF items hi x hx) v h

/-- `min` -/
theorem min_result_wf (items : List Json) (hi : wfList items = true) (v : Json)
    (h : (numResult (JsOp.abstractMin items)).out = .ok v) : v.wf = true :=
  numResult_wf _ (fun x hx => Lemmas.C01Wf.abstractMin_WF items hi x hx) v h

/-! ## the evaluation phase -/

/-- a value produced by `run` on a well-formed rule and well-formed data is well-formed -/
theorem run_result_wf (r d v : Json) (hr : r.wf = true) (hd : d.wf = true) (h : (run r d).out = .ok v) :
    v.wf = true :=
  (Lemmas.C01Wf.run_sat r d hr hd).1 v h

/-- every line logged by `run` is well-formed, whatever the outcome -/
theorem run_logs_wf (r d : Json) (hr : r.wf = true) (hd : d.wf = true) : ∀ l ∈ (run r d).logs, l.wf = true :=
  (Lemmas.C01Wf.run_sat r d hr hd).2

/-- operands of an eager/data operation: a list of well-formed values -/
theorem runList_wf (xs : List Json) (d : Json) (vs : List Json) (hxs : wfList xs = true) (hd : d.wf = true)
    (h : (runList xs d).out = .ok vs) : wfList vs = true :=
  (Lemmas.C01Wf.runList_sat xs (fun x _ hx d hd => Lemmas.C01Wf.run_sat x d hx hd) hxs d hd).1 vs h

/-! ## the main theorems -/

/-- **Well-formed results (FULL statement).** `apply` on a well-formed rule and well-formed data never returns
an ill-formed value: no non-finite or off-grid float, no out-of-range integer variant, no object with unsorted
or duplicate keys, at any depth of the result. -/
theorem result_wf : ∀ r d v : Json, r.wf = true → d.wf = true → (apply r d).out = .ok v → v.wf = true :=
  fun r d v hr hd h => (Lemmas.C01Wf.apply_sat r d hr hd).1 v h

/-- **Well-formed log lines.** Every line `apply` prints is a well-formed value — also when it ends in an error. -/
theorem logs_wf : ∀ r d : Json, r.wf = true → d.wf = true → ∀ l ∈ (apply r d).logs, l.wf = true :=
  fun r d hr hd => (Lemmas.C01Wf.apply_sat r d hr hd).2

/-- both, in one statement -/
theorem apply_wf (r d : Json) (hr : r.wf = true) (hd : d.wf = true) :
    (∀ v, (apply r d).out = .ok v → v.wf = true) ∧ ∀ l ∈ (apply r d).logs, l.wf = true :=
  ⟨fun v => result_wf r d v hr hd, logs_wf r d hr hd⟩

/-- with `apply_outcome`: the outcome of `apply` is a well-formed value or an error value -/
theorem apply_outcome_wf (r d : Json) (hr : r.wf = true) (hd : d.wf = true) :
    (∃ v, (apply r d).out = .ok v ∧ v.wf = true) ∨ (apply r d).out = .err := by
  rcases apply_outcome r d with ⟨v, hv⟩ | he
  · exact Or.inl ⟨v, hv, result_wf r d v hr hd hv⟩
  · exact Or.inr he

/-! ## non-vacuity

Concrete rules and data meet the hypotheses, evaluate to a value, and exercise the parts of the proof that are
not trivial: `reduce` (context object), `%`, `max`, `merge`, `var` into strings, `log`, `all` over a string. -/

/-- `{"reduce":[{"var":"a"},{"+":[{"var":"current"},{"var":"accumulator"}]},0]}` on `{"a":[1,2,3]}` is `6` -/
example :
    let r : Json := .obj [("reduce".toList, .arr [.obj [("var".toList, .str "a".toList)],
      .obj [("+".toList, .arr [.obj [("var".toList, .str "current".toList)],
                               .obj [("var".toList, .str "accumulator".toList)]])], .num (.pos 0)])]
    let d : Json := .obj [("a".toList, .arr [.num (.pos 1), .num (.pos 2), .num (.pos 3)])]
    r.wf = true ∧ d.wf = true ∧ (apply r d).out = .ok (.num (.pos 6)) := by decide +kernel

/-- `{"log":{"%":[7,{"var":"b"}]}}` on `{"a":"xyz","b":2}`: prints `1`, returns `1` -/
example :
    let r : Json := .obj [("log".toList, .obj [("%".toList, .arr [.num (.pos 7), .obj [("var".toList, .str "b".toList)]])])]
    let d : Json := .obj [("a".toList, .str "xyz".toList), ("b".toList, .num (.pos 2))]
    r.wf = true ∧ d.wf = true ∧ apply r d = ⟨[.num (.pos 1)], .ok (.num (.pos 1))⟩ := by decide +kernel

/-- `{"merge":[{"var":"a.1"},{"max":[1,{"var":"b"}]},{"map":[{"var":"c"},{"-":{"var":""}}]}]}` -/
example :
    let r : Json := .obj [("merge".toList, .arr [.obj [("var".toList, .str "a.1".toList)],
      .obj [("max".toList, .arr [.num (.pos 1), .obj [("var".toList, .str "b".toList)]])],
      .obj [("map".toList, .arr [.obj [("var".toList, .str "c".toList)],
        .obj [("-".toList, .obj [("var".toList, .str "".toList)])]])]])]
    let d : Json := .obj [("a".toList, .str "xyz".toList), ("b".toList, .num (.pos 2)),
      ("c".toList, .arr [.num (.pos 5), .num (.neg 3)])]
    r.wf = true ∧ d.wf = true ∧
      (apply r d).out = .ok (.arr [.str "y".toList, .num (.pos 2), .num (.neg 5), .num (.pos 3)]) := by
  decide +kernel

/-- lines are printed before an error too, and they are well-formed: `{"+":[{"log":{"var":""}},{"/":[1,0]}]}` -/
example :
    let r : Json := .obj [("+".toList, .arr [.obj [("log".toList, .obj [("var".toList, .str "".toList)])],
      .obj [("/".toList, .arr [.num (.pos 1), .num (.pos 0)])]])]
    let d : Json := .obj [("a".toList, .null), ("b".toList, .null)]
    r.wf = true ∧ d.wf = true ∧ apply r d = ⟨[d], .err⟩ := by decide +kernel

/-- the context object of `reduce` -/
example : (reduceCtx (.num (.pos 1)) .null).wf = true := by decide +kernel

/-! the hypotheses are needed: a literal rule is its own result, `var ""` is the data, `log` prints its operand -/

/-- `r.wf` is needed: an out-of-range "integer" literal is returned as it is -/
example : (apply (.num (.pos (2 ^ 64))) .null).out = .ok (.num (.pos (2 ^ 64))) ∧
    (Json.num (.pos (2 ^ 64))).wf = false := by decide +kernel

/-- `r.wf` is needed: an object literal with unsorted keys (not an operation: two keys) is returned as it is -/
example :
    let r : Json := .obj [("b".toList, .null), ("a".toList, .null)]
    (apply r .null).out = .ok r ∧ r.wf = false := by decide +kernel

/-- `d.wf` is needed: `{"var":""}` returns the data, here a non-finite "number" -/
example :
    let r : Json := .obj [("var".toList, .str [])]
    let d : Json := .num (.flt (F64.inf false))
    r.wf = true ∧ (apply r d).out = .ok d ∧ d.wf = false := by decide +kernel

/-- `d.wf` is needed for the log lines: `{"log":{"var":""}}` prints the data -/
example :
    let r : Json := .obj [("log".toList, .obj [("var".toList, .str [])])]
    let d : Json := .obj [("a".toList, .null), ("a".toList, .null)]
    r.wf = true ∧ (apply r d).logs = [d] ∧ d.wf = false := by decide +kernel

/-- the conclusion is not trivially true of arithmetic: a non-finite double is an error, never a value -/
example : (apply (.obj [("*".toList, .arr [.str "1e200".toList, .str "1e200".toList])]) .null).out = .err := by
  decide +kernel

end JL.Props.C01
