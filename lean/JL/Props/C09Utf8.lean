import JL.Props.C09
import JL.Lemmas.Utf8
/-!
# C09 / strings — the model's code-point order IS Rust's byte order on `String`

`JL/Basic.lean` models a Rust `String` as `Str = List Char` and `js_op::abstract_lt` on two strings (`f < s`, i.e.
`<str as Ord>`, a comparison of the UTF-8 byte slices) as `strLt`, the lexicographic order on code points. This file
removes that modelling assumption: with UTF-8 defined from the RFC 3629 table (`JL/Spec/Utf8.lean`, independent of Lean's
`String`), comparing the encodings byte-wise gives exactly `strLt`.
-/
namespace JL.Props.C09
open JL Json JsOp JL.Spec.Utf8

/-- UTF-8 preserves code-point order: byte-wise lexicographic `<` on the encodings (Rust's `String` order) is the
lexicographic `<` on code points (the model's `strLt`), for all strings -/
theorem utf8_order (a b : Str) : bytesLt (encode a) (encode b) = strLt a b :=
  JL.Lemmas.Utf8.bytesLt_encode a b

/-- the same for `<=`: Rust's `f <= s` on `String`s is `!(s < f)` on the bytes -/
theorem utf8_order_le (a b : Str) : (!bytesLt (encode b) (encode a)) = strLe a b := by
  rw [utf8_order, strLe]

/-- the encoding is injective, so equality of the byte buffers (`String: Eq`) is equality of the models -/
theorem utf8_injective (a b : Str) : encode a = encode b ↔ a = b :=
  ⟨JL.Lemmas.Utf8.encode_injective a b, fun h => h ▸ rfl⟩

/-- one scalar value: a smaller code point has the smaller encoding, in 1 to 4 bytes, whatever follows -/
theorem utf8_order_char (c d : Char) (x y : List Nat) (h : c.val < d.val) :
    bytesLt (encodeChar c ++ x) (encodeChar d ++ y) = true :=
  JL.Lemmas.Utf8.bytesLt_of_diffLt _ _ x y (JL.Lemmas.Utf8.diffLt_encodeChar c d h)

/-- all bytes are bytes -/
theorem utf8_bytes (s : Str) : ∀ b ∈ encode s, b < 256 := by
  intro b hb
  simp only [encode, List.mem_flatMap] at hb
  obtain ⟨c, -, hb⟩ := hb
  exact JL.Lemmas.Utf8.encodeNat_byte _ (JL.Lemmas.Utf8.char_lt_bound c) b hb

/-- the four relational operators on string-like operands, in terms of the BYTES Rust compares
(joined with `lt_strings`) -/
theorem lt_strings_bytes (a b : Json) (s t : Str)
    (ha : JL.Spec.ES.toPrimitive a = .string s) (hb : JL.Spec.ES.toPrimitive b = .string t) :
    abstractLt a b = bytesLt (encode s) (encode t) ∧ abstractLte a b = !bytesLt (encode t) (encode s) ∧
    abstractGt a b = bytesLt (encode t) (encode s) ∧ abstractGte a b = !bytesLt (encode s) (encode t) := by
  obtain ⟨h1, h2, h3, h4⟩ := lt_strings a b s t ha hb
  rw [h1, h2, h3, h4]
  simp [utf8_order, strLe]

/-! ## non-vacuity: the boundaries between the length classes, and mixed lengths -/

private def s (ns : List Nat) : Str := ns.map Char.ofNat

-- U+7F (7F) < U+80 (C2 80)
example : encode (s [0x7F]) = [0x7F] ∧ encode (s [0x80]) = [0xC2, 0x80] := by decide
example : bytesLt (encode (s [0x7F])) (encode (s [0x80])) = true ∧ strLt (s [0x7F]) (s [0x80]) = true := by decide
example : bytesLt (encode (s [0x80])) (encode (s [0x7F])) = false ∧ strLt (s [0x80]) (s [0x7F]) = false := by decide
-- U+7FF (DF BF) < U+800 (E0 A0 80)
example : encode (s [0x7FF]) = [0xDF, 0xBF] ∧ encode (s [0x800]) = [0xE0, 0xA0, 0x80] := by decide
example : bytesLt (encode (s [0x7FF])) (encode (s [0x800])) = true ∧ strLt (s [0x7FF]) (s [0x800]) = true := by decide
example : bytesLt (encode (s [0x800])) (encode (s [0x7FF])) = false ∧ strLt (s [0x800]) (s [0x7FF]) = false := by decide
-- U+FFFF (EF BF BF) < U+10000 (F0 90 80 80): code points and bytes agree (UTF-16 code units would NOT)
example : encode (s [0xFFFF]) = [0xEF, 0xBF, 0xBF] ∧ encode (s [0x10000]) = [0xF0, 0x90, 0x80, 0x80] := by decide
example : bytesLt (encode (s [0xFFFF])) (encode (s [0x10000])) = true ∧ strLt (s [0xFFFF]) (s [0x10000]) = true := by
  decide
example : bytesLt (encode (s [0x10000])) (encode (s [0xFFFF])) = false ∧ strLt (s [0x10000]) (s [0xFFFF]) = false := by
  decide
-- around the surrogate gap, and the last scalar value
example : bytesLt (encode (s [0xD7FF])) (encode (s [0xE000])) = true ∧ strLt (s [0xD7FF]) (s [0xE000]) = true := by decide
example : bytesLt (encode (s [0xFFFF])) (encode (s [0x10FFFF])) = true ∧ strLt (s [0xFFFF]) (s [0x10FFFF]) = true := by
  decide
-- proper prefix, common prefix with multi-byte characters, difference in a continuation byte only
example : bytesLt (encode "é€".toList) (encode "é€😀".toList) = true ∧ strLt "é€".toList "é€😀".toList = true := by decide
example : bytesLt (encode "é€😀".toList) (encode "é€".toList) = false ∧ strLt "é€😀".toList "é€".toList = false := by decide
example : bytesLt (encode "aé😀".toList) (encode "aé😁".toList) = true ∧ strLt "aé😀".toList "aé😁".toList = true := by decide
example : bytesLt (encode "z".toList) (encode "é".toList) = true ∧ strLt "z".toList "é".toList = true := by decide
example : bytesLt (encode "€".toList) (encode "😀".toList) = true ∧ bytesLt (encode "😀".toList) (encode "€".toList) = false := by
  decide
example : bytesLt (encode "é€".toList) (encode "é€".toList) = false ∧ strLt "é€".toList "é€".toList = false := by decide
-- through the evaluator's operator, on operands that are strings
example : abstractLt (.str (s [0xFFFF])) (.str (s [0x10000])) = bytesLt (encode (s [0xFFFF])) (encode (s [0x10000])) :=
  (lt_strings_bytes (.str (s [0xFFFF])) (.str (s [0x10000])) (s [0xFFFF]) (s [0x10000]) rfl rfl).1
example : abstractLt (.str (s [0xFFFF])) (.str (s [0x10000])) = true := by decide +kernel

end JL.Props.C09
