import JL.Lemmas.Monad
import JL.Lemmas.C05
/-!
# C05 — `if` / `?:` / `and` / `or` select and evaluate only the deciding operands

The model writes these operators the way `src/op/logic.rs` does (flag-carrying folds over the raw operand
list: `runIf` with state (last, wasTruthy, shouldReturn) and an index, `runOrAnd` with `OrState`). The theorems
below say that the folds are the plain recursive specifications `ifSpec` / `orSpec` / `andSpec` of
`JL/Spec/C05.lean`, as equalities in the full monad `M`: value, error/panic outcome AND the log lines.
`ev d e = if check e then run e d else M.err` is the lazy parse-then-evaluate of one operand; an operand the
specification does not reach is neither parsed nor evaluated, which the `poison` theorems make explicit:
such an operand can be replaced by ANY rule (erroring, logging, unparsable) without changing `(logs, out)`.
-/
namespace JL.Props.C05
open JL Json JL.Lemmas.C05

/-- `?:` sits in the same (lazy) table as `if`, with the same arity descriptor, in the regenerated tables.
(That the two keys are bound to the same Rust function is not a proof obligation — a wrapper function would be a
harmless rewrite; it is what the correspondence check compares on every operand list, `?:` against `if`.) -/
theorem alias_same_function :
    (findEntry "if".toList Tables.lazy).map (·.arity) = (findEntry "?:".toList Tables.lazy).map (·.arity) ∧
    (findEntry "if".toList Tables.lazy).isSome = true := by decide

/-- `{"?:": a}` evaluates exactly like `{"if": a}` -/
theorem alias (a d : Json) : apply (.obj [("?:".toList, a)]) d = apply (.obj [("if".toList, a)]) d := by
  have h1 : lookupOp "?:".toList = some (.lazy, .any) := by decide
  have h2 : lookupOp "if".toList = some (.lazy, .any) := by decide
  unfold apply
  have hc : check (.obj [("?:".toList, a)]) = check (.obj [("if".toList, a)]) := by
    unfold check; simp only [h1, h2]
  rw [hc]
  congr 1
  unfold run
  simp only [h1, h2]
  simp

/-! ## `if` / `?:` -/

/-- the fold of `logic::if_`, entered at any condition position (even index) with a clean state, is the
recursive specification on the remaining operands -/
theorem runIf_spec (xs : List Json) (i : Nat) (w : Bool) (d : Json) (hi : i % 2 = 0) :
    runIf xs i (.null, w, false) d = ifSpec d xs := runIf_even xs i w d hi

/-- once the branch has been taken the fold evaluates nothing more -/
theorem runIf_returned (xs : List Json) (i : Nat) (l : Json) (w : Bool) (d : Json) :
    runIf xs i (l, w, true) d = ⟨[], .ok l⟩ := runIf_done xs i l w d

/-- **if_spec** (evaluation phase): `{"if": [x₀, x₁, …]}` is `ifSpec` -/
theorem if_spec (xs : List Json) (d : Json) : run (.obj [("if".toList, .arr xs)]) d = ifSpec d xs :=
  run_if_arr _ (.inl rfl) xs d

/-- a single unbracketed operand is returned as evaluated -/
theorem if_spec_unary (x d : Json) (hx : ∀ xs, x ≠ .arr xs) : run (.obj [("if".toList, x)]) d = ev d x :=
  run_if_unary _ (.inl rfl) x d hx

theorem tern_spec (xs : List Json) (d : Json) : run (.obj [("?:".toList, .arr xs)]) d = ifSpec d xs :=
  run_if_arr _ (.inr rfl) xs d

theorem tern_spec_unary (x d : Json) (hx : ∀ xs, x ≠ .arr xs) : run (.obj [("?:".toList, x)]) d = ev d x :=
  run_if_unary _ (.inr rfl) x d hx

/-- **if_spec** at the public entry point: parse (which cannot fail for `if`) then evaluate -/
theorem if_apply (xs : List Json) (d : Json) : apply (.obj [("if".toList, .arr xs)]) d = ifSpec d xs := by
  unfold apply; rw [check_if _ (.inl rfl)]; exact if_spec xs d

theorem tern_apply (xs : List Json) (d : Json) : apply (.obj [("?:".toList, .arr xs)]) d = ifSpec d xs := by
  unfold apply; rw [check_if _ (.inr rfl)]; exact tern_spec xs d

theorem if_apply_unary (x d : Json) (hx : ∀ xs, x ≠ .arr xs) : apply (.obj [("if".toList, x)]) d = ev d x := by
  unfold apply; rw [check_if _ (.inl rfl)]; exact if_spec_unary x d hx

/-- the readable corollaries of the specification -/
theorem if_none (d : Json) : apply (.obj [("if".toList, .arr [])]) d = ⟨[], .ok .null⟩ := if_apply [] d
theorem if_single (e d : Json) : apply (.obj [("if".toList, .arr [e])]) d = apply e d := if_apply [e] d

/-- truthy condition: the result is the condition's log lines followed by the branch — nothing else -/
theorem if_then (d c t : Json) (rest l : List Json) (v : Json) (hc : ev d c = ⟨l, .ok v⟩) (hv : truthy v = true) :
    apply (.obj [("if".toList, .arr (c :: t :: rest))]) d = ⟨l ++ (ev d t).logs, (ev d t).out⟩ := by
  rw [if_apply]; exact ifSpec_cond_truthy d c t rest l v hc hv

/-- falsy condition: the paired branch is skipped (not parsed, not evaluated), the rest decides -/
theorem if_else (d c t : Json) (rest l : List Json) (v : Json) (hc : ev d c = ⟨l, .ok v⟩) (hv : truthy v = false) :
    apply (.obj [("if".toList, .arr (c :: t :: rest))]) d =
      ⟨l ++ (apply (.obj [("if".toList, .arr rest)]) d).logs, (apply (.obj [("if".toList, .arr rest)]) d).out⟩ := by
  rw [if_apply, if_apply]; exact ifSpec_cond_falsy d c t rest l v hc hv

/-! ### poison: operands off the path taken can be anything -/

/-- after the first truthy condition and its branch, everything can be replaced by anything;
`pre` is any number of whole (condition, branch) pairs in front -/
theorem if_poison_after (d : Json) (pre : List Json) (hpre : pre.length % 2 = 0) (c t : Json) (rest rest' l : List Json) (v : Json)
    (hc : ev d c = ⟨l, .ok v⟩) (hv : truthy v = true) :
    ifSpec d (pre ++ c :: t :: rest) = ifSpec d (pre ++ c :: t :: rest') := by
  apply ifSpec_prefix _ _ _ _ pre hpre
  rw [ifSpec_cond_truthy d c t rest l v hc hv, ifSpec_cond_truthy d c t rest' l v hc hv]

/-- the branch paired with a falsy condition can be replaced by anything -/
theorem if_poison_branch (d : Json) (pre : List Json) (hpre : pre.length % 2 = 0) (c t t' : Json) (rest l : List Json) (v : Json)
    (hc : ev d c = ⟨l, .ok v⟩) (hv : truthy v = false) :
    ifSpec d (pre ++ c :: t :: rest) = ifSpec d (pre ++ c :: t' :: rest) := by
  apply ifSpec_prefix _ _ _ _ pre hpre
  rw [ifSpec_cond_falsy d c t rest l v hc hv, ifSpec_cond_falsy d c t' rest l v hc hv]

/-- after a condition that fails (error or panic), everything can be replaced by anything -/
theorem if_poison_failed (d : Json) (pre : List Json) (hpre : pre.length % 2 = 0) (c : Json) (rest rest' : List Json)
    (hc : ∀ v, (ev d c).out ≠ .ok v) :
    ifSpec d (pre ++ c :: rest) = ifSpec d (pre ++ c :: rest') := by
  apply ifSpec_prefix _ _ _ _ pre hpre
  rw [ifSpec_cond_fail d c rest hc, ifSpec_cond_fail d c rest' hc]

/-- **poison** for `if` at the public entry point, values, errors and log lines -/
theorem if_poison (d : Json) (pre : List Json) (hpre : pre.length % 2 = 0) (c t : Json) (rest rest' l : List Json) (v : Json)
    (hc : ev d c = ⟨l, .ok v⟩) (hv : truthy v = true) :
    apply (.obj [("if".toList, .arr (pre ++ c :: t :: rest))]) d = apply (.obj [("if".toList, .arr (pre ++ c :: t :: rest'))]) d := by
  rw [if_apply, if_apply]; exact if_poison_after d pre hpre c t rest rest' l v hc hv

/-! ## `or` / `and` -/

/-- the fold of `logic::or` from its initial state, followed by the read-out of the state, is `orSpec` -/
theorem or_spec (xs : List Json) (d : Json) : run (.obj [("or".toList, .arr xs)]) d = orSpec d xs := run_or_arr xs d
theorem and_spec (xs : List Json) (d : Json) : run (.obj [("and".toList, .arr xs)]) d = andSpec d xs := run_and_arr xs d

theorem or_spec_unary (x d : Json) (hx : ∀ xs, x ≠ .arr xs) : run (.obj [("or".toList, x)]) d = ev d x := run_or_unary x d hx
theorem and_spec_unary (x d : Json) (hx : ∀ xs, x ≠ .arr xs) : run (.obj [("and".toList, x)]) d = ev d x := run_and_unary x d hx

/-- at the public entry point (the parse only demands at least one operand; `orSpec d [] = M.err` too) -/
theorem or_apply (xs : List Json) (d : Json) : apply (.obj [("or".toList, .arr xs)]) d = orSpec d xs := by
  unfold apply; rw [check_oa _ (.inl rfl)]
  cases xs with
  | nil => rfl
  | cons x xs => simpa using or_spec (x :: xs) d

theorem and_apply (xs : List Json) (d : Json) : apply (.obj [("and".toList, .arr xs)]) d = andSpec d xs := by
  unfold apply; rw [check_oa _ (.inr rfl)]
  cases xs with
  | nil => rfl
  | cons x xs => simpa using and_spec (x :: xs) d

theorem or_apply_unary (x d : Json) (hx : ∀ xs, x ≠ .arr xs) : apply (.obj [("or".toList, x)]) d = ev d x := by
  unfold apply; rw [check_oa_unary _ (.inl rfl) x hx]; exact or_spec_unary x d hx

theorem and_apply_unary (x d : Json) (hx : ∀ xs, x ≠ .arr xs) : apply (.obj [("and".toList, x)]) d = ev d x := by
  unfold apply; rw [check_oa_unary _ (.inr rfl) x hx]; exact and_spec_unary x d hx

/-- a truthy operand of `or` is returned as the value it is (not a boolean), with its own log lines only -/
theorem or_first_truthy (d x : Json) (ys l : List Json) (v : Json) (hx : ev d x = ⟨l, .ok v⟩) (hv : truthy v = true) :
    orSpec d (x :: ys) = ⟨l, .ok v⟩ := by
  rw [← oaSpec_or]; exact oaSpec_decided true d x ys l v hx hv

theorem and_first_falsy (d x : Json) (ys l : List Json) (v : Json) (hx : ev d x = ⟨l, .ok v⟩) (hv : truthy v = false) :
    andSpec d (x :: ys) = ⟨l, .ok v⟩ := by
  rw [← oaSpec_and]; exact oaSpec_decided false d x ys l v hx hv

/-- **poison** for `or`: whatever stands after a truthy operand is irrelevant (`xs` arbitrary: if an earlier
operand already decides, the equality holds all the more) -/
theorem or_poison (d : Json) (xs : List Json) (x : Json) (ys ys' l : List Json) (v : Json)
    (hx : ev d x = ⟨l, .ok v⟩) (hv : truthy v = true) :
    orSpec d (xs ++ x :: ys) = orSpec d (xs ++ x :: ys') := by
  simp only [← oaSpec_or]
  apply oaSpec_prefix
  rw [oaSpec_decided true d x ys l v hx hv, oaSpec_decided true d x ys' l v hx hv]

/-- **poison** for `and`: whatever stands after a falsy operand is irrelevant -/
theorem and_poison (d : Json) (xs : List Json) (x : Json) (ys ys' l : List Json) (v : Json)
    (hx : ev d x = ⟨l, .ok v⟩) (hv : truthy v = false) :
    andSpec d (xs ++ x :: ys) = andSpec d (xs ++ x :: ys') := by
  simp only [← oaSpec_and]
  apply oaSpec_prefix
  rw [oaSpec_decided false d x ys l v hx hv, oaSpec_decided false d x ys' l v hx hv]

/-- whatever stands after a failing operand of `or`/`and` is irrelevant -/
theorem or_poison_failed (d : Json) (xs : List Json) (x : Json) (ys ys' : List Json) (hx : ∀ v, (ev d x).out ≠ .ok v) :
    orSpec d (xs ++ x :: ys) = orSpec d (xs ++ x :: ys') := by
  simp only [← oaSpec_or]
  apply oaSpec_prefix
  rw [oaSpec_fail true d x ys hx, oaSpec_fail true d x ys' hx]

theorem and_poison_failed (d : Json) (xs : List Json) (x : Json) (ys ys' : List Json) (hx : ∀ v, (ev d x).out ≠ .ok v) :
    andSpec d (xs ++ x :: ys) = andSpec d (xs ++ x :: ys') := by
  simp only [← oaSpec_and]
  apply oaSpec_prefix
  rw [oaSpec_fail false d x ys hx, oaSpec_fail false d x ys' hx]

/-- **poison** for `or` / `and` at the public entry point -/
theorem or_poison_apply (d : Json) (xs : List Json) (x : Json) (ys ys' l : List Json) (v : Json)
    (hx : ev d x = ⟨l, .ok v⟩) (hv : truthy v = true) :
    apply (.obj [("or".toList, .arr (xs ++ x :: ys))]) d = apply (.obj [("or".toList, .arr (xs ++ x :: ys'))]) d := by
  rw [or_apply, or_apply]; exact or_poison d xs x ys ys' l v hx hv

theorem and_poison_apply (d : Json) (xs : List Json) (x : Json) (ys ys' l : List Json) (v : Json)
    (hx : ev d x = ⟨l, .ok v⟩) (hv : truthy v = false) :
    apply (.obj [("and".toList, .arr (xs ++ x :: ys))]) d = apply (.obj [("and".toList, .arr (xs ++ x :: ys'))]) d := by
  rw [and_apply, and_apply]; exact and_poison d xs x ys ys' l v hx hv

/-! ## non-vacuity

`logC n` is the logging rule `{"log": n}`, `bad` the always-erroring `{"==": []}` (its parse fails: wrong operand
count), `boom` the always-erroring `{"+": ["x"]}` (parses; its evaluation fails). -/

private def logC (n : Nat) : Json := .obj [("log".toList, .num (.pos n))]
private def bad : Json := .obj [("==".toList, .arr [])]
private def boom : Json := .obj [("+".toList, .arr [.str "x".toList])]

example : apply (.obj [("if".toList, .arr [.bool false, .num (.pos 1), .bool true, .num (.pos 2), .num (.pos 3)])]) .null = ⟨[], .ok (.num (.pos 2))⟩ := by
  decide +kernel
example : apply (.obj [("or".toList, .arr [.num (.pos 1), .obj [("==".toList, .arr [.num (.pos 1)])]])]) .null = ⟨[], .ok (.num (.pos 1))⟩ := by
  decide +kernel

-- the poisons really are poisonous when reached, and really log when reached
example : apply bad .null = ⟨[], .err⟩ ∧ apply boom .null = ⟨[], .err⟩ ∧ apply (logC 7) .null = ⟨[.num (.pos 7)], .ok (.num (.pos 7))⟩ := by
  decide +kernel

-- hypotheses of `if_then` / `if_poison` / `if_poison_after`: a logging, truthy condition
example : ev .null (logC 1) = ⟨[.num (.pos 1)], .ok (.num (.pos 1))⟩ ∧ truthy (.num (.pos 1)) = true := by decide +kernel
-- … and the conclusion on a concrete instance: one falsy pair in front, poisoned tail of both kinds; only the
-- condition's and the branch's lines are logged, in order
example : apply (.obj [("if".toList, .arr [.num (.pos 0), bad, logC 1, logC 2, bad, boom, logC 3])]) .null
    = ⟨[.num (.pos 1), .num (.pos 2)], .ok (.num (.pos 2))⟩ := by decide +kernel
-- hypotheses of `if_else` / `if_poison_branch`: a logging, falsy condition; the skipped branch is unparsable
example : ev .null (logC 0) = ⟨[.num (.pos 0)], .ok (.num (.pos 0))⟩ ∧ truthy (.num (.pos 0)) = false := by decide +kernel
example : apply (.obj [("if".toList, .arr [logC 0, bad, .str "else".toList])]) .null = ⟨[.num (.pos 0)], .ok (.str "else".toList)⟩ := by
  decide +kernel
-- hypothesis of `if_poison_failed`: a failing condition (after a logging falsy pair): the log line survives, the rest is dead
example : ∀ v, (ev .null boom).out ≠ .ok v := by
  have h : (ev .null boom).out = .err := by decide +kernel
  intro v; rw [h]; exact fun h => nomatch h
example : apply (.obj [("if".toList, .arr [logC 0, logC 9, boom, logC 1, logC 2])]) .null = ⟨[.num (.pos 0)], .err⟩ := by decide +kernel
-- a poison that IS reached does fire (the statements are not trivially true of every operand)
example : apply (.obj [("if".toList, .arr [.bool true, bad, .num (.pos 1)])]) .null = ⟨[], .err⟩ := by decide +kernel
-- `?:`
example : apply (.obj [("?:".toList, .arr [logC 1, logC 2, bad])]) .null = ⟨[.num (.pos 1), .num (.pos 2)], .ok (.num (.pos 2))⟩ := by decide +kernel
-- unary forms
example : apply (.obj [("if".toList, logC 4)]) .null = ⟨[.num (.pos 4)], .ok (.num (.pos 4))⟩ ∧ (∀ xs, logC 4 ≠ .arr xs) := by
  refine ⟨by decide +kernel, fun xs h => by simp [logC] at h⟩

-- `or_poison` / `or_first_truthy`: falsy logging operands in front, then a truthy one, then poison
example : apply (.obj [("or".toList, .arr [logC 0, .str [], logC 5, bad, boom, logC 6])]) .null
    = ⟨[.num (.pos 0), .num (.pos 5)], .ok (.num (.pos 5))⟩ := by decide +kernel
example : ev .null (logC 5) = ⟨[.num (.pos 5)], .ok (.num (.pos 5))⟩ ∧ truthy (.num (.pos 5)) = true := by decide +kernel
-- `or`: no truthy operand: the LAST value, itself
example : apply (.obj [("or".toList, .arr [.bool false, .num (.pos 0), .arr []])]) .null = ⟨[], .ok (.arr [])⟩ := by decide +kernel
-- `and_poison` / `and_first_falsy`
example : apply (.obj [("and".toList, .arr [logC 1, .str "a".toList, logC 0, bad, boom, logC 6])]) .null
    = ⟨[.num (.pos 1), .num (.pos 0)], .ok (.num (.pos 0))⟩ := by decide +kernel
example : apply (.obj [("and".toList, .arr [.bool true, .num (.pos 1), .str "z".toList])]) .null = ⟨[], .ok (.str "z".toList)⟩ := by decide +kernel
-- `or_poison_failed`
example : apply (.obj [("or".toList, .arr [logC 0, boom, logC 1])]) .null = ⟨[.num (.pos 0)], .err⟩ := by decide +kernel
-- no operand
example : apply (.obj [("or".toList, .arr [])]) .null = ⟨[], .err⟩ ∧ apply (.obj [("and".toList, .arr [])]) .null = ⟨[], .err⟩ := by decide +kernel

end JL.Props.C05
