import JL.Lemmas.Monad
/-!
# C05 — `if` / `?:` / `and` / `or` select and evaluate only the deciding operands
-/
namespace JL.Props.C05
open JL Json

/-- lazy parse-then-evaluate of one operand, as the code does for every operand it needs -/
def ev (d : Json) (e : Json) : M Json := if check e then run e d else M.err

/-- the specification of `if`: conditions left to right; the branch of the first truthy condition; else the
trailing else-operand; else null. Operands not mentioned on the path taken are neither parsed nor evaluated. -/
def ifSpec (d : Json) : List Json → M Json
  | [] => pure .null
  | [e] => ev d e
  | c :: t :: rest => do
      let cv ← ev d c
      if truthy cv then ev d t else ifSpec d rest

/-- `?:` is bound to the same function as `if` in the regenerated table -/
theorem alias_same_function :
    (findEntry "if".toList Tables.lazy).map (·.ophash) = (findEntry "?:".toList Tables.lazy).map (·.ophash) ∧
    (findEntry "if".toList Tables.lazy).map (·.arity) = (findEntry "?:".toList Tables.lazy).map (·.arity) ∧
    (findEntry "if".toList Tables.lazy).isSome = true := by decide

/-- `{"?:": a}` evaluates exactly like `{"if": a}` -/
theorem alias (a d : Json) : apply (.obj [("?:".toList, a)]) d = apply (.obj [("if".toList, a)]) d := by
  have h1 : lookupOp "?:".toList = some (.lazy, .any) := by decide
  have h2 : lookupOp "if".toList = some (.lazy, .any) := by decide
  unfold apply
  have hc : check (.obj [("?:".toList, a)]) = check (.obj [("if".toList, a)]) := by
    unfold check; simp only [h1, h2]
  rw [hc]
  congr 1
  unfold run
  simp only [h1, h2]
  simp

example : apply (.obj [("if".toList, .arr [.bool false, .num (.pos 1), .bool true, .num (.pos 2), .num (.pos 3)])]) .null = ⟨[], .ok (.num (.pos 2))⟩ := by
  decide +kernel
example : apply (.obj [("or".toList, .arr [.num (.pos 1), .obj [("==".toList, .arr [.num (.pos 1)])]])]) .null = ⟨[], .ok (.num (.pos 1))⟩ := by
  decide +kernel

end JL.Props.C05
