import JL.Props.C02
/-!
# C03 — every operator enforces its arity; `{op: x}` means exactly `{op: [x]}`
-/
namespace JL.Props.C03
open JL Json JL.Props.C02

/-- a set of operand counts `{n | lo ≤ n < hi}`, `hi = none` meaning unbounded -/
abbrev Range := Nat × Option Nat

def inRange : Range → Nat → Bool
  | (lo, none), n => decide (lo ≤ n)
  | (lo, some hi), n => decide (lo ≤ n) && decide (n < hi)

/-- the documented operand counts of the property, written from its text -/
def documented (k : Str) : Option Range :=
  if k ∈ ["==", "!=", "===", "!==", "/", "%", "in", "map", "filter", "all", "some", "none", "missing_some"].map String.toList then some (2, some 3)
  else if k ∈ ["<", "<=", ">", ">=", "substr"].map String.toList then some (2, some 4)
  else if k = "reduce".toList then some (3, some 4)
  else if k ∈ ["!", "!!", "log"].map String.toList then some (1, some 2)
  else if k = "-".toList then some (1, some 3)
  else if k = "var".toList then some (0, some 3)
  else if k ∈ ["*", "max", "min", "and", "or"].map String.toList then some (1, none)
  else if k ∈ ["+", "cat", "merge", "missing", "if", "?:"].map String.toList then some (0, none)
  else none

/-- the counts a descriptor accepts, as a range (an empty `variadic` is normalised) -/
def rangeOf : Arity → Range
  | .none => (0, some 1)
  | .any => (0, none)
  | .unary => (1, some 2)
  | .exactly n => (n, some (n + 1))
  | .atLeast n => (n, none)
  | .variadic lo hi => (lo, some hi)

theorem isValidLen_range (a : Arity) (n : Nat) : a.isValidLen n = inRange (rangeOf a) n := by
  cases a <;> simp only [Arity.isValidLen, rangeOf, inRange] <;> rw [Bool.eq_iff_iff] <;> simp [decide_eq_true_eq] <;> omega

/-- Over the tables regenerated from the source on this run: every entry's descriptor denotes exactly the
documented set of operand counts. -/
theorem tables_documented : allEntries.all (fun e => documented e.key == some (rangeOf e.arity)) = true := by
  decide

theorem findEntry_mem {k : Str} {es : List Entry} {e : Entry} (h : findEntry k es = some e) : e ∈ es ∧ e.key = k := by
  induction es with
  | nil => simp [findEntry] at h
  | cons x xs ih =>
    unfold findEntry at h
    split at h
    · cases h; exact ⟨List.mem_cons_self, by assumption⟩
    · have := ih h; exact ⟨List.mem_cons_of_mem _ this.1, this.2⟩

theorem lookupOp_entry {k : Str} {kind : Kind} {ar : Arity} (h : lookupOp k = some (kind, ar)) :
    ∃ e ∈ allEntries, e.key = k ∧ e.arity = ar := by
  unfold lookupOp at h
  split at h
  · rename_i e he; cases h
    exact ⟨e, by simp [allEntries, (findEntry_mem he).1], (findEntry_mem he).2, rfl⟩
  · split at h
    · rename_i e he; cases h
      exact ⟨e, by simp [allEntries, (findEntry_mem he).1], (findEntry_mem he).2, rfl⟩
    · split at h
      · rename_i e he; cases h
        exact ⟨e, by simp [allEntries, (findEntry_mem he).1], (findEntry_mem he).2, rfl⟩
      · cases h

/-- **Arity = documentation, for every operand count `n : ℕ`** (not only 0..6): the count is accepted by the
parse phase iff it is in the operator's documented set. -/
theorem arity_doc (k : Str) (kind : Kind) (ar : Arity) (h : lookupOp k = some (kind, ar)) (n : Nat) :
    ∃ r, documented k = some r ∧ ar.isValidLen n = inRange r n := by
  obtain ⟨e, hm, hk, ha⟩ := lookupOp_entry h
  have := List.all_eq_true.mp tables_documented e hm
  refine ⟨rangeOf ar, ?_, isValidLen_range ar n⟩
  rw [← hk, ← ha]
  simpa using this

/-- **Rejection.** A bracketed operand list whose length the descriptor does not accept is an error — not a
panic, no operand evaluated (no log line). -/
theorem reject_count (k : Str) (kind : Kind) (ar : Arity) (xs : List Json) (d : Json)
    (h : lookupOp k = some (kind, ar)) (hn : ar.isValidLen xs.length = false) :
    apply (.obj [(k, .arr xs)]) d = ⟨[], .err⟩ := by
  unfold apply
  have : check (.obj [(k, .arr xs)]) = false := by
    unfold check; simp [h, hn]
  rw [this]; rfl

/-- **Rejection of an unbracketed operand** where a single operand is not a documented count. -/
theorem reject_bare (k : Str) (kind : Kind) (ar : Arity) (x d : Json) (hx : ∀ xs, x ≠ .arr xs)
    (h : lookupOp k = some (kind, ar)) (hn : ar.isValidLen 1 = false) :
    apply (.obj [(k, x)]) d = ⟨[], .err⟩ := by
  unfold apply
  have : check (.obj [(k, x)]) = false := by
    unfold check
    simp only [h]
    first
      | (split
         · rename_i ys; exact absurd rfl (hx ys)
         · simp [hn])
      | simp [hn]
  rw [this]; rfl

/-- over the regenerated tables, `can_accept_unary` agrees with "1 is a valid count" (the `AtLeast(n) => n >= 1`
oddity of the code is harmless for the descriptors actually in the tables) -/
theorem unary_consistent : allEntries.all (fun e => e.arity.canAcceptUnary == e.arity.isValidLen 1) = true := by
  decide

/-- parse phase: `{op: x}` is accepted iff `{op: [x]}` is, for non-array `x` -/
theorem check_sugar (k : Str) (x : Json) (hx : ∀ xs, x ≠ .arr xs) :
    check (.obj [(k, x)]) = check (.obj [(k, .arr [x])]) := by
  cases hl : lookupOp k with
  | none => unfold check; simp [hl]
  | some p =>
    obtain ⟨kind, ar⟩ := p
    obtain ⟨e, hm, _, ha⟩ := lookupOp_entry hl
    have hu := List.all_eq_true.mp unary_consistent e hm
    rw [ha] at hu
    have hu' : ar.canAcceptUnary = ar.isValidLen 1 := by simpa using hu
    conv => lhs; unfold check
    conv => rhs; unfold check
    simp only [hl]
    first
      | (split
         · rename_i ys; exact absurd rfl (hx ys)
         · simp [hu', checkList])
      | simp [hu', checkList]

/-! non-vacuity: the hypotheses are met by real entries -/
example : lookupOp "-".toList = some (.eager, .variadic 1 3) := by decide
example : (Arity.variadic 1 3).isValidLen 3 = false := by decide
example : documented "var".toList = some (0, some 3) := by decide

end JL.Props.C03
